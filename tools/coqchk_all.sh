#!/bin/bash
# tools/coqchk_all.sh : re-check every compiled property file (and everything it depends on) with the independent checker
# and record the axioms it reports. Output: /verif/static/coqchk.txt  (takes 10-20 minutes; not part of any quick check)
cd /verif/coq || exit 1
mkdir -p /verif/static
out=/verif/static/coqchk.txt
EXTRA="RunEat RunBvN RunVote RunIrv GenNp GenLib GenUtil EatSnap BvNSnap RootnProof"      # correspondence checkers and the libraries used by the generated models (not reachable from Properties/)
echo "coqchk -o over coq/Properties/*.vo and $EXTRA, $(coqc --version | head -1), $(date -u +%Y-%m-%dT%H:%MZ), coq tree $(cd /verif && git log -1 --format=%h -- coq)" > $out
ls Properties/*.v | sed 's|Properties/\(.*\)\.v|\1|' | xargs -P 6 -I{} sh -c 'timeout 3000 coqchk -silent -o -R . SCK SCK.Properties.{} > /tmp/coqchk_{}.log 2>&1; echo "{} rc=$?"' 
for m in $EXTRA; do [ -f $m.vo ] && (timeout 3000 coqchk -silent -o -R . SCK SCK.$m > /tmp/coqchk_x_$m.log 2>&1; echo "$m rc=$?"); done
for f in $(ls Properties/*.v | sed 's|Properties/\(.*\)\.v|\1|'); do
  echo "== SCK.Properties.$f" >> $out
  grep -A1 -E "^\* (Theory|Axioms|Constants/Inductives relying|Inductives whose)" /tmp/coqchk_$f.log | grep -v "^--" >> $out
  grep -iE "error|anomaly|fatal" /tmp/coqchk_$f.log >> $out
  rm -f /tmp/coqchk_$f.log
done
for m in $EXTRA; do
  [ -f /tmp/coqchk_x_$m.log ] || continue
  echo "== SCK.$m" >> $out
  grep -A1 -E "^\* (Theory|Axioms|Constants/Inductives relying|Inductives whose)" /tmp/coqchk_x_$m.log | grep -v "^--" >> $out
  grep -iE "error|anomaly|fatal" /tmp/coqchk_x_$m.log >> $out
  rm -f /tmp/coqchk_x_$m.log
done
tail -5 $out
