#!/bin/bash
# tools/coqchk_all.sh : re-check every compiled property file (and everything it depends on) with the independent checker
# and record the axioms it reports. Output: /verif/static/coqchk.txt  (takes 10-20 minutes; not part of any quick check)
cd /verif/coq || exit 1
mkdir -p /verif/static
out=/verif/static/coqchk.txt
echo "coqchk -o over coq/Properties/*.vo, $(coqc --version | head -1), $(date -u +%Y-%m-%dT%H:%MZ), coq tree $(cd /verif && git log -1 --format=%h -- coq)" > $out
ls Properties/*.v | sed 's|Properties/\(.*\)\.v|\1|' | xargs -P 6 -I{} sh -c 'timeout 3000 coqchk -silent -o -R . SCK SCK.Properties.{} > /tmp/coqchk_{}.log 2>&1; echo "{} rc=$?"' 
for f in $(ls Properties/*.v | sed 's|Properties/\(.*\)\.v|\1|'); do
  echo "== SCK.Properties.$f" >> $out
  grep -A1 -E "^\* (Theory|Axioms|Constants/Inductives relying|Inductives whose)" /tmp/coqchk_$f.log | grep -v "^--" >> $out
  grep -iE "error|anomaly|fatal" /tmp/coqchk_$f.log >> $out
  rm -f /tmp/coqchk_$f.log
done
tail -5 $out
