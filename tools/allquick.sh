#!/bin/bash
# tools/allquick.sh [tier] : run every check on the current tree, one summary line each
cd /verif
for i in $(seq -w ${2:-1} 20); do
  s=$(date +%s)
  out=$(timeout 7200 ./check C$i --tier ${1:-quick} 2>&1 | grep -E "VIOLATION|KNOWN-FINDING|C$i (ok|FAIL)" | tr '\n' ' ')
  echo "C$i rc=$? $(( $(date +%s)-s ))s: $out"
done
