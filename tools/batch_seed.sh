#!/bin/bash
# tools/batch_seed.sh <worktree root> <suffix> : confirm and store every finished sub-agent change found under the root
ROOT=$1; SUF=$2
for d in $ROOT/C*/; do
  id=$(basename $d)
  [ -f $d/demo_$id.py ] || { echo "$id: no demo yet"; continue; }
  git -C $d diff --quiet -- socialchoicekit && { echo "$id: no change in worktree"; continue; }
  out=$(WTROOT=$ROOT /verif/tools/seed.sh $id ${id}${SUF} 2>&1 | grep -E "^exit|passed|failed" | tr '\n' ' ')
  echo "$id$SUF: $out"
done
