NOTES = ("Technique family: machine-checked proof in Coq 8.16.1. Each property has theorems about a hand-written Gallina model "
         "(coq/Properties/Cxx.v, statements only, Print Assumptions beneath each) and a correspondence check that runs the model "
         "inside Coq (vm_compute) and the implementation on the same generated inputs. See DESIGN.md.")
NOT_CLAIMED = {}
CHECKS = {
 "C08": dict(
  text="Proof (full, model level): C08_max_flow_min_cut and C08_terminates are proved for every well-formed network with no bound on size; "
       "the model is tied to flow.py by exact comparison of the flow dict (in dict order) and the cut on every generated network "
       "(all 4096 three-vertex networks, structured families, random up to 8 vertices), plus a direct Edmonds-Karp/feasibility oracle on the implementation's output.",
  note="Trusted: Coq kernel + vm_compute; hand-written model FlowModel.v and the correspondence harness; set-pop order in reachable_vertices abstracted to the least closed set; "
       "augmentation fuel = observed augmentations+1 (C08_terminates bounds it). The theorem is about the model; the tie to the code is differential testing."),
 "C09": dict(
  text="Proof (full, model level): C09_maximum_matching — for every bipartite graph in the stated domain the pairs read off the maximum flow of the unit network are graph edges, vertex-disjoint, and no matching is larger (built on the C08 proof). Tied to flow.py:205-277 by exact comparison on all graphs up to 3+3 vertices in both encodings and random graphs up to 7+7, plus an independent augmenting-path oracle.",
  note="Trusted: Coq kernel + vm_compute; models FlowModel.v/BipModel.v; harness. Validation code (check_bipartite_graph) is exercised (valid inputs must not raise, inconsistent X/Y must raise) but not modelled."),
 "C01": dict(
  text="Proof (full, model level): both coded deferred-acceptance loops (flags, snapshot, counters, rounds) refine an abstract DA machine; the matching read off the returned pairs is stableM (feasible: each resident once, capacities respected, mutually acceptable; no blocking pair) for every strict profile pair, capacity function and orientation, and both loops terminate within n*m+2 rounds. Tied to deterministic_matching.py:56-186 by exact comparison of the returned set of pairs (exhaustive n,m<=2, structured, random) and a direct blocking-pair oracle.",
  note="Trusted: Coq kernel + vm_compute; models GS2.v/GS3.v with accessors computed by the proved stable argsort (numpy argsort on strict rows: NaN last, otherwise determined); harness. Index convention handled by the harness (shift by one, checked)."),
 "C02": dict(
  text="Proof (full, model level): C02_resident_optimal / C02_resident_pessimal — against every stable matching of the instance the resident-oriented result gives each resident a weakly better hospital (matched whenever matched anywhere) and the hospital-oriented result a weakly worse one (invariant: no achievable pair is ever rejected). Tied to the code by the same exact correspondence as C01; oracle enumerates all stable matchings by brute force (n<=5, m<=3) and checks the renumbering relation on larger instances.",
  note="Trusted: as C01. Equivariance under renumbering is checked on the implementation (metamorphic oracle), not stated as a separate theorem: the model is a function of the instance."),
 "C10": dict(
  text="Proof (full, exact-arithmetic model): the model's j-th score is the sum over voters of the textbook weight of that voter's rank (all five rules), the utilitarian score is the column share, winners are exactly the maximisers in ascending order, and the ranking checker applied to every swf output is sound (permutation, carries scores, non-increasing). Tied to deterministic_scoring.py by exact score comparison for the four integer rules and 1e-9 for Harmonic/utilitarian, the scf glue evaluated on the implementation's own score vector, and ranking_ok on swf outputs.",
  note="Trusted: Coq kernel + vm_compute; model Voting.v/VoteExt.v; harness. Floating-point rounding of Harmonic/utilitarian sums is modelled (exact rationals), not verified; winners are checked against the maximisers of the implementation's own score vector."),
 "C11": dict(
  text="Proof (full for the exact models): score_anonymous, score_neutral, equal_rank_multisets_tie for all five positional rules, for every profile and permutation. The implementation is tied by (a) correspondence of its scores on voter-permuted/orbit-symmetrised profiles and (b) a metamorphic oracle run on the implementation itself (voter permutation, renaming, equal rank multisets; Copeland, STV and the utilitarian rule included).",
  note="Trusted: as C10. The order in which numpy adds floats is outside the model; the metamorphic oracle observes it on the explored inputs only (this is where the pinned tree failed for Harmonic, fixed in 7f15fc2). Copeland/STV/utilitarian symmetry is checked by the oracle, their theorems are C12/C10's."),
 "C12": dict(
  text="Proof (model level): Copeland's coded sign-of-sum-of-signs score equals #beaten - #beating under strict pairwise majority; a Condorcet winner scores m-1 and everything else strictly less; the coded STV loop (column deletion + in-place rank decrement) returns the strict-majority favourite for every tie-break sequence. Tied to the code by exact correspondence (Copeland scores/winners/ranking; STV winner with every recorded tie-break draw replayed in the model) and a reference-STV oracle that validates each elimination.",
  note="Trusted: as C10; numpy's sampler is an oracle (its draws are recorded in-process and replayed). Not yet proved: the STV loop with in-place renumbering equals STV on restricted ballots for all profiles (checked per case by the oracle)."),
 "C13": dict(
  text="Proof (model level): break_tie contract (accept = list, first = head, random = member for every sampler answer, excluded/unknown = error), winners under one-indexing = zero-indexed winners + 1, probabilities handed to the sampler = score/sum, sum to 1, positive exactly on positive scores. Tied to the code over rule x tie-breaker x convention: both conventions run under one seed and compared, np.random.choice intercepted (population, p, result).",
  note="Trusted: as C10; sampler = oracle. Index shift for the non-voting rule families is checked metamorphically in this check (Gale-Shapley) and in the checks of the respective properties."),
}
