NOTES = ("Technique family: machine-checked proof in Coq 8.16.1. Each property has theorems about a hand-written Gallina model "
         "(coq/Properties/Cxx.v, statements only, Print Assumptions beneath each) and a correspondence check that runs the model "
         "inside Coq (vm_compute) and the implementation on the same generated inputs. See DESIGN.md.")
NOT_CLAIMED = {}
CHECKS = {
 "C08": dict(
  text="Proof (full, model level): C08_max_flow_min_cut and C08_terminates are proved for every well-formed network with no bound on size; "
       "the model is tied to flow.py by exact comparison of the flow dict (in dict order) and the cut on every generated network "
       "(all 4096 three-vertex networks, structured families, random up to 8 vertices), plus a direct Edmonds-Karp/feasibility oracle on the implementation's output.",
  note="Trusted: Coq kernel + vm_compute; hand-written model FlowModel.v and the correspondence harness; set-pop order in reachable_vertices abstracted to the least closed set; "
       "augmentation fuel = observed augmentations+1 (C08_terminates bounds it). The theorem is about the model; the tie to the code is differential testing."),
}
