NOTES = ("Technique family: machine-checked proof in Coq 8.16.1. Each property has theorems about a hand-written Gallina model "
         "(coq/Properties/Cxx.v, statements only, Print Assumptions beneath each) and a correspondence check that runs the model "
         "inside Coq (vm_compute) and the implementation on the same generated inputs. See DESIGN.md.")
NOT_CLAIMED = {}
CHECKS = {
 "C08": dict(
  text="Proof (full, model level): C08_max_flow_min_cut and C08_terminates are proved for every well-formed network with no bound on size; "
       "the model is tied to flow.py by exact comparison of the flow dict (in dict order) and the cut on every generated network "
       "(all 4096 three-vertex networks, structured families, random up to 8 vertices), plus a direct Edmonds-Karp/feasibility oracle on the implementation's output.",
  note="Trusted: Coq kernel + vm_compute; hand-written model FlowModel.v and the correspondence harness; set-pop order in reachable_vertices abstracted to the least closed set; "
       "augmentation fuel = observed augmentations+1 (C08_terminates bounds it). The theorem is about the model; the tie to the code is differential testing."),
 "C09": dict(
  text="Proof (full, model level): C09_maximum_matching — for every bipartite graph in the stated domain the pairs read off the maximum flow of the unit network are graph edges, vertex-disjoint, and no matching is larger (built on the C08 proof). Tied to flow.py:205-277 by exact comparison on all graphs up to 3+3 vertices in both encodings and random graphs up to 7+7, plus an independent augmenting-path oracle.",
  note="Trusted: Coq kernel + vm_compute; models FlowModel.v/BipModel.v; harness. Validation code (check_bipartite_graph) is exercised (valid inputs must not raise, inconsistent X/Y must raise) but not modelled."),
 "C01": dict(
  text="Proof (full, model level): both coded deferred-acceptance loops (flags, snapshot, counters, rounds) refine an abstract DA machine; the matching read off the returned pairs is stableM (feasible: each resident once, capacities respected, mutually acceptable; no blocking pair) for every strict profile pair, capacity function and orientation, and both loops terminate within n*m+2 rounds. Tied to deterministic_matching.py:56-186 by exact comparison of the returned set of pairs (exhaustive n,m<=2, structured, random) and a direct blocking-pair oracle.",
  note="Trusted: Coq kernel + vm_compute; models GS2.v/GS3.v with accessors computed by the proved stable argsort (numpy argsort on strict rows: NaN last, otherwise determined); harness. Index convention handled by the harness (shift by one, checked)."),
 "C02": dict(
  text="Proof (full, model level): C02_resident_optimal / C02_resident_pessimal — against every stable matching of the instance the resident-oriented result gives each resident a weakly better hospital (matched whenever matched anywhere) and the hospital-oriented result a weakly worse one (invariant: no achievable pair is ever rejected). Tied to the code by the same exact correspondence as C01; oracle enumerates all stable matchings by brute force (n<=5, m<=3) and checks the renumbering relation on larger instances.",
  note="Trusted: as C01. Equivariance under renumbering is checked on the implementation (metamorphic oracle), not stated as a separate theorem: the model is a function of the instance."),
}
