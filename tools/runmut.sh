#!/bin/bash
# tools/runmut.sh <seeded name> <check ids...> : apply the seeded patch to /repo, run the quick checks, undo
N=$1; shift
git -C /repo apply /verif/seeded/$N/patch.diff || exit 2
for c in "$@"; do
  out=$(cd /verif && timeout 1800 ./check $c --tier ${TIER:-quick} 2>&1 | grep -E "VIOLATION|$c (ok|FAIL)" | tr '\n' ' ')
  echo "$N vs $c: $out"
done
git -C /repo checkout -- .
