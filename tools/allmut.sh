#!/bin/bash
# tools/allmut.sh : apply every seeded change in turn and run the quick check of its own property (restores /repo after each)
cd /verif
for d in seeded/*/; do
  n=$(basename $d); p=${n:0:3}
  git -C /repo diff --quiet || { echo "/repo is dirty, abort"; exit 2; }
  tools/runmut.sh $n $p
done
