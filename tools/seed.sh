#!/bin/bash
# tools/seed.sh <ID> <name> : confirm a sub-agent's mutant in its worktree /tmp/wt/<ID> and store it under /verif/seeded/<name>/
set -u
ID=$1; NAME=${2:-$1}; WT=${WTROOT:-/tmp/wt}/$ID; OUT=/verif/seeded/$NAME
mkdir -p $OUT
cd $WT || exit 1
git diff -- socialchoicekit > $OUT/patch.diff
cp demo_$ID.py $OUT/demo.py 2>/dev/null; cp NOTES_$ID.md $OUT/NOTES.md 2>/dev/null
echo "== demo on changed tree"; PYTHONPATH=$WT timeout 600 /venv/bin/python demo_$ID.py > $OUT/demo_changed.log 2>&1; echo "exit $?" | tee -a $OUT/demo_changed.log
echo "== tests on changed tree"; PYTHONPATH=$WT /venv/bin/python -m pytest -q -p no:cacheprovider tests 2>&1 | tail -1 | tee $OUT/tests_changed.log
git checkout -q -- socialchoicekit
echo "== demo on unchanged tree"; PYTHONPATH=$WT timeout 600 /venv/bin/python demo_$ID.py > $OUT/demo_unchanged.log 2>&1; echo "exit $?" | tee -a $OUT/demo_unchanged.log
git apply $OUT/patch.diff
wc -l $OUT/patch.diff
