#!/usr/bin/env python3
"""print repo source files without docstrings/comments/blank lines, with line numbers"""
import ast,sys
for f in sys.argv[1:]:
    src=open(f).read(); t=ast.parse(src); skip=set()
    for n in ast.walk(t):
        if isinstance(n,(ast.FunctionDef,ast.ClassDef,ast.Module)) and n.body and isinstance(n.body[0],ast.Expr) and isinstance(getattr(n.body[0],'value',None),ast.Constant) and isinstance(n.body[0].value.value,str):
            for l in range(n.body[0].lineno,n.body[0].end_lineno+1): skip.add(l)
    print("=====",f)
    for i,l in enumerate(src.split('\n'),1):
        if i in skip or not l.strip() or l.strip().startswith('#'): continue
        print(i,l)
