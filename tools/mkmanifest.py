#!/usr/bin/env python3
"""Regenerates /verif/MANIFEST.json from tools/manifest_data.py (one source of truth; always schema-valid)."""
import json, os, sys
sys.path.insert(0, os.path.dirname(os.path.abspath(__file__)))
import manifest_data as D
ids = ["C%02d" % i for i in range(1, 21)]
checks, na = [], []
for pid in ids:
    if pid in D.CHECKS:
        c = D.CHECKS[pid]
        checks.append(dict(
            property_id=pid,
            quick_cmd="./check %s --tier quick" % pid,
            thorough_cmd="./check %s --tier thorough" % pid,
            evidence_file="/verif/evidence/%s.json" % pid,
            replay_cmd_template="./check %s --replay {path}" % pid,
            engine="coq-model+correspondence",
            level_claimed=dict(category=c.get("category", "proof"), text=c["text"], design_ref=c.get("design_ref", "DESIGN.md section 4, " + pid)),
            level_note=c["note"],
            technique=c.get("technique", "machine-checked proof in Coq about a Gallina model + correspondence check (model evaluated by vm_compute vs implementation)"),
        ))
    else:
        na.append(dict(property_id=pid, reason=D.NOT_CLAIMED.get(pid, "check not built yet (work in progress); no claim is made for this property")))
m = dict(
    version=1,
    setup_cmd="cd /verif/coq && coq_makefile -f _CoqProject -o Makefile && timeout 3000 make -j16",
    hooks=dict(guard="SOCIALCHOICEKIT_VERIF", enable="no source hooks are needed: checks import /repo's working tree (PYTHONPATH=/repo) and wrap numpy.random / module functions in-process; SOCIALCHOICEKIT_VERIF=1 is exported by ./check for completeness",
               baseline_off_cmd="cd /repo && /venv/bin/python -m pytest -ra -q -p no:cacheprovider --timeout=900 --continue-on-collection-errors tests",
               source_commits=[], add_only=True),
    engines=[dict(name="coq-model+correspondence", path="/verif/coq + /verif/harness", serves_properties=[c["property_id"] for c in checks],
                  kind_free_text="Coq 8.16.1 development (models, proofs, property theorems with Print Assumptions) + Python correspondence harness evaluating the models with vm_compute on the inputs the implementation was run on, + direct property oracles for the failing-input search"),
             dict(name="source-translator", path="/verif/harness/translate.py + /verif/coq/Gen*.v + /verif/coq/gen/*Proof.v", serves_properties=["C10", "C11", "C12", "C13", "C14", "C15"],
                  kind_free_text="fail-closed Python-ast translator: the scoring rules' score / winners / break_tie definitions, Copeland's score, the STV loop and the memoising elicitor are regenerated as Gallina from /repo's current source on every run and proved equal to the hand-written models (coq/gen/*Proof.v, counted as proof obligations of the properties they serve)")],
    checks=checks,
    notes=D.NOTES,
    not_applicable=na,
)
json.dump(m, open(os.path.join(os.path.dirname(os.path.dirname(os.path.abspath(__file__))), "MANIFEST.json"), "w"), indent=1)
print("MANIFEST.json: %d checks, %d not claimed" % (len(checks), len(na)))
