"""Shared pieces for C10-C13: generators and the supervised runner for every voting rule."""
import itertools
import numpy as np
from ..core import *

RULES = ["Plurality", "Borda", "Veto", "KApproval", "Harmonic"]
TBS = ["random", "first", "accept"]

def perm_profiles(n, m):
    perms = list(itertools.permutations(range(1, m + 1)))
    return itertools.product(perms, repeat=n)

def rand_profile(rng, n, m):
    return [rng.sample(range(1, m + 1), m) for _ in range(n)]

class ChoiceRecorder:
    """wraps numpy.random.choice in-process and records (population, p, result)"""
    def __init__(self):
        self.calls = []
    def __enter__(self):
        self.orig = np.random.choice
        def choice(a, size=None, replace=True, p=None):
            r = self.orig(a, size=size, replace=replace, p=p)
            pop = list(range(a)) if isinstance(a, (int, np.integer)) else [x for x in np.asarray(a).tolist()]
            self.calls.append(dict(a=pop, p=(None if p is None else [float(x) for x in np.asarray(p).tolist()]), r=(r.tolist() if hasattr(r, "tolist") else r)))
            return r
        np.random.choice = choice
        return self
    def __exit__(self, *a):
        np.random.choice = self.orig

def make_rule(case):
    import socialchoicekit.deterministic_scoring as DS
    import socialchoicekit.deterministic_tournament as DT
    import socialchoicekit.deterministic_multiround as DM
    import socialchoicekit.randomized_scoring as RS
    r, tb, zi = case["rule"], case.get("tb", "accept"), case["zi"]
    if r == "KApproval":
        return DS.KApproval(case["k"], tb, zi)
    if r in ("Plurality", "Borda", "Veto", "Harmonic", "SocialWelfare"):
        return getattr(DS, r)(tb, zi)
    if r == "Copeland":
        return DT.Copeland(tb, zi)
    if r == "STV":
        return DM.SingleTransferableVote(tb, zi)
    if r.startswith("Randomized"):
        if r == "RandomizedKApproval":
            return RS.RandomizedKApproval(case["k"], zi)
        return getattr(RS, r)(zi)
    raise KeyError(r)

def np_profile(case):
    from socialchoicekit.profile_utils import StrictCompleteProfile, CompleteProfile, ValuationProfile
    if "V" in case:
        A = lay(np.array([[np.nan if x is None else float(x) for x in row] for row in case["V"]], dtype=float), case.get("layout"))
        return A, ValuationProfile.of(A)
    dt = {"int64": np.int64, "int32": np.int32, "float": float, "float32": np.float32, "float16": np.float16}[case.get("dtype", "int64")]
    A = np.array(case["P"], dtype=dt)
    if "mults" in case:     # a large electorate given as distinct ballots with multiplicities
        A = np.repeat(A, case["mults"], axis=0)
        if case.get("shuffle_seed") is not None:
            np.random.RandomState(case["shuffle_seed"]).shuffle(A)
    A = lay(A, case.get("layout"))       # same ballots, another memory layout (column-major / strided view)
    if case.get("wrap"):                 # the profile class the caller wrapped the ballots in (weak orders: the classes that admit ties)
        import socialchoicekit.profile_utils as PU
        return A, getattr(PU, case["wrap"]).of(A)
    if case["rule"] == "STV":
        return A, CompleteProfile.of(A)
    return A, StrictCompleteProfile.of(A)

def tolist(x):
    if isinstance(x, np.ndarray):
        return [tolist(v) for v in x.tolist()] if x.ndim > 1 else x.tolist()
    if isinstance(x, (np.integer,)):
        return int(x)
    if isinstance(x, (np.floating,)):
        return float(x)
    return x

def run_vote(case, deadline=10.0, seed=None):
    """returns dict(status, out, score (if obtainable), choices, mutated)"""
    if seed is not None:
        np.random.seed(seed)
    def go():
        rule = make_rule(case)
        for pre in case.get("prelude", []):      # the same rule object is used on other profiles first
            try:
                _, pp = np_profile(dict(case, **pre))
                getattr(rule, case["method"])(pp)
            except Exception:  # noqa
                pass
        A, prof = np_profile(case)
        if case.get("inplace_first") is not None:   # history: same rule object, same profile object, contents overwritten in place
            B = np.array(case["inplace_first"], dtype=A.dtype)
            if B.shape == A.shape:
                keep = A.copy(); A[...] = B
                try:
                    getattr(rule, case["method"])(prof)
                except Exception:  # noqa
                    pass
                A[...] = keep
        A0 = A.copy()
        rec.calls.clear()        # draws made during the history calls above do not belong to the observed call
        out = getattr(rule, case["method"])(prof)
        sc = None
        if case["method"] != "score" and hasattr(rule, "score"):
            sc = rule.score(prof)
        inner = None
        if hasattr(rule, "voting_rule") and case["method"] == "scf":      # the deterministic rule a randomized rule exposes (documented access path): same index convention
            st = np.random.get_state(); np.random.seed(12345); keep = len(rec.calls)
            try: inner = tolist(rule.voting_rule.scf(prof))
            finally:
                np.random.set_state(st); del rec.calls[keep:]      # draws of this extra call do not belong to the observed call
        same = A.shape == A0.shape and A.dtype == A0.dtype and A.tobytes() == A0.tobytes()
        return out, sc, same, inner
    with ChoiceRecorder() as rec:
        r = supervised(go, deadline)
    if r[0] != "ok":
        return dict(status=r[0], err=(r[1] if len(r) > 1 else ""), msg=(r[2] if len(r) > 2 else ""), choices=rec.calls)
    out, sc, same, inner = r[1]
    return dict(status="ok", out=tolist(out), score=(None if sc is None else tolist(sc)), choices=rec.calls, mutated=not same, inner=inner)

def cP(P):
    return cl([cl([cz(x) for x in row]) for row in P])
def cQl(l):
    return cl([cq(frac(x)) for x in l])
def cV(V):
    return cl([cl([copt(x, lambda v: cq(frac(v))) for x in row]) for row in V])
