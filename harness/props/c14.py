"""C14 — simulated valuations are sound lower bounds of the true valuations."""
from fractions import Fraction
import numpy as np
from ..core import *
from ..runner import Prop, Group
from . import elicit_common as E

REQ = "From SCK Require Import ElicitM ElicitRules RunElicit."
KINDS = ["unit", "skew", "ties", "zero", "straddle", "source_constants"]

class C14(Prop):
    layouts = True
    translators = ['elicitor', 'bsearch', 'rootn', 'thrrules', 'm2q', 'elicitclasses']   # the three binary_search functions and Elicitor.__init__ / Elicitor.elicit regenerated from elicitation_utils.py on every run
    pid = "C14"
    sources = ["socialchoicekit/elicitation_voting.py", "socialchoicekit/elicitation_allocation.py", "socialchoicekit/elicitation_matching.py",
               "socialchoicekit/deterministic_allocation.py", "socialchoicekit/elicitation_utils.py"]
    groups = {"thr": Group("thr", REQ, "ElicitRules.thr_case", "RunElicit.chk_thr_dom"),
              "m2q": Group("m2q", REQ, "ElicitRules.m2q_case", "ElicitRules.chk_m2q"),
              "rootn": Group("rootn", REQ, "ElicitRules.rootn_case", "ElicitRules.chk_rootn")}
    rule = ("histories: one third of the cases run the rule object on an instance of a different size first; consistent (profile, valuation) pairs: unit-sum, skewed (x^8), tie-heavy, zero-containing, threshold-straddling (value = one ulp either side of a threshold) valuations, "
            "integer valuations for the two-sided rule; m from 2 to 12 (every binary-search shape), all k/lambda from 1 to m (sampled), n<=4; rules k-ARV, lambda-TSF, Match-TwoQueries, "
            "two-sided lambda-TSF (each side). Simulated matrix, query trace and counter compared exactly with the model; independent linear-scan reference and the property's inequalities "
            "as direct oracle. Non-trivial = some threshold set beyond the favourite is non-empty; distinct by input hash")
    trusted_base = ["models ElicitM.v / ElicitRules.v (rules as query programs run against the elicitor state machine)",
                    "thresholds v/m^(l/(k+1)) are an oracle: recomputed by the harness with the code's float expression and carried as exact rationals; "
                    "numeric facts assumed about them (0 <= tau <= v, non-increasing in l) are checked on every case",
                    "count < sqrt(n) modelled as count*count < n (exact for the small integers explored)"]
    assumptions = ["profile strict and complete; valuations non-negative and weakly decreasing along each agent's ranking"]

    def cases(self, rng, tier):
        N = 260 if tier == "quick" else 5000
        for i in range(N):
            rule = ["KARV", "TSF", "M2Q", "Double"][i % 4]
            m = 2 + (i // 4) % 11
            n = rng.randint(1, 4)
            k = rng.randint(1, m)
            if rule == "Double":
                n = m = 2 + (i // 4) % 7
                k = rng.randint(1, n); k2 = rng.randint(1, n)
                kind = rng.choice(["int", "bigint", "zero"])
                P, V = E.gen_pair(rng, n, n, kind, k); P2, V2 = E.gen_pair(rng, n, n, kind, k2)
                pre = []
                if i % 3 == 0:
                    n2 = rng.choice([x for x in range(max(2, k, k2), 9) if x != n] or [n + 1])
                    Pa, Va = E.gen_pair(rng, n2, n2, "int", k); Pb, Vb = E.gen_pair(rng, n2, n2, "int", k2)
                    pre = [dict(P=Pa, V=Va, P2=Pb, V2=Vb)]
                c = dict(entry="DoubleLambdaTSF.get_simulated_cardinal_profiles", family="double_" + kind + ("_reuse" if pre else ""), rule="Double", P=P, V=V, P2=P2, V2=V2, k=k, k2=k2, side=i % 8 // 4, prelude=pre,
                         dtype=["int64", "float", "int32"][(i // 4) % 3])
                if (i // 4) % 4 == 1 and not pre:
                    c["same_profile_first"] = rng.randint(1, n); c["family"] += "_sameprofile"
                yield c
                continue
            if rule in ("TSF", "M2Q"):
                n = m
                if m > 8: m = n = 2 + (i // 4) % 7
                k = rng.randint(1, m)
            kind = KINDS[(i // 4) % 6] if rule != "M2Q" else rng.choice(KINDS[:4])
            P, V = E.gen_pair(rng, n, m, kind, k)
            ent = {"KARV": "KARV.get_simulated_cardinal_profile", "TSF": "LambdaTSF.get_simulated_cardinal_profile", "M2Q": "MatchTwoQueries.get_simulated_cardinal_profile"}[rule]
            pre = []
            if i % 3 == 0:     # history: the same rule object has been used on an instance of another size before
                m2 = rng.choice([x for x in range(max(2, k), 13) if x != m] or [m + 1]); n2 = m2 if rule in ("TSF", "M2Q") else rng.randint(1, 3)
                P0, V0 = E.gen_pair(rng, n2, m2, "unit", k)
                pre = [dict(P=P0, V=V0)]
            c = dict(entry=ent, family=rule.lower() + "_" + kind + ("_reuse" if pre else ""), rule=rule, P=P, V=V, k=k, ezi=bool(i % 3),
                     dtype=["int32", "int64", "float", "int64", "float"][i % 5], prelude=pre)      # ranks as the caller stores them (compute_ordinal_profile returns float64 ranks)
            if i % 4 == 1 and not pre:     # history: the same profile object is first run through the rule with another k / lambda
                c["same_profile_first"] = rng.choice([x for x in range(1, m + 1) if x != k] or [k]); c["family"] += "_sameprofile"
            yield c
        for c in self.crowded(rng, tier):
            yield c
        # a user behind a LambdaElicitor answers with plain Python numbers: an int when the value is whole, a float otherwise; the first agent's favourite is whole
        for i in range(40 if tier == "quick" else 800):
            rule = ["KARV", "TSF", "M2Q"][i % 3]; m = rng.randint(2, 6); n = m if rule != "KARV" else rng.randint(2, 5); k = rng.randint(1, m)
            P = [rng.sample(range(1, m + 1), m) for _ in range(n)]; V = []
            for a in range(n):
                top = float(rng.randint(2, 6)) if (a == 0 or rng.random() < 0.3) else rng.randint(9, 27) / 4.0
                vals = sorted([top] + [rng.choice([rng.randint(0, 8) / 4.0, float(rng.randint(0, 2))]) for _ in range(m - 1)], reverse=True)
                vals[0] = max(vals); V.append([vals[P[a][j] - 1] for j in range(m)])
            ent = {"KARV": "KARV.get_simulated_cardinal_profile", "TSF": "LambdaTSF.get_simulated_cardinal_profile", "M2Q": "MatchTwoQueries.get_simulated_cardinal_profile"}[rule]
            yield dict(entry=ent, family=rule.lower() + "_python_scalar_answers", rule=rule, P=P, V=V, k=k, ezi=bool(i % 2), dtype="int64", prelude=[], answers="python_scalars")

    def crowded(self, rng, tier):
        # Match-TwoQueries with many agents who share (most of) one ranking: the serial dictatorship fills the top items with
        # ceil(sqrt n) agents each and later agents hold their third, fourth, ... choice as representative item
        for i in range(16 if tier == "quick" else 300):
            n = rng.randint(7, 11)
            base = rng.sample(range(1, n + 1), n)
            P = []
            for a in range(n):
                row = list(base)
                if i % 2 and rng.random() < 0.4:
                    x, y = rng.sample(range(n), 2); row[x], row[y] = row[y], row[x]
                P.append(row)
            V = []
            for row in P:
                vals = E.gen_valuation_row(rng, n, rng.choice(["unit", "skew", "int"]), 1); V.append([vals[r - 1] for r in row])
            yield dict(entry="MatchTwoQueries.get_simulated_cardinal_profile", family="m2q_crowded", rule="M2Q", P=P, V=V, k=1, ezi=bool(i % 2), dtype="int64", prelude=[])

    def run(self, case):
        return E.run_rule(case)

    def side(self, case, obs):
        if case["rule"] == "Double" and case["side"] == 1:
            return case["P2"], case["V2"], case["k2"], obs["vt2"], obs["trace2"], obs["count2"]
        return case["P"], case["V"], case["k"], obs["vt"], obs["trace"], obs["count"]

    def oracle(self, case, obs):
        if obs["status"] != "ok":
            return ("no_result", "%s failed: %s %s %s" % (case["entry"], obs["status"], obs.get("err"), obs.get("msg")))
        rule = case["rule"]
        sides = [0, 1] if rule == "Double" else [0]
        for sd in sides:
            P, V, k, vt = (case["P"], case["V"], case["k"], obs["vt"]) if sd == 0 else (case["P2"], case["V2"], case["k2"], obs["vt2"])
            n, m = len(P), len(P[0]); rk = E.ranking(P)
            alloc = rule in ("TSF", "M2Q")
            if rule == "M2Q":
                A = obs["rootn"]
                for i in range(n):
                    fav = rk[i][0]
                    if vt[i][fav] != V[i][fav]: return ("favourite_not_exact", "agent %d: simulated favourite %r, true %r" % (i, vt[i][fav], V[i][fav]))
                    a = A[i]
                    if vt[i][a] != V[i][a]: return ("representative_not_exact", "agent %d: representative item %d has %r, true %r" % (i, a, vt[i][a], V[i][a]))
                    ra = P[i][a]
                    for j in range(m):
                        if 1 < P[i][j] < ra:
                            if vt[i][j] != V[i][a]: return ("between_not_copied", "agent %d item %d should copy the representative's value" % (i, j))
                        if vt[i][j] > V[i][j] and not (vt[i][j] == E.EPS and P[i][j] > ra):
                            return ("exceeds_true_value", "agent %d item %d: simulated %r > true %r" % (i, j, vt[i][j], V[i][j]))
                continue
            base = m
            ref, sets = E.ref_threshold_fill(P, V, k, base, (E.EPS if alloc else 0.0), rule == "Double")
            for i in range(n):
                fav = rk[i][0]; v = V[i][fav]
                taus = [float(np.float64(v) / (base ** (l / (k + 1)))) for l in range(1, k + 1)]
                if vt[i][fav] != v: return ("favourite_not_exact", "agent %d: simulated favourite %r, true %r" % (i, vt[i][fav], v))
                for j in range(m):
                    s, t, x = vt[i][j], V[i][j], sets[i][j]
                    if x is None:
                        if not (t < taus[k - 1]): return ("outside_set_above_threshold", "agent %d item %d outside all sets but true value %r >= last threshold %r" % (i, j, t, taus[k - 1]))
                        floor = E.EPS if alloc else 0.0
                        if s != floor: return ("unfilled_value", "agent %d item %d never placed but simulated value %r" % (i, j, s))
                    elif x >= 1:
                        if not (t >= taus[x - 1]): return ("set_member_below_threshold", "agent %d item %d in set %d but true %r < threshold %r" % (i, j, x, t, taus[x - 1]))
                        want = ref[i][j]
                        if s != want: return ("wrong_simulated_value", "agent %d item %d in set %d: simulated %r, expected %r" % (i, j, x, s, want))
                        if rule == "Double":
                            mn = min(V[i][jj] for jj in range(m) if sets[i][jj] == x)
                            if s != mn: return ("not_set_minimum", "two-sided rule: simulated %r is not the smallest true value %r of its set" % (s, mn))
                    if s > t and not (alloc and x is None):
                        return ("exceeds_true_value", "agent %d item %d: simulated %r > true %r" % (i, j, s, t))
            if [[float(x) for x in r] for r in vt] != [[float(x) for x in r] for r in ref]:
                return ("differs_from_reference", "simulated profile differs from the reference construction")
        if obs.get("mutated"):
            return ("mutated_argument", "profile modified")
        return None

    def coq(self, case, obs):
        P, V, k, vt, trace, count = self.side(case, obs)
        n, m = len(P), len(P[0]); rk = E.ranking(P)
        fixer = 0 if case.get("ezi", True) else 1
        rc = E.run_case_lit(True, fixer, V, E.cVm(vt), trace, count)
        if case["rule"] == "M2Q":
            return ("m2q", ct(E.cPz(P), cq(frac(E.EPS)), rc))
        tau = E.thresholds([V[i][rk[i][0]] for i in range(n)], m, k)
        for i in range(n):   # the numeric facts assumed about the oracle thresholds
            v = V[i][rk[i][0]]
            assert all(0 <= t <= v for t in tau[i]) and all(tau[i][l] >= tau[i][l + 1] for l in range(k - 1))
        init = E.EPS if case["rule"] == "TSF" else 0.0
        return ("thr", ct(E.cPz(P), cn(k), E.cVm(tau), cb(case["rule"] == "Double"), cq(frac(init)), rc))

    def nontrivial(self, case, obs):
        if obs["status"] != "ok": return False
        P, V, k, vt, trace, count = self.side(case, obs)
        return any(sum(1 for x in row if x not in (0.0, E.EPS)) >= 2 for row in vt)

PROP = C14()
