"""C18 — profile conversions and valuation generators preserve preference information."""
import itertools
from fractions import Fraction
import numpy as np
from ..core import *
from ..runner import Prop, Group

REQ = "From SCK Require Import ProfModel RunProf."

def cmat(M):
    return cl([cl([copt(x, lambda v: cq(frac(v))) for x in row]) for row in M])

def tied_rows(m, dense):
    """all rank rows over m columns with ties and NaN; dense (1,1,2) or competition (1,1,3) numbering"""
    out = []
    for pattern in itertools.product([None] + list(range(m)), repeat=m):
        lv = sorted({x for x in pattern if x is not None})
        if not lv or lv != list(range(len(lv))): continue   # classes numbered 0..c-1 without gaps
        row = []
        for x in pattern:
            if x is None: row.append(None)
            elif dense: row.append(x + 1)
            else: row.append(1 + sum(1 for y in pattern if y is not None and y < x))
        out.append(row)
    return out

class C18(Prop):
    translators = ['complete', 'validators', 'consistent', 'datagen', 'ordinal', 'strictify', 'wrappers']   # regenerated from the source on every run (harness/translate.py)
    layouts = True
    pid = "C18"
    sources = ["socialchoicekit/profile_utils.py", "socialchoicekit/data_generation.py", "socialchoicekit/utils.py"]
    groups = {"conv": Group("conv", REQ, "RunProf.conv_case", "RunProf.chk_conv"),
              "gen": Group("gen", REQ, "RunProf.gen_case", "RunProf.chk_gen"),
              "cons": Group("cons", REQ, "RunProf.cons_case", "RunProf.chk_cons")}
    rule = ("conversions: every rank row with ties and NaN over <= 3 columns (dense and competition numbering) assembled into profiles, random ones up to 12x12, all tie-breakers; "
            "compute_ordinal_profile on valuations with NaN, with distinct values (compared exactly) and with exact ties (validated with the checker ordinal_ok because numpy's argsort leaves "
            "tie order open); generators: np.random.uniform/normal wrapped in-process, recorded draws replayed by the model (1e-12), parameters (low, high), (mean, variance), seeds, NaN patterns; "
            "consistency predicate on generated, perturbed and tied valuations, and (rejection clause, oracle only) on truncated rankings next to full valuation vectors over a coarse grid (all of m = 4). Non-trivial = input has a tie, a NaN or >= 3 columns; distinct by input hash")
    trusted_base = ["specification-level models ProfModel.v (ranks by counting instead of argsort loops; equal to the code's result wherever that is determined)",
                    "numpy's RNG is an oracle (draws recorded); outputs depending on the order numpy's unstable sort gives to equal keys are validated, not compared"]
    assumptions = ["profiles have at least one rank 1 (the library's validity test); generator profiles are strict"]

    def cases(self, rng, tier):
        k = 0
        for dense in (True, False):
            for m in (1, 2, 3):
                rows = [r for r in tied_rows(m, dense)]
                for n in (1, 2):
                    combos = list(itertools.product(rows, repeat=n))
                    if len(combos) > 250: combos = rng.sample(combos, 250 if tier == "quick" else min(len(combos), 2000))
                    for P in combos:
                        if not any(x == 1 for r in P for x in r): continue
                        k += 1
                        op = ["strict_first", "strict_random", "complete_first", "complete_accept", "complete_random"][k % 5]
                        yield dict(entry=op, family=("dense" if dense else "competition"), op=op, M=[list(r) for r in P], seed=k)
        N = 250 if tier == "quick" else 5000
        for i in range(N):
            n = rng.randint(1, 12 if i % 10 == 0 else 5); m = rng.randint(1, 12 if i % 10 == 0 else 6)
            op = ["strict_first", "strict_random", "complete_first", "complete_accept", "complete_random", "ordinal", "ordinal_tied"][i % 7]
            if op.startswith("ordinal"):
                M = []
                for _ in range(n):
                    lo = -120 if (i // 7) % 2 else 1      # every other case mixes zero and negative values with the NaNs
                    pool = rng.sample(range(lo, 400), m) if op == "ordinal" else [rng.randint(min(lo, 0) // 60, 4) for _ in range(m)]
                    M.append([None if rng.random() < 0.25 else v / 8.0 for v in pool])
                if all(x is None for r in M for x in r): continue
            else:
                dense = rng.random() < 0.5; M = []
                for _ in range(n):
                    kk = rng.randint(0, m); listed = rng.sample(range(m), kk); row = [None] * m; r = 1; c = 0; idx = 0
                    while idx < kk:
                        g = rng.randint(1, 3); grp = listed[idx:idx + g]
                        for j in grp: row[j] = (c + 1) if dense else r
                        r += len(grp); c += 1; idx += g
                    M.append(row)
                if not any(x == 1 for r in M for x in r): continue
            yield dict(entry=op, family="random", op=op, M=M, seed=i)
        N = 150 if tier == "quick" else 3000
        for i in range(N):
            n = rng.randint(1, 5); m = rng.randint(1, 7)
            P = []
            for _ in range(n):
                kk = m if i % 2 else rng.randint(0, m); items = rng.sample(range(m), kk); row = [None] * m
                for r, j in enumerate(items): row[j] = r + 1
                P.append(row)
            if not any(x == 1 for r in P for x in r): continue
            if i % 3 == 0:
                yield dict(entry="NormalValuationProfileGenerator.generate", family="normal", op="gen_normal", M=P, mean=rng.choice([0.0, 0.5, 1.0, 3.0]), var=rng.choice([0.01, 1.0, 4.0]), seed=(0 if i % 4 == 0 else i))
            else:
                lo = rng.choice([0.0, 0.0, 0.5, 2.0]); hi = lo + rng.choice([0.0, 1.0, 3.0]) if i % 7 else lo + 1.0
                yield dict(entry="UniformValuationProfileGenerator.generate", family="uniform", op="gen_uniform", M=P, low=lo, high=max(hi, lo), seed=(0 if i % 4 == 1 else i))
        N = 200 if tier == "quick" else 4000
        for i in range(N):
            n = rng.randint(1, 4); m = rng.randint(1, 7)
            P = [rng.sample(range(1, m + 1), m) for _ in range(n)]
            kind = ["consistent", "tied", "inverted", "near", "coarse"][i % 5]
            if i % 10 == 7 and m >= 3:      # values of very different magnitude inside one row: one dominating valuation next to small ones, two of which are swapped
                kind = "mixed_magnitude"; V = []
                for row in P:
                    vals = [rng.choice([1e9, 1e12, 1e300, 5e8])] + sorted([float(rng.randint(1, 9)) + j for j in range(m - 1)], reverse=True)
                    v = [vals[r - 1] for r in row]
                    a, b = [row.index(r) for r in rng.sample(range(2, m + 1), 2)]
                    if rng.random() < 0.7: v[a], v[b] = v[b], v[a]
                    V.append(v)
                yield dict(entry="is_consistent_valuation_profile", family=kind, op="consistent", M=P, V=V, seed=i)
                continue
            V = []
            for row in P:
                if kind == "coarse":       # a few distinct values, unrelated to the ranking: harmless ties and clear inversions in one row
                    V.append([rng.choice([0.0, 0.25, 0.5]) for _ in range(m)]); continue
                vals = sorted([rng.random() for _ in range(m)], reverse=True)
                if kind == "tied": vals = sorted([rng.choice([0.1, 0.2, 0.2, 0.5]) for _ in range(m)], reverse=True)
                v = [vals[r - 1] for r in row]
                if kind == "inverted" and m >= 2:
                    a, b = rng.sample(range(m), 2); v[a], v[b] = v[b], v[a]
                if kind == "near" and m >= 2:
                    a = rng.randrange(m); v[a] = v[a] * (1 + rng.choice([-1, 1]) * rng.choice([1e-7, 4e-6, 2e-5, 1e-3]))
                V.append(v)
            yield dict(entry="is_consistent_valuation_profile", family=kind, op="consistent", M=P, V=V, seed=i)

        # truncated rankings (top-k lists, k <= m-1) next to FULL valuation vectors over a coarse grid: all of m = 4 over {0,1,2}, single rows (so that no other
        # row can mask the verdict), then random ones with more columns and a consistent filler row. Only the rejection clause is decided on these.
        grid = []
        for kk in (1, 2, 3):
            for items in itertools.permutations(range(4), kk):
                row = [None] * 4
                for r, j in enumerate(items): row[j] = r + 1
                for v in itertools.product([0.0, 1.0, 2.0], repeat=4):
                    grid.append((row, list(v)))
        for i, (row, v) in enumerate(grid):
            yield dict(entry="is_consistent_valuation_profile", family="truncated_ranking", op="consistent", M=[row], V=[v], seed=i, partial=True)
        for i in range(150 if tier == "quick" else 3000):
            m = rng.randint(4, 7); kk = rng.randint(1, m - 1); items = rng.sample(range(m), kk); row = [None] * m
            for r, j in enumerate(items): row[j] = r + 1
            v = [float(rng.choice([0, 1, 2, 0.5])) for _ in range(m)]
            M = [row]; V = [v]
            if i % 2:
                full = rng.sample(range(1, m + 1), m); M.append(full); V.append([float(m - r) for r in full])
            yield dict(entry="is_consistent_valuation_profile", family="truncated_ranking", op="consistent", M=M, V=V, seed=i, partial=True)

    def run(self, case):
        import socialchoicekit.profile_utils as PU
        import socialchoicekit.data_generation as DG
        op = case["op"]
        A = lay(np.array([[np.nan if x is None else float(x) for x in row] for row in case["M"]], dtype=float), case.get("layout"))
        A0 = A.copy()
        draws = []
        ou, on = np.random.uniform, np.random.normal
        def uni(low=0.0, high=1.0, size=None):
            r = ou(low=low, high=high, size=size); draws.append([float(x) for x in np.atleast_1d(r)]); return r
        def nor(loc=0.0, scale=1.0, size=None):
            r = on(loc=loc, scale=scale, size=size); draws.append([float(x) for x in np.atleast_1d(r)]); return r
        def go():
            np.random.seed(case["seed"])
            if op == "ordinal" or op == "ordinal_tied":
                return dict(out=np.asarray(PU.compute_ordinal_profile(PU.ValuationProfile.of(A)), dtype=float))
            if op.startswith("strict"):
                return dict(out=np.asarray(PU.profile_with_ties_to_strict_profile(PU.Profile.of(A), op.split("_")[1]), dtype=float))
            if op.startswith("complete"):
                return dict(out=np.asarray(PU.incomplete_profile_to_complete_profile(PU.Profile.of(A), op.split("_")[1]), dtype=float))
            if op.startswith("gen"):
                mk = (lambda s: DG.NormalValuationProfileGenerator(case["mean"], case["var"], seed=s)) if op == "gen_normal" else (lambda s: DG.UniformValuationProfileGenerator(case["high"], case["low"], seed=s))
                prof = PU.StrictProfile.of(A)
                o1 = np.asarray(mk(case["seed"]).generate(prof), dtype=float)
                d1 = [list(d) for d in draws]
                np.random.seed(case["seed"] + 12345); np.random.random(3)      # the ambient RNG state must not matter
                o2 = np.asarray(mk(case["seed"]).generate(prof), dtype=float)
                try:
                    acc = bool(PU.is_consistent_valuation_profile(PU.ValuationProfile.of(o1.copy()), prof))
                except Exception as e:  # noqa
                    acc = "err:" + type(e).__name__
                return dict(out=o1, draws=d1, again=o2, accepted=acc)
            V = lay(np.array(case["V"], dtype=float), case.get("layout"))
            if case.get("partial"):
                return dict(verdict=bool(PU.is_consistent_valuation_profile(PU.ValuationProfile.of(V), PU.Profile.of(A))))
            return dict(verdict=bool(PU.is_consistent_valuation_profile(PU.ValuationProfile.of(V), PU.StrictCompleteProfile.of(A.astype(int)))))
        np.random.uniform, np.random.normal = uni, nor
        try:
            r = supervised(go, 10.0)
        finally:
            np.random.uniform, np.random.normal = ou, on
        if r[0] != "ok":
            return dict(status=r[0], err=(r[1] if len(r) > 1 else ""), msg=(r[2] if len(r) > 2 else ""))
        res = dict(status="ok", mutated=(A.tobytes() != A0.tobytes()))
        for k, v in r[1].items():
            res[k] = ([[None if x != x else float(x) for x in row] for row in v.tolist()] if isinstance(v, np.ndarray) else v)
        return res

    def oracle(self, case, obs):
        op = case["op"]; M = case["M"]
        if obs["status"] != "ok":
            return ("no_result", "%s failed: %s %s %s" % (case["entry"], obs["status"], obs.get("err"), obs.get("msg")))
        if obs.get("mutated"):
            return ("mutated_argument", "input profile modified")
        if op == "consistent":
            V = case["V"]; verdict = obs["verdict"]
            clear = False
            for row, v in zip(M, V):
                for a in range(len(row)):
                    for b in range(len(row)):
                        if row[a] is not None and row[b] is not None and row[a] < row[b] and v[b] > v[a] and (v[b] - v[a]) > 2 * (1e-8 + 1e-5 * max(abs(v[a]), abs(v[b]))):
                            clear = True
            if clear and verdict:
                return ("inversion_accepted", "predicate accepted a profile that values a lower-ranked alternative clearly more")
            if case["family"] in ("consistent", "tied") and not verdict:
                return ("consistent_rejected", "predicate rejected a consistent valuation profile")
            return None
        out = obs["out"]
        for row, o in zip(M, out):
            if [x is None for x in row] != [x is None for x in o]:
                if not op.startswith("complete") and not op.startswith("gen"):
                    return ("nan_pattern", "NaN pattern changed: %r -> %r" % (row, o))
        if op.startswith("ordinal"):
            for row, o in zip(M, out):
                k = sum(1 for x in row if x is not None)
                if sorted(x for x in o if x is not None) != [float(r) for r in range(1, k + 1)]:
                    return ("ranks_not_1_to_k", "ordinal ranks %r are not 1..%d" % (o, k))
                for a in range(len(row)):
                    for b in range(len(row)):
                        if row[a] is not None and row[b] is not None and row[a] > row[b] and not o[a] < o[b]:
                            return ("order_lost", "value %r > %r but rank %r !< %r" % (row[a], row[b], o[a], o[b]))
        elif op.startswith("strict"):
            for row, o in zip(M, out):
                k = sum(1 for x in row if x is not None)
                if sorted(x for x in o if x is not None) != [float(r) for r in range(1, k + 1)]:
                    return ("not_strict", "result %r is not a strict ranking 1..%d of %r" % (o, k, row))
                for a in range(len(row)):
                    for b in range(len(row)):
                        if row[a] is not None and row[b] is not None:
                            if row[a] < row[b] and not o[a] < o[b]:
                                return ("comparison_lost", "strict comparison lost: %r -> %r" % (row, o))
                            if op == "strict_first" and row[a] == row[b] and a < b and not o[a] < o[b]:
                                return ("first_contract", "'first' must order tied alternatives by number: %r -> %r" % (row, o))
        elif op.startswith("complete"):
            for row, o in zip(M, out):
                m = len(row); k = sum(1 for x in row if x is None)
                if any(x is None for x in o): return ("still_incomplete", "completed profile still has NaN")
                if any(row[j] is not None and o[j] != row[j] for j in range(m)): return ("rank_changed", "an existing rank changed: %r -> %r" % (row, o))
                miss = [o[j] for j in range(m) if row[j] is None]
                if op == "complete_accept":
                    if any(x != m - k + 1 for x in miss): return ("bad_fill", "'accept' must give every missing alternative rank m-k+1: %r -> %r" % (row, o))
                else:
                    if sorted(miss) != [float(r) for r in range(m - k + 1, m + 1)]: return ("bad_fill", "missing alternatives must get ranks m-k+1..m: %r -> %r" % (row, o))
                    if op == "complete_first" and miss != sorted(miss): return ("first_contract", "'first' must fill in index order")
        else:
            if obs["again"] != out:
                if all(any((d or 0) > 0 for d in dr) for dr in obs["draws"]):
                    return ("not_reproducible", "same seed, different valuations")
            if len(obs["draws"]) < len(M):      # one draw per agent (an agent that ranks nothing draws an empty vector): fewer draws mean agents that were never reached
                for row, o in list(zip(M, out))[len(obs["draws"]):]:
                    vals = [x for x in o if x is not None]
                    if vals and abs(sum(vals) - 1) > 1e-9: return ("not_normalised", "an agent with ranked alternatives was never given valuations: %r -> %r" % (row, o))
            for row, o, dr in zip(M, out, obs["draws"]):
                vals = [x for x in o if x is not None]
                pos = any(d > 0 for d in dr)
                if not pos: continue    # every draw clipped to zero: 0/0, outside the property's domain
                if [x is None for x in row] != [x is None for x in o]: return ("nan_pattern", "NaN pattern changed: %r -> %r" % (row, o))
                if any(x < 0 for x in vals): return ("negative_valuation", "generated a negative valuation")
                if vals and abs(sum(vals) - 1) > 1e-9: return ("not_normalised", "valuations sum to %r" % sum(vals))
                for a in range(len(row)):
                    for b in range(len(row)):
                        if row[a] is not None and row[b] is not None and row[a] < row[b] and o[a] < o[b]:
                            return ("not_monotone", "higher-ranked alternative got a smaller valuation")
            if all(any(d > 0 for d in dr) for dr in obs["draws"]) and obs["accepted"] is not True:
                return ("generated_rejected", "generated valuations are not accepted by is_consistent_valuation_profile (%r)" % (obs["accepted"],))
        return None

    def coq(self, case, obs):
        op = case["op"]
        if op == "consistent" and case.get("partial"):
            return None      # NaN patterns differ: outside the complete-row model; decided by the oracle (rejection clause only)
        if op == "consistent":
            return ("cons", ct(cmat(case["M"]), cl([cl([cq(frac(x)) for x in r]) for r in case["V"]]), cb(obs["verdict"])))
        if op.startswith("gen"):
            if not all(any(d > 0 for d in dr) for dr in obs["draws"]):
                return None   # all draws clipped to zero: 0/0, outside the property's domain
            return ("gen", ct(cb(op == "gen_normal"), cmat(case["M"]), cl([cl([cq(frac(x)) for x in dr]) for dr in obs["draws"]]), cmat(obs["out"])))
        kind = {"ordinal": 0, "ordinal_tied": 1, "strict_first": 2, "strict_random": 3, "complete_first": 4, "complete_accept": 5, "complete_random": 6}[op]
        return ("conv", ct(cn(kind), cmat(case["M"]), cmat(obs["out"])))

    def nontrivial(self, case, obs):
        M = case["M"]
        return len(M[0]) >= 3 or any(x is None for r in M for x in r) or any(len(set(r)) < len(r) for r in M)

PROP = C18()
