"""C16 — elicitation rules meet their distortion guarantee."""
import itertools, math
from fractions import Fraction
import numpy as np
from ..core import *
from ..runner import Prop, Group
from . import elicit_common as E

REQ = "From SCK Require Import DistCheck."

def rho_for(base, k):
    """a rational rho with rho^(k+1) >= base and rho <= base^(1/(k+1)) * (1 + 1e-9)"""
    r = Fraction(base ** (1 / (k + 1))) * (1 + Fraction(1, 10**10))
    assert r ** (k + 1) >= base
    return r

class C16(Prop):
    layouts = True
    translators = ['elicitor', 'bsearch', 'elicitvoting', 'thrrules', 'distortion', 'm2q', 'elicitclasses']   # Elicitor.__init__ / Elicitor.elicit and the binary_search functions regenerated from the source on every run
    pid = "C16"
    sources = ["socialchoicekit/elicitation_voting.py", "socialchoicekit/elicitation_allocation.py", "socialchoicekit/distortion.py", "socialchoicekit/deterministic_allocation.py"]
    groups = {"karv": Group("karv", REQ, "DistCheck.karv_hyp_case", "DistCheck.chk_karv_hyp"),
              "tsf": Group("tsf", REQ, "DistCheck.tsf_hyp_case", "DistCheck.chk_tsf_hyp"),
              "num": Group("num", REQ, "DistCheck.karv_num_case", "DistCheck.chk_karv_num")}
    rule = ("consistent (profile, valuation) pairs incl. adversarial ones (one agent holding almost all value, values one ulp either side of each threshold, zeros), all k / lambda, every tie-breaker; "
            "k-ARV winner and lambda-TSF allocation compared with the brute-force optimum (n <= 7 for allocations); the hypotheses H1-H4/Hmax of the proved distortion theorems are evaluated in Coq "
            "on the simulated values and float thresholds the code actually produced; the distortion helper is compared with max/min welfare ratio. "
            "Non-trivial = optimal welfare differs from the chosen one; distinct by input hash")
    trusted_base = ["theorems karv_distortion / tsf_distortion are over abstract data; their hypotheses are evaluated per case by the kernel on the implementation's simulated values "
                    "(and hold for all inputs by C14 once its per-row characterisation is proved)", "maximality of the lambda-TSF assignment for the simulated values is C04's certificate"]
    assumptions = ["profile strict complete, valuation consistent, positive welfare"]
    deadline = 20.0

    def cases(self, rng, tier):
        for c in self.gap_cases(rng, tier):
            yield c
        for c in self.two_digit_cases(rng, tier):
            yield c
        for c in self.unit_cases(rng, tier):
            yield c
        # distortion helper on many agents with generic float utilities, the choice being the welfare optimum: the ratio must be >= 1 EXACTLY
        for i in range(60 if tier == "quick" else 1200):
            n = [8, 9, 12, 16, 33, 10, 64][i % 7]; m = rng.randint(2, 5)
            V = [[(rng.random() if i % 4 else rng.randint(1, 9) / 10.0) for _ in range(m)] for _ in range(n)]
            swx = [sum(Fraction(V[r][j]) for r in range(n)) for j in range(m)]
            best = 1 + max(range(m), key=lambda j: swx[j])
            ch = best if i % 3 else sorted(set([best] + rng.sample(range(1, m + 1), rng.randint(0, m - 1))))
            if isinstance(ch, list) and min(swx[j - 1] for j in ch) < swx[best - 1] and i % 2: ch = [best]
            yield dict(entry="distortion", family="helper_many_agents", rule="DIST", V=V, choice=ch)
        # distortion helper with a chosen alternative nobody values (welfare exactly 0, the profile's welfare being positive): the ratio against the WORST
        # chosen alternative is then infinite - for an int choice and for an array of choices (duplicates and unsorted arrays included)
        for i in range(30 if tier == "quick" else 400):
            n = rng.randint(1, 6); m = rng.randint(2, 6); z = rng.randint(1, m)
            V = [[(0.0 if j + 1 == z else rng.choice([0.0, rng.random(), rng.randint(1, 9) / 10.0])) for j in range(m)] for _ in range(n)]
            if sum(map(sum, V)) <= 0: V[0][z % m] = 0.5
            others = [j for j in range(1, m + 1) if j != z]
            ch = z if i % 3 == 0 else [z] if i % 3 == 1 and i % 2 else rng.sample(others, rng.randint(1, len(others))) + [z] + rng.sample(others, rng.randint(0, 1))
            if isinstance(ch, list) and i % 4 == 0: rng.shuffle(ch)
            yield dict(entry="distortion", family="helper_zero_welfare_choice", rule="DIST", V=V, choice=ch)
        # many agents share one favourite and each has ONE other item worth exactly as much as the favourite (the rest is worth nothing): an allocation that serves
        # the second items is n times better than one that does not; 8 - 11 agents, small integer utilities, lambda 1 .. 3
        for i in range(24 if tier == "quick" else 300):
            n = [8, 9, 10, 11][i % 4]; k = 1 + i % 3; top = float(rng.choice([1, 1, 2, 5]))
            P = []; V = []
            seconds = rng.sample(range(1, n), n - 1) + [rng.randrange(1, n)]
            for a in range(n):
                rest = [j for j in range(1, n) if j != seconds[a]]; rng.shuffle(rest)
                order = [0, seconds[a]] + rest
                rk = [0] * n; vv = [0.0] * n
                for pos, j in enumerate(order): rk[j] = pos + 1
                vv[0] = top; vv[seconds[a]] = top
                if i % 5 == 4: vv[rest[0]] = top      # a third item at the same level
                P.append(rk); V.append(vv)
            yield dict(entry="LambdaTSF.scf", family="tsf_tied_with_favourite", rule="TSF", P=P, V=V, k=k, tb="accept", zi=True, want_out=True, seed=2 * i, eclass="lambda", ezi=True)
        N = 300 if tier == "quick" else 6000
        for i in range(N):
            rule = ["KARV", "TSF", "DIST"][i % 3]
            if rule == "KARV":
                n = rng.randint(1, 6); m = rng.randint(2, 9); k = rng.randint(1, m)
            else:
                n = m = rng.randint(2, 6); k = rng.randint(1, m)
            kind = rng.choice(["unit", "skew", "ties", "zero", "straddle", "dictator", "tiny"])
            if kind == "dictator":
                P, V = E.gen_pair(rng, n, m, "unit", k)
                V = [[x * (1e-6 if i2 else 1.0) for x in row] for i2, row in enumerate(V)]
            elif kind == "tiny":      # the whole profile at a very small magnitude (absolute tolerances become visible)
                P, V = E.gen_pair(rng, n, m, rng.choice(["unit", "skew"]), k)
                sc = rng.choice([1e-9, 1e-12, 1e-15])
                V = [[x * sc for x in row] for row in V]
            else:
                P, V = E.gen_pair(rng, n, m, kind, k)
            if sum(map(sum, V)) <= 0: continue
            if rule == "DIST":
                ch = rng.randint(1, m) if i % 2 else sorted(rng.sample(range(1, m + 1), rng.randint(1, m)))
                if min(sum(V[r][j - 1] for r in range(n)) for j in ([ch] if isinstance(ch, int) else ch)) <= 0: continue
                yield dict(entry="distortion", family="helper", rule="DIST", V=V, choice=ch)
                continue
            ec = "lambda"
            if i % 4 == 0:
                # approval-like integer utilities stored with an integer dtype, a widely liked second choice, many alternatives
                if rule == "KARV": n = rng.randint(3, 8); m = rng.randint(9, 12); k = rng.randint(1, 2)
                P = [rng.sample(range(1, m + 1), m) for _ in range(n)]
                common = rng.randrange(m)
                for row in P:
                    j = row.index(2); row[j], row[common] = row[common], row[j]
                    if row[common] != 2:      # common was the favourite: swap back so that it is ranked second
                        j = row.index(2); row[j], row[common] = row[common], row[j]
                V = [[float(1 if r <= 2 else 0) for r in row] for row in P]; kind = "approval_int"; ec = "profile_int"
            yield dict(entry={"KARV": "KARV.scf", "TSF": "LambdaTSF.scf"}[rule], family=rule.lower() + "_" + kind, rule=rule, P=P, V=V, k=k,
                       tb=["accept", "first", "random"][i % 3], zi=True, want_out=True, seed=i, eclass=ec, ezi=True)

    def two_digit_cases(self, rng, tier):
        # agent and alternative indices that cross from one to two decimal digits (12-14 agents, 11-13 alternatives), with the classical worst case
        # for distortion: one agent s holds almost all the welfare on an alternative x nobody else ranks high; another agent d's favourite is 10 + x.
        # Anything that identifies the question (s, x) by a concatenated or fixed-width key confuses it with (d, 10 + x).
        combos = [(m, s, d, x) for m in (11, 12, 13) for s in (10, 11) for d in (0, 1) for x in range(m - 10)]
        if tier == "quick": combos = combos[::2] + combos[1::4]
        for i, (m, s, d, x) in enumerate(combos):
            n = rng.randint(12, 14); k = 1 + i % 2
            rule = "KARV"       # (the allocation oracle enumerates assignments: n <= 7 only)
            P, V = [], []
            others = [j for j in range(m) if j not in (x, 10 + x)]
            for a in range(n):
                fav = x if a == s else (10 + x) if a == d else (others[a % len(others)] if rule == "TSF" else others[0])
                rest = [j for j in range(m) if j != fav]; rng.shuffle(rest)
                if a != s and x in rest:      # nobody else ranks x high
                    rest.remove(x); rest.append(x)
                order = [fav] + rest
                rk = [0] * m; vv = [0.0] * m
                for pos, j in enumerate(order):
                    rk[j] = pos + 1; vv[j] = (1000.0 if a == s else 1.0) if pos == 0 else 1e-4 * (m - pos) / m
                P.append(rk); V.append(vv)
            yield dict(entry={"KARV": "KARV.scf", "TSF": "LambdaTSF.scf"}[rule], family=rule.lower() + "_two_digit_spike", rule=rule, P=P, V=V, k=k, tb="accept", zi=True,
                       want_out=True, seed=i, eclass=["lambda", "profile"][i % 2], ezi=True)

    def unit_cases(self, rng, tier):
        # near-tight instances (every agent has its own favourite, all share a second choice worth almost as much: that one is the welfare optimum by a
        # factor ~n) with the utilities measured in very small and very large units (exact powers of two): the guarantee does not depend on the unit
        for i in range(24 if tier == "quick" else 400):
            m = rng.randint(9, 12); n = m - 1; k = 1 + (i % 3 == 2)
            u = 2.0 ** [-600, -700, -1000, 0, 500, -1020][i % 6]
            P, V = [], []
            for a in range(n):
                rest = [j for j in range(m) if j not in (a, m - 1)]; rng.shuffle(rest); order = [a, m - 1] + rest
                rk = [0] * m; vv = [0.0] * m
                for pos, j in enumerate(order):
                    rk[j] = pos + 1; vv[j] = u if pos == 0 else 0.99 * u if pos == 1 else 0.0
                P.append(rk); V.append(vv)
            yield dict(entry="KARV.scf", family="karv_unit", rule="KARV", P=P, V=V, k=k, tb=["accept", "first", "random"][i % 3], zi=True, want_out=True, seed=i,
                       eclass="lambda", ezi=True)

    def gap_cases(self, rng, tier):
        # every agent has its own favourite (value 1) and all share a second choice valued just BELOW some threshold level l* and above
        # the next one: level l* adds nothing for anybody, level l*+1 adds the common alternative, which is the welfare optimum
        for i in range(20 if tier == "quick" else 400):
            m = rng.randint(5, 12); k = rng.randint(2, 4); n = m - 1; ls = rng.randint(1, k - 1)
            common = m - 1
            val = 0.99 * m ** (-ls / (k + 1))
            P, V = [], []
            for a in range(n):
                rest = [j for j in range(m) if j not in (a, common)]; rng.shuffle(rest)
                order = [a, common] + rest
                rk = [0] * m; vv = [0.0] * m
                for pos, j in enumerate(order):
                    rk[j] = pos + 1; vv[j] = 1.0 if pos == 0 else val if pos == 1 else 1e-6 * (m - pos)
                P.append(rk); V.append(vv)
            yield dict(entry="KARV.scf", family="karv_gap", rule="KARV", P=P, V=V, k=k, tb=["accept", "first", "random"][i % 3], zi=True, want_out=True, seed=i,
                       eclass="lambda", ezi=True)

    def run(self, case):
        if case["rule"] == "DIST":
            from socialchoicekit.distortion import distortion
            from socialchoicekit.profile_utils import ValuationProfile
            A = np.array(case["V"], dtype=float)
            ch = case["choice"]
            r = supervised(lambda: float(distortion(ch if isinstance(ch, int) else np.array(ch), ValuationProfile.of(A))), 10.0)
            return dict(status=r[0], out=(r[1] if r[0] == "ok" else None), err=(r[1] if r[0] == "err" else ""))
        np.random.seed(case["seed"])
        return E.run_rule(case, fork=(case["rule"] == "TSF"), deadline=self.deadline)

    def oracle(self, case, obs):
        if obs["status"] != "ok":
            return ("no_result", "%s failed: %s %s" % (case["entry"], obs["status"], obs.get("err")))
        V = [[Fraction(x) for x in row] for row in case["V"]]; n = len(V); m = len(V[0])
        sw = [sum(V[i][j] for i in range(n)) for j in range(m)]
        if case["rule"] == "DIST":
            ch = case["choice"]; chosen = [ch] if isinstance(ch, int) else ch
            if min(sw[j - 1] for j in chosen) == 0:
                # the worst chosen alternative has no welfare at all (the optimum is positive): the ratio is infinite
                if obs["out"] != float("inf"): return ("wrong_distortion", "distortion helper returned %r although the chosen alternative %d has welfare 0 (optimum %s): max/min-chosen welfare is infinite" % (obs["out"], min(chosen, key=lambda j: sw[j - 1]), float(max(sw))))
                return None
            want = max(sw) / min(sw[j - 1] for j in chosen)
            if abs(Fraction(obs["out"]) - want) > Fraction(1, 10**9) * want: return ("wrong_distortion", "distortion helper returned %r, max/min-chosen welfare is %s" % (obs["out"], float(want)))
            if obs["out"] < 1: return ("distortion_below_one", "distortion %r < 1" % obs["out"])
            return None
        k = case["k"]
        if case["rule"] == "KARV":
            out = obs["out"]; winners = out if isinstance(out, list) else [out]
            bound = 2 * Fraction(m ** (1 / (k + 1))) * (1 + Fraction(1, 10**9))
            for w in winners:
                if not (0 <= w < m): return ("bad_winner", "winner %r out of range" % w)
                if sw[w] * bound < max(sw):
                    return ("distortion_exceeded", "k-ARV winner %d has welfare %s, optimum %s, bound factor %s" % (w, float(sw[w]), float(max(sw)), float(bound)))
            return None
        out = obs["out"]
        if sorted(out) != list(range(n)): return ("not_an_assignment", "lambda-TSF returned %r" % (out,))
        got = sum(V[i][out[i]] for i in range(n))
        if n <= 7:
            best = max(sum(V[i][p[i]] for i in range(n)) for p in itertools.permutations(range(n)))
        else:      # larger markets: the optimum from an independent exact assignment solver (utilities of these families are small integers: no rounding)
            from scipy.optimize import linear_sum_assignment
            Wn = np.array([[float(x) for x in row] for row in V]); ri, ci = linear_sum_assignment(Wn, maximize=True)
            best = sum(V[i][j] for i, j in zip(ri.tolist(), ci.tolist()))
        bound = 2 * Fraction(n ** (1 / (k + 1))) * (1 + Fraction(1, 10**9))
        if (got + n * Fraction(E.EPS)) * bound < best:
            return ("distortion_exceeded", "lambda-TSF welfare %s (+n*eps), optimum %s, bound factor %s" % (float(got), float(best), float(bound)))
        return None

    def coq(self, case, obs):
        if case["rule"] == "DIST" or case["family"] == "karv_unit": return None      # (unit family: oracle only; thousand-bit rationals make the kernel evaluation slow)
        P, V, k = case["P"], case["V"], case["k"]; n, m = len(P), len(P[0]); rk = E.ranking(P)
        fav = [rk[i][0] for i in range(n)]
        tau = E.thresholds([V[i][fav[i]] for i in range(n)], m, k)
        tk = [t[k - 1] for t in tau]
        rho = rho_for(m, k)
        if case["seed"] % 2 == 1 and all(V[i][fav[i]] > 0 for i in range(n)):
            # the numeric facts about the float thresholds assumed by C16_karv_end_to_end / C16_tsf_end_to_end (m = n there)
            return ("num", ct(cl([cq(frac(V[i][fav[i]])) for i in range(n)]), E.cVm(tau), cq(rho), cn(m), cn(k)))
        if case["rule"] == "KARV":
            out = obs["out"]; y = out[0] if isinstance(out, list) else out
            return ("karv", ct(E.cVm(V), E.cVm(obs["vt"]), cl([cn(x) for x in fav]), cl([cq(frac(x)) for x in tk]), cq(rho), cn(k), cn(y)))
        return ("tsf", ct(E.cVm(V), E.cVm(obs["vt"]), cl([cn(x) for x in fav]), cl([cq(frac(x)) for x in tk]), cq(rho), cq(frac(E.EPS)), cn(k)))

    def nontrivial(self, case, obs):
        if obs["status"] != "ok" or case["rule"] == "DIST": return obs["status"] == "ok" and obs["out"] > 1
        V = case["V"]; n = len(V); m = len(V[0])
        sw = [sum(V[i][j] for i in range(n)) for j in range(m)]
        if case["rule"] == "KARV":
            out = obs["out"]; w = out[0] if isinstance(out, list) else out
            return sw[w] < max(sw)
        return True

PROP = C16()
