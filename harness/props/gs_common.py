"""Shared pieces for C01/C02 (Gale-Shapley): generators, implementation runner, brute-force oracles."""
import itertools
import numpy as np
from ..core import *

def strict_rows(m):
    """all strict, possibly incomplete rows over m columns (ranks 1..k on a subset)"""
    out = []
    for k in range(m + 1):
        for cols in itertools.combinations(range(m), k):
            for perm in itertools.permutations(range(1, k + 1)):
                row = [None] * m
                for c, r in zip(cols, perm):
                    row[c] = r
                out.append(row)
    return out

def rand_profile(rng, n, m, pnan):
    P = []
    for i in range(n):
        acc = [j for j in range(m) if rng.random() >= pnan]
        rng.shuffle(acc)
        row = [None] * m
        for r, j in enumerate(acc):
            row[j] = r + 1
        P.append(row)
    return P

def valid_profile(P):
    return any(x == 1 for row in P for x in row)

def to_np(P, dtype="float"):
    if dtype == "float":
        return np.array([[np.nan if x is None else float(x) for x in row] for row in P], dtype=float)
    return np.array(P, dtype=(np.int32 if dtype == "int32" else np.int64))

def run_gs(case, deadline=10.0):
    case = materialise(case)
    from socialchoicekit.deterministic_matching import GaleShapley
    from socialchoicekit.profile_utils import StrictProfile
    R = lay(to_np(case["R"], case.get("dtype", "float")), case.get("layout")); H = lay(to_np(case["H"], case.get("dtype", "float")), case.get("layout"))
    cenc = case.get("cdtype", "int64")      # how the caller stores the capacities
    c = list(case["c"]) if cenc == "list" else np.array(case["c"], dtype={"float": float}.get(cenc, cenc))
    R0, H0, c0 = R.copy(), H.copy(), (list(c) if cenc == "list" else c.copy())
    def go():
        if case.get("pre_ro") is not None:      # history: the caller already solved the same instance (same array objects) in the other orientation
            try:
                GaleShapley(resident_oriented=case["pre_ro"], zero_indexed=case["zi"]).scf(StrictProfile.of(R), StrictProfile.of(H), c)
            except Exception:  # noqa
                pass
        return GaleShapley(resident_oriented=case["ro"], zero_indexed=case["zi"]).scf(StrictProfile.of(R), StrictProfile.of(H), c)
    r = supervised(go, case.get("deadline", deadline))
    if r[0] != "ok":
        return dict(status=r[0], err=(r[1] if len(r) > 1 else ""), msg=(r[2] if len(r) > 2 else ""))
    try:
        pairs = [[int(a), int(b)] for a, b in r[1]]
    except Exception:  # noqa
        return dict(status="malformed", msg=repr(r[1])[:200])
    same = lambda a, b: (a == b) if isinstance(a, list) else (a.shape == b.shape and a.dtype == b.dtype and a.tobytes() == b.tobytes())
    return dict(status="ok", pairs=pairs, mutated=not (same(R, R0) and same(H, H0) and same(c, c0)))

def check_stable(case, pairs0):
    """pairs0: 0-based (resident, hospital). returns None or (kind, msg)"""
    case = materialise(case)
    R, H, c = case["R"], case["H"], case["c"]
    n, m = len(R), len(H)
    for r, h in pairs0:
        if not (0 <= r < n and 0 <= h < m):
            return ("out_of_range", "pair (%d,%d) out of range" % (r, h))
    res = [r for r, _ in pairs0]
    if len(set(res)) != len(res):
        return ("resident_twice", "a resident appears twice")
    held = {h: [] for h in range(m)}
    for r, hh in pairs0: held[hh].append(r)
    for h in range(m):
        if len(held[h]) > c[h]:
            return ("over_capacity", "hospital %d holds %d > capacity %d" % (h, len(held[h]), c[h]))
    for r, h in pairs0:
        if R[r][h] is None or H[h][r] is None:
            return ("unacceptable_pair", "matched pair (%d,%d) is not mutually acceptable" % (r, h))
    of = {r: h for r, h in pairs0}
    worst = {h: max([H[h][r2] for r2 in held[h]] or [0]) for h in range(m)}      # the hospital prefers r to someone it holds  <=>  r ranks before its worst held resident
    for r in range(n):
        for h in range(m):
            if R[r][h] is None or H[h][r] is None or of.get(r) == h:
                continue
            rwants = (r not in of) or R[r][h] < R[r][of[r]]
            hwants = len(held[h]) < c[h] or H[h][r] < worst[h]
            if rwants and hwants:
                return ("blocking_pair", "(%d,%d) blocks the matching" % (r, h))
    return None

def all_stable(case):
    """all stable matchings (as dict resident->hospital or None) by brute force"""
    R, H, c = case["R"], case["H"], case["c"]
    n, m = len(R), len(H)
    out = []
    opts = [[None] + [h for h in range(m) if R[r][h] is not None and H[h][r] is not None] for r in range(n)]
    for asg in itertools.product(*opts):
        pairs = [(r, h) for r, h in enumerate(asg) if h is not None]
        if check_stable(case, pairs) is None:
            out.append(asg)
    return out

def cprof(P):
    return cl([cl([copt(x, lambda v: cn(v - 1)) for x in row]) for row in P])

def coq_case(case, pairs0):
    n, m = len(case["R"]), len(case["H"])
    # a capacity above the number of residents can never bind: the model is given min(c, n + 1) (unary numerals), the implementation the caller's value
    return ct(cprof(case["R"]), cprof(case["H"]), cl([cn(min(x, n + 1)) for x in case["c"]]), cb(case["ro"]), cn(n * m + 2),
              cl([ct(cn(r), cn(h)) for r, h in pairs0]))

def giant_cases():
    """one preference list with more than a million entries (one of them unacceptable): anything that stands in for 'worse than every real rank'
    with a fixed large number shows here. Decided by the direct oracle only (thorough tier and the search after a broken obligation)."""
    n = 1000003
    for ro in (True, False):
        yield dict(entry="GaleShapley.scf", family="giant_list", giant=n, c=[n], ro=ro, zi=True, dtype="float", deadline=300.0)

def materialise(case):
    """the giant instance is stored as its recipe: n residents who all rank the single hospital first; the hospital finds resident 0 unacceptable and ranks the others 1..n-1"""
    if case.get("giant") and "R" not in case:
        n = case["giant"]
        return dict(case, R=[[1]] * n, H=[[None] + list(range(1, n))])
    return case

def gen_cases(rng, tier, exh=True):
    k = 0
    if exh:
        rows2 = strict_rows(2); rows1 = strict_rows(1)
        for n, m in ((1, 1), (1, 2), (2, 1), (2, 2)):
            rr = strict_rows(m); hr = strict_rows(n)
            for R in itertools.product(rr, repeat=n):
                if not valid_profile(R): continue
                for H in itertools.product(hr, repeat=m):
                    if not valid_profile(H): continue
                    for c in itertools.product([1, 2], repeat=m):
                        for ro in (True, False):
                            k += 1
                            yield dict(entry="GaleShapley.scf", family="exh%d%d" % (n, m), R=[list(x) for x in R], H=[list(x) for x in H],
                                       c=list(c), ro=ro, zi=bool(k % 2))
    # structured
    N = 150 if tier == "quick" else 3000
    for i in range(N):
        n = rng.randint(2, 6); m = rng.randint(1, 4)
        kind = rng.choice(["same_list", "reversed", "one_sided", "latin"])
        if kind == "same_list":
            base = list(range(1, m + 1)); rng.shuffle(base)
            R = [list(base) for _ in range(n)]
            H = rand_profile(rng, m, n, 0.0)
        elif kind == "reversed":
            R = rand_profile(rng, n, m, 0.0)
            # hospital h ranks residents opposite to how much they like h
            H = []
            for h in range(m):
                order = sorted(range(n), key=lambda r: -R[r][h] * 10 - r)
                row = [None] * n
                for pos, r in enumerate(order): row[r] = pos + 1
                H.append(row)
        elif kind == "one_sided":
            R = rand_profile(rng, n, m, 0.0); H = rand_profile(rng, m, n, 0.5)
        else:
            n = m = rng.randint(2, 5)
            R = [[((j - i) % n) + 1 for j in range(n)] for i in range(n)]
            H = [[((i - j + 1) % n) + 1 for i in range(n)] for j in range(n)]
        if not (valid_profile(R) and valid_profile(H)): continue
        c = [rng.randint(1, 3) for _ in range(m)]
        for ro in (True, False):
            yield dict(entry="GaleShapley.scf", family=kind, R=R, H=H, c=c, ro=ro, zi=bool(i % 2))
    # one resident more than there are seats, larger sides: long displacement chains (one proposer per round, about n*m rounds)
    for i in range(30 if tier == "quick" else 600):
        m = rng.randint(8, 13); n = m + 1
        R = rand_profile(rng, n, m, 0.0); H = rand_profile(rng, m, n, 0.0)
        yield dict(entry="GaleShapley.scf", family="long_chain", R=R, H=H, c=[1] * m, ro=(i % 4 != 3), zi=bool(i % 2), dtype=["float", "int64"][i % 2])
    N = 400 if tier == "quick" else 20000
    for i in range(N):
        n = rng.randint(1, 7); m = rng.randint(1, 5); pn = rng.choice([0, 0, 0.2, 0.5])
        R = rand_profile(rng, n, m, pn); H = rand_profile(rng, m, n, pn)
        if not (valid_profile(R) and valid_profile(H)): continue
        c = [rng.randint(1, 3) for _ in range(m)]
        dt = "float"
        if pn == 0 and i % 3 == 0:
            dt = rng.choice(["int64", "int32"])
        # capacities as the caller may store them: signed / unsigned integer arrays of any width, floats, a plain list
        cenc = ["int64", "int32", "uint8", "uint16", "uint32", "uint64", "int8", "float", "list"][i % 9]
        if i % 7 == 3 and cenc in ("int64", "uint64", "float", "list", "uint32", "int32"):      # practically unlimited capacities, as large as the encoding allows
            top = {"int64": 2 ** 63 - 1, "uint64": 2 ** 63, "float": 1e300, "list": 2 ** 63 - 1, "uint32": 2 ** 32 - 1, "int32": 2 ** 31 - 1}[cenc]
            c = [rng.choice([top, top, top // 2 + 1 if cenc != "float" else 1e18, 1, 2]) for _ in range(m)]
            if cenc == "float": c = [int(x) if x < 1e17 else x for x in c]
        for ro in (True, False):
            d = dict(entry="GaleShapley.scf", family="random", R=R, H=H, c=c, ro=ro, zi=bool(i % 2), dtype=dt, cdtype=cenc)
            if i % 4 == 1 or (cenc == "int64" and i % 2):
                d["pre_ro"] = not ro; d["family"] = "random_reuse"
            yield d

def shrink_gs(case):
    if case.get("giant"): return
    R, H, c = case["R"], case["H"], case["c"]
    n, m = len(R), len(H)
    def renum(row):
        vals = sorted(x for x in row if x is not None)
        return [None if x is None else vals.index(x) + 1 for x in row]
    if n > 1:
        for r in range(n):
            R2 = [row for i, row in enumerate(R) if i != r]
            H2 = [renum([x for i, x in enumerate(row) if i != r]) for row in H]
            if valid_profile(R2) and valid_profile(H2):
                yield dict(case, R=R2, H=H2)
    if m > 1:
        for h in range(m):
            H2 = [row for i, row in enumerate(H) if i != h]
            R2 = [renum([x for i, x in enumerate(row) if i != h]) for row in R]
            if valid_profile(R2) and valid_profile(H2):
                yield dict(case, R=R2, H=H2, c=[x for i, x in enumerate(c) if i != h])
    for h in range(m):
        if c[h] > 1:
            yield dict(case, c=[x - 1 if i == h else x for i, x in enumerate(c)])
