"""Shared pieces for C14-C17: consistent (profile, valuation) generators, rule runners with recorded query traces."""
import itertools, math
from fractions import Fraction
import numpy as np
from ..core import *

EPS = 1e-5

def gen_valuation_row(rng, m, kind, k):
    if kind == "unit":
        vals = [rng.random() for _ in range(m)]; s = sum(vals); vals = [x / s for x in vals]
    elif kind == "skew":
        vals = [rng.random() ** 8 for _ in range(m)]
    elif kind == "ties":
        vals = [rng.choice([0, 0.1, 0.2, 0.5]) for _ in range(m)]
    elif kind == "zero":
        vals = [rng.choice([0, 0, 1.0]) for _ in range(m)]
    elif kind == "int":
        vals = [float(rng.randint(0, 6)) for _ in range(m)]
    elif kind == "bigint":
        vals = [float(rng.randint(0, 1000)) for _ in range(m)]
    elif kind == "source_constants":      # values that coincide with constants of the library source: the 1e-5 floor of the allocation rules, the 1e-9 tolerance, and
        # favourites whose thresholds fall exactly on the floor
        pool = [EPS, EPS, 2 * EPS, 1e-9, 0.0, EPS / 2] + [EPS * m ** (l / (k + 1)) for l in range(1, k + 1)]
        vals = [rng.choice(pool) for _ in range(m)]
    else:  # straddle: values one ulp either side of a threshold
        v = rng.random()
        vals = [v] + [float(np.nextafter(v / m ** (rng.randint(1, k) / (k + 1)), rng.choice([0, 1]))) if rng.random() < 0.7 else v * rng.random() for _ in range(m - 1)]
    return sorted(vals, reverse=True)

def gen_pair(rng, n, m, kind, k):
    P = [rng.sample(range(1, m + 1), m) for _ in range(n)]
    V = []
    for i in range(n):
        vals = gen_valuation_row(rng, m, kind, k)
        V.append([vals[P[i][j] - 1] for j in range(m)])
    return P, V

def thresholds(vfav, base, k):
    """tau[i][l-1] = the float v_fav[i] / base**(l/(k+1)) exactly as the code computes it"""
    return [[float(np.float64(v) / (base ** (l / (k + 1)))) for l in range(1, k + 1)] for v in vfav]

class Recorder:
    def __init__(self, V, fixer, integer=False, pyscalars=False):
        self.V, self.fixer, self.trace, self.integer, self.pyscalars = V, fixer, [], integer, pyscalars
    def __call__(self, a, b):
        self.trace.append((int(a), int(b)))
        v = self.V[int(a) - self.fixer][int(b) - self.fixer]
        if self.pyscalars and float(v).is_integer():
            return int(v)      # a user who answers "3" gives a Python int, "2.5" a Python float
        return float(v)

def make_elicitor(V, memoize=True, zi=True, integer=False, eclass="lambda", pyscalars=False):
    from socialchoicekit.elicitation_utils import LambdaElicitor, IntegerLambdaElicitor
    if eclass == "profile_int":
        # the valuation profile itself, stored with an integer dtype, behind the library's own elicitor class
        from socialchoicekit.elicitation_utils import ValuationProfileElicitor
        from socialchoicekit.profile_utils import ValuationProfile
        el = ValuationProfileElicitor(ValuationProfile.of(np.array(V).astype(np.int64)), memoize=memoize)
        rec = Recorder(V, 0, False)
        orig = el._elicit_impl
        def impl(a, b):
            rec.trace.append((int(a), int(b))); return orig(a, b)
        el._elicit_impl = impl
        return el, rec
    rec = Recorder(V, 0 if zi else 1, integer, pyscalars)
    cls = IntegerLambdaElicitor if integer else LambdaElicitor
    return cls(rec, memoize=memoize, zero_indexed=zi), rec

def run_rule(case, V=None, deadline=20.0, fork=False):
    """runs one elicitation rule; returns dict(status, vt, trace, count, out)"""
    from socialchoicekit.elicitation_voting import KARV, LambdaPRV
    from socialchoicekit.elicitation_allocation import LambdaTSF, MatchTwoQueries
    from socialchoicekit.elicitation_matching import DoubleLambdaTSF
    from socialchoicekit.deterministic_allocation import root_n_serial_dictatorship
    from socialchoicekit.profile_utils import StrictCompleteProfile
    V = case["V"] if V is None else V
    rule = case["rule"]
    dt = {"int64": np.int64, "int32": np.int32, "float": float}[case.get("dtype", "int64")]
    def go():
        P = lay(np.array(case["P"], dtype=dt), case.get("layout")); P0 = P.copy()
        prof = StrictCompleteProfile.of(P)
        res = dict(status="ok")
        if rule == "Double":
            P2 = lay(np.array(case["P2"], dtype=dt), case.get("layout")); P20 = P2.copy(); prof2 = StrictCompleteProfile.of(P2)
            e1, r1 = make_elicitor(V, case.get("memoize", True), case.get("ezi", True), integer=True)
            e2, r2 = make_elicitor(case["V2"] if "V2x" not in case else case["V2x"], case.get("memoize", True), case.get("ezi", True), integer=True)
            d = DoubleLambdaTSF(case["k"], case["k2"], zero_indexed=case.get("zi", True))
            for pre in case.get("prelude", []):
                try:
                    pa, _ = make_elicitor(pre["V"], True, True, integer=True); pb, _ = make_elicitor(pre["V2"], True, True, integer=True)
                    d.get_simulated_cardinal_profiles(StrictCompleteProfile.of(np.array(pre["P"], dtype=np.int64)), StrictCompleteProfile.of(np.array(pre["P2"], dtype=np.int64)), pa, pb)
                except Exception:  # noqa
                    pass
            if case.get("same_profile_first") is not None:      # history: the same two profile objects went through the rule (other lambdas) before
                try:
                    k0 = case["same_profile_first"]; pa, _ = make_elicitor(V, True, True, integer=True); pb, _ = make_elicitor(case["V2"], True, True, integer=True)
                    DoubleLambdaTSF(k0, k0, zero_indexed=case.get("zi", True)).get_simulated_cardinal_profiles(prof, prof2, pa, pb)
                except Exception:  # noqa
                    pass
            vts = d.get_simulated_cardinal_profiles(prof, prof2, e1, e2)
            res.update(vt=np.asarray(vts[0]).tolist(), vt2=np.asarray(vts[1]).tolist(), trace=r1.trace, trace2=r2.trace,
                       count=e1.elicitation_count, count2=e2.elicitation_count)
            if case.get("want_out"):
                e1b, _ = make_elicitor(V, True, True, integer=True); e2b, _ = make_elicitor(case["V2"], True, True, integer=True)
                res["out"] = [[int(a), int(b)] for a, b in d.scf(prof, prof2, e1b, e2b)]
            res["mutated"] = P.tobytes() != P0.tobytes() or P2.tobytes() != P20.tobytes()
            return res
        def mkrule(k_):
            if rule == "KARV": return KARV(k=k_, tie_breaker=case.get("tb", "accept"), zero_indexed=case.get("zi", True))
            if rule == "TSF": return LambdaTSF(lambda_=k_, zero_indexed=case.get("zi", True))
            if rule == "M2Q": return MatchTwoQueries(zero_indexed=case.get("zi", True))
            return LambdaPRV(lambda_=k_, tie_breaker=case.get("tb", "accept"), zero_indexed=case.get("zi", True))
        r = mkrule(case["k"])
        def sim(p_, e_, r_=None):
            r_ = r if r_ is None else r_
            return r_.score(p_, e_) if rule == "PRV" else r_.get_simulated_cardinal_profile(p_, e_)
        for pre in case.get("prelude", []):        # the same rule object is first used on other instances
            try:
                pe, _ = make_elicitor(pre["V"], True, True)
                sim(StrictCompleteProfile.of(np.array(pre["P"], dtype=np.int64)), pe)
            except Exception:  # noqa
                pass
        if case.get("same_profile_first") is not None:      # history: the same profile object went through the rule with another parameter before
            try:
                pe, _ = make_elicitor(V, True, True)
                sim(prof, pe, mkrule(case["same_profile_first"]))
            except Exception:  # noqa
                pass
        el, rec = make_elicitor(V, case.get("memoize", True), case.get("ezi", True), eclass=case.get("eclass", "lambda"), pyscalars=(case.get("answers") == "python_scalars"))
        for (a_, b_) in case.get("pre_questions", []):      # history: the caller asked this elicitor some questions directly before handing it to the rule
            el.elicit(int(a_), int(b_))                        # (elicit takes 0-based indices whatever the convention of the answering function)
        if case.get("reuse_elicitor"):                       # history: the same elicitor object went through another rule (lambda-PRV, lambda = 1) on the same profile before
            try:
                LambdaPRV(lambda_=1, tie_breaker="accept", zero_indexed=case.get("zi", True)).score(prof, el)
            except Exception:  # noqa
                pass
        vt = sim(prof, el)
        if rule == "M2Q":
            res["rootn"] = [int(x) for x in root_n_serial_dictatorship(prof)]
        res.update(vt=np.asarray(vt).tolist(), trace=list(rec.trace), count=el.elicitation_count)
        if case.get("want_out"):
            el2, _ = make_elicitor(V, True, True, eclass=case.get("eclass", "lambda"))
            out = r.scf(prof, el2)
            res["out"] = np.asarray(out).tolist() if not isinstance(out, (int, np.integer)) else int(out)
        res["mutated"] = P.tobytes() != P0.tobytes()
        return res
    r = (supervised_fork if fork else supervised)(go, deadline)
    if r[0] != "ok":
        return dict(status=r[0], err=(r[1] if len(r) > 1 else ""), msg=(r[2] if len(r) > 2 else ""))
    return r[1]

def ranking(P):
    return [sorted(range(len(row)), key=lambda j: row[j]) for row in P]

def ref_threshold_fill(P, V, k, base, init, byquery):
    """independent reference for the threshold rules (linear scan instead of binary search); exact on floats"""
    n, m = len(P), len(P[0]); rk = ranking(P)
    vt = [[init] * m for _ in range(n)]
    sets = [[None] * m for _ in range(n)]
    for i in range(n):
        fav = rk[i][0]; v = V[i][fav]; vt[i][fav] = v; sets[i][fav] = 0
        prev = 0
        for l in range(1, k + 1):
            tau = float(np.float64(v) / (base ** (l / (k + 1))))
            p = 0
            while p + 1 < m and V[i][rk[i][p + 1]] >= tau:
                p += 1
            fillv = V[i][rk[i][p]] if byquery else tau
            for q in range(prev + 1, p + 1):
                vt[i][rk[i][q]] = fillv; sets[i][rk[i][q]] = l
            prev = max(prev, p)
    return vt, sets

def cVm(V):
    return cl([cl([cq(frac(x)) for x in row]) for row in V])
def cPz(P):
    return cl([cl([cz(x) for x in row]) for row in P])
def ckeys(tr):
    return cl([ct(cz(a), cz(b)) for a, b in tr])
def run_case_lit(memoize, fixer, V, expected, trace, count):
    return ct(cb(memoize), cz(fixer), cVm(V), expected, ckeys(trace), cn(count))
