"""C08 — Ford-Fulkerson returns a maximum flow and a matching minimum cut."""
import sys, itertools, collections
from ..core import *
from ..runner import Prop, Group

MAXSIZE = sys.maxsize

def edmonds_karp(G, s, t):
    cap = collections.defaultdict(int)
    adj = collections.defaultdict(set)
    for u, a in G.items():
        for v, c in a:
            cap[(u, v)] += c
            adj[u].add(v); adj[v].add(u)
    val = 0
    while True:
        par = {s: None}
        q = collections.deque([s])
        while q and t not in par:
            u = q.popleft()
            for v in adj[u]:
                if v not in par and cap[(u, v)] > 0:
                    par[v] = u; q.append(v)
        if t not in par:
            return val
        b = None; v = t
        while par[v] is not None:
            c = cap[(par[v], v)]; b = c if b is None else min(b, c); v = par[v]
        v = t
        while par[v] is not None:
            cap[(par[v], v)] -= b; cap[(v, par[v])] += b; v = par[v]
        val += b

def G_of(case):
    G = {int(k): [(int(v), int(c)) for v, c in a] for k, a in case["G"]}
    if case.get("share"):      # vertices with equal adjacency lists are bound to ONE list object (as `G[b] = G[a]` or dict.fromkeys(layer, adj) produce)
        canon = {}
        for k in G:
            key = tuple(G[k])
            if key in canon: G[k] = canon[key]
            else: canon[key] = G[k]
    return G

class C08(Prop):
    translators = ['flow', 'bip', 'reach', 'flowhelpers']   # ('bip' holds the result packaging of ford_fulkerson: flow_final and the cut read off the residual graph) ford_fulkerson / dfs_path regenerated from flow.py on every run
    pid = "C08"
    title = "Ford-Fulkerson returns a maximum flow and a matching minimum cut"
    sources = ["socialchoicekit/flow.py"]
    groups = {"ff": Group("ff", "From SCK Require Import FlowModel RunFlow.", "RunFlow.ff_case", "RunFlow.chk_ff")}
    deadline = 5.0
    rule = ("exhaustive: all networks on 3 vertices with capacities {absent,0,1,2} per ordered pair (4096) for fixed s,t; "
            "structured: opposite pairs, arcs into s / out of t, sys.maxsize arcs, unit bipartite networks, source revisits; "
            "random: 2..8 vertices, shuffled dict and adjacency orders. Non-trivial = max-flow value > 0; distinct by input hash")
    trusted_base = ["model FlowModel.v of flow.py:7-150; Python set.pop order in reachable_vertices abstracted to the least closed set",
                    "augmentation fuel supplied by the harness (observed augmentations + 1); C08_terminates bounds it"]
    assumptions = ["networks are well-formed (wf_inb: distinct keys, targets are keys, no self-loop, no repeated target, capacities >= 0)"]

    def cases(self, rng, tier):
        # exhaustive 3-vertex space
        pairs = [(u, v) for u in range(3) for v in range(3) if u != v]
        for caps in itertools.product([None, 0, 1, 2], repeat=6):
            G = {0: [], 1: [], 2: []}
            for (u, v), c in zip(pairs, caps):
                if c is not None:
                    G[u].append((v, c))
            yield dict(entry="ford_fulkerson", family="exh3", G=[[k, a] for k, a in G.items()], s=0, t=2)
        # structured
        for _ in range(150 if tier == "quick" else 1500):
            yield self.structured(rng)
        for _ in range(600 if tier == "quick" else 20000):
            yield self.random_case(rng)
        for c in self.self_loops(rng, tier): yield c
        # layers of twins: several vertices with the same successors and capacities, given once with one list per vertex and once sharing a single list object
        for i in range(60 if tier == "quick" else 1500):
            k = rng.randint(2, 4); k2 = rng.randint(1, 3)
            L1 = list(range(1, 1 + k)); L2 = list(range(1 + k, 1 + k + k2)); t = 1 + k + k2
            adj1 = [(v, rng.randint(1, 2)) for v in L2 if rng.random() < 0.8] or [(L2[0], 1)]
            if i % 3 == 0: adj1 = adj1 + [(t, 1)]
            adj2 = [(t, rng.randint(1, 3))]
            G = {0: [(u, rng.randint(1, 3)) for u in L1]}
            for u in L1: G[u] = list(adj1)
            for v in L2: G[v] = list(adj2)
            G[t] = []
            yield dict(entry="ford_fulkerson", family="twin_layers" + ("_shared" if i % 2 else ""), G=[[kk, a] for kk, a in G.items()], s=0, t=t, share=bool(i % 2))

    def self_loops(self, rng, tier):
        """networks in which some vertices carry an edge to themselves (useless for the flow, legal as input); outside the model's well-formedness predicate, so decided by the direct oracle only"""
        for i in range(150 if tier == "quick" else 3000):
            c = self.structured(rng) if i % 3 == 0 else self.random_case(rng)
            G = [[k, [list(e) for e in a]] for k, a in c["G"]]
            if not G: continue
            for _ in range(rng.randint(1, 3)):
                row = rng.choice(G)
                if all(v != row[0] for v, _ in row[1]):
                    row[1].insert(rng.randint(0, len(row[1])), [row[0], rng.randint(1, 3)])
            yield dict(c, G=G, family="self_loop")

    def structured(self, rng):
        kind = rng.choice(["bip", "maxsize", "revisit", "opp"])
        if kind == "bip":
            nx, ny = rng.randint(1, 4), rng.randint(1, 4)
            G = {}
            X = list(range(nx)); Y = list(range(nx, nx + ny))
            for x in X:
                ys = [y for y in Y if rng.random() < 0.5]
                G[x] = [(y, 1) for y in ys]
            G[-1] = [(x, 1) for x in X]; G[-2] = []
            for y in Y:
                G[y] = [(-2, 1)]
            return dict(entry="ford_fulkerson", family="bip", G=[[k, a] for k, a in G.items()], s=-1, t=-2)
        if kind == "maxsize":
            # closure-style network: s -> neg nodes, pos nodes -> t, maxsize arcs between
            n = rng.randint(2, 6)
            G = {i: [] for i in range(n)}; G[-1] = []; G[-2] = []
            for i in range(n):
                w = rng.randint(-4, 4)
                if w < 0: G[-1].append((i, -w))
                elif w > 0: G[i].append((-2, w))
            for i in range(n):
                for j in range(n):
                    if i < j and rng.random() < 0.4:
                        G[i].append((j, MAXSIZE))
            return dict(entry="ford_fulkerson", family="maxsize", G=[[k, a] for k, a in G.items()], s=-1, t=-2)
        if kind == "revisit":
            # arcs back into the source so that a DFS path may pass through s again
            n = rng.randint(3, 6)
            G = {i: [] for i in range(n)}
            for u in range(n):
                for v in range(n):
                    if u != v and rng.random() < 0.6:
                        G[u].append((v, rng.choice([1, 2, 3])))
            if not any(v == 0 for v, _ in G[1]):
                G[1].append((0, 2))
            return dict(entry="ford_fulkerson", family="revisit", G=[[k, a] for k, a in G.items()], s=0, t=n - 1)
        n = rng.randint(2, 5)
        G = {i: [] for i in range(n)}
        for u in range(n):
            for v in range(u + 1, n):
                if rng.random() < 0.7:
                    G[u].append((v, rng.randint(0, 3))); G[v].append((u, rng.randint(0, 3)))
        s, t = rng.sample(range(n), 2)
        return dict(entry="ford_fulkerson", family="opp", G=[[k, a] for k, a in G.items()], s=s, t=t)

    def random_case(self, rng):
        n = rng.randint(2, 8)
        keys = list(range(n)); rng.shuffle(keys)
        G = {u: [] for u in keys}
        dens = rng.choice([0.2, 0.5, 0.8])
        for u in keys:
            vs = [v for v in range(n) if v != u and rng.random() < dens]; rng.shuffle(vs)
            for v in vs:
                G[u].append((v, rng.choice([0, 1, 1, 2, 3, 5, MAXSIZE])))
        s, t = rng.sample(range(n), 2)
        fam = "random"
        if rng.random() < 0.4:      # vertices are arbitrary integers, not 0..n-1: negative labels, gaps, 1-based numbering
            lab = rng.sample(range(-6, 40), n) if rng.random() < 0.5 else ([-1, -2] + list(range(1, n - 1)) if n >= 2 else list(range(n)))
            if len(lab) == n:
                G = {lab[u]: [(lab[v], c) for v, c in a] for u, a in G.items()}; s, t = lab[s], lab[t]; fam = "relabelled"
        return dict(entry="ford_fulkerson", family=fam, G=[[k, a] for k, a in G.items()], s=s, t=t)

    def shrink(self, case):
        G = case["G"]
        for i, (k, a) in enumerate(G):
            for j in range(len(a)):
                G2 = [[kk, list(aa)] for kk, aa in G]
                del G2[i][1][j]
                yield dict(case, G=G2)
        for i, (k, a) in enumerate(G):
            for j, (v, c) in enumerate(a):
                if c > 1:
                    G2 = [[kk, [list(e) for e in aa]] for kk, aa in G]
                    G2[i][1][j][1] = 1 if c > 3 else c - 1
                    yield dict(case, G=G2)

    def run(self, case):
        import socialchoicekit.flow as F
        G = G_of(case)
        import copy
        G0 = copy.deepcopy(G)
        st = {"depth": 0, "top": 0}
        orig = F.dfs_path
        def wrap(Gf, cur, sink, vis):
            if st["depth"] == 0:
                st["top"] += 1
            st["depth"] += 1
            try:
                return orig(Gf, cur, sink, vis)
            finally:
                st["depth"] -= 1
        F.dfs_path = wrap
        try:
            r = supervised(lambda: F.ford_fulkerson(G, case["s"], case["t"]), self.deadline)
        finally:
            F.dfs_path = orig
        if r[0] != "ok":
            return dict(status=r[0], err=r[1:] and r[1], msg=(r[2] if len(r) > 2 else ""))
        try:
            flow, cut = r[1]
            return dict(status="ok", flow=[[int(u), int(v), int(x)] for (u, v), x in flow.items()], cut=sorted(int(v) for v in cut),
                        fuel=st["top"] + 1, mutated=(G != G0))
        except Exception as e:  # noqa
            return dict(status="malformed", msg=repr(r[1])[:200])

    def oracle(self, case, obs):
        G = G_of(case); s, t = case["s"], case["t"]
        if obs["status"] != "ok":
            return ("no_result", "ford_fulkerson did not return a (flow, cut): %s %s" % (obs["status"], obs.get("err")))
        f = {(u, v): x for u, v, x in obs["flow"]}
        edges = [(u, v) for u, a in G.items() for v, _ in a]
        cap = {(u, v): c for u, a in G.items() for v, c in a}
        if sorted(f.keys()) != sorted(edges):
            return ("flow_keys", "flow dict keys differ from the edges of the network")
        for (u, v) in edges:
            if f[(u, v)] > cap[(u, v)]:
                return ("capacity", "edge %s carries %d > capacity %d" % ((u, v), f[(u, v)], cap[(u, v)]))
            if (v, u) in cap:
                if f[(u, v)] != -f[(v, u)]:
                    return ("net_flow", "opposite edges %s do not carry opposite net values" % ((u, v),))
            elif f[(u, v)] < 0:
                return ("capacity", "edge %s carries negative flow without an opposite edge" % ((u, v),))
        def net(u, v):
            if (u, v) in f: return f[(u, v)]
            if (v, u) in f: return -f[(v, u)]
            return 0
        V = list(G.keys())
        for x in V:
            if x not in (s, t) and sum(net(x, y) for y in V) != 0:
                return ("conservation", "flow not conserved at vertex %d" % x)
        val = sum(net(s, y) for y in V)
        best = edmonds_karp(G, s, t)
        if val != best:
            return ("not_maximum", "flow value %d but maximum flow is %d" % (val, best))
        cut = set(obs["cut"])
        if s not in cut or t in cut:
            return ("cut_sides", "cut must contain the source and exclude the sink")
        cc = sum(c for (u, v), c in cap.items() if u in cut and v not in cut)
        if cc != val:
            return ("cut_capacity", "capacity leaving the cut is %d but flow value is %d" % (cc, val))
        if obs.get("mutated"):
            return ("mutated_argument", "ford_fulkerson modified the network passed to it")
        return None

    def coq(self, case, obs):
        G = case["G"]
        if any(v == k for k, a in G for v, _ in a): return None      # self-loop: outside wf_in
        g = cl([ct(cz(k), cl([ct(cz(v), cz(c)) for v, c in a])) for k, a in G])
        fl = cl([ct(ct(cz(u), cz(v)), cz(x)) for u, v, x in obs["flow"]])
        return ("ff", ct(g, cz(case["s"]), cz(case["t"]), cn(obs["fuel"]), fl, cl([cz(v) for v in obs["cut"]])))

    def nontrivial(self, case, obs):
        return obs["status"] == "ok" and any(u == case["s"] and x > 0 for u, v, x in obs["flow"])

PROP = C08()
