"""C01 — Gale-Shapley returns a feasible matching with no blocking pair."""
from ..core import *
from ..runner import Prop, Group
from . import gs_common as G

class C01(Prop):
    translators = ['gsres', 'gshosp']   # both loops of GaleShapley.scf regenerated from deterministic_matching.py on every run and proved to refine the model
    layouts = True
    pid = "C01"
    sources = ["socialchoicekit/deterministic_matching.py"]
    groups = {"gs": Group("gs", "From SCK Require Import Argsort RunGS.", "RunGS.gs_case", "RunGS.chk_gs")}
    rule = ("exhaustive: every strict (possibly incomplete) profile pair with n,m <= 2, capacities in {1,2}^m, both orientations; "
            "structured: identical lists, reversed hospital lists, one-sided acceptability, cyclic Latin squares; random n<=7, m<=5, NaN density {0,.2,.5}, "
            "int32/int64/float64 encodings of complete profiles, both index conventions. Non-trivial = at least one matched pair and at least one "
            "resident rejected at some point (matching differs from everyone's first choice) ; distinct by input hash")
    trusted_base = ["models GS2.v/GS3.v (function-state loops over accessor functions computed from the profiles with the proved stable argsort) of deterministic_matching.py:56-186",
                    "numpy argsort puts NaN last and is deterministic on strict rows (tie order among NaN is never observed by the modelled code)"]
    assumptions = ["profiles are strict (strictb: each row's non-NaN ranks are 1..k, each once) with matching shapes; capacities >= 1"]

    def cases(self, rng, tier):
        if tier != "quick":
            for c in G.giant_cases(): yield c
        for c in G.gen_cases(rng, tier): yield c
    def shrink(self, case):
        return G.shrink_gs(case)
    def run(self, case):
        return G.run_gs(case)
    def pairs0(self, case, obs):
        f = 0 if case["zi"] else 1
        return [(a - f, b - f) for a, b in obs["pairs"]]
    def oracle(self, case, obs):
        if obs["status"] != "ok":
            return ("no_result", "GaleShapley.scf failed on a valid instance: %s %s %s" % (obs["status"], obs.get("err"), obs.get("msg")))
        bad = G.check_stable(case, self.pairs0(case, obs))
        if bad:
            return bad
        if obs.get("mutated"):
            return ("mutated_argument", "scf modified its arguments")
        return None
    def coq(self, case, obs):
        if case.get("giant"): return None
        return ("gs", G.coq_case(case, self.pairs0(case, obs)))
    def nontrivial(self, case, obs):
        if obs["status"] != "ok" or not obs["pairs"]:
            return False
        if case.get("giant"): return True
        p0 = self.pairs0(case, obs)
        return any(case["R"][r][h] != 1 for r, h in p0) or len(p0) < len(case["R"])

PROP = C01()
