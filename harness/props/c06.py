"""C06 — the Birkhoff-von Neumann decomposition reconstructs its input."""
from fractions import Fraction
import numpy as np
from ..core import *
from ..runner import Prop, Group

def is_dyadic(x):
    f = Fraction(x); d = f.denominator
    return d & (d - 1) == 0 and d <= 2 ** 20

class C06(Prop):
    layouts = True
    translators = ['flow', 'bip', 'posgraph', 'validators', 'bvnloop']   # the matching routine birkhoff_von_neumann calls (flow.py) regenerated from the source on every run
    pid = "C06"
    sources = ["socialchoicekit/bistochastic.py", "socialchoicekit/flow.py"]
    groups = {"bvn": Group("bvn", "From SCK Require Import FlowModel BipModel BvN2 RunBvN.", "RunBvN.bvn_case", "RunBvN.chk_bvn"),
              "pg": Group("pg", "From SCK Require Import FlowModel BipModel BvN2 RunBvN.", "RunBvN.pg_case", "RunBvN.chk_pg"),
              "bvnok": Group("bvnok", "From SCK Require Import FlowModel BipModel BvN2 RunBvN.", "RunBvN.bvn_case", "RunBvN.chk_bvn_ok")}      # informational (coq_info)
    rule = ("convex combinations of random permutation matrices with dyadic weights (compared term by term with the exact-rational model, binary64 arithmetic being exact there), "
            "uniform 1/k weights, generic float weights, float32/float16/int8/uint8/int16 matrices (pattern-balanced generic values of the narrow dtype), scaled variants and outputs of probabilistic serial / simultaneous eating (checked by the direct oracle: "
            "<= n*n terms, z > 0, permutation matrices, reconstruction within 1e-6, sum of z = row sum), n <= 6; positivity_graph compared on every matrix. "
            "Non-trivial = at least two terms; distinct by input hash")
    trusted_base = ["exact-rational model BvN2.v of bistochastic.py:24-66 on the proved matching model; float rounding and the 1e-9 stopping threshold are modelled only where exact (dyadic inputs)",
                    "matching fuel = observed augmentations + 2"]
    assumptions = ["input is a non-negative square matrix whose rows and columns share one positive sum"]
    deadline = 8.0

    def cases(self, rng, tier):
        N = 320 if tier == "quick" else 5000
        for i in range(N):
            kind = ["dyadic", "dyadic", "uniform", "float", "scaled", "ps", "neartie", "bigint", "range"][i % 9]
            n = rng.randint(1, 5 if kind != "float" else 4); k = rng.randint(1, 5)
            if kind == "ps":
                n = rng.randint(2, 5)
                yield dict(entry="birkhoff_von_neumann", family="ps", prof=[rng.sample(range(1, n + 1), n) for _ in range(n)],
                           speeds=([1] * n if i % 12 else [rng.randint(1, 3) for _ in range(n)]))
                continue
            X = [[Fraction(0)] * n for _ in range(n)]
            ws = []
            for _ in range(k):
                if kind == "dyadic": w = Fraction(rng.randint(1, 3), 2 ** rng.randint(0, 4))
                elif kind == "uniform": w = Fraction(1, k)
                elif kind == "scaled": w = Fraction(rng.randint(1, 9))
                elif kind == "bigint": w = Fraction(rng.choice([100000, 100001, 150000, 99999, 1000003]))
                elif kind == "range":      # exactly representable weights of very different magnitude (all arithmetic exact in binary64)
                    w = Fraction(rng.choice([4 * 10 ** 9, 10 ** 12, 2 ** 40, 2 ** 20])) if len(ws) == 0 else Fraction(rng.choice([1, 100, 3])) * Fraction(1, rng.choice([1, 1, 2 ** 11]))
                elif kind == "neartie": w = Fraction(rng.choice([0.3, 0.3, 0.25])) * (1 + Fraction(rng.choice([0, 1, 2, 7, -3]), 10**6))
                else: w = Fraction(rng.random())
                ws.append(w)
            if kind in ("float", "neartie"):
                tot = sum(ws); ws = [w / tot for w in ws]
            for w in ws:
                p = rng.sample(range(n), n)
                for r in range(n): X[r][p[r]] += w
            yield dict(entry="birkhoff_von_neumann", family=kind, X=[[float(x) for x in row] for row in X], itype=(kind == "scaled" and i % 4 == 0))
        for c in self.regular01(rng, tier):
            yield c
        # the top and the bottom of the float range: small-integer combinations of permutation matrices scaled by an exact power of two such that the
        # common line sum lies just below the largest finite double (the TOTAL of all entries is then not representable) or in the subnormals
        for i in range(24 if tier == "quick" else 300):
            n = rng.randint(2, 6); k = rng.randint(1, 4)
            X = [[0] * n for _ in range(n)]
            for _ in range(k):
                p = rng.sample(range(n), n); w = rng.randint(1, 3)
                for r in range(n): X[r][p[r]] += w
            line = sum(X[0]); bits = line.bit_length()
            e = [1024 - bits, 1023 - bits, -1074, -1060, 1000, -1022][i % 6]
            yield dict(entry="birkhoff_von_neumann", family="float_range_edge", X=[[float(Fraction(x) * Fraction(2) ** e) for x in row] for row in X])

        # matrices stored in a narrow dtype whose entries are generic values OF THAT DTYPE; exact balance comes from the pattern (a Latin square of
        # values with rows and columns permuted, or "d on the diagonal, e elsewhere"), not from a common binary unit
        for i in range(48 if tier == "quick" else 600):
            n = rng.randint(2, 5); mdt = ["float32", "float16", "float32", "float32"][i % 4]
            sc = rng.choice([1, 1, 10, 100]) if mdt == "float32" else 1
            if i % 6 == 5:
                d = float(np.array(rng.choice([100, 10, 3]) * 1.0).astype(mdt)); e = float(np.array(rng.choice([0.3, 0.1, 0.7])).astype(mdt))
                X = [[d if r == c else e for c in range(n)] for r in range(n)]
            else:
                v = [float(np.array(rng.random() * sc).astype(mdt)) for _ in range(n)]
                if i % 3 == 0: v[rng.randrange(n)] = 0.0
                if not any(v): v[0] = 1.0
                pr = rng.sample(range(n), n); pc = rng.sample(range(n), n)
                X = [[v[(pr[r] + pc[c]) % n] for c in range(n)] for r in range(n)]
            yield dict(entry="birkhoff_von_neumann", family="narrow_pattern", X=X, mdtype=mdt)
        for i in range(16 if tier == "quick" else 200):      # small integers in narrow integer dtypes
            n = rng.randint(2, 5); k = rng.randint(1, 4)
            X = [[0] * n for _ in range(n)]
            for _ in range(k):
                p = rng.sample(range(n), n); w = rng.randint(1, 30)
                for r in range(n): X[r][p[r]] += w
            yield dict(entry="birkhoff_von_neumann", family="narrow_int", X=[[float(x) for x in row] for row in X], mdtype=["int8", "uint8", "int16", "float16"][i % 4])

    def regular01(self, rng, tier):
        # 0/1 matrices with exactly k ones in every row and column (k disjoint permutations of weight 1): common row sum k
        for i in range(24 if tier == "quick" else 400):
            n = rng.randint(3, 6); k = rng.randint(2, n - 1)
            base = rng.sample(range(n), n); shifts = rng.sample(range(n), k)
            X = [[0.0] * n for _ in range(n)]
            for sft in shifts:                      # permutation r -> base[(r + sft) mod n]: pairwise disjoint supports
                for r in range(n): X[r][base[(r + sft) % n]] += 1.0
            yield dict(entry="birkhoff_von_neumann", family="regular01", X=X, itype=bool(i % 3 == 0))

    def matrix(self, case):
        if "prof" in case:
            from socialchoicekit.randomized_allocation import SimultaneousEating
            from socialchoicekit.profile_utils import StrictCompleteProfile
            return np.array(SimultaneousEating(zero_indexed=True).bistochastic(StrictCompleteProfile.of(np.array(case["prof"])), np.array(case["speeds"], dtype=float)))
        if case.get("itype"):
            return lay(np.array(case["X"]).astype(int), case.get("layout"))
        return lay(np.array(case["X"], dtype=float).astype(case.get("mdtype", "float64")), case.get("layout"))

    def run(self, case):
        import socialchoicekit.flow as F
        from socialchoicekit.bistochastic import birkhoff_von_neumann, positivity_graph
        st = {"depth": 0, "top": 0, "max": 0}
        orig = F.dfs_path
        def wrap(Gf, cur, sink, vis):
            if st["depth"] == 0: st["top"] += 1
            st["depth"] += 1
            try: return orig(Gf, cur, sink, vis)
            finally: st["depth"] -= 1
        origff = F.ford_fulkerson
        def ffwrap(G, s, t):
            st["top"] = 0
            r = origff(G, s, t)
            st["max"] = max(st["max"], st["top"])
            return r
        def go():
            X = self.matrix(case); X0 = X.copy()
            pg = positivity_graph(X)
            D = birkhoff_von_neumann(X)
            return X0, X, pg, D
        F.dfs_path = wrap; F.ford_fulkerson = ffwrap
        try:
            r = supervised(go, self.deadline)
        finally:
            F.dfs_path = orig; F.ford_fulkerson = origff
        if r[0] != "ok":
            return dict(status=r[0], err=(r[1] if len(r) > 1 else ""), msg=(r[2] if len(r) > 2 else ""))
        X0, X, pg, D = r[1]
        try:
            terms = [[float(z), np.asarray(P).tolist()] for z, P in D]
        except Exception:  # noqa
            return dict(status="malformed", msg=repr(D)[:200])
        return dict(status="ok", X0=X0.tolist(), terms=terms, fuel=st["max"] + 2, pg=[[int(k), [int(v) for v in l]] for k, l in pg.items()],
                    mutated=not (X.dtype == X0.dtype and X.tobytes() == X0.tobytes()))

    def oracle(self, case, obs):
        if obs["status"] != "ok":
            return ("no_result", "birkhoff_von_neumann failed: %s %s %s" % (obs["status"], obs.get("err"), obs.get("msg")))
        X0 = obs["X0"]; n = len(X0); terms = obs["terms"]
        if len(terms) > n * n:
            return ("too_many_terms", "%d terms for n=%d" % (len(terms), n))
        rec = [[0.0] * n for _ in range(n)]
        for z, P in terms:
            if not z > 0:
                return ("nonpositive_coefficient", "coefficient %r" % z)
            for i in range(n):
                if sorted(P[i]) != [0.0] * (n - 1) + [1.0]:
                    return ("not_permutation_matrix", "row %d of a term is %r" % (i, P[i]))
            for j in range(n):
                if sum(P[i][j] for i in range(n)) != 1:
                    return ("not_permutation_matrix", "column %d of a term does not contain exactly one 1" % j)
            for i in range(n):
                for j in range(n):
                    rec[i][j] += z * P[i][j]
        for i in range(n):
            for j in range(n):
                if abs(rec[i][j] - X0[i][j]) > 1e-6:
                    return ("reconstruction", "entry (%d,%d): input %r, weighted sum %r" % (i, j, X0[i][j], rec[i][j]))
        s = sum(X0[0])
        if abs(sum(z for z, _ in terms) - s) > 1e-6:
            return ("coefficient_sum", "coefficients add up to %r, row sum is %r" % (sum(z for z, _ in terms), s))
        if obs.get("mutated"):
            return ("mutated_argument", "the matrix passed to birkhoff_von_neumann was modified")
        return None

    def finish(self, records):
        return []

    def coq(self, case, obs):
        X0 = obs["X0"]; n = len(X0)
        if not all(is_dyadic(x) for row in X0 for x in row):
            # positivity graph only
            return ("pg", ct(cl([cl([cq(frac(x)) for x in row]) for row in X0]), cl([ct(cz(k), cl([cz(v) for v in l])) for k, l in obs["pg"]])))
        dec = cl([ct(cq(frac(z)), cl([ct(cz(i), cz(P[i].index(1.0) + n)) for i in range(n)])) for z, P in obs["terms"]])
        return ("bvn", ct(cl([cl([cq(frac(x)) for x in row]) for row in X0]), cn(obs["fuel"]), dec))

    def coq_info(self, case, obs):
        """the hypothesis of gen_bvn_is_model (BvNSnap.bvn_ok) evaluated by the kernel on the dyadic cases"""
        lit = self.coq(case, obs)
        return ("bvnok", lit[1]) if lit is not None and lit[0] == "bvn" else None

    def nontrivial(self, case, obs):
        return obs["status"] == "ok" and len(obs["terms"]) >= 2

PROP = C06()
