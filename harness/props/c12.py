"""C12 — Copeland and STV follow their definitions."""
from ..core import *
from ..runner import Prop, Group
from . import voting_common as V

REQ = "From SCK Require Import Voting VoteExt RunVote."

def copeland_ref(P):
    n, m = len(P), len(P[0])
    sc = []
    for i in range(m):
        s = 0
        for j in range(m):
            a = sum(1 for row in P if row[i] < row[j]); b = sum(1 for row in P if row[j] < row[i])
            s += (a > b) - (b > a)
        sc.append(s)
    return sc

def stv_replay(P, picks_or_first):
    """reference STV on restricted ballots. picks_or_first: None for 'first', else list of chosen *positions* recorded.
    returns (winner index 0-based, error or None, had_tie)"""
    m = len(P[0]); remaining = list(range(m)); had_tie = False; k = 0
    while len(remaining) > 1:
        counts = []
        for a in remaining:
            counts.append(sum(1 for row in P if min(remaining, key=lambda x: row[x]) == a))
        mn = min(counts); cand = [i for i, c in enumerate(counts) if c == mn]
        if len(cand) > 1: had_tie = True
        if picks_or_first is None:
            pos = cand[0]
        else:
            if k >= len(picks_or_first): return None, "fewer tie-break draws than eliminations", had_tie
            pop, pos = picks_or_first[k]; k += 1
            if sorted(pop) != cand: return None, "candidates handed to the tie-breaker %r are not the minimal alternatives %r" % (pop, cand), had_tie
            if pos not in cand: return None, "eliminated position %r is not minimal" % pos, had_tie
        remaining.pop(pos)
    return remaining[0], None, had_tie

class C12(Prop):
    layouts = True
    translators = ['copeland', 'stv', 'validators', 'wrappers']   # Copeland.score regenerated from deterministic_tournament.py on every run
    pid = "C12"
    sources = ["socialchoicekit/deterministic_tournament.py", "socialchoicekit/deterministic_multiround.py", "socialchoicekit/utils.py"]
    groups = {
        "cop": Group("cop", REQ, "RunVote.cop_case", "RunVote.chk_cop"),
        "scf": Group("scf", REQ, "RunVote.scf_case", "RunVote.chk_scf"),
        "swf": Group("swf", REQ, "RunVote.swf_case", "RunVote.chk_swf"),
        "stv": Group("stv", REQ, "RunVote.stv_case", "RunVote.chk_stv"),
    }
    rule = ("exhaustive: all complete strict profiles n<=3, m<=3 (quick) / up to n<=4, m<=4 slices (thorough), Copeland score/scf/swf and STV with 'first' and 'random' "
            "(every np.random.choice draw recorded); structured: even splits, Condorcet cycles, strict-majority favourites; random n<=40, m<=8. "
            "Non-trivial = Copeland scores not all equal / STV needs at least two eliminations; distinct by input hash")
    trusted_base = ["model Voting.v (copeland, stv_loop, drop_alt) of deterministic_tournament.py:101-113 and deterministic_multiround.py:55-68",
                    "random tie-breaks: the sampler is an oracle; its recorded picks are replayed by the model, the theorems quantify over all picks"]
    assumptions = ["profiles are complete and strict"]

    def cases(self, rng, tier):
        cnt = 0
        sizes = [(1, 2), (2, 2), (3, 2), (1, 3), (2, 3), (3, 3)] if tier == "quick" else [(2, 2), (3, 3), (4, 3), (2, 4), (3, 4), (4, 4)]
        for n, m in sizes:
            profs = list(V.perm_profiles(n, m))
            if len(profs) > 2500: profs = rng.sample(profs, 2500)
            for P in profs:
                cnt += 1
                P = [list(r) for r in P]
                yield dict(entry="Copeland." + ["score", "scf", "swf"][cnt % 3], family="exh", rule="Copeland", method=["score", "scf", "swf"][cnt % 3],
                           P=P, zi=bool(cnt % 2), tb=V.TBS[cnt % 3], k=1)
                yield dict(entry="STV.scf", family="exh", rule="STV", method="scf", P=P, zi=bool(cnt % 2), tb=["first", "random"][cnt % 2], k=1, seed=cnt)
        # more than ten alternatives: every alternative but one has exactly one first place (so the one without must be eliminated first, and it sits at a high index
        # or a low one), the others follow in cyclic order; and random profiles of that width
        for i in range(30 if tier == "quick" else 500):
            m = [11, 12, 13, 11, 12][i % 5]
            if i % 3 == 2:
                P = V.rand_profile(rng, rng.randint(5, 14), m)
            else:
                loser = (m - 1) if i % 2 == 0 else rng.randrange(m)
                firsts = [a for a in range(m) if a != loser]
                if i % 3 == 1: rng.shuffle(firsts)
                P = []
                for a in firsts:
                    order = [a, loser] + [x for x in [(a + d) % m for d in range(1, m)] if x != loser]
                    row = [0] * m
                    for pos, alt in enumerate(order): row[alt] = pos + 1
                    P.append(row)
            yield dict(entry="STV.scf", family="many_alternatives", rule="STV", method="scf", P=P, zi=bool(i % 2), tb=["first", "first", "random"][i % 3], k=1, seed=i)
            if i % 4 == 0:
                yield dict(entry="Copeland.scf", family="many_alternatives", rule="Copeland", method="scf", P=P, zi=bool(i % 2), tb=V.TBS[i % 3], k=1)
        # electorates of several hundred voters (ballots with multiplicities, shuffled), close pairwise majorities
        for i in range(40 if tier == "quick" else 500):
            m = rng.randint(2, 5); total = rng.choice([257, 300, 511, 513, 600, 1000, 1500])
            ballots = [rng.sample(range(1, m + 1), m) for _ in range(rng.randint(2, 5))]
            cuts = sorted(rng.sample(range(1, total), len(ballots) - 1)) if i % 2 else [total * (j + 1) // len(ballots) + rng.choice([-1, 0, 1]) for j in range(len(ballots) - 1)]
            mults = [b - a for a, b in zip([0] + cuts, cuts + [total])]
            if min(mults) <= 0: continue
            P = [list(b) for b, w in zip(ballots, mults) for _ in range(w)]
            if i % 3 == 0: rng.shuffle(P)
            yield dict(entry="Copeland." + ["score", "scf", "swf"][i % 3], family="big", rule="Copeland", method=["score", "scf", "swf"][i % 3], P=P, zi=bool(i % 2), tb=V.TBS[i % 3], k=1)
            if i % 4 == 0:
                yield dict(entry="STV.scf", family="big", rule="STV", method="scf", P=P, zi=bool(i % 2), tb="first", k=1, seed=i)
        # ranks stored as half / single precision floats by the caller, electorates around the size at which the SUM of all ranks leaves the range of
        # a half-precision float (65504): the ranks themselves are small exact numbers in every float type
        import math
        for i in range(6 if tier == "quick" else 60):
            # (at most 2047 voters: pairwise tallies are integers up to the number of voters, and half precision holds the integers up to 2048 exactly; beyond
            #  that numpy's reductions - carried out in the dtype of the array - are inexact by design: outside the domain, DESIGN.md 10.7)
            m = [8, 10, 9][i % 3]; per = m * (m + 1) // 2
            total = math.ceil(65520 / per) + [-1, 0, 1, 7, -40, 150][i % 6]
            ballots = [rng.sample(range(1, m + 1), m) for _ in range(3)]
            w0 = total // 2 + 1 if i % 2 else total // 3
            mults = [w0, (total - w0) // 2, total - w0 - (total - w0) // 2]
            P = [list(b) for b, w in zip(ballots, mults) for _ in range(w)]
            dt = ["float16", "float16", "float32"][i % 3]
            yield dict(entry="Copeland.score", family="narrow_float_big", rule="Copeland", method="score", P=P, zi=bool(i % 2), tb="accept", k=1, dtype=dt)
            yield dict(entry="STV.scf", family="narrow_float_big", rule="STV", method="scf", P=P, zi=bool(i % 2), tb="first", k=1, seed=i, dtype=dt)
        N = 300 if tier == "quick" else 6000
        for i in range(N):
            kind = rng.choice(["random", "random", "majority", "split", "cycle"])
            n = rng.randint(1, 40); m = rng.randint(2, 8)
            P = V.rand_profile(rng, n, m)
            if kind == "majority":
                fav = rng.randrange(m)
                for row in P[: n // 2 + 1]:
                    j = row.index(1); row[j], row[fav] = row[fav], row[j]
            elif kind == "split":
                n = 2 * rng.randint(1, 10); base = V.rand_profile(rng, n // 2, m)
                P = base + [[m + 1 - x for x in row] for row in base]
            elif kind == "cycle":
                m = rng.randint(3, 6); P = [[((j - s) % m) + 1 for j in range(m)] for s in range(m)] * rng.randint(1, 3)
            rng.shuffle(P)
            dt = rng.choice(["int64", "int32", "float"])
            c1 = dict(entry="Copeland." + ["score", "scf", "swf"][i % 3], family=kind, rule="Copeland", method=["score", "scf", "swf"][i % 3],
                      P=P, zi=bool(i % 2), tb=V.TBS[i % 3], k=1, dtype=dt)
            c2 = dict(entry="STV.scf", family=kind, rule="STV", method="scf", P=P, zi=bool(i % 2), tb=["first", "random"][i % 2], k=1, seed=i, dtype=dt)
            if i % 5 == 0:       # history: same rule object, same profile object, ballots revised in place between two calls
                other = V.rand_profile(rng, len(P), m)
                c1["inplace_first"] = other; c2["inplace_first"] = other; c1["family"] = c2["family"] = kind + "_history"
            yield c1
            yield c2

    def shrink(self, case):
        if len(case["P"]) <= 1: return
        for i in range(len(case["P"])):
            yield dict(case, P=[r for j, r in enumerate(case["P"]) if j != i])

    def run(self, case):
        return V.run_vote(case, seed=case.get("seed"))

    def stv_picks(self, obs):
        picks = []
        for ch in obs["choices"]:
            if ch["p"] is None and ch["r"] in ch["a"]:
                picks.append((ch["a"], ch["r"]))
        return picks

    def oracle(self, case, obs):
        if obs["status"] != "ok":
            return ("no_result", "%s failed: %s %s %s" % (case["entry"], obs["status"], obs.get("err"), obs.get("msg")))
        P = case["P"]; m = len(P[0]); fix = 0 if case["zi"] else 1
        if case["rule"] == "Copeland":
            sc = obs["out"] if case["method"] == "score" else obs["score"]
            ref = copeland_ref(P)
            if [float(x) for x in sc] != [float(x) for x in ref]:
                return ("wrong_copeland_score", "Copeland scores %r, by definition %r" % (sc, ref))
            if case["method"] == "scf":
                mx = max(ref); maxi = [j + fix for j in range(m) if ref[j] == mx]
                out = obs["out"]
                ok = (out == maxi) if case["tb"] == "accept" else (out == maxi[0]) if case["tb"] == "first" else (out in maxi)
                if not ok:
                    return ("wrong_winners", "Copeland winners %r but maximisers %r" % (out, maxi))
                cw = [i for i in range(m) if all(i == j or sum(1 for r in P if r[i] < r[j]) > sum(1 for r in P if r[j] < r[i]) for j in range(m))]
                if cw and maxi != [cw[0] + fix]:
                    return ("condorcet_loser", "Condorcet winner %d is not the unique Copeland winner" % cw[0])
            if case["method"] == "swf":
                alts = [int(a) for a in obs["out"][0]]; scs = obs["out"][1]
                if sorted(alts) != list(range(fix, m + fix)) or any(scs[i] < scs[i + 1] for i in range(m - 1)) or any(scs[i] != ref[alts[i] - fix] for i in range(m)):
                    return ("bad_ranking", "Copeland ranking is not a score-sorted permutation carrying the scores")
        else:
            picks = None if case["tb"] == "first" else self.stv_picks(obs)
            w, err, _ = stv_replay(P, picks)
            if err:
                return ("illegal_elimination", err)
            if obs["out"] != w + fix:
                return ("wrong_stv_winner", "STV returned %r, the surviving alternative is %r" % (obs["out"], w + fix))
            n = len(P)
            for a in range(m):
                if 2 * sum(1 for r in P if r[a] == 1) > n and obs["out"] != a + fix:
                    return ("majority_loser", "alternative %d is ranked first by a strict majority but did not win" % a)
        if obs.get("mutated"):
            return ("mutated_argument", "the profile was modified")
        return None

    def coq(self, case, obs):
        if case["family"] == "narrow_float_big": return None      # (ten thousand ballots: decided by the direct oracle)
        fix = 0 if case["zi"] else 1
        if case["rule"] == "STV":
            picks = [0] * len(case["P"][0]) if case["tb"] == "first" else [pop.index(r) for pop, r in self.stv_picks(obs)] + [0]
            return ("stv", ct(V.cP(case["P"]), cz(fix), cl([cn(x) for x in picks]), cz(obs["out"])))
        if case["method"] == "score":
            return ("cop", ct(V.cP(case["P"]), cl([cz(int(x)) for x in obs["out"]])))
        sc = obs["score"]
        if case["method"] == "scf":
            out = obs["out"]; pick = 0
            if case["tb"] == "random":
                ch = obs["choices"][-1]; pick = ch["a"].index(ch["r"])
            o = "(Voting.OList %s)" % cl([cz(x) for x in out]) if isinstance(out, list) else "(Voting.OOne %s)" % cz(out)
            return ("scf", ct(V.cQl(sc), cz(fix), cn(V.TBS.index(case["tb"])), "true", cn(pick), o))
        return ("swf", ct(V.cQl(sc), cz(fix), cl([cz(int(a)) for a in obs["out"][0]]), V.cQl(obs["out"][1])))

    def nontrivial(self, case, obs):
        if obs["status"] != "ok": return False
        if case["rule"] == "STV": return len(case["P"][0]) >= 3
        sc = obs["out"] if case["method"] == "score" else obs["score"]
        return len(set(sc)) >= 2

PROP = C12()
