"""C19 — PrefLib instances are converted faithfully."""
import os, io, contextlib, tempfile
import numpy as np
from ..core import *
from ..runner import Prop, Group

KINDS = ["soc", "soi", "toc", "toi", "cat"]
TBS = ["accept", "first", "random"]

def header(kind, m, votes, ncat=0):
    lines = ["# FILE NAME: x.%s" % kind, "# TITLE: t", "# DESCRIPTION:", "# DATA TYPE: %s" % kind, "# MODIFICATION TYPE: synthetic", "# RELATES TO:", "# RELATED FILES:",
             "# PUBLICATION DATE: 2020-01-01", "# MODIFICATION DATE: 2020-01-01", "# NUMBER ALTERNATIVES: %d" % m, "# NUMBER VOTERS: %d" % sum(v[0] for v in votes)]
    if kind == "cat":
        lines += ["# NUMBER UNIQUE PREFERENCES: %d" % len(votes), "# NUMBER CATEGORIES: %d" % ncat] + ["# CATEGORY NAME %d: c%d" % (c, c) for c in range(1, ncat + 1)]
    else:
        lines.append("# NUMBER UNIQUE ORDERS: %d" % len(votes))
    lines += ["# ALTERNATIVE NAME %d: a%d" % (a, a) for a in range(1, m + 1)]
    return lines

def file_text(kind, m, votes, ncat=0):
    lines = header(kind, m, votes, ncat)
    for mult, order in votes:
        if kind == "cat":
            lines.append("%d: %s" % (mult, ",".join("{" + ",".join(map(str, c)) + "}" for c in order)))
        else:
            lines.append("%d: %s" % (mult, ",".join(str(c[0]) if len(c) == 1 else "{" + ",".join(map(str, c)) + "}" for c in order)))
    return "\n".join(lines) + "\n" + ("\n" if not votes else "")      # (a header-only file needs one trailing empty line to be parsed)

class C19(Prop):
    translators = ['preflib']   # the five converters regenerated from preflib_utils.py on every run
    pid = "C19"
    sources = ["socialchoicekit/preflib_utils.py"]
    groups = {"pl": Group("pl", "From SCK Require Import Preflib.", "Preflib.pl_case", "Preflib.chk_pl")}
    rule = ("randomly generated instances of all five kinds (SoC, SoI, ToC, ToI, categorical) written in PrefLib file syntax and parsed locally by preflibtools: 1..8 alternatives, up to 6 distinct "
            "orders, multiplicities 1..4, class sizes 1..4, empty categories; every converter x {accept, first, random}; each ordinal instance is also handed to a converter of another type "
            "(must raise ValueError). The model receives the library's own parsed structure. Non-trivial = some multiplicity > 1 or a class of size > 1 or an unlisted alternative; distinct by input hash")
    trusted_base = ["model Preflib.v over the parsed structure (orders as lists of indifference classes with multiplicities, in the library's iteration order); preflibtools' parser is trusted",
                    "'random': numpy's shuffle is an oracle; outputs are validated (bijection inside each class) rather than compared"]
    assumptions = ["well-formed PrefLib files; alternatives numbered 1..m"]

    def cases(self, rng, tier):
        N = 260 if tier == "quick" else 5000
        for i in range(N):
            kind = KINDS[i % 5]; m = rng.randint(1, 8)
            votes = []; seen = set(); ncat = 0
            if kind == "cat":
                ncat = rng.randint(1, 4)
                for _ in range(rng.randint(1, 6)):
                    alts = list(range(1, m + 1)); rng.shuffle(alts); alts = alts[:rng.randint(0, m)]
                    cats = [[] for _ in range(ncat)]
                    for a in alts: cats[rng.randrange(ncat)].append(a)
                    key = tuple(tuple(c) for c in cats)
                    if key in seen or not any(cats): continue
                    seen.add(key); votes.append((rng.randint(1, 4), cats))
            else:
                for _ in range(rng.randint(1, 6)):
                    alts = list(range(1, m + 1)); rng.shuffle(alts)
                    if kind in ("soi", "toi"): alts = alts[:rng.randint(1, m)]
                    if kind in ("soc", "soi"): order = [[a] for a in alts]
                    else:
                        order = []; j = 0
                        while j < len(alts):
                            k = rng.randint(1, 4); order.append(alts[j:j + k]); j += k
                    key = tuple(tuple(c) for c in order)
                    if key in seen: continue
                    seen.add(key); votes.append((rng.randint(1, 4), order))
            if not votes: continue
            tb = TBS[(i // 5) % 3]
            wrong = None
            if i % 4 == 0:
                wrong = rng.choice([k for k in KINDS if k != kind])
            yield dict(entry="preflib_%s_to_profile" % {"cat": "categorical"}.get(wrong or kind, wrong or kind), family=kind + ("_wrongtype" if wrong else ""),
                       kind=kind, m=m, votes=votes, ncat=ncat, tb=tb, call=(wrong or kind), seed=i, twice=(wrong is None and i % 3 == 1))

        # look-alikes: the file is labelled with one ordinal data type but every order in it is strict and complete (or complete with ties), so its
        # CONTENT would also be a valid instance of another type; the converter of that other type must still reject it by its declared type
        for i in range(48 if tier == "quick" else 600):
            kind = ["soi", "toc", "toi", "soc"][i % 4]; m = rng.randint(1, 6)
            votes = []; seen = set()
            for _ in range(rng.randint(1, 5)):
                alts = list(range(1, m + 1)); rng.shuffle(alts)
                if kind == "toi" and i % 8 >= 4:      # complete with ties: content-wise a ToC instance
                    order = []; j = 0
                    while j < len(alts):
                        k = rng.randint(1, 3); order.append(alts[j:j + k]); j += k
                else:
                    order = [[a] for a in alts]
                key = tuple(tuple(c) for c in order)
                if key in seen: continue
                seen.add(key); votes.append((rng.randint(1, 3), order))
            wrong = [k for k in ("soc", "soi", "toc", "toi") if k != kind][(i // 4) % 3]
            yield dict(entry="preflib_%s_to_profile" % wrong, family=kind + "_lookalike_wrongtype", kind=kind, m=m, votes=votes, ncat=0, tb=TBS[i % 3], call=wrong, seed=i, twice=False)

        # degenerate containers: an instance without a single ballot (header only), handed to a converter of ANOTHER type - still the wrong type
        for i in range(12 if tier == "quick" else 60):
            kind = ["soi", "toc", "toi", "soc"][i % 4]; m = rng.randint(1, 5)
            wrong = [k for k in ("soc", "soi", "toc", "toi") if k != kind][(i // 4) % 3]
            yield dict(entry="preflib_%s_to_profile" % wrong, family=kind + "_empty_wrongtype", kind=kind, m=m, votes=[], ncat=0, tb=TBS[i % 3], call=wrong, seed=i, twice=False)

    def run(self, case):
        from preflibtools.instances import OrdinalInstance, CategoricalInstance
        import socialchoicekit.preflib_utils as PL
        kind = case["kind"]
        d = tempfile.mkdtemp(dir=os.path.join(VERIF, "work") if os.path.isdir(os.path.join(VERIF, "work")) else None)
        p = os.path.join(d, "x." + kind)
        open(p, "w").write(file_text(kind, case["m"], case["votes"], case["ncat"]))
        try:
            inst = CategoricalInstance() if kind == "cat" else OrdinalInstance()
            with contextlib.redirect_stdout(io.StringIO()):
                inst.parse_file(p)
        finally:
            os.remove(p); os.rmdir(d)
        if kind == "cat":
            lib = [[[list(c) for c in pref], inst.multiplicity[pref]] for pref in inst.preferences]
        elif kind in ("soc", "soi"):
            with contextlib.redirect_stdout(io.StringIO()):
                lib = [[[[a] for a in order], mult] for order, mult in inst.flatten_strict()]
        else:
            lib = [[[list(c) for c in order], mult] for order, mult in inst.vote_map().items()]
        def conv():
            c = case["call"]
            if c == "soc": return PL.preflib_soc_to_profile(inst)
            if c == "soi": return PL.preflib_soi_to_profile(inst)
            if c == "toc": return PL.preflib_toc_to_profile(inst, case["tb"])
            if c == "toi": return PL.preflib_toi_to_profile(inst, case["tb"])
            return PL.preflib_categorical_to_profile(inst, case["tb"])
        def go():
            np.random.seed(case["seed"])
            with contextlib.redirect_stdout(io.StringIO()):
                if case.get("twice"):      # history: the same instance object was converted before and the caller edited that result in place
                    try:
                        o1 = conv(); o1[...] = case["m"]
                    except Exception:  # noqa
                        pass
                    np.random.seed(case["seed"])
                o = conv()
            return [[None if x != x else int(x) for x in row] for row in np.asarray(o, dtype=float).tolist()]
        r = supervised(go, 10.0)
        if r[0] != "ok":
            return dict(status=r[0], err=(r[1] if len(r) > 1 else ""), msg=(r[2] if len(r) > 2 else ""), lib=lib)
        return dict(status="ok", rows=r[1], lib=lib)

    def oracle(self, case, obs):
        kind = case["kind"]; m = case["m"]
        if case["call"] != kind:
            if obs["status"] == "err" and obs["err"] in ("ValueError", "TypeError", "AttributeError"): return None
            return ("wrong_type_accepted", "a %s instance was accepted by the %s converter (%s)" % (kind, case["call"], obs["status"]))
        if obs["status"] != "ok":
            return ("no_result", "%s failed: %s %s %s" % (case["entry"], obs["status"], obs.get("err"), obs.get("msg")))
        rows = obs["rows"]; exp = []
        # independent reference straight from the generated votes (file order = library order for these files)
        votes = case["votes"]
        if len(rows) != sum(mu for mu, _ in votes):
            return ("row_count", "%d rows for %d voters" % (len(rows), sum(mu for mu, _ in votes)))
        pos = 0
        for order, mult in obs["lib"]:
            for _ in range(mult):
                row = rows[pos]; pos += 1
                if len(row) != m: return ("row_length", "row has %d entries for %d alternatives" % (len(row), m))
                cur = 1; listed = set()
                for cls in order:
                    if not cls: continue
                    got = [row[a - 1] for a in cls]; listed |= set(cls)
                    tb = case["tb"] if kind in ("toc", "toi", "cat") else "first"
                    if tb == "accept":
                        if any(g != cur for g in got): return ("wrong_position", "class %r should share position %d, got %r" % (cls, cur, got))
                    elif tb == "first":
                        want = {a: cur + k for k, a in enumerate(sorted(cls))}
                        if any(row[a - 1] != want[a] for a in cls): return ("wrong_position", "class %r should be ranked by alternative number from %d, got %r" % (cls, cur, got))
                    else:
                        if sorted(got) != list(range(cur, cur + len(cls))): return ("wrong_position", "class %r should occupy positions %d.., got %r" % (cls, cur, got))
                    cur += len(cls)
                for a in range(1, m + 1):
                    if a not in listed and row[a - 1] is not None:
                        return ("unlisted_not_nan", "alternative %d is not listed but has rank %r" % (a, row[a - 1]))
        # multiplicities: the library's structure must account for the file's votes
        if sorted(mult for _, mult in obs["lib"]) != sorted(mu for mu, _ in votes) and kind not in ("soc", "soi"):
            return ("multiplicity", "multiplicities differ from the file")
        return None

    def coq(self, case, obs):
        ki = KINDS.index(case["kind"]); want = KINDS.index(case["call"])
        votes = cl([ct(cl([cl([cz(a) for a in c]) for c in order]), cn(mult)) for order, mult in obs["lib"]])
        pol = TBS.index(case["tb"]) if case["kind"] in ("toc", "toi", "cat") else 1
        if obs["status"] == "ok":
            e = "(Some %s)" % cl([cl([copt(x, cz) for x in row]) for row in obs["rows"]])
        elif obs.get("err") in ("ValueError", "TypeError", "AttributeError"):
            e = "None"
        else:
            return None
        return ("pl", ct(cn(want), cn(ki), cn(pol), cn(case["m"]), votes, e))

    def nontrivial(self, case, obs):
        return any(mu > 1 for mu, _ in case["votes"]) or any(len(c) > 1 for _, o in case["votes"] for c in o)

PROP = C19()
