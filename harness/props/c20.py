"""C20 — rules do not modify their inputs and do not depend on the rank dtype."""
import copy, io, contextlib
from fractions import Fraction
import numpy as np
from ..core import *
from ..runner import Prop, Group
from . import elicit_common as E

def snap(x):
    if isinstance(x, np.ndarray):
        return ("nd", str(x.dtype), x.shape, x.tobytes())
    if isinstance(x, dict):
        return ("dict", tuple((k, snap(v)) for k, v in x.items()))
    if isinstance(x, (list, tuple)):
        return ("seq", tuple(snap(v) for v in x))
    if isinstance(x, (set, frozenset)):
        return ("set", tuple(sorted(repr(v) for v in x)))
    return ("v", repr(x))

def canon(x):
    """numerically comparable plain data"""
    if isinstance(x, np.ndarray):
        return canon(x.tolist())
    if isinstance(x, (list, tuple)):
        return [canon(v) for v in x]
    if isinstance(x, dict):
        return [[canon(k), canon(v)] for k, v in x.items()]
    if isinstance(x, set):
        return sorted(canon(v) for v in x)
    if isinstance(x, (np.integer, int)) and not isinstance(x, bool):
        return float(x)
    if isinstance(x, (np.floating, float)):
        return None if x != x else float(x)
    if isinstance(x, (np.bool_, bool)):
        return bool(x)
    return x

ENTRIES = {}
ZI = True     # index convention used by every entry below (C13's index-shift check runs the entries under both)
def zi():
    return ZI
def entry(name, uses_profile=True):
    def deco(f):
        ENTRIES[name] = (f, uses_profile); return f
    return deco

# each entry: f(rng_case) -> (args list, thunk(args) -> result). Profiles are built with dtype case["dtype"].
def prof(case, key="P"):
    dt = {"int64": np.int64, "int32": np.int32, "float64": np.float64, "int8": np.int8, "int16": np.int16, "uint8": np.uint8, "float32": np.float32}[case["dtype"]]
    return np.array(case[key], dtype=dt)

def _voting(rule, method):
    def f(case):
        import socialchoicekit.deterministic_scoring as DS, socialchoicekit.deterministic_tournament as DT, socialchoicekit.deterministic_multiround as DM
        from socialchoicekit.profile_utils import StrictCompleteProfile, CompleteProfile
        A = prof(case)
        def th(args):
            if rule == "KApproval": r = DS.KApproval(case["k"], "accept", zi())
            elif rule == "Copeland": r = DT.Copeland("accept", zi())
            elif rule == "STV": r = DM.SingleTransferableVote("first", zi())
            else: r = getattr(DS, rule)("accept", zi())
            p = CompleteProfile.of(args[0]) if rule == "STV" else StrictCompleteProfile.of(args[0])
            return getattr(r, method)(p)
        return [A], th
    return f
for _r in ["Plurality", "Borda", "Veto", "KApproval", "Harmonic", "Copeland"]:
    for _m in ["score", "scf", "swf"]:
        ENTRIES["%s.%s" % (_r, _m)] = (_voting(_r, _m), True)
ENTRIES["STV.scf"] = (_voting("STV", "scf"), True)

def _rand(rule):
    def f(case):
        import socialchoicekit.randomized_scoring as RS
        from socialchoicekit.profile_utils import StrictCompleteProfile
        A = prof(case)
        def th(args):
            np.random.seed(case["seed"])
            r = RS.RandomizedKApproval(case["k"], zi()) if rule == "RandomizedKApproval" else getattr(RS, rule)(zi())
            return r.scf(StrictCompleteProfile.of(args[0]))
        return [A], th
    return f
for _r in ["RandomizedPlurality", "RandomizedBorda", "RandomizedKApproval", "RandomizedHarmonic"]:
    ENTRIES[_r + ".scf"] = (_rand(_r), True)

@entry("SocialWelfare.scf", False)
def _(case):
    from socialchoicekit.deterministic_scoring import SocialWelfare
    from socialchoicekit.profile_utils import ValuationProfile
    V = np.array(case["V"], dtype=float)
    return [V], lambda a: SocialWelfare("accept", zi()).scf(ValuationProfile.of(a[0]))

@entry("distortion", False)
def _(case):
    from socialchoicekit.distortion import distortion
    from socialchoicekit.profile_utils import ValuationProfile
    V = np.array(case["V"], dtype=float) + 0.01; ch = np.array([1])
    return [ch, V], lambda a: distortion(a[0], ValuationProfile.of(a[1]))

@entry("GaleShapley.scf")
def _(case):
    from socialchoicekit.deterministic_matching import GaleShapley
    from socialchoicekit.profile_utils import StrictProfile
    R, H = prof(case, "SQ1"), prof(case, "SQ2"); c = np.array(case["caps"], dtype=int)      # capacities from 1 up to more than there are residents
    return [R, H, c], lambda a: sorted(GaleShapley(case["seed"] % 2 == 0, zi()).scf(StrictProfile.of(a[0]), StrictProfile.of(a[1]), a[2]))

@entry("Irving.scf")
def _(case):
    from socialchoicekit.deterministic_matching import Irving
    from socialchoicekit.profile_utils import StrictCompleteProfile, IntegerValuationProfile
    P1, P2 = prof(case, "SQ1"), prof(case, "SQ2"); n = P1.shape[0]
    V1 = (n - np.array(case["SQ1"])).astype(np.int64); V2 = (n - np.array(case["SQ2"])).astype(np.int64)
    return [V1, V2, P1, P2], lambda a: sorted(Irving(zi()).scf(IntegerValuationProfile.of(a[0]), IntegerValuationProfile.of(a[1]), StrictCompleteProfile.of(a[2]), StrictCompleteProfile.of(a[3])))

@entry("Irving.stages")
def _(case):
    from socialchoicekit.deterministic_matching import Irving, GaleShapley
    from socialchoicekit.profile_utils import StrictCompleteProfile, IntegerValuationProfile
    P1, P2 = prof(case, "SQ1"), prof(case, "SQ2"); n = P1.shape[0]
    def th(a):
        irv = Irving(True)
        M0 = GaleShapley(True, True).scf(StrictCompleteProfile.of(a[0]), StrictCompleteProfile.of(a[1]), np.ones(n, dtype=int))
        pl1, pl2 = irv.find_initial_preference_lists(M0, a[0] - 1, a[1] - 1)
        i1 = {i: np.array(pl1[i]) for i in range(n)}; i2 = {i: np.array(pl2[i]) for i in range(n)}
        s1, s2 = snap(pl1), snap(pl2)
        rots, el = irv.find_all_rotations_and_eliminations(i1, i2)
        Pp = irv.construct_sparse_rotation_poset_graph(rots, pl1, el)
        ok = (snap(pl1) == s1 and snap(pl2) == s2)
        return [canon(pl1), canon(pl2), rots, canon(Pp), ok]
    return [P1, P2], th

@entry("MaximumWeightMatching.scf", False)
def _(case):
    from socialchoicekit.deterministic_allocation import MaximumWeightMatching
    from socialchoicekit.profile_utils import ValuationProfile
    V = np.array(case["VSQ"], dtype=float)
    return [V], lambda a: MaximumWeightMatching(zi()).scf(ValuationProfile.of(a[0]))

@entry("root_n_serial_dictatorship")
def _(case):
    from socialchoicekit.deterministic_allocation import root_n_serial_dictatorship
    from socialchoicekit.profile_utils import StrictCompleteProfile
    return [prof(case)], lambda a: root_n_serial_dictatorship(StrictCompleteProfile.of(a[0]))

@entry("RandomSerialDictatorship.scf")
def _(case):
    from socialchoicekit.randomized_allocation import RandomSerialDictatorship
    from socialchoicekit.profile_utils import StrictProfile
    def th(a):
        np.random.seed(case["seed"]); return RandomSerialDictatorship(zi()).scf(StrictProfile.of(a[0]))
    return [prof(case)], th

def _eat(which):
    def f(case):
        from socialchoicekit.randomized_allocation import SimultaneousEating, ProbabilisticSerial
        from socialchoicekit.profile_utils import StrictCompleteProfile
        A = prof(case, "SQ1"); sp = np.array(case["speeds"], dtype=float)
        def th(a):
            np.random.seed(case["seed"])
            if which == "se.b": return SimultaneousEating(zi()).bistochastic(StrictCompleteProfile.of(a[0]), a[1])
            if which == "se.s": return SimultaneousEating(zi()).scf(StrictCompleteProfile.of(a[0]), a[1])
            if which == "ps.b": return ProbabilisticSerial(zi()).bistochastic(StrictCompleteProfile.of(a[0]))
            return ProbabilisticSerial(zi()).scf(StrictCompleteProfile.of(a[0]))
        return [A, sp], th
    return f
ENTRIES["SimultaneousEating.bistochastic"] = (_eat("se.b"), True)
ENTRIES["SimultaneousEating.scf"] = (_eat("se.s"), True)
ENTRIES["ProbabilisticSerial.bistochastic"] = (_eat("ps.b"), True)
ENTRIES["ProbabilisticSerial.scf"] = (_eat("ps.s"), True)

@entry("birkhoff_von_neumann", False)
def _(case):
    from socialchoicekit.bistochastic import birkhoff_von_neumann
    return [np.array(case["BS"], dtype=float)], lambda a: [[z, P] for z, P in birkhoff_von_neumann(a[0])]

@entry("positivity_graph", False)
def _(case):
    from socialchoicekit.bistochastic import positivity_graph
    return [np.array(case["BS"], dtype=float)], lambda a: positivity_graph(a[0])

@entry("ford_fulkerson", False)
def _(case):
    from socialchoicekit.flow import ford_fulkerson
    G = {int(k): [(int(v), int(c)) for v, c in a] for k, a in case["G"]}
    return [G], lambda a: (lambda r: [canon(r[0]), sorted(r[1])])(ford_fulkerson(a[0], case["s"], case["t"]))

@entry("maximum_cardinality_matching_bipartite", False)
def _(case):
    from socialchoicekit.flow import maximum_cardinality_matching_bipartite
    G = {int(k): [int(v) for v in a] for k, a in case["BG"]}
    return [G, list(case["BX"]), list(case["BY"])], lambda a: maximum_cardinality_matching_bipartite(a[0], a[1], a[2])

@entry("convert_bipartite_graph_to_flow_network", False)
def _(case):
    from socialchoicekit.flow import convert_bipartite_graph_to_flow_network
    # every other case: only vertices with an outgoing edge are keys of the adjacency dictionary (the function reads it with a default)
    G = {int(k): [int(v) for v in a] for k, a in case["BG"] if (a and int(k) != case["BX"][-1]) or case["seed"] % 2 == 0}      # (the last left vertex is isolated in the sparse variant)
    return [G, list(case["BX"]), list(case["BY"])], lambda a: convert_bipartite_graph_to_flow_network(a[0], a[1], a[2])

@entry("reachable_vertices", False)
def _(case):
    from socialchoicekit.flow import reachable_vertices
    G = {int(k): [(int(v), int(c)) for v, c in a] for k, a in case["G"]}
    return [G], lambda a: sorted(reachable_vertices(a[0], case["s"]))

@entry("capacity_across_cut", False)
def _(case):
    from socialchoicekit.flow import capacity_across_cut
    G = {int(k): [(int(v), int(c)) for v, c in a] for k, a in case["G"]}
    cut = set(u for u, _ in case["G"] if u % 2 == 0) | {case["s"]}
    return [G, cut], lambda a: capacity_across_cut(a[0], a[1])

@entry("flow_across_network", False)
def _(case):
    from socialchoicekit.flow import flow_across_network
    fl = {(int(u), int(v)): int(c) for u, a in case["G"] for v, c in a if v != case["s"]}
    return [fl], lambda a: flow_across_network(a[0], case["s"])

def _elic(rule):
    def f(case):
        from socialchoicekit.profile_utils import StrictCompleteProfile
        sq = rule in ("TSF", "M2Q", "Double")
        A = prof(case, "SQ1" if sq else "P")
        V = case["VSQc"] if sq else case["Vc"]
        def th(a):
            from socialchoicekit.elicitation_voting import KARV, LambdaPRV
            from socialchoicekit.elicitation_allocation import LambdaTSF, MatchTwoQueries
            from socialchoicekit.elicitation_matching import DoubleLambdaTSF
            from socialchoicekit.elicitation_utils import ValuationProfileElicitor, IntegerValuationProfileElicitor
            from socialchoicekit.profile_utils import ValuationProfile, IntegerValuationProfile
            if rule == "Double":
                V1 = np.array(case["ISQ1"], dtype=np.int64); V2 = np.array(case["ISQ2"], dtype=np.int64)
                e1 = IntegerValuationProfileElicitor(IntegerValuationProfile.of(V1)); e2 = IntegerValuationProfileElicitor(IntegerValuationProfile.of(V2))
                B = prof(case, "SQ2")
                return sorted(DoubleLambdaTSF(case["lam"], case["lam"], zi()).scf(StrictCompleteProfile.of(a[0]), StrictCompleteProfile.of(B), e1, e2))
            Vn = np.array(V, dtype=float); el = ValuationProfileElicitor(ValuationProfile.of(Vn))
            p = StrictCompleteProfile.of(a[0])
            if rule == "KARV": return [KARV(case["lam"], "accept", zi()).get_simulated_cardinal_profile(p, el), KARV(case["lam"], "accept", zi()).scf(p, el)]
            if rule == "PRV": return [LambdaPRV(case["lam"], "accept", zi()).score(p, el), LambdaPRV(case["lam"], "accept", zi()).scf(p, el)]
            if rule == "TSF": return [LambdaTSF(case["lam"], zi()).get_simulated_cardinal_profile(p, el), LambdaTSF(case["lam"], zi()).scf(p, el)]
            return [MatchTwoQueries(zi()).get_simulated_cardinal_profile(p, el), MatchTwoQueries(zi()).scf(p, el)]
        return [A], th
    return f
for _r, _n in [("KARV", "KARV"), ("PRV", "LambdaPRV"), ("TSF", "LambdaTSF"), ("M2Q", "MatchTwoQueries"), ("Double", "DoubleLambdaTSF")]:
    ENTRIES[_n] = (_elic(_r), True)

def _pu(op):
    def f(case):
        import socialchoicekit.profile_utils as PU, socialchoicekit.data_generation as DG
        A = prof(case)
        def th(a):
            np.random.seed(case["seed"])
            if op == "complete": return PU.incomplete_profile_to_complete_profile(PU.StrictCompleteProfile.of(a[0]), "first")
            if op == "strict": return PU.profile_with_ties_to_strict_profile(PU.StrictCompleteProfile.of(a[0]), "first")
            if op == "consistent": return PU.is_consistent_valuation_profile(PU.ValuationProfile.of(np.array(case["Vc"], dtype=float)), PU.StrictCompleteProfile.of(a[0]))
            if op == "uniform": return DG.UniformValuationProfileGenerator(1.0, 0.0, seed=case["seed"]).generate(PU.StrictCompleteProfile.of(a[0]))
            return DG.NormalValuationProfileGenerator(1.0, 1.0, seed=case["seed"]).generate(PU.StrictCompleteProfile.of(a[0]))
        return [A], th
    return f
for _o, _n in [("complete", "incomplete_profile_to_complete_profile"), ("strict", "profile_with_ties_to_strict_profile"), ("consistent", "is_consistent_valuation_profile"),
               ("uniform", "UniformValuationProfileGenerator.generate"), ("normal", "NormalValuationProfileGenerator.generate")]:
    ENTRIES[_n] = (_pu(_o), True)

@entry("compute_ordinal_profile", False)
def _(case):
    import socialchoicekit.profile_utils as PU
    V = np.array(case["Vc"], dtype=float)
    return [V], lambda a: PU.compute_ordinal_profile(PU.ValuationProfile.of(a[0]))

@entry("incomplete_valuation_profile_to_complete_valuation_profile", False)
def _(case):
    import socialchoicekit.profile_utils as PU
    V = np.array(case["V"], dtype=float)
    return [V], lambda a: PU.incomplete_valuation_profile_to_complete_valuation_profile(PU.ValuationProfile.of(a[0]))

def _util(name):
    def f(case):
        import socialchoicekit.utils as U
        from socialchoicekit.profile_utils import StrictCompleteProfile, ValuationProfile
        rng = __import__("random").Random(case["seed"])
        if name == "break_tie":
            k = rng.randint(1, 6); alts = rng.sample(range(1, 12), k)      # tied alternatives in an arbitrary order (a caller may pass any array)
            tb = ["first", "accept", "random"][case["seed"] % 3]
            arr = np.array(alts, dtype=[np.int64, np.int32, float][case["seed"] % 3])
            def th(a):
                np.random.seed(case["seed"]); r = U.break_tie(a[0], tb)
                return r if tb != "random" else None      # (the random pick is not compared across runs)
            return [arr], th
        if name == "check_profile":
            A = prof(case); return [A], lambda a: U.check_profile(StrictCompleteProfile.of(a[0]), is_complete=True, is_strict=True)
        if name == "check_valuation_profile":
            Vv = np.array(case["Vc"], dtype=float); return [Vv], lambda a: U.check_valuation_profile(ValuationProfile.of(a[0]), is_complete=True)
        if name == "check_square_matrix":
            B = np.array(case["BS"], dtype=float); return [B], lambda a: U.check_square_matrix(a[0])
        if name == "check_graph":
            G = {int(k): [int(v) for v, _ in a] for k, a in case["G"]}; return [G], lambda a: U.check_graph(a[0])
        G = {int(k): [int(v) for v in a] for k, a in case["BG"]}
        return [G, list(case["BX"]), list(case["BY"])], lambda a: U.check_bipartite_graph(a[0], a[1], a[2])
    return f
for _n in ("break_tie", "check_profile", "check_valuation_profile", "check_square_matrix", "check_graph", "check_bipartite_graph"):
    ENTRIES[_n] = (_util(_n), _n == "check_profile")

class C20(Prop):
    translators = ['posgraph', 'flow', 'bip', 'wrappers', 'flowhelpers']   # regenerated from the source on every run (harness/translate.py)
    pid = "C20"
    sources = ["socialchoicekit/bistochastic.py", "socialchoicekit/randomized_allocation.py", "socialchoicekit/deterministic_matching.py", "socialchoicekit/profile_utils.py",
               "socialchoicekit/elicitation_allocation.py", "socialchoicekit/flow.py"]
    groups = {}
    level = "proof"
    rule = ("every public entry point of every module (%d entry points) on random valid arguments: all arguments (arrays: dtype, shape, bytes; dicts/lists: deep structure) are snapshotted before and "
            "compared after the call; every entry point that takes a complete profile is run under int32, int64 and float64 encodings of the same ranks (same seed) and the three outcomes "
            "(canonicalised result or exception class) must coincide. This half is a runtime monitor, not a proof. Non-trivial = profile with >= 2 rows and columns; distinct by input hash") % 0
    trusted_base = ["the theorem content for C20 is small (store-passing model of the in-place decomposition: the repaired routine leaves the caller's matrix unchanged, the pinned one is refuted); "
                    "everything else is decided by monitoring the implementation: argument snapshots around every call and three rank encodings per call"]
    assumptions = ["valid arguments; ranks < 2^24 so that all three encodings represent them exactly"]

    def __init__(self):
        self.rule = self.rule.replace("(0 entry points)", "(%d entry points)" % len(ENTRIES))

    def cases(self, rng, tier):
        names = sorted(ENTRIES)
        reps = 6 if tier == "quick" else 80
        k = 0
        for rep in range(reps):
            for name in names:
                k += 1
                n = rng.randint(1, 5); m = rng.randint(2, 6); q = rng.randint(2, 5) if rep % 3 else rng.randint(6, 9)
                if rep % 3 == 1: n = rng.randint(90, 140)     # electorates whose column totals exceed the range of the small integer types
                P = [rng.sample(range(1, m + 1), m) for _ in range(n)]
                SQ1 = [rng.sample(range(1, q + 1), q) for _ in range(q)]; SQ2 = [rng.sample(range(1, q + 1), q) for _ in range(q)]
                if rep % 3 == 0:      # everybody shares one list: the later agents are served far down their ranking
                    SQ1 = [list(SQ1[0]) for _ in range(q)]
                def cons(Pm):
                    out = []
                    for row in Pm:
                        vals = sorted([rng.random() for _ in row], reverse=True); out.append([vals[r - 1] for r in row])
                    return out
                def icons(Pm):
                    out = []
                    for row in Pm:
                        vals = sorted([rng.randint(0, 9) for _ in row], reverse=True); out.append([vals[r - 1] for r in row])
                    return out
                perms = [rng.sample(range(q), q) for _ in range(3)]; BS = [[0.0] * q for _ in range(q)]
                # weights of the convex combination: quarters, or one dominant permutation next to weights of 1e-10 .. 1e-300 (entries far below every tolerance in the code)
                tiny = rng.choice([1e-10, 1e-12, 1e-300, 5.5e-17]) if rep % 2 else None
                wts = [0.25, 0.25, 0.25, 0.25] if tiny is None else [tiny, tiny, 0.0, 1.0 - 2 * tiny]
                for pm, wq in zip(perms, wts):
                    for i in range(q): BS[i][pm[i]] += wq
                for i in range(q): BS[i][perms[0][i]] += wts[3]
                G = {i: [] for i in range(q)}
                for u in range(q):
                    for v in range(q):
                        if u != v and rng.random() < .5: G[u].append([v, rng.randint(0, 3)])
                X = list(range(q)); Y = list(range(q, 2 * q)); BG = {v: [] for v in X + Y}
                for x in X:
                    for y in Y:
                        if rng.random() < .4: BG[x].append(y)
                yield dict(entry=name, family="monitor", name=name, P=P, SQ1=SQ1, SQ2=SQ2, V=[[rng.random() if rng.random() > .2 else None for _ in range(m)] for _ in range(n)],
                           Vc=cons(P), VSQ=[[rng.random() for _ in range(q)] for _ in range(q)], VSQc=cons(SQ1), ISQ1=icons(SQ1), ISQ2=icons(SQ2), BS=BS,
                           G=[[u, a] for u, a in G.items()], s=0, t=q - 1, BG=[[v, a] for v, a in BG.items()], BX=X, BY=Y,
                           speeds=[rng.randint(1, 3) for _ in range(q)], caps=[rng.randint(1, q + 3) for _ in range(q)], k=rng.randint(1, m), lam=rng.randint(1, min(m, q)), seed=k)

    def run_one(self, case, dtype):
        f, _ = ENTRIES[case["name"]]
        c = dict(case, dtype=dtype)
        c["V"] = [[np.nan if x is None else x for x in row] for row in case["V"]]
        def go():
            with contextlib.redirect_stdout(io.StringIO()):
                args, th = f(c)
                before = [snap(a) for a in args]
                res = th(args)
                after = [snap(a) for a in args]
            return dict(result=canon(res), mutated=[i for i, (b, a) in enumerate(zip(before, after)) if a != b])
        r = supervised(go, 30.0)
        if r[0] != "ok":
            return dict(status=r[0], err=(r[1] if len(r) > 1 else ""), msg=(r[2] if len(r) > 2 else ""))
        return dict(status="ok", **r[1])

    def run(self, case):
        uses = ENTRIES[case["name"]][1]
        out = {"int64": self.run_one(case, "int64")}
        if uses:
            out["int32"] = self.run_one(case, "int32"); out["float64"] = self.run_one(case, "float64")
            # "stored as integers": the narrow signed encodings too (all ranks here are far below 127). Unsigned and single-precision
            # encodings are NOT part of the check: see DESIGN.md 10.7 (they are outside the encodings the property enumerates).
            out["int8" if case["seed"] % 2 else "int16"] = self.run_one(case, "int8" if case["seed"] % 2 else "int16")
        return dict(status="ok", runs=out)

    def oracle(self, case, obs):
        runs = obs["runs"]
        for dt, r in runs.items():
            if r["status"] == "ok" and r["mutated"]:
                return ("mutated_argument", "%s modified its argument #%d (%s ranks)" % (case["name"], r["mutated"][0], dt))
            if r["status"] == "timeout":
                return ("no_result", "%s did not return (%s ranks)" % (case["name"], dt))
        base = runs["int64"]
        for dt, r in runs.items():
            if dt == "int64": continue
            if r["status"] != base["status"] or (r["status"] == "err" and r["err"] != base["err"]):
                return ("dtype_dependent", "%s: int64 ranks -> %s %s, %s ranks -> %s %s %s" % (case["name"], base["status"], base.get("err", ""), dt, r["status"], r.get("err", ""), r.get("msg", "")))
            if r["status"] == "ok" and r["result"] != base["result"]:
                return ("dtype_dependent", "%s returns different results for int64 and %s ranks" % (case["name"], dt))
        if base["status"] != "ok":
            return ("no_result", "%s failed on valid arguments: %s %s" % (case["name"], base.get("err"), base.get("msg")))
        return None

    def nontrivial(self, case, obs):
        return len(case["P"]) >= 2 and len(case["P"][0]) >= 2

    def extra_coverage(self):
        return dict(entry_points=sorted(ENTRIES), explanation="argument-snapshot monitor and three-encoding comparison over every public entry point; the Coq side carries only the store-passing frame theorems")

PROP = C20()
