"""C07 — random allocation rules return valid, explainable allocations."""
import itertools
from fractions import Fraction
import numpy as np
from ..core import *
from ..runner import Prop, Group
from .c05 import exact_eating

class C07(Prop):
    translators = ['rsd', 'eatscf', 'eatloop']   # RandomSerialDictatorship.__init__ / scf regenerated from randomized_allocation.py on every run
    layouts = True
    pid = "C07"
    sources = ["socialchoicekit/randomized_allocation.py", "socialchoicekit/bistochastic.py"]
    groups = {"rsd": Group("rsd", "From SCK Require Import RSD RunRSD.", "RunRSD.rsd_case", "RunRSD.chk_rsd"),
              "lot": Group("lot", "From SCK Require Import Argsort RunRSD.", "RunRSD.lot_case", "RunRSD.chk_lot")}
    rule = ("RSD: strict profiles, complete and incomplete (also rectangular), int32/int64/float64 ranks, both index conventions; the shuffle is recorded in-process and replayed by the model; "
            "exhaustive: all strict incomplete 2x2 profiles x both orders, random up to 6x6. Lottery: ProbabilisticSerial.scf / SimultaneousEating.scf on complete profiles n<=5 "
            "(and incomplete ones, where the known finding D7 is reproduced); the chosen allocation is validated inside Coq against the exact eating matrix of the model. "
            "Non-trivial = at least two agents compete for an item; distinct by input hash")
    trusted_base = ["model RSD.v of randomized_allocation.py:35-48 (np.nanargmin = first minimal non-NaN column); numpy's shuffle/choice are oracles whose results are recorded",
                    "lottery: model Lottery.v (exact eating + exact Birkhoff-von Neumann); the float decomposition itself is tied by C06, here the drawn allocation is checked against the model's eating matrix"]
    assumptions = ["profiles strict; lottery statements for complete square profiles (incomplete: known finding D7)"]
    deadline = 30.0

    def has_nan(self, case):
        return any(x is None for row in case["P"] for x in row)

    def cases(self, rng, tier):
        from .gs_common import strict_rows, valid_profile
        k = 0
        for rows in itertools.product(strict_rows(2), repeat=2):
            if not valid_profile(rows): continue
            k += 1
            yield dict(entry="RandomSerialDictatorship.scf", family="exh22", P=[list(r) for r in rows], zi=bool(k % 2), seed=k, dtype="float")
        N = 400 if tier == "quick" else 8000
        for i in range(N):
            n = rng.randint(1, 6); m = rng.randint(1, 6)
            comp = i % 3 == 0
            P = []
            for _ in range(n):
                kk = m if comp else rng.randint(0, m); items = rng.sample(range(m), kk)
                row = [None] * m
                for r, j in enumerate(items): row[j] = r + 1
                P.append(row)
            if not valid_profile(P): continue
            yield dict(entry="RandomSerialDictatorship.scf", family=("rsd_complete" if comp else "rsd_incomplete"), P=P, zi=bool(i % 2), seed=i,
                       dtype=(rng.choice(["int64", "int32", "float"]) if comp else "float"))
        N = 120 if tier == "quick" else 2000
        for i in range(N):
            n = rng.randint(1, 5)
            P = [rng.sample(range(1, n + 1), n) for _ in range(n)]
            inc = i % 5 == 4
            if inc:
                P = [[x if x <= rng.randint(1, n) else None for x in row] for row in P]
            ps = i % 2 == 0
            sp = [1] * n if ps else [rng.randint(1, 3) for _ in range(n)]
            if i % 6 == 5 and n >= 3 and not inc:     # unanimous profile, one agent eating much faster or slower than the others
                P = [list(P[0]) for _ in range(n)]; sp = [1] * n; sp[rng.randrange(n)] = rng.choice([2, 3, 4]); ps = False
            c = dict(entry=("ProbabilisticSerial.scf" if ps else "SimultaneousEating.scf"), family=("lottery_incomplete" if inc else "lottery"),
                     P=P, speeds=sp, zi=bool(i % 3 == 0), seed=i, dtype=("float" if inc else rng.choice(["int64", "float"])))
            if not inc and not ps and i % 12 in (3, 9):      # the same relative speeds in a much slower or faster unit (exact powers of two): the lottery must still be drawn
                from fractions import Fraction
                u = Fraction(2) ** [-40, -300, -1000, 60, 1000, -1010][(i // 12) % 6]      # (not the subnormals: 1 / speed must stay finite)
                c["speeds"] = [float(Fraction(x) * u) for x in sp]; c["family"] = "lottery_clock_unit"
            if not inc and i % 4 == 1:      # history: the same rule object was used on the same profile object with other speeds first
                c["pre_speeds"] = [rng.choice([1, 2, 4, 5]) for _ in range(n)]; c["family"] = "lottery_history"
            if not inc and i % 4 == 3:      # history: same rule object, same profile object, contents edited in place between the calls
                c["inplace_first"] = [rng.sample(range(1, n + 1), n) for _ in range(n)]; c["family"] = "lottery_history"
            yield c

    def run(self, case):
        from socialchoicekit.randomized_allocation import RandomSerialDictatorship, SimultaneousEating, ProbabilisticSerial
        from socialchoicekit.profile_utils import StrictProfile
        dt = {"int64": np.int64, "int32": np.int32, "float": float}[case["dtype"]]
        if dt is float:
            A = lay(np.array([[np.nan if x is None else float(x) for x in row] for row in case["P"]], dtype=float), case.get("layout"))
        else:
            A = lay(np.array(case["P"], dtype=dt), case.get("layout"))
        A0 = A.copy()
        rec = {"order": None, "choice": None}
        oshuf, ochoice = np.random.shuffle, np.random.choice
        def shuf(x):
            oshuf(x); rec["order"] = [int(v) for v in x]
        def choice(a, size=None, replace=True, p=None):
            r = ochoice(a, size=size, replace=replace, p=p)
            rec["choice"] = dict(a=(int(a) if isinstance(a, (int, np.integer)) else None), p=(None if p is None else [float(v) for v in p]), r=(int(r) if np.ndim(r) == 0 else None))
            return r
        np.random.seed(case["seed"])
        def go():
            if case["entry"].startswith("RandomSerial"):
                return RandomSerialDictatorship(zero_indexed=case["zi"]).scf(StrictProfile.of(A))
            prof = StrictProfile.of(A)
            rule = ProbabilisticSerial(zero_indexed=case["zi"]) if case["entry"].startswith("Probabilistic") else SimultaneousEating(zero_indexed=case["zi"])
            call = (lambda sp: rule.scf(prof)) if case["entry"].startswith("Probabilistic") else (lambda sp: rule.scf(prof, np.array(sp, dtype=float)))
            try:
                if case.get("pre_speeds") is not None:
                    call(case["pre_speeds"])
                if case.get("inplace_first") is not None:
                    keep = A.copy(); A[...] = np.array(case["inplace_first"], dtype=A.dtype)
                    call(case["speeds"]); A[...] = keep
            except Exception:  # noqa
                pass
            rec["choice"] = None
            return call(case["speeds"])
        np.random.shuffle, np.random.choice = shuf, choice
        try:
            r = supervised(go, self.deadline)
        finally:
            np.random.shuffle, np.random.choice = oshuf, ochoice
        if r[0] != "ok":
            return dict(status=r[0], err=(r[1] if len(r) > 1 else ""), msg=(r[2] if len(r) > 2 else ""))
        try:
            out = [None if (isinstance(v, float) and v != v) else int(v) for v in np.asarray(r[1]).tolist()]
        except Exception:  # noqa
            return dict(status="malformed", msg=repr(r[1])[:100])
        return dict(status="ok", alloc=out, order=rec["order"], choice=rec["choice"], mutated=(A.tobytes() != A0.tobytes()))

    def oracle(self, case, obs):
        if obs["status"] != "ok":
            return ("no_result", "%s failed: %s %s %s" % (case["entry"], obs["status"], obs.get("err"), obs.get("msg")))
        P = case["P"]; n = len(P); m = len(P[0]); fix = 0 if case["zi"] else 1
        alloc = [None if a is None else a - fix for a in obs["alloc"]]
        if len(alloc) != n:
            return ("shape", "allocation has %d entries for %d agents" % (len(alloc), n))
        got = [a for a in alloc if a is not None]
        if any(not (0 <= a < m) for a in got):
            return ("out_of_range", "item out of range: %r" % (obs["alloc"],))
        if len(set(got)) != len(got):
            return ("item_twice", "an item is given to two agents: %r" % (obs["alloc"],))
        for i, a in enumerate(alloc):
            if a is not None and P[i][a] is None:
                return ("unacceptable_item", "agent %d receives item %d which it marked unacceptable" % (i, a))
        if case["entry"].startswith("RandomSerial"):
            order = obs["order"]
            if order is None or sorted(order) != list(range(n)):
                return ("no_order", "no picking order (a permutation of the agents) was drawn")
            taken = set(); ref = [None] * n
            for a in order:
                cand = [j for j in range(m) if P[a][j] is not None and j not in taken]
                if cand:
                    j = min(cand, key=lambda j: P[a][j]); ref[a] = j; taken.add(j)
            if ref != alloc:
                return ("not_serial_dictatorship", "allocation %r is not the serial dictatorship %r for the drawn order %r" % (alloc, ref, order))
        else:
            if any(a is None for a in alloc):
                return ("agent_without_item", "lottery left an agent without item")
            if not self.has_nan(case):
                X = exact_eating(P, [Fraction(s) for s in case["speeds"]])
                for i, a in enumerate(alloc):
                    if X[i][a] <= 0:
                        return ("zero_probability_item", "agent %d receives item %d which the eating process never gives it" % (i, a))
        if obs.get("mutated"):
            return ("mutated_argument", "profile modified")
        return None

    def coq(self, case, obs):
        fix = 0 if case["zi"] else 1
        if case["entry"].startswith("RandomSerial"):
            P = cl([cl([copt(x, cz) for x in row]) for row in case["P"]])
            return ("rsd", ct(P, cl([cn(a) for a in obs["order"]]), cz(fix), cl([copt(a, cz) for a in obs["alloc"]])))
        if self.has_nan(case):
            return None
        P = cl([cl(["(Some %s)" % cn(x - 1) for x in row]) for row in case["P"]])
        return ("lot", ct(P, cl([cq(Fraction(s)) for s in case["speeds"]]), cl([cn(a - fix) for a in obs["alloc"]])))

    def nontrivial(self, case, obs):
        P = case["P"]
        firsts = [row.index(1) for row in P if 1 in row]
        return len(firsts) != len(set(firsts))

PROP = C07()
