"""C15 — elicitation rules learn values only by asking, within their query budget."""
import math
from fractions import Fraction
import numpy as np
from ..core import *
from ..runner import Prop, Group
from . import elicit_common as E

REQ = "From SCK Require Import ElicitM ElicitRules."

def canon_prv(trace, P, fixer):
    """lambda-PRV asks each voter's lambda best alternatives in the order numpy.argpartition happens to return; canonical = by rank"""
    out, i = [], 0
    tr = list(trace)
    tr.sort(key=lambda ab: (ab[0], P[ab[0] - fixer][ab[1] - fixer]))
    return tr

class C15(Prop):
    layouts = True
    translators = ['elicitor', 'bsearch', 'rootn', 'thrrules', 'm2q', 'elicitclasses']   # the three binary_search functions and Elicitor.__init__ / Elicitor.elicit regenerated from elicitation_utils.py on every run
    pid = "C15"
    sources = ["socialchoicekit/elicitation_utils.py", "socialchoicekit/elicitation_voting.py", "socialchoicekit/elicitation_allocation.py", "socialchoicekit/elicitation_matching.py"]
    groups = {"thr": Group("thr", REQ, "ElicitRules.thr_case", "ElicitRules.chk_thr"),
              "m2q": Group("m2q", REQ, "ElicitRules.m2q_case", "ElicitRules.chk_m2q"),
              "prv": Group("prv", REQ, "ElicitRules.prv_case", "ElicitRules.chk_prv"),
              "seq": Group("seq", REQ, "ElicitRules.seq_case", "ElicitRules.chk_seq")}
    rule = ("(a) every rule (k-ARV, lambda-PRV, lambda-TSF, Match-TwoQueries, two-sided lambda-TSF) on consistent pairs as in C14, with memoising and non-memoising elicitors in both index "
            "conventions: simulated values, the sequence of questions reaching the user-supplied callback and elicitation_count are compared with the model; the rule is re-run with every "
            "never-asked entry replaced by random numbers (output and outcome must not change) and the per-agent budget is checked; (b) arbitrary question sequences with repeats and zero "
            "answers issued directly to memoising / non-memoising, float / integer elicitors. Non-trivial = at least one repeated question or a rule run with >= 2 levels; distinct by input hash")
    trusted_base = ["models ElicitM.v (elicitor state machine, interpreter) and ElicitRules.v (rules as query programs)",
                    "lambda-PRV: the order in which one voter's lambda questions are asked comes from numpy.argpartition and is canonicalised (sorted by rank) before comparison"]
    assumptions = ["profile strict and complete; valuations consistent with it"]

    def cases(self, rng, tier):
        N = 240 if tier == "quick" else 5000
        for i in range(N):
            rule = ["KARV", "TSF", "M2Q", "Double", "PRV"][i % 5]
            m = 2 + (i // 5) % 11; n = rng.randint(1, 4); k = rng.randint(1, m)
            memo = i % 7 != 0
            if rule == "Double":
                n = m = 2 + (i // 5) % 6
                k = rng.randint(1, n); k2 = rng.randint(1, n); kind = rng.choice(["int", "bigint", "zero"])
                P, V = E.gen_pair(rng, n, n, kind, k); P2, V2 = E.gen_pair(rng, n, n, kind, k2)
                yield dict(entry="DoubleLambdaTSF", family="double", rule="Double", P=P, V=V, P2=P2, V2=V2, k=k, k2=k2, side=(i // 5) % 2, memoize=memo, ezi=bool(i % 2), want_out=(n <= 5), seed=i)
                continue
            if rule in ("TSF", "M2Q"):
                n = m = 2 + (i // 5) % 6; k = rng.randint(1, m)
            kind = rng.choice(["unit", "skew", "ties", "zero", "straddle"] if rule != "M2Q" else ["unit", "skew", "ties", "zero"])
            P, V = E.gen_pair(rng, n, m, kind, k)
            yield dict(entry={"KARV": "KARV", "TSF": "LambdaTSF", "M2Q": "MatchTwoQueries", "PRV": "LambdaPRV"}[rule], family=rule.lower(), rule=rule, P=P, V=V, k=k,
                       memoize=memo, ezi=bool(i % 2), want_out=True, tb="accept", seed=i)
        # the caller asks the elicitor a few questions directly and THEN hands it to a rule: counter, memo table and forwarded questions are those of the whole session
        for i in range(60 if tier == "quick" else 1200):
            rule = ["KARV", "M2Q", "TSF", "PRV"][i % 4]
            n = rng.randint(2, 5); m = n if rule in ("M2Q", "TSF") else rng.randint(2, 6); k = rng.randint(1, m)
            P, V = E.gen_pair(rng, n, m, rng.choice(["unit", "skew", "ties"]), k)
            pre = [(rng.randrange(n), rng.randrange(m)) for _ in range(rng.randint(1, 5))]
            yield dict(entry={"KARV": "KARV", "TSF": "LambdaTSF", "M2Q": "MatchTwoQueries", "PRV": "LambdaPRV"}[rule], family=rule.lower() + "_after_direct_questions", rule=rule, P=P, V=V, k=k,
                       memoize=bool(i % 6), ezi=bool(i % 2), want_out=False, tb="accept", seed=i, pre_questions=pre)
        N = 200 if tier == "quick" else 4000
        for i in range(N):
            n = rng.randint(1, 4); m = rng.randint(1, 5)
            integer = i % 2 == 0
            V = [[(float(rng.randint(0, 4)) if integer or rng.random() < .3 else rng.random()) for _ in range(m)] for _ in range(n)]
            if integer and i % 10 == 0:
                V[rng.randrange(n)][rng.randrange(m)] = 0.5      # a non-integral answer must be rejected by integer elicitors
            if not integer and i % 4 == 1:
                for _ in range(rng.randint(1, 3)):
                    V[rng.randrange(n)][rng.randrange(m)] = None   # NaN = unacceptable item of an incomplete valuation profile: a legitimate answer
            qs = [(rng.randrange(n), rng.randrange(m)) for _ in range(rng.randint(1, 12))]
            qs += [rng.choice(qs) for _ in range(rng.randint(0, 6))]
            rng.shuffle(qs)
            # memoize, batching and elicitor class vary independently of each other (a batch may contain the same new question twice)
            c = dict(entry="Elicitor", family="sequence", rule="SEQ", V=V, qs=qs, memoize=bool(i % 3), ezi=bool(i % 4 < 2), integer=integer,
                     cls=["lambda", "profile"][(i // 3) % 5 == 0], multiple=bool((i // 3) % 2 == 0))
            if c["multiple"] and (i // 6) % 2 == 0 and len(qs) >= 2:     # a session that mixes the two entry points: single questions first, then a batch
                c["split"] = rng.randint(1, len(qs) - 1); c["family"] = "sequence_mixed"
            yield c
        # sessions that mix the two entry points on one elicitor: single questions, then a batch, then single questions again; all values
        # distinct, so that an answer taken from any other cell is visible
        for i in range(60 if tier == "quick" else 1500):
            n = rng.randint(2, 5); m = rng.randint(2, 6); integer = bool(i % 2)
            V = [[float(10 * a + b + 1) if integer else (10 * a + b + 1) / 7.0 for b in range(m)] for a in range(n)]
            qs = [(rng.randrange(n), rng.randrange(m)) for _ in range(rng.randint(8, 20))]
            yield dict(entry="Elicitor", family="mixed_session", rule="SEQ", V=V, qs=qs, memoize=bool(i % 5), ezi=bool(i % 4 < 2), integer=integer,
                       cls=["lambda", "profile"][i % 7 == 0], multiple=True, split=rng.randint(2, len(qs) - 5), tail=rng.randint(0, 3))
        # a rejected answer asked again: an integer elicitor whose user answers one question with a non-integer (ValueError every time it is asked);
        # the session goes on after each error. The memo clauses hold on this path as well: nothing is forwarded twice, the counter counts the forwards
        for i in range(30 if tier == "quick" else 500):
            n = rng.randint(1, 4); m = rng.randint(2, 5)
            V = [[float(rng.randint(0, 9)) for _ in range(m)] for _ in range(n)]
            bad = (rng.randrange(n), rng.randrange(m)); V[bad[0]][bad[1]] = rng.choice([2.5, 0.5, 7.25])
            qs = [(rng.randrange(n), rng.randrange(m)) for _ in range(rng.randint(3, 8))] + [bad] * rng.randint(2, 4)
            rng.shuffle(qs)
            yield dict(entry="Elicitor", family="rejected_answer_repeats", rule="SEQ", V=V, qs=qs, memoize=bool(i % 4), ezi=bool(i % 2), integer=True,
                       cls="lambda", multiple=False, per_question=True)
        # indices that cross from one to two decimal digits: any key or cache that identifies a question by a concatenated / fixed-width
        # representation of (agent, alternative) confuses (1, 10+x) with (11, x)
        for i in range(16 if tier == "quick" else 200):
            n = rng.randint(12, 14); m = rng.randint(11, 14)
            V = [[float(100 * a + b) for b in range(m)] for a in range(n)]
            x = rng.randrange(m - 10)
            qs = [(1, 10 + x), (11, x), (0, 10 + x), (10, x)] + [(rng.randrange(n), rng.randrange(m)) for _ in range(rng.randint(0, 10))]
            if i % 2: rng.shuffle(qs)
            yield dict(entry="Elicitor", family="two_digit_indices", rule="SEQ", V=V, qs=qs, memoize=True, ezi=bool(i % 4 < 2), integer=bool(i % 3 == 0),
                       cls=["lambda", "profile"][i % 5 == 0], multiple=bool(i % 2))
        for c in self.long_sequences(rng, tier):
            yield c

    def long_sequences(self, rng, tier):
        # long sessions on one elicitor: well over a thousand distinct questions, then early questions asked again
        for i in range(3 if tier == "quick" else 30):
            n = rng.randint(30, 45); m = rng.randint(35, 50)
            V = [[float(rng.randint(0, 9)) for _ in range(m)] for _ in range(n)]
            allq = [(a, b) for a in range(n) for b in range(m)]; rng.shuffle(allq)
            qs = allq[:rng.randint(1100, 1500)]
            qs = qs + qs[:40] + [rng.choice(qs) for _ in range(40)]
            yield dict(entry="Elicitor", family="long_sequence", rule="SEQ", V=V, qs=qs, memoize=True, ezi=bool(i % 2), integer=bool(i % 2),
                       cls=["lambda", "profile"][i % 3 == 0], multiple=False)

    def run_seq(self, case):
        from socialchoicekit.elicitation_utils import LambdaElicitor, IntegerLambdaElicitor, ValuationProfileElicitor, IntegerValuationProfileElicitor
        from socialchoicekit.profile_utils import ValuationProfile, IntegerValuationProfile
        V = [[float("nan") if x is None else x for x in row] for row in case["V"]]; fixer = 0 if case["ezi"] else 1
        use_int = case["integer"] and not (case["cls"] == "profile" and not all(float(x).is_integer() for row in V for x in row))
        def go():
            trace = []
            if case["cls"] == "profile":
                A = np.array(V)
                intok = all(float(x).is_integer() for row in V for x in row)
                if case["integer"] and intok:
                    el = IntegerValuationProfileElicitor(IntegerValuationProfile.of(A.astype(int)), memoize=case["memoize"])
                else:
                    el = ValuationProfileElicitor(ValuationProfile.of(A), memoize=case["memoize"])
                orig = el._elicit_impl
                def impl(a, b):
                    trace.append((int(a), int(b))); return orig(a, b)
                el._elicit_impl = impl
                f = 0
            else:
                def cb(a, b):
                    trace.append((int(a), int(b))); return V[a - fixer][b - fixer]
                el = (IntegerLambdaElicitor if case["integer"] else LambdaElicitor)(cb, memoize=case["memoize"], zero_indexed=case["ezi"])
                f = fixer
            if case.get("per_question"):      # every question on its own; a ValueError is recorded and the session continues
                ans = []
                for a, b in case["qs"]:
                    try: ans.append(float(el.elicit(a, b)))
                    except ValueError: ans.append("ValueError")
                return dict(status="ok", answers=ans, trace=trace, count=el.elicitation_count, fixer=f, types_ok=True)
            if case["multiple"]:
                sp = case.get("split", 0); tl = len(case["qs"]) - case.get("tail", 0)
                qs1, qs2, qs3 = case["qs"][:sp], case["qs"][sp:tl], case["qs"][tl:]
                ans = ([el.elicit(a, b) for a, b in qs1] + el.elicit_multiple(np.array([a for a, _ in qs2], dtype=int), np.array([b for _, b in qs2], dtype=int)).tolist()
                       + [el.elicit(a, b) for a, b in qs3])
            else:
                ans = [el.elicit(a, b) for a, b in case["qs"]]
            return dict(status="ok", answers=[None if x != x else float(x) for x in ans], trace=trace, count=el.elicitation_count, fixer=f,
                        types_ok=all(isinstance(x, (int, np.integer)) for x in ans) if use_int and not case["multiple"] else True)
        r = supervised(go, 10.0)
        if r[0] != "ok":
            return dict(status=r[0], err=(r[1] if len(r) > 1 else ""), msg=(r[2] if len(r) > 2 else ""))
        return r[1]

    def run(self, case):
        if case["rule"] == "SEQ":
            return self.run_seq(case)
        obs = E.run_rule(case)
        if obs["status"] != "ok":
            return obs
        # metamorphic re-run: never-asked entries replaced by arbitrary numbers
        import random
        rr = random.Random(case["seed"])
        def scramble(V, trace, fixer, integer):
            asked = {(a - fixer, b - fixer) for a, b in trace}
            return [[V[i][j] if (i, j) in asked else (float(rr.randint(0, 50)) if integer else rr.random() * 3) for j in range(len(V[0]))] for i in range(len(V))]
        fixer = 0 if case.get("ezi", True) else 1
        c2 = dict(case)
        V2x = scramble(case["V"], obs["trace"], fixer, case["rule"] == "Double")
        if case["rule"] == "Double":
            c2["V2"] = scramble(case["V2"], obs["trace2"], fixer, True)
        # the outcome run uses fresh zero-indexed memoising elicitors, whose questions are a subset of the recorded ones
        obs["rerun"] = E.run_rule(c2, V=V2x)
        return obs

    def oracle(self, case, obs):
        if case["rule"] == "SEQ":
            V = [[float("nan") if x is None else x for x in row] for row in case["V"]]; integer = case["integer"]
            if case["cls"] == "profile" and not all(float(x).is_integer() for row in V for x in row):
                integer = False   # an IntegerValuationProfile cannot hold non-integers: the float elicitor is used for this case
            if case.get("per_question"):
                if obs["status"] != "ok": return ("no_result", "elicitor failed: %s %s" % (obs.get("err"), obs.get("msg")))
                want = [(float(V[a][b]) if float(V[a][b]).is_integer() else "ValueError") for a, b in case["qs"]]
                if obs["answers"] != want: return ("wrong_answer", "answers %r, expected %r" % (obs["answers"], want))
                fw = [(a - obs["fixer"], b - obs["fixer"]) for a, b in obs["trace"]]
                if case["memoize"] and len(set(fw)) != len(fw): return ("question_forwarded_twice", "a memoising elicitor forwarded a question twice (%r)" % (fw,))
                if not case["memoize"] and fw != [tuple(q) for q in case["qs"]]: return ("wrong_forwards", "non-memoising elicitor must forward every question")
                if obs["count"] != len(fw): return ("wrong_counter", "elicitation_count %d, forwarded %d" % (obs["count"], len(fw)))
                return None
            nonint = [(a, b) for a, b in case["qs"] if not float(V[a][b]).is_integer()]
            if integer and nonint:
                if obs["status"] == "err" and obs["err"] == "ValueError": return None
                return ("non_integral_accepted", "integer elicitor accepted a non-integral answer")
            if obs["status"] != "ok":
                return ("no_result", "elicitor failed: %s %s" % (obs.get("err"), obs.get("msg")))
            f = obs["fixer"]
            want = [None if V[a][b] != V[a][b] else float(V[a][b]) for a, b in case["qs"]]
            if obs["answers"] != want:
                return ("wrong_answer", "answers %r, true values %r" % (obs["answers"], want))
            fw = [(a - f, b - f) for a, b in obs["trace"]]
            if case["memoize"]:
                if len(set(fw)) != len(fw): return ("question_forwarded_twice", "a memoising elicitor forwarded a question twice")
                firsts = []
                for q in case["qs"]:
                    if tuple(q) not in firsts: firsts.append(tuple(q))
                if fw != firsts: return ("wrong_forwards", "forwarded %r, expected first occurrences %r" % (fw, firsts))
            else:
                if fw != [tuple(q) for q in case["qs"]]: return ("wrong_forwards", "non-memoising elicitor must forward every question")
            if obs["count"] != len(fw): return ("wrong_counter", "elicitation_count %d, forwarded %d" % (obs["count"], len(fw)))
            if not obs["types_ok"]: return ("not_integer", "integer elicitor returned a non-integer")
            return None
        if obs["status"] != "ok":
            return ("no_result", "%s failed: %s %s %s" % (case["entry"], obs["status"], obs.get("err"), obs.get("msg")))
        re = obs["rerun"]
        if re["status"] != "ok":
            return ("depends_on_unasked", "re-run with unasked entries replaced failed: %s %s" % (re.get("err"), re.get("msg")))
        keys = ["vt", "trace", "count", "out"] + (["vt2", "trace2", "count2"] if case["rule"] == "Double" else [])
        for kk in keys:
            if kk in obs and obs[kk] != re.get(kk):
                return ("depends_on_unasked", "%s changed when never-asked entries were replaced" % kk)
        fixer = 0 if case.get("ezi", True) else 1
        sides = [("trace", "count", case["P"], case["k"])] + ([("trace2", "count2", case["P2"], case["k2"])] if case["rule"] == "Double" else [])
        for tk, ck, P, k in sides:
            tr = [tuple(x) for x in obs[tk]]; n, m = len(P), len(P[0])
            if case["memoize"]:
                if len(set(tr)) != len(tr): return ("question_forwarded_twice", "memoising elicitor forwarded a question twice")
            if obs[ck] != len(tr): return ("wrong_counter", "elicitation_count %d but %d questions were forwarded" % (obs[ck], len(tr)))
            pre = [tuple(q) for q in case.get("pre_questions", [])]
            if pre:      # the direct questions come first in the log; the budget is about what the RULE asks after them
                npre = len(set(pre)) if case["memoize"] else len(pre)
                want_pre = ([q for i_, q in enumerate(pre) if q not in pre[:i_]] if case["memoize"] else pre)
                if [(a - fixer, b - fixer) for a, b in tr[:npre]] != want_pre: return ("wrong_forwards", "the direct questions were not forwarded as asked")
                tr = tr[npre:]
            for i in range(n):
                d = len({q for q in tr if q[0] - fixer == i})
                if case["rule"] in ("KARV", "TSF", "Double"):
                    lim = 1 + k * math.ceil(math.log2(m)) if m > 1 else 1
                    if d > lim: return ("over_budget", "agent %d was asked %d distinct questions, budget %d" % (i, d, lim))
                elif case["rule"] == "PRV":
                    if (d > k) if pre else (d != k):      # (after direct questions some of the lambda answers may already be in the memo table)
                        return ("over_budget", "lambda-PRV asked agent %d %d distinct questions, lambda = %d" % (i, d, k))
                elif d > 2: return ("over_budget", "Match-TwoQueries asked agent %d %d distinct questions" % (i, d))
        return None

    def coq(self, case, obs):
        if case["rule"] == "SEQ":
            if obs["status"] != "ok" or case.get("per_question"): return None
            NANQ = -987654321.0    # NaN answers are carried through the model as one reserved rational on both sides
            Vq = [[NANQ if x is None else x for x in row] for row in case["V"]]
            rc = E.run_case_lit(case["memoize"], obs["fixer"], Vq, cl([cq(frac(NANQ if x is None else x)) for x in obs["answers"]]), obs["trace"], obs["count"])
            return ("seq", ct(E.ckeys(case["qs"]), rc))
        fixer = 0 if case.get("ezi", True) else 1
        if case.get("pre_questions"): return None      # (the model programs start from a fresh elicitor: sessions with a history are decided by the oracle)
        if case["rule"] == "Double" and case["side"] == 1:
            P, V, k, vt, trace, count = case["P2"], case["V2"], case["k2"], obs["vt2"], obs["trace2"], obs["count2"]
        else:
            P, V, k, vt, trace, count = case["P"], case["V"], case["k"], obs["vt"], obs["trace"], obs["count"]
        n, m = len(P), len(P[0]); rk = E.ranking(P)
        if case["rule"] == "PRV":
            rc = E.run_case_lit(case["memoize"], fixer, V, cl([cq(frac(x)) for x in vt]), canon_prv(trace, P, fixer), count)
            return ("prv", ct(E.cPz(P), cn(k), rc))
        rc = E.run_case_lit(case["memoize"], fixer, V, E.cVm(vt), trace, count)
        if case["rule"] == "M2Q":
            return ("m2q", ct(E.cPz(P), cq(frac(E.EPS)), rc))
        tau = E.thresholds([V[i][rk[i][0]] for i in range(n)], m, k)
        init = E.EPS if case["rule"] == "TSF" else 0.0
        return ("thr", ct(E.cPz(P), cn(k), E.cVm(tau), cb(case["rule"] == "Double"), cq(frac(init)), rc))

    def nontrivial(self, case, obs):
        if obs["status"] != "ok": return False
        if case["rule"] == "SEQ": return len(set(map(tuple, case["qs"]))) < len(case["qs"])
        return case["k"] >= 2

PROP = C15()
