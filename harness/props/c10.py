"""C10 — scoring rules compute their textbook scores and pick the maximisers."""
import itertools
from fractions import Fraction
from ..core import *
from ..runner import Prop, Group
from . import voting_common as V

REQ = "From SCK Require Import Voting VoteExt RunVote."
def textbook(rule, m, k, r):
    return {"Plurality": Fraction(int(r == 1)), "Borda": Fraction(m - r), "Veto": Fraction(int(r < m)),
            "KApproval": Fraction(int(r <= k)), "Harmonic": Fraction(1, r)}[rule]

class C10(Prop):
    layouts = True
    translators = ['scoring', 'validators', 'wrappers']   # weights, winners, break_tie regenerated from deterministic_scoring.py / utils.py on every run
    pid = "C10"
    sources = ["socialchoicekit/deterministic_scoring.py", "socialchoicekit/utils.py"]
    groups = {
        "score": Group("score", REQ, "RunVote.score_case", "RunVote.chk_score"),
        "scf": Group("scf", REQ, "RunVote.scf_case", "RunVote.chk_scf"),
        "swf": Group("swf", REQ, "RunVote.swf_case", "RunVote.chk_swf"),
        "util": Group("util", REQ, "RunVote.util_case", "RunVote.chk_util"),
    }
    rule = ("exhaustive: all complete strict profiles with n<=3, m<=3 (quick) / n<=4, m<=4 slice (thorough) x five rules x all k<=m+1 x score/scf/swf x both index conventions; "
            "random profiles up to n=60, m=12 in int32/int64/float64 encodings; utilitarian rule on valuation profiles with NaN. "
            "Non-trivial = at least two distinct score values; distinct by input hash")
    trusted_base = ["model Voting.v (weight, score, winners, break_tie), VoteExt.v (util_score, ranking_ok) of deterministic_scoring.py:48-82,119,199,280,366,447,531",
                    "Harmonic/utilitarian: exact-rational model; float sums compared within 1e-9 (rounding is modelled, not verified)",
                    "swf output is validated with the proved checker ranking_ok because numpy's argsort leaves the order of tied scores open"]
    assumptions = ["profiles are complete and strict; utilitarian total is positive"]

    def mk(self, fam, rule, method, P, k, zi, tb="accept", dtype="int64"):
        return dict(entry="%s.%s" % (rule, method), family=fam, rule=rule, method=method, P=[list(r) for r in P], k=k, zi=zi, tb=tb, dtype=dtype)

    def cases(self, rng, tier):
        cnt = 0
        sizes = [(1, 1), (1, 2), (2, 2), (3, 2), (1, 3), (2, 3), (3, 3)] if tier == "quick" else [(1, 1), (2, 2), (3, 2), (2, 3), (3, 3), (4, 3), (2, 4), (3, 4)]
        for n, m in sizes:
            profs = list(V.perm_profiles(n, m))
            if len(profs) > 3000:
                profs = rng.sample(profs, 3000)
            for P in profs:
                for rule in V.RULES:
                    for k in (range(1, m + 2) if rule == "KApproval" else [1]):
                        cnt += 1
                        meth = ["score", "scf", "swf"][cnt % 3]
                        yield self.mk("exh%d%d" % (n, m), rule, meth, P, k, bool(cnt % 2), tb=V.TBS[(cnt // 3) % 3])
        N = 400 if tier == "quick" else 10000
        for i in range(N):
            n = rng.randint(1, 60); m = rng.randint(1, 12)
            P = V.rand_profile(rng, n, m)
            rule = rng.choice(V.RULES); k = rng.randint(1, m + 1)
            c = self.mk("random", rule, rng.choice(["score", "scf", "swf"]), P, k, rng.random() < .5, tb=rng.choice(V.TBS),
                        dtype=rng.choice(["int64", "int32", "float"]))
            if i % 4 == 0 and m >= 2:     # history: the same rule object scored a profile with FEWER alternatives first (k may exceed that number)
                c["prelude"] = [dict(P=V.rand_profile(rng, rng.randint(1, 3), rng.randint(1, m - 1)))]; c["family"] = "random_history"
            yield c
        # many alternatives (beyond the range of small integer types: per-voter points up to m - 1)
        for i in range(10 if tier == "quick" else 120):
            n = rng.randint(1, 3); m = rng.choice([129, 130, 200, 257, 300])
            yield self.mk("wide", V.RULES[i % 5], ["score", "scf", "swf"][i % 3], V.rand_profile(rng, n, m), rng.randint(1, m), bool(i % 2), tb=V.TBS[i % 3],
                          dtype=["int64", "int32", "float"][i % 3])
        # 10 to 13 alternatives (two-digit ranks): electorates built from a ballot and copies of it with two ADJACENT columns exchanged, among them the pairs of
        # columns whose ranks read the same when written side by side (1|11 and 11|1, 1|12 and 11|2, 2|11 and 21|1 ...); anything keyed on a textual form of a ballot
        for i in range(40 if tier == "quick" else 600):
            m = [11, 12, 13, 10][i % 4]; base = rng.sample(range(1, m + 1), m)
            if i % 2 == 0:      # put ranks 1 and 11 (or 1 and 12 next to 11 and 2) side by side
                a, b = base.index(1), base.index(11 if m >= 11 else 10)
                c0 = rng.randrange(m - 1); others = [x for x in base if x not in (base[a], base[b])]
                base = others[:c0] + [1, 11 if m >= 11 else 10] + others[c0:]
            P = [list(base)]
            for _ in range(rng.randint(1, 4)):
                r = list(rng.choice(P)); c = rng.randrange(m - 1)
                if i % 2 == 0 and len(P) == 1: c = r.index(1)      # the planted pair first
                if c + 1 < m: r[c], r[c + 1] = r[c + 1], r[c]
                P.append(r)
            yield self.mk("two_digit_ranks", V.RULES[i % 5], ["score", "scf", "swf"][i % 3], P, rng.randint(1, m), bool(i % 2), tb=V.TBS[i % 3], dtype=["int64", "int32", "float"][i % 3])
        # large electorates decided by one vote (ballots with multiplicities), with a differently sized profile fed to the same rule object first
        for i in range(40 if tier == "quick" else 400):
            m = rng.randint(2, 4); base = rng.choice([1000, 70000, 150000, 300000])
            ballots = [rng.sample(range(1, m + 1), m) for _ in range(rng.randint(2, 4))]
            mults = [base + rng.choice([0, 1, 1, 2]) for _ in ballots]
            rule = V.RULES[i % 5]
            yield dict(entry="%s.%s" % (rule, ["scf", "swf"][i % 2]), family="big", rule=rule, method=["scf", "swf"][i % 2], P=ballots, mults=mults, shuffle_seed=i,
                       k=rng.randint(1, m), zi=bool(i % 2), tb=V.TBS[i % 3], dtype=rng.choice(["int64", "int32"]),
                       prelude=[dict(P=V.rand_profile(rng, 3, m + 1), mults=[1, 1, 1])])
        for i in range(40 if tier == "quick" else 400):
            n = rng.randint(1, 4); m = rng.randint(2, 5)
            big = rng.choice([1.0, 1e3, 5e5])
            Vp = [[big * rng.randint(1, 5) + rng.choice([0, 0, 1e-6 * big, -1e-6 * big, 1.0]) for _ in range(m)] for _ in range(n)]
            yield dict(entry="SocialWelfare.scf", family="util_near", rule="SocialWelfare", method="scf", V=Vp, zi=bool(i % 2), tb=V.TBS[i % 3], k=1)
        N = 150 if tier == "quick" else 3000
        for i in range(N):
            n = rng.randint(1, 8); m = rng.randint(1, 7)
            kind = rng.choice(["unit", "ints", "nan"])
            Vp = []
            for _ in range(n):
                if kind == "ints":
                    row = [float(rng.randint(0, 5)) for _ in range(m)]
                else:
                    row = [rng.random() for _ in range(m)]
                    s = sum(row); row = [x / s for x in row]
                if kind == "nan":
                    row = [None if rng.random() < .25 else x for x in row]
                Vp.append(row)
            if kind == "ints" and i % 3 == 2 and m >= 2:      # two alternatives with the same total, distributed differently over the voters
                a, b = rng.sample(range(m), 2); col = [row[a] for row in Vp]; rng.shuffle(col)
                for row, x in zip(Vp, col): row[b] = x
            if kind == "ints" and i % 3 == 1:      # the same utilities in another unit, down to the subnormals and up to the top of the range (exact powers of two): shares do not change
                u = 2.0 ** [-1070, -1074, -1040, -300, 1000, -1060][(i // 3) % 6]
                Vp = [[x * u for x in row] for row in Vp]; kind = "ints_unit"
            if sum(x for row in Vp for x in row if x is not None) <= 0:      # (total utility must be positive: the share is undefined otherwise)
                continue
            yield dict(entry="SocialWelfare.%s" % ("score" if i % 2 else "scf"), family="util_" + kind, rule="SocialWelfare",
                       method=("score" if i % 2 else "scf"), V=Vp, zi=bool(i % 3 == 0), tb=V.TBS[i % 3], k=1)

    def run(self, case):
        return V.run_vote(case)

    def shrink(self, case):
        if "P" not in case or len(case["P"]) <= 1:
            return
        for i in range(len(case["P"])):
            yield dict(case, P=[r for j, r in enumerate(case["P"]) if j != i])

    def oracle(self, case, obs):
        if obs["status"] != "ok":
            return ("no_result", "%s failed on a valid profile: %s %s %s" % (case["entry"], obs["status"], obs.get("err"), obs.get("msg")))
        fix = 0 if case["zi"] else 1
        sc = obs["out"] if case["method"] == "score" else obs["score"]
        if "P" in case:
            P = case["P"]; m = len(P[0]); mu = case.get("mults", [1] * len(P))
            want = [sum(textbook(case["rule"], m, case["k"], row[j]) * w for row, w in zip(P, mu)) for j in range(m)]
        else:
            Vp = case["V"]; m = len(Vp[0])
            cols = [sum(Fraction(x) for x in (row[j] for row in Vp) if x is not None) for j in range(m)]
            tot = sum(cols); want = [c / tot for c in cols]
        if len(sc) != m:
            return ("score_shape", "score vector has wrong length")
        for j in range(m):
            d = abs(Fraction(sc[j]) - want[j])
            tol = 0 if case["rule"] in ("Plurality", "Borda", "Veto", "KApproval") else Fraction(1, 10**9) * max(1, abs(want[j]))
            if d > tol:
                return ("wrong_score", "%s score of alternative %d is %r, textbook %s" % (case["rule"], j, sc[j], want[j]))
        if case["method"] == "scf":
            mx = max(sc); maxi = [j + fix for j in range(m) if sc[j] == mx]
            if "V" in case and str(case.get("family", "")).startswith("util_ints"):
                # integer (or exactly scaled integer) utilities: the column sums are exact, so alternatives with equal totals have EQUAL shares and all of them are maximal
                mxe = max(want); maxi = [j + fix for j in range(m) if want[j] == mxe]
            out = obs["out"]
            if case["tb"] == "accept":
                if out != maxi:
                    return ("wrong_winners", "winners %r but maximisers are %r" % (out, maxi))
            elif case["tb"] == "first":
                if out != maxi[0]:
                    return ("wrong_winner", "'first' returned %r, smallest maximiser is %r" % (out, maxi[0]))
            else:
                if out not in maxi:
                    return ("wrong_winner", "'random' returned %r which is not a maximiser %r" % (out, maxi))
        if case["method"] == "swf":
            out = obs["out"]
            alts = [int(a) for a in out[0]]; scs = out[1]
            if sorted(alts) != list(range(fix, m + fix)):
                return ("ranking_not_permutation", "ranking does not list every alternative exactly once: %r" % (alts,))
            if any(scs[i] < scs[i + 1] for i in range(m - 1)):
                return ("ranking_not_sorted", "ranking scores are not non-increasing")
            if any(scs[i] != sc[alts[i] - fix] for i in range(m)):
                return ("ranking_wrong_score", "an alternative does not carry its own score")
        if obs.get("mutated"):
            return ("mutated_argument", "the profile was modified")
        return None

    def coq(self, case, obs):
        fix = 0 if case["zi"] else 1
        if case["method"] == "score":
            if "V" in case:
                return ("util", ct(V.cV(case["V"]), V.cQl(obs["out"])))
            if "mults" in case: return None
            return ("score", ct(cn(V.RULES.index(case["rule"])), cz(case["k"]), V.cP(case["P"]), V.cQl(obs["out"])))
        sc = obs["score"]
        if case["method"] == "scf":
            out = obs["out"]
            pick = 0
            if case["tb"] == "random":
                ch = obs["choices"][-1] if obs["choices"] else None
                if ch is None or ch["r"] not in ch["a"]:
                    return ("scf", ct(V.cQl(sc), cz(fix), cn(0), "true", cn(10**6), "Voting.OErr"))
                pick = ch["a"].index(ch["r"])
            o = "(Voting.OList %s)" % cl([cz(x) for x in out]) if isinstance(out, list) else "(Voting.OOne %s)" % cz(out)
            return ("scf", ct(V.cQl(sc), cz(fix), cn(V.TBS.index(case["tb"])), "true", cn(pick), o))
        out = obs["out"]
        return ("swf", ct(V.cQl(sc), cz(fix), cl([cz(int(a)) for a in out[0]]), V.cQl(out[1])))

    def nontrivial(self, case, obs):
        if obs["status"] != "ok":
            return False
        sc = obs["out"] if case["method"] == "score" else obs["score"]
        return len(set(sc)) >= 2

PROP = C10()
