"""C05 — simultaneous eating returns the outcome of the eating process."""
import itertools
from fractions import Fraction
import numpy as np
from ..core import *
from ..runner import Prop, Group

THR_REM, THR_EAT = Fraction(1e-9), Fraction(1 - 1e-9)      # the two snapping thresholds of the code, as binary64 values

def exact_eating(P, speeds, flags=None):
    """independent exact-rational simulation of the eating process (P: 1-based ranks, complete strict); flags["snap"] is set when the run enters one of
    the code's snapping windows (a remaining fraction in (0, 1e-9], an eaten amount in [1 - 1e-9, 1)), where the code and the exact process differ"""
    n = len(P)
    order = [sorted(range(n), key=lambda j: P[i][j]) for i in range(n)]
    rem = [Fraction(1)] * n; eaten = [Fraction(0)] * n
    X = [[Fraction(0)] * n for _ in range(n)]
    events = 0
    while any(e < 1 for e in eaten) and any(r > 0 for r in rem):
        events += 1
        if events > 4 * n + 4:
            raise RuntimeError("exact eating did not stop")
        cur = [next((j for j in order[i] if rem[j] > 0), None) if eaten[i] < 1 else None for i in range(n)]
        tot = [sum(speeds[i] for i in range(n) if cur[i] == j) for j in range(n)]
        ts = [(1 - eaten[i]) / speeds[i] for i in range(n) if cur[i] is not None]
        ts += [rem[j] / tot[j] for j in range(n) if tot[j] > 0]
        t = min(ts)
        if flags is not None:
            if any(0 < rem[j] - tot[j] * t <= THR_REM for j in range(n)) or any(THR_EAT <= eaten[i] + t * speeds[i] < 1 for i in range(n) if cur[i] is not None):
                flags["snap"] = True
        for i in range(n):
            if cur[i] is not None:
                X[i][cur[i]] += t * speeds[i]; eaten[i] += t * speeds[i]
        for j in range(n):
            rem[j] -= tot[j] * t
    return X

class C05(Prop):
    layouts = True
    translators = ['eatloop']      # regenerated from the source on every run (harness/translate.py)
    pid = "C05"
    sources = ["socialchoicekit/randomized_allocation.py"]
    groups = {"eat": Group("eat", "From SCK Require Import Argsort RunEat.", "RunEat.eat_case", "RunEat.chk_eat"),
              "eatok": Group("eatok", "From SCK Require Import Argsort RunEat.", "RunEat.eat_case", "RunEat.chk_eat_ok")}      # informational (coq_info)
    rule = ("exhaustive: all strict complete profiles with n<=3 (1+4+216) x speed vectors {equal, (1,2,3), (1/2,1/3,1), ...}; random profiles up to n=7 (quick) / 8 (thorough) with "
            "equal, integer and fractional speeds (also stored as float32/float16/integer arrays, exactly); both entry points (SimultaneousEating.bistochastic, ProbabilisticSerial.bistochastic); int and float rank dtypes. "
            "Each float result is compared entrywise within 1e-7 with the exact model inside Coq and with an independent exact simulation. Non-trivial = n >= 2; distinct by input hash")
    trusted_base = ["exact-rational model Eat3.v of randomized_allocation.py:86-141 without the 1e-9 snapping (which only absorbs rounding); binary64 deviation is measured per case, not proved"]
    assumptions = ["profile strict, complete and square; speeds positive"]
    deadline = 20.0

    def cases(self, rng, tier):
        for n in (1, 2, 3):
            perms = list(itertools.permutations(range(1, n + 1)))
            k = 0
            for P in itertools.product(perms, repeat=n):
                k += 1
                sps = [[1] * n, list(range(1, n + 1)), [Fraction(1, 2), Fraction(1, 3), Fraction(1)][:n]]
                for s in (sps if tier != "quick" or k % 3 == 0 else sps[:1]):
                    yield dict(entry="SimultaneousEating.bistochastic", family="exh%d" % n, P=[list(r) for r in P], speeds=[str(Fraction(x)) for x in s], ps=False)
                if k % 4 == 0:
                    yield dict(entry="ProbabilisticSerial.bistochastic", family="exh%d" % n, P=[list(r) for r in P], speeds=["1"] * n, ps=True)
        N = 120 if tier == "quick" else 1500
        for i in range(N):
            n = rng.randint(2, 7 if tier == "quick" else 8)
            P = [rng.sample(range(1, n + 1), n) for _ in range(n)]
            mode = rng.choice(["eq", "int", "frac"])
            sp = [Fraction(1)] * n if mode == "eq" else [Fraction(rng.randint(1, 4)) for _ in range(n)] if mode == "int" else [Fraction(rng.randint(1, 5), rng.randint(1, 5)) for _ in range(n)]
            ps = mode == "eq" and i % 2 == 0
            yield dict(entry=("ProbabilisticSerial" if ps else "SimultaneousEating") + ".bistochastic", family="random_" + mode + ("_history" if i % 4 == 1 else ""), P=P,
                       speeds=[str(x) for x in sp], ps=ps, dtype=rng.choice(["int64", "float"]), history=(i % 4 == 1))
        # speeds of very different magnitude: a slow eater's whole share is of the order of the 1e-5 .. 1e-7 tolerances in play
        for i in range(30 if tier == "quick" else 600):
            n = rng.randint(2, 4)
            P = [rng.sample(range(1, n + 1), n) for _ in range(n)]
            slow = [Fraction(4, 10 ** 6), Fraction(1, 10 ** 5), Fraction(25, 10 ** 5), Fraction(3, 10 ** 6), Fraction(1, 10 ** 4)]
            sp = [Fraction(rng.randint(1, 3))] + [rng.choice(slow + [Fraction(1), Fraction(2)]) for _ in range(n - 1)]
            rng.shuffle(sp)
            yield dict(entry="SimultaneousEating.bistochastic", family="speed_ratio", P=P, speeds=[str(x) for x in sp], ps=False)
        # another clock: the same relative speeds measured in a much faster or much slower unit (exact powers of two, so nothing is rounded);
        # the eating outcome does not depend on the unit
        for i in range(36 if tier == "quick" else 600):
            n = rng.randint(1, 5)
            P = [rng.sample(range(1, n + 1), n) for _ in range(n)]
            e = [53, 70, 200, 1000, -30, -60, -300, -1000, 1020, -1020][i % 10]
            sp = [Fraction(rng.randint(1, 3)) * Fraction(2) ** e for _ in range(n)]
            yield dict(entry="SimultaneousEating.bistochastic", family="clock_unit", P=P, speeds=[str(x) for x in sp], ps=False, dtype=["int64", "float"][i % 2])
        # the speed vector stored in a narrower floating or an integer dtype; every speed is exactly representable there, so the process is the same one
        for i in range(60 if tier == "quick" else 800):
            n = rng.randint(2, 5)
            P = [rng.sample(range(1, n + 1), n) for _ in range(n)]
            sdt = ["float32", "float16", "int64", "int32", "uint8", "float32", "float16"][i % 7]
            if sdt.startswith("float") and i % 2: sp = [Fraction(rng.choice([1, 2, 3, 1, 1])) * Fraction(1, rng.choice([1, 2, 4])) for _ in range(n)]
            else: sp = [Fraction(rng.choice([1, 1, 2, 3])) for _ in range(n)]
            if i % 5 == 0: sp = [Fraction(1)] * n
            yield dict(entry="SimultaneousEating.bistochastic", family="speed_dtype", P=P, speeds=[str(x) for x in sp], ps=False, sdtype=sdt)
        # halving chain: events at 1/2, 3/4, 7/8, ..., 1 - 2^-(n-1): agents that are ALMOST full when an event happens
        for n in ([12, 18, 20] if tier == "quick" else [10, 12, 14, 16, 18, 19, 20, 21, 22]):
            rows = [list(range(n)), [0, n - 1] + list(range(1, n - 1))] + [[i - 1] + [j for j in range(n) if j != i - 1] for i in range(2, n)]
            P = []
            for order in rows:          # order = items from best to worst -> ranks
                rk = [0] * n
                for pos, j in enumerate(order): rk[j] = pos + 1
                P.append(rk)
            yield dict(entry="ProbabilisticSerial.bistochastic", family="halving_chain", P=P, speeds=["1"] * n, ps=True)

    def run(self, case):
        from socialchoicekit.randomized_allocation import SimultaneousEating, ProbabilisticSerial
        from socialchoicekit.profile_utils import StrictCompleteProfile
        A = lay(np.array(case["P"], dtype=(float if case.get("dtype") == "float" else np.int64)), case.get("layout"))
        sp = np.array([float(Fraction(s)) for s in case["speeds"]]).astype(case.get("sdtype", "float64"))
        A0, sp0 = A.copy(), sp.copy()
        def go():
            prof = StrictCompleteProfile.of(A)
            rule = ProbabilisticSerial(zero_indexed=True) if case["ps"] else SimultaneousEating(zero_indexed=True)
            if case.get("history"):       # the same rule object (and profile object) was used before: other speeds, and the profile edited in place
                try:
                    n = A.shape[0]; keep = A.copy()
                    if not case["ps"]: rule.bistochastic(prof, np.array([1.0 + (i % 3) for i in range(n)]))
                    A[...] = np.roll(keep, 1, axis=1)
                    rule.bistochastic(prof) if case["ps"] else rule.bistochastic(prof, sp)
                    A[...] = keep
                except Exception:  # noqa
                    A[...] = keep
            if case["ps"]:
                return rule.bistochastic(prof)
            return rule.bistochastic(prof, sp)
        r = supervised(go, self.deadline)
        if r[0] != "ok":
            return dict(status=r[0], err=(r[1] if len(r) > 1 else ""), msg=(r[2] if len(r) > 2 else ""))
        try:
            X = np.asarray(r[1], dtype=float).tolist()
        except Exception:  # noqa
            return dict(status="malformed")
        return dict(status="ok", X=X, mutated=not (A.tobytes() == A0.tobytes() and sp.tobytes() == sp0.tobytes()))

    def oracle(self, case, obs):
        if obs["status"] != "ok":
            return ("no_result", "eating failed: %s %s %s" % (obs["status"], obs.get("err"), obs.get("msg")))
        P = case["P"]; n = len(P); X = obs["X"]
        sp = [Fraction(float(Fraction(s))) for s in case["speeds"]]
        if len(X) != n or any(len(r) != n for r in X):
            return ("shape", "matrix shape")
        fl = {}; ref = exact_eating(P, sp, fl); obs["exact_run_outside_snapping_windows"] = not fl.get("snap", False)
        for i in range(n):
            for j in range(n):
                if abs(Fraction(X[i][j]) - ref[i][j]) > Fraction(1, 10**7):
                    return ("wrong_amount", "entry (%d,%d) is %r, the eating process gives %s" % (i, j, X[i][j], ref[i][j]))
        for i in range(n):
            if abs(sum(X[i]) - 1) > 1e-6: return ("row_sum", "row %d sums to %r" % (i, sum(X[i])))
            if abs(sum(X[r][i] for r in range(n)) - 1) > 1e-6: return ("col_sum", "column %d sums to %r" % (i, sum(X[r][i] for r in range(n))))
        if len(set(sp)) == 1:
            for i in range(n):
                order = sorted(range(n), key=lambda j: P[i][j])
                for i2 in range(n):
                    for k in range(1, n + 1):
                        if sum(X[i][j] for j in order[:k]) < sum(X[i2][j] for j in order[:k]) - 1e-7:
                            return ("sd_envy", "agent %d's row is dominated by agent %d's on its top-%d items" % (i, i2, k))
        if obs.get("mutated"):
            return ("mutated_argument", "arguments modified")
        return None

    def coq(self, case, obs):
        P = cl([cl(["(Some %s)" % cn(x - 1) for x in row]) for row in case["P"]])
        sp = cl([cq(Fraction(float(Fraction(s)))) for s in case["speeds"]])
        return ("eat", ct(P, sp, cl([cl([cq(frac(x)) for x in row]) for row in obs["X"]])))

    def coq_info(self, case, obs):
        """the hypothesis of gen_eat_is_model (EatSnap.run_ok_b) evaluated by the kernel on the same literal"""
        lit = self.coq(case, obs)
        return None if lit is None else ("eatok", lit[1])

    def nontrivial(self, case, obs):
        return len(case["P"]) >= 2

    def finish(self, records):
        self._snap = (sum(1 for r in records if r[1].get("exact_run_outside_snapping_windows")), sum(1 for r in records if "exact_run_outside_snapping_windows" in r[1]))
        return []

    def extra_coverage(self):
        k, n = getattr(self, "_snap", (0, 0))
        return dict(generated_model_domain="the model regenerated from the source (EatLoopGen.v) is proved equal to the exact model on runs outside the code's two snapping windows "
                                           "(gen_eat_is_model): %d of the %d evaluated cases have such a run (computed by the harness's exact simulation)" % (k, n))

PROP = C05()
