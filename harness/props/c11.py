"""C11 — voting rules treat voters and alternatives symmetrically."""
from fractions import Fraction
from ..core import *
from ..runner import Prop, Group
from . import voting_common as V
from .c12 import stv_replay
from . import elicit_common as E

REQ = "From SCK Require Import Voting VoteExt RunVote."
ORD = V.RULES + ["Copeland"]

class C11(Prop):
    layouts = True
    translators = ['scoring', 'copeland', 'stv', 'elicitvoting', 'm2q', 'elicitor', 'elicitclasses']   # models regenerated from deterministic_scoring.py / utils.py / deterministic_tournament.py on every run
    pid = "C11"
    sources = ["socialchoicekit/deterministic_scoring.py", "socialchoicekit/deterministic_tournament.py", "socialchoicekit/deterministic_multiround.py"]
    groups = {
        "score": Group("score", REQ, "RunVote.score_case", "RunVote.chk_score"),
        "cop": Group("cop", REQ, "RunVote.cop_case", "RunVote.chk_cop"),
        "util": Group("util", REQ, "RunVote.util_case", "RunVote.chk_util"),
    }
    rule = ("each case = (profile, voter permutation, alternative permutation, rule): the implementation is run on the profile, on the voter-permuted and on the renamed profile; "
            "exhaustive n,m<=3 slice with all permutations; orbit-symmetrised profiles (P together with its image under a transposition, so two alternatives hold equal rank multisets); "
            "random up to n=30, m=8; rules: five positional rules, Copeland, STV ('first'; neutrality only when no elimination tie), utilitarian, k-ARV and lambda-PRV behind truthful elicitors (1e-9 relative; m in 2..11, not only powers of two). "
            "weak orders (dense ranks with ties) for Plurality / Borda / Harmonic wrapped in every profile class that admits ties (oracle only); input arrays in row-major, column-major and strided layouts. "
            "Non-trivial = both permutations are not the identity; distinct by input hash")
    trusted_base = ["theorems are about the exact models (Voting.v); the float summation order of numpy is outside the model: the metamorphic oracle runs on the implementation itself",
                    "k-ARV / lambda-PRV symmetry: metamorphic oracle on the implementation (family 'elicit'); their models are C14-C16's"]
    assumptions = ["profiles are complete and strict (family 'weak': complete weak orders, for the rules whose signature admits them); tie_breaker = 'accept' (STV: 'first')"]

    def mk(self, fam, rule, P, pv, pa, k=1):
        return dict(entry=rule + ".symmetry", family=fam, rule=rule, method="scf", P=P, pv=pv, pa=pa, k=k, zi=True, tb=("first" if rule == "STV" else "accept"))

    def cases(self, rng, tier):
        import itertools
        cnt = 0
        for n, m in [(2, 2), (3, 2), (2, 3), (3, 3)]:
            profs = list(V.perm_profiles(n, m))
            if len(profs) > 150: profs = rng.sample(profs, 150 if tier == "quick" else 216)
            for P in profs:
                for pa in itertools.permutations(range(m)):
                    cnt += 1
                    pv = list(range(n)); rng.shuffle(pv)
                    rule = (ORD + ["STV"])[cnt % 7]
                    yield self.mk("exh", rule, [list(r) for r in P], pv, list(pa), k=1 + cnt % (m + 1))
        N = 500 if tier == "quick" else 8000
        for i in range(N):
            n = rng.randint(1, 15); m = rng.randint(2, 8) if i % 3 else rng.choice([10, 11, 13, 14, 15, 18, 19, 22])
            base = V.rand_profile(rng, n, m)
            a, b = rng.sample(range(m), 2)
            fam = "random"
            if i % 2 == 0:
                fam = "orbit"
                mirror = []
                for row in base:
                    r2 = list(row); r2[a], r2[b] = r2[b], r2[a]; mirror.append(r2)
                base = base + mirror
                rng.shuffle(base)
            pv = list(range(len(base))); rng.shuffle(pv)
            pa = list(range(m)); rng.shuffle(pa)
            rule = (ORD + ["STV"])[i % 7]
            c = self.mk(fam, rule, base, pv, pa, k=rng.randint(1, m + 1))
            if fam == "orbit": c["tied"] = [a, b]
            yield c
        # many alternatives, ballots that differ only in two alternatives (at either end of the numbering), few voters: anything that
        # identifies or hashes ballots by a fixed-width key collides here
        for i in range(16 if tier == "quick" else 300):
            m = [31, 35, 20, 63, 39, 16, 47, 24][i % 8]
            A = rng.sample(range(1, m + 1), m)
            a, b = (m - 2, m - 1) if i % 2 == 0 else (0, 1)
            B = list(A); B[a], B[b] = B[b], B[a]
            P = [A, B, B] if i % 3 else [B, A, B, A, B]
            pv = list(range(len(P))); pv.reverse(); pa = list(range(m)); pa.reverse()
            c = self.mk("wide_pairs", ["Copeland", "Borda", "Copeland", "Harmonic"][i % 4], P, pv, pa, k=1)
            c["dtype"] = ["int64", "float", "int32"][i % 3]
            yield c
        # weak orders (ballots with indifference classes, dense ranks) for the rules whose signature admits them, wrapped in each profile class
        # that admits ties; half of them symmetrised under a transposition of two alternatives
        for i in range(120 if tier == "quick" else 2500):
            n = rng.randint(1, 8); m = rng.randint(2, 6)
            def weak():
                t = rng.randint(1, m); cls = [rng.randrange(t) for _ in range(m)]
                used = sorted(set(cls)); return [used.index(c) + 1 for c in cls]
            base = [weak() for _ in range(n)]
            rule = ["Plurality", "Borda", "Harmonic"][i % 3]
            a, b = rng.sample(range(m), 2)
            if i % 2 == 0:
                base = base + [[row[b] if j == a else row[a] if j == b else row[j] for j in range(m)] for row in base]
                rng.shuffle(base)
            pv = list(range(len(base))); rng.shuffle(pv); pa = list(range(m)); rng.shuffle(pa)
            c = self.mk("weak_orbit" if i % 2 == 0 else "weak", rule, base, pv, pa, k=1)
            c["wrap"] = ["CompleteProfileWithTies", "CompleteProfile", "ProfileWithTies", "Profile"][(i // 3) % (4 if rule == "Plurality" else 2)]
            if i % 2 == 0: c["tied"] = [a, b]
            yield c
        N = 150 if tier == "quick" else 2000
        for i in range(N):
            n = rng.randint(1, 10); m = rng.randint(2, 7)
            Vp = [[rng.random() if rng.random() > .15 else None for _ in range(m)] for _ in range(n)]
            if not any(x for row in Vp for x in row if x): continue
            pv = list(range(n)); rng.shuffle(pv); pa = list(range(m)); rng.shuffle(pa)
            yield dict(entry="SocialWelfare.symmetry", family="util", rule="SocialWelfare", method="scf", V=Vp, pv=pv, pa=pa, k=1, zi=True, tb="accept")
        # the elicitation voting rules (k-ARV, lambda-PRV): utilities behind a truthful elicitor; m deliberately not only powers of two
        N = 120 if tier == "quick" else 2500
        for i in range(N):
            n = rng.randint(2, 7); m = rng.choice([2, 3, 4, 5, 6, 7, 9, 11])
            rule = ["KARV", "PRV"][i % 2]
            k = rng.randint(1, min(3, m)) if rule == "KARV" else rng.randint(1, m)
            P, Vv = E.gen_pair(rng, n, m, rng.choice(["unit", "unit", "skew", "bigint"]), k)
            if i % 5 == 3:      # one alternative everybody ranks first and values many orders of magnitude above the rest (scores of very different size side by side)
                d = rng.randrange(m); big = rng.choice([1e15, 1e17, 3e20, 1e300])
                P = []; Vv = []
                for _ in range(n):
                    rest = [j for j in range(m) if j != d]; rng.shuffle(rest); order = [d] + rest
                    rk = [0] * m; vv = [0.0] * m
                    vals = sorted([rng.choice([0.5, 1.0, 2.0, 2.5, 3.0, 5.0]) for _ in rest], reverse=True)
                    for pos, j in enumerate(order): rk[j] = pos + 1; vv[j] = big if pos == 0 else vals[pos - 1]
                    P.append(rk); Vv.append(vv)
            pv = list(range(n)); rng.shuffle(pv); pa = list(range(m)); rng.shuffle(pa)
            c = dict(entry={"KARV": "KARV.symmetry", "PRV": "LambdaPRV.symmetry"}[rule], family=("elicit_dominant" if i % 5 == 3 else "elicit"), rule=rule, P=P, V=Vv, pv=pv, pa=pa, k=k,
                     zi=True, tb="accept", want_out=True, eclass="profile")
            if i % 5 in (1, 4):      # a one-indexed memoising LambdaElicitor that another rule (lambda-PRV, lambda = 1) has used on the same profile before
                c.update(eclass="lambda", ezi=False, reuse_elicitor=True, family="elicit_reused_elicitor")
            yield c

    def variants(self, case):
        key = "V" if "V" in case else "P"
        M = case[key]; pv, pa = case["pv"], case["pa"]
        Mv = [M[i] for i in pv]
        # renamed: new alternative j is old alternative pa[j]
        Ma = [[row[pa[j]] for j in range(len(pa))] for row in M]
        return key, Mv, Ma

    def run_elicit(self, case):
        P, Vv, pv, pa = case["P"], case["V"], case["pv"], case["pa"]
        def one(P_, V_):
            o = E.run_rule(dict(case, P=P_, V=V_))
            if o["status"] != "ok":
                return o
            vt = o["vt"]
            sc = [float(x) for x in vt] if case["rule"] == "PRV" else [float(sum(row[j] for row in vt)) for j in range(len(vt[0]))]
            out = o["out"]
            return dict(status="ok", score=sc, out=(out if isinstance(out, list) else [out]))
        o = one(P, Vv)
        ov = one([P[i] for i in pv], [Vv[i] for i in pv])
        oa = one([[row[pa[j]] for j in range(len(pa))] for row in P], [[row[pa[j]] for j in range(len(pa))] for row in Vv])
        return dict(status=("ok" if all(x["status"] == "ok" for x in (o, ov, oa)) else "err"), base=o, voters=ov, alts=oa)

    def run(self, case):
        if case["family"].startswith("elicit"):
            return self.run_elicit(case)
        key, Mv, Ma = self.variants(case)
        o = V.run_vote(case)
        ov = V.run_vote(dict(case, **{key: Mv}))
        oa = V.run_vote(dict(case, **{key: Ma}))
        return dict(status=("ok" if all(x["status"] == "ok" for x in (o, ov, oa)) else "err"), base=o, voters=ov, alts=oa)

    def oracle(self, case, obs):
        if obs["status"] != "ok":
            return ("no_result", "%s failed on a valid profile: %r" % (case["rule"], [obs[k].get("err") for k in ("base", "voters", "alts")]))
        o, ov, oa = obs["base"], obs["voters"], obs["alts"]
        pa = case["pa"]; m = len(pa)
        if case["rule"] == "STV":
            if ov["out"] != o["out"]:
                return ("not_anonymous", "STV winner changed from %r to %r when voters were reordered" % (o["out"], ov["out"]))
            _, _, tie = stv_replay(case["P"], None)
            if not tie and pa[oa["out"]] != o["out"]:
                return ("not_neutral", "STV winner %r, after renaming %r (= old %r) although no elimination tie occurs" % (o["out"], oa["out"], pa[oa["out"]]))
            return None
        s, sv, sa = o["score"], ov["score"], oa["score"]
        exact = case["rule"] not in ("SocialWelfare", "KARV", "PRV")
        def close(x, y):
            return x == y if exact else abs(x - y) <= 1e-9 * max(abs(x), abs(y))
        if not all(close(x, y) for x, y in zip(s, sv)):
            return ("not_anonymous", "%s scores changed when voters were reordered: %r vs %r" % (case["rule"], s, sv))
        if not all(close(sa[j], s[pa[j]]) for j in range(m)):
            return ("not_neutral", "%s scores are not permuted by the renaming: %r vs %r" % (case["rule"], s, sa))
        top = sorted(s, reverse=True)
        separated = exact or len(top) < 2 or all(x == top[0] or top[0] - x > 1e-9 * abs(top[0]) for x in top)
        if separated:
            if ov["out"] != o["out"]:
                return ("not_anonymous", "%s winner set changed from %r to %r when voters were reordered" % (case["rule"], o["out"], ov["out"]))
            if sorted(pa[j] for j in oa["out"]) != sorted(o["out"]):
                return ("not_neutral", "%s winner set %r, after renaming %r" % (case["rule"], o["out"], oa["out"]))
        if "tied" in case and exact:
            a, b = case["tied"]
            if s[a] != s[b]:
                return ("equal_multisets_differ", "alternatives %d and %d hold the same multiset of ranks but score %r vs %r" % (a, b, s[a], s[b]))
            if (a in o["out"]) != (b in o["out"]):
                return ("equal_multisets_differ", "alternatives %d and %d hold the same multiset of ranks but only one wins" % (a, b))
        return None

    def coq(self, case, obs):
        if case["rule"] in ("STV", "KARV", "PRV") or case["family"].startswith("weak"):
            return None
        sc = obs["voters"]["score"]; key, Mv, Ma = self.variants(case)
        if case["rule"] == "SocialWelfare":
            return ("util", ct(V.cV(Mv), V.cQl(sc)))
        if case["rule"] == "Copeland":
            return ("cop", ct(V.cP(Mv), cl([cz(int(x)) for x in sc])))
        return ("score", ct(cn(V.RULES.index(case["rule"])), cz(case["k"]), V.cP(Mv), V.cQl(sc)))

    def nontrivial(self, case, obs):
        return case["pv"] != sorted(case["pv"]) and case["pa"] != sorted(case["pa"])

PROP = C11()
