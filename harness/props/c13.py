"""C13 — tie-breaking, indexing and randomized selection follow the documented contract."""
from fractions import Fraction
import numpy as np
from ..core import *
from ..runner import Prop, Group
from . import voting_common as V
from . import gs_common as GS

REQ = "From SCK Require Import Voting VoteExt RunVote."
DET = V.RULES + ["Copeland"]
RAND = ["RandomizedPlurality", "RandomizedBorda", "RandomizedVeto", "RandomizedKApproval", "RandomizedHarmonic"]

# entry points (of C20's registry) whose output mentions alternatives / items / agents: "all" = every number in the output
# is such an index, "second" = [simulated profile, reported outcome]
SHIFT = {"GaleShapley.scf": "all", "Irving.scf": "all", "DoubleLambdaTSF": "all", "MaximumWeightMatching.scf": "all",
         "RandomSerialDictatorship.scf": "all", "SimultaneousEating.scf": "all", "ProbabilisticSerial.scf": "all",
         "KARV": "second", "LambdaPRV": "second", "LambdaTSF": "second", "MatchTwoQueries": "second"}

class C13(Prop):
    layouts = True
    translators = ['scoring', 'randscoring', 'gsres', 'gshosp', 'elicitvoting', 'validators']   # scoring rules, break_tie, BaseRandomizedScoring and both Gale-Shapley loops regenerated from the source on every run
    pid = "C13"
    sources = ["socialchoicekit/utils.py", "socialchoicekit/deterministic_scoring.py", "socialchoicekit/deterministic_tournament.py",
               "socialchoicekit/randomized_scoring.py", "socialchoicekit/deterministic_multiround.py", "socialchoicekit/deterministic_matching.py"]
    groups = {
        "scf": Group("scf", REQ, "RunVote.scf_case", "RunVote.chk_scf"),
        "randp": Group("randp", REQ, "RunVote.randp_case", "RunVote.chk_randp"),
    }
    rule = ("product space rule x tie-breaker (random/first/accept/unknown) x index convention over exhaustive small and random profiles: each case runs the rule "
            "one-indexed and zero-indexed under the same seed and compares; np.random.choice is wrapped in-process so that the population, the probability vector and the "
            "returned value of every draw are observed (no frequency statistics); randomized scoring rules: probability vector vs score/sum(score), chosen index has positive score; "
            "STV with 'accept' must be rejected; Gale-Shapley pairs shift by one. Non-trivial = a genuine tie among maximisers or a randomized draw with >= 2 positive scores; distinct by input hash")
    trusted_base = ["models Voting.break_tie / winners, VoteExt.rand_probs; numpy's sampler is an oracle whose arguments and result are intercepted"]
    assumptions = ["profiles are complete and strict; sum of scores positive for the randomized rules"]

    def cases(self, rng, tier):
        cnt = 0
        for n, m in [(1, 2), (2, 2), (2, 3), (3, 3), (4, 2)]:
            profs = list(V.perm_profiles(n, m))
            if len(profs) > 120: profs = rng.sample(profs, 120)
            for P in profs:
                for tb in ["random", "first", "accept", "bogus"]:
                    cnt += 1
                    rule = DET[cnt % 6]
                    yield dict(entry=rule + ".scf", family="exh", rule=rule, method="scf", P=[list(r) for r in P], tb=tb, k=1 + cnt % (m + 1), seed=cnt)
        N = 300 if tier == "quick" else 6000
        for i in range(N):
            n = rng.randint(1, 12); m = rng.randint(1, 8)
            base = V.rand_profile(rng, n, m)
            if i % 2 and m >= 2:   # force ties
                a, b = rng.sample(range(m), 2)
                base = base + [[row[b] if j == a else row[a] if j == b else row[j] for j in range(m)] for row in base]
            rule = DET[i % 6]
            c = dict(entry=rule + ".scf", family="random", rule=rule, method="scf", P=base, tb=rng.choice(["random", "first", "accept"]), k=rng.randint(1, m + 1), seed=i)
            if i % 4 == 0:
                c["inplace_first"] = V.rand_profile(rng, len(base), m); c["family"] = "random_history"
            elif i % 4 == 1:      # history: the same rule object decided an election with another number of alternatives (fewer than k, or more) before
                m2 = rng.choice([x for x in range(1, 9) if x != m])
                c["prelude"] = [dict(P=V.rand_profile(rng, rng.randint(1, 5), m2))]; c["family"] = "random_reuse"
            yield c
        for i in range(30 if tier == "quick" else 300):     # large electorates decided by one vote
            m = rng.randint(2, 4); base = rng.choice([70000, 150000, 300000])
            ballots = [rng.sample(range(1, m + 1), m) for _ in range(rng.randint(2, 4))]
            rule = DET[i % 6]
            yield dict(entry=rule + ".scf", family="big", rule=rule, method="scf", P=ballots, mults=[base + rng.choice([0, 1, 2]) for _ in ballots], shuffle_seed=i,
                       tb=["random", "first", "accept"][i % 3], k=rng.randint(1, m), seed=i)
        N = 300 if tier == "quick" else 6000
        for i in range(N):
            n = rng.randint(1, 10); m = rng.randint(2, 7)   # m = 1: Borda/Veto scores sum to zero, outside the rule's domain
            rule = RAND[i % 5]
            c = dict(entry=rule + ".scf", family="randomized", rule=rule, method="scf", P=V.rand_profile(rng, n, m), tb="random", k=rng.randint(1, m + 1), seed=i)
            if i % 3 == 0:
                c["inplace_first"] = V.rand_profile(rng, n, m); c["family"] = "randomized_history"
            elif i % 3 == 1:
                m2 = rng.choice([x for x in range(2, 9) if x != m])
                c["prelude"] = [dict(P=V.rand_profile(rng, rng.randint(1, 5), m2))]; c["family"] = "randomized_reuse"
            yield c
        N = 60 if tier == "quick" else 1000
        for i in range(N):
            n = rng.randint(1, 6); m = rng.randint(2, 5)
            yield dict(entry="STV.scf", family="stv", rule="STV", method="scf", P=V.rand_profile(rng, n, m), tb=["random", "first", "accept", "bogus"][i % 4], k=1, seed=i)
        N = 100 if tier == "quick" else 2000
        for i in range(N):
            n = rng.randint(1, 6); m = rng.randint(1, 4); pn = rng.choice([0, 0.3])
            R = GS.rand_profile(rng, n, m, pn); H = GS.rand_profile(rng, m, n, pn)
            if not (GS.valid_profile(R) and GS.valid_profile(H)): continue
            yield dict(entry="GaleShapley.scf", family="gs", rule="GS", R=R, H=H, c=[rng.randint(1, 2) for _ in range(m)], ro=bool(i % 2))
        # lambda-PRV / k-ARV (their own scf): constant utilities, zero included - every alternative is then maximal whenever all scores coincide
        from . import elicit_common as EC
        for i in range(40 if tier == "quick" else 600):
            n = rng.randint(1, 4); m = rng.randint(1, 5); erule = ["PRV", "KARV"][i % 2]
            cst = [0.0, 0.0, 1.0, 0.5][i % 4]
            P = [rng.sample(range(1, m + 1), m) for _ in range(n)]
            k = rng.randint(1, m) if erule == "PRV" else rng.randint(1, min(3, m))
            if i % 8 >= 6:      # one voter with positive utilities next to all-zero voters
                Vv = [[0.0] * m for _ in range(n)]; vals = sorted([rng.random() for _ in range(m)], reverse=True); Vv[0] = [vals[r - 1] for r in P[0]]
            else:
                Vv = [[cst] * m for _ in range(n)]
            yield dict(entry={"PRV": "LambdaPRV.scf", "KARV": "KARV.scf"}[erule], family="elicit_constant", rule="EV", erule=erule, P=P, V=Vv, k=k, tb=["accept", "first", "random"][i % 3],
                       want_out=True, seed=i, eclass=["lambda", "profile"][i % 2], ezi=True)
        # k-ARV with small integer utilities and a number of alternatives whose thresholds v / m**(l/(k+1)) are exact (m = 4, 9, 16 with k = 1; 8 with k = 2; 16 with k = 3):
        # utilities that sit exactly ON a threshold, and exact ties between the scores of several alternatives
        for i in range(60 if tier == "quick" else 900):
            m, k = [(4, 1), (9, 1), (8, 2), (4, 1), (16, 1), (16, 3)][i % 6]; n = rng.randint(2, 4)
            P = [rng.sample(range(1, m + 1), m) for _ in range(n)]; Vv = []
            for row in P:
                vals = sorted([float(rng.randint(0, 8)) for _ in range(m)], reverse=True); Vv.append([vals[r - 1] for r in row])
            yield dict(entry="KARV.scf", family="karv_exact_thresholds", rule="EV", erule="KARV", P=P, V=Vv, k=k, tb=["accept", "first", "random"][i % 3],
                       want_out=True, seed=i, eclass=["lambda", "profile"][i % 2], ezi=True)
        # "for every rule in the library": the matching, allocation and elicitation rule families, run under both conventions
        from . import c20 as C20M
        for c in C20M.PROP.cases(rng, tier):
            if c["name"] in SHIFT:
                yield dict(c, entry=c["name"] + ".index_shift", family="shift_all", rule="SHIFT", tb="accept")

    def run(self, case):
        if case["rule"] == "SHIFT":
            from . import c20 as C20M
            outs = {}
            for z in (False, True):
                C20M.ZI = z
                try:
                    outs[z] = C20M.PROP.run_one(case, "int64")
                finally:
                    C20M.ZI = True
            return dict(status=("ok" if outs[False]["status"] == outs[True]["status"] == "ok" else "err"), one=outs[False], zero=outs[True])
        if case["rule"] == "EV":
            from . import elicit_common as EC
            np.random.seed(case["seed"]); a = EC.run_rule(dict(case, rule=case["erule"], zi=False))
            np.random.seed(case["seed"]); b = EC.run_rule(dict(case, rule=case["erule"], zi=True))
            return dict(status=("ok" if a["status"] == b["status"] == "ok" else "err"), one=a, zero=b)
        if case["rule"] == "GS":
            a = GS.run_gs(dict(case, zi=False)); b = GS.run_gs(dict(case, zi=True))
            return dict(status=("ok" if a["status"] == b["status"] == "ok" else "err"), one=a, zero=b)
        a = V.run_vote(dict(case, zi=False), seed=case["seed"])
        b = V.run_vote(dict(case, zi=True), seed=case["seed"])
        st = "ok" if a["status"] == b["status"] == "ok" else ("rejected" if a["status"] == b["status"] == "err" else "err")
        return dict(status=st, one=a, zero=b)

    def oracle(self, case, obs):
        a, b = obs["one"], obs["zero"]
        if case["rule"] == "SHIFT":
            if obs["status"] != "ok":
                if a["status"] == b["status"] == "err" and a.get("err") == b.get("err"):
                    return None      # both conventions reject the input the same way (e.g. no feasible assignment)
                return ("index_shift", "%s: one-indexed run -> %s %s, zero-indexed run -> %s %s" % (case["name"], a["status"], a.get("err", ""), b["status"], b.get("err", "")))
            def up(x):
                if isinstance(x, list): return [up(v) for v in x]
                if isinstance(x, float): return x + 1
                return x
            ra, rb = a["result"], b["result"]
            want = [rb[0], up(rb[1])] if SHIFT[case["name"]] == "second" else up(rb)
            if ra != want:
                return ("index_shift", "%s: one-indexed output %r is not the zero-indexed output %r shifted by one" % (case["name"], ra, rb))
            return None
        if case["rule"] == "EV":
            if obs["status"] != "ok":
                return ("no_result", "%s failed on a valid profile: %s %s / %s %s" % (case["entry"], a["status"], a.get("err"), b["status"], b.get("err")))
            vt = b["vt"]; sc = [float(x) for x in vt] if case["erule"] == "PRV" else [float(x) for x in np.sum(np.array(vt, dtype=float), axis=0)]      # (numpy's own reduction, as KARV.score does: Python 3.12's built-in sum() of floats is compensated and differs in the last bit)
            if case["erule"] == "KARV":      # the documented score: column sums of the simulated values given by the threshold sets (independent linear-scan reference)
                from . import elicit_common as EC2
                ref, _ = EC2.ref_threshold_fill(case["P"], case["V"], case["k"], len(case["P"][0]), 0.0, False)
                rs = [float(x) for x in np.sum(np.array(ref, dtype=float), axis=0)]
                if any(abs(x - y) > 1e-9 * max(1.0, abs(y)) for x, y in zip(sc, rs)):
                    return ("wrong_score_basis", "k-ARV scores %r are not the column sums of the documented simulated values %r" % (sc, rs))
            mx = max(sc); maxi = [j for j in range(len(sc)) if sc[j] == mx]
            oa, ob = a["out"], b["out"]
            if case["tb"] == "accept":
                if ob != maxi: return ("accept_contract", "'accept' returned %r, maximisers in increasing order are %r (scores %r)" % (ob, maxi, sc))
                if oa != [x + 1 for x in ob]: return ("index_shift", "one-indexed output %r is not zero-indexed output %r plus one" % (oa, ob))
            else:
                if isinstance(ob, list) or isinstance(oa, list): return ("single_winner_expected", "%r / %r" % (oa, ob))
                if case["tb"] == "first" and ob != maxi[0]: return ("first_contract", "'first' returned %r, smallest maximiser is %r" % (ob, maxi[0]))
                if ob not in maxi: return ("random_contract", "returned %r, not among maximisers %r" % (ob, maxi))
                if oa != ob + 1: return ("index_shift", "one-indexed output %r is not zero-indexed output %r plus one" % (oa, ob))
            return None
        if case["rule"] == "GS":
            if obs["status"] != "ok":
                return ("no_result", "GaleShapley failed")
            if sorted((x + 1, y + 1) for x, y in b["pairs"]) != sorted(tuple(p) for p in a["pairs"]):
                return ("index_shift", "one-indexed pairs are not the zero-indexed pairs plus one")
            return None
        bad_tb = case["tb"] == "bogus" or (case["rule"] == "STV" and case["tb"] == "accept")
        if bad_tb:
            if obs["status"] == "rejected" and a.get("err") == "ValueError" and b.get("err") == "ValueError":
                return None
            return ("tie_breaker_not_rejected", "unknown/excluded tie-breaker %r was not rejected with ValueError (%s/%s)" % (case["tb"], a["status"], b["status"]))
        if obs["status"] != "ok":
            return ("no_result", "%s failed: %s %s / %s %s" % (case["entry"], a["status"], a.get("msg"), b["status"], b.get("msg")))
        oa, ob = a["out"], b["out"]
        shift = (lambda x: [v + 1 for v in x]) if isinstance(ob, list) else (lambda x: x + 1)
        if type(oa) != type(ob) or shift(ob) != oa:
            return ("index_shift", "one-indexed output %r is not zero-indexed output %r plus one" % (oa, ob))
        if case["rule"] == "STV":
            return None
        if a["score"] != b["score"]:
            return ("index_shift", "scores depend on the index convention")
        sc = b["score"]; m = len(sc)
        # the scores the contract refers to are the rule's textbook scores for the k it was constructed with (integer rules: exact)
        base = case["rule"].replace("Randomized", "")
        if base in ("Plurality", "Borda", "Veto", "KApproval"):
            mm = len(case["P"][0]); k = case["k"]; mults = case.get("mults") or [1] * len(case["P"])
            w = {"Plurality": lambda r: int(r == 1), "Borda": lambda r: mm - r, "Veto": lambda r: int(r < mm), "KApproval": lambda r: int(r <= k)}[base]
            want = [sum(mu * w(row[j]) for row, mu in zip(case["P"], mults)) for j in range(mm)]
            if [float(x) for x in sc] != [float(x) for x in want]:
                return ("wrong_score_basis", "%s (k=%r) works from scores %r, the rule's scores are %r" % (case["rule"], k, sc, want))
        if case["rule"] in RAND:
            ch = b["choices"][-1] if b["choices"] else None
            if ch is None or ch["p"] is None:
                return ("no_probability_vector", "randomized rule did not hand a probability vector to the sampler")
            tot = sum(Fraction(x) for x in sc)
            for j in range(m):
                if abs(Fraction(ch["p"][j]) - Fraction(sc[j]) / tot) > Fraction(1, 10**12):
                    return ("not_proportional", "p[%d]=%r but score share is %s" % (j, ch["p"][j], Fraction(sc[j]) / tot))
            if ch["a"] != list(range(m)):
                return ("wrong_population", "sampler population %r" % (ch["a"],))
            if not (0 <= ob < m) or sc[ob] <= 0:
                return ("zero_score_winner", "randomized rule returned alternative %r whose score is %r" % (ob, sc[ob] if 0 <= ob < m else None))
            if ob != ch["r"]:
                return ("wrong_draw", "returned alternative differs from the sampler's draw")
            ia, ib = a.get("inner"), b.get("inner")
            if ia is not None and ib is not None:      # the exposed deterministic rule (tie-breaker 'random', same seed in both runs)
                mx = max(sc)
                if isinstance(ib, list) or not (0 <= ib < m) or sc[ib] != mx:
                    return ("inner_rule_contract", "%s.voting_rule.scf returned %r, not a maximiser of %r" % (case["rule"], ib, sc))
                if ia != ib + 1:
                    return ("index_shift", "%s.voting_rule: one-indexed winner %r is not the zero-indexed winner %r plus one" % (case["rule"], ia, ib))
            return None
        mx = max(sc); maxi = [j for j in range(m) if sc[j] == mx]
        if case["tb"] == "accept" and ob != maxi:
            return ("accept_contract", "'accept' returned %r, maximisers in increasing order are %r" % (ob, maxi))
        if case["tb"] == "first" and ob != maxi[0]:
            return ("first_contract", "'first' returned %r, smallest maximiser is %r" % (ob, maxi[0]))
        if case["tb"] == "random" and ob not in maxi:
            return ("random_contract", "'random' returned %r, not among maximisers %r" % (ob, maxi))
        return None

    def coq(self, case, obs):
        if case["rule"] in ("GS", "STV", "SHIFT", "EV") or obs["status"] != "ok":
            return None
        b = obs["zero"]; sc = b["score"]
        if case["rule"] in RAND:
            ch = b["choices"][-1]
            return ("randp", ct(V.cQl(sc), V.cQl(ch["p"]), cn(b["out"])))
        lits = []
        out = obs["one"]["out"]; pick = 0
        if case["tb"] == "random":
            ch = obs["one"]["choices"][-1]; pick = ch["a"].index(ch["r"])
        o = "(Voting.OList %s)" % cl([cz(x) for x in out]) if isinstance(out, list) else "(Voting.OOne %s)" % cz(out)
        return ("scf", ct(V.cQl(sc), cz(1), cn(V.TBS.index(case["tb"])), "true", cn(pick), o))

    def nontrivial(self, case, obs):
        if case["rule"] in ("SHIFT", "EV"):
            return obs["status"] == "ok"
        if obs["status"] != "ok" or case["rule"] in ("GS", "STV"):
            return obs["status"] == "ok" and case["rule"] == "GS" and len(obs["zero"]["pairs"]) > 0
        sc = obs["zero"]["score"]
        if case["rule"] in RAND:
            return sum(1 for x in sc if x > 0) >= 2
        return sum(1 for x in sc if x == max(sc)) >= 2

PROP = C13()
