"""C03 — Irving returns a welfare-maximal stable matching."""
import itertools
from ..core import *
from ..runner import Prop, Group
from . import irv_common as I

class C03(Prop):
    layouts = True
    translators = ['flow', 'irvsmall', 'mwcs', 'irvscf', 'irvposet', 'irvinit', 'irvrot', 'irvall', 'irvpipe']   # ford_fulkerson / dfs_path (Irving's closed-subset step) regenerated from flow.py on every run
    pid = "C03"
    sources = ["socialchoicekit/deterministic_matching.py", "socialchoicekit/flow.py"]
    groups = {"irv": Group("irv", "From SCK Require Import Irving RunIrv.", "RunIrv.irv_case", "RunIrv.chk_irv", shard=12),
              "opt": Group("opt", "From SCK Require Import StableCheck.", "StableCheck.opt_case", "StableCheck.chk_opt", shard=10)}
    rule = ("exhaustive n<=2 (all profile pairs) and a slice of n=3 x valuation kinds {borda, halved (ties), zeros, random 0..9, distinct}; random n<=8; cyclic Latin squares (chain posets) up to n=12; "
            "noisy Latin squares; k blocks of 3 (k<=5 quick, <=12 thorough: 2k rotations, shallow poset, the family that exposed the elimination-order defect); with and without ordinal profiles; "
            "int32/int64/float64 rank dtypes. Every intermediate structure (man-optimal matching, shortlists, rotations, eliminating-rotation table, sparse poset, weights, closed subset) and the final "
            "matching are compared with the model; oracle: all stable matchings by pruned backtracking (per block for block instances). Non-trivial = at least two stable matchings; distinct by input hash")
    trusted_base = ["model Irving.v built on the proved GS model (GSFinal.gs_res_run), proved stable argsort and proved min-cut model (Mwcs.v on FlowModel.v)",
                    "end-to-end optimality of the Irving-Leather-Gusfield construction is NOT proved (partial): decided per case by brute-force enumeration of stable matchings"]
    assumptions = ["strict complete n x n ordinal profiles, integer valuations; without ordinal profiles each agent's valuations are distinct"]
    deadline = 60.0

    def cases(self, rng, tier):
        perms = lambda n: list(itertools.permutations(range(1, n + 1)))
        cnt = 0
        for n in (1, 2):
            for P1 in itertools.product(perms(n), repeat=n):
                for P2 in itertools.product(perms(n), repeat=n):
                    cnt += 1
                    vk = ["borda", "rand", "ties", "zero", "distinct"][cnt % 5]
                    P1l = [list(r) for r in P1]; P2l = [list(r) for r in P2]
                    V1, V2 = I.gen_valuations(rng, P1l, P2l, vk)
                    yield dict(entry="Irving.scf", family="exh%d" % n, P1=P1l, P2=P2l, V1=V1, V2=V2, with_profiles=(vk != "distinct"), zi=bool(cnt % 2))
        p3 = perms(3)
        for _ in range(150 if tier == "quick" else 3000):
            P1l = [list(rng.choice(p3)) for _ in range(3)]; P2l = [list(rng.choice(p3)) for _ in range(3)]
            vk = rng.choice(["borda", "rand", "ties", "zero", "distinct"])
            V1, V2 = I.gen_valuations(rng, P1l, P2l, vk)
            yield dict(entry="Irving.scf", family="n3", P1=P1l, P2=P2l, V1=V1, V2=V2, with_profiles=(vk != "distinct"), zi=True)
        # many-rotation block compositions (>= 9 rotations: the family on which elimination order matters)
        for i in range(40 if tier == "quick" else 400):
            kb = rng.choice([5, 5, 6, 8] if tier == "quick" else [5, 6, 8, 10, 12])
            P1, P2 = I.block_instance(kb)
            vk = rng.choice(["rand", "rand", "ties", "borda"])
            V1, V2 = I.gen_valuations(rng, P1, P2, vk)
            yield dict(entry="Irving.scf", family="block", P1=P1, P2=P2, V1=V1, V2=V2, with_profiles=True, zi=bool(i % 2), stages=(kb <= 5))
        # a chain of rotations whose weights are huge (around 2^53) and nearly cancel: the exact integer decision differs by 1 or 2
        # from what rounded (binary64) weights would give. Cyclic Latin-square instance, Borda-like values plus two huge entries.
        for i in range(24 if tier == "quick" else 400):
            n = [3, 3, 4, 5][i % 4]
            P1 = [[((j - a) % n) + 1 for j in range(n)] for a in range(n)]
            P2 = [[((a - j - 1) % n) + 1 for a in range(n)] for j in range(n)]
            V1 = [[n - r for r in row] for row in P1]; V2 = [[n - r for r in row] for row in P2]
            big = 2 ** rng.choice([53, 53, 54, 60])
            V1[0][0] = big + rng.randint(0, 9)                 # man 0's favourite: lost in the first rotation
            V2[0][1 % n] = big + rng.randint(0, 9)             # woman 0's favourite: gained in the last rotation
            yield dict(entry="Irving.scf", family="huge_chain", P1=P1, P2=P2, V1=V1, V2=V2, with_profiles=bool(i % 2), zi=bool(i % 3))
        # valuations stored in narrow or unsigned integer arrays, with values that use most of the dtype's range: sums of a few
        # of them leave the range (the rotation weights must not be accumulated in the profile's dtype)
        for i in range(40 if tier == "quick" else 800):
            vdt, hi = [("int8", 120), ("int16", 30000), ("int32", 2 ** 31 - 5), ("uint8", 250), ("uint16", 65000), ("uint32", 2 ** 32 - 5), ("uint64", 2 ** 40), ("int8", 9)][i % 8]
            P1, P2 = I.gen_profiles(rng, rng.choice(["rand", "latin", "noisy"]), 6)
            def enc(P):
                out = []
                for row in P:
                    vals = sorted([rng.randint(0, hi) for _ in row], reverse=True); out.append([vals[r - 1] for r in row])
                return out
            yield dict(entry="Irving.scf", family="narrow_valuations", P1=P1, P2=P2, V1=enc(P1), V2=enc(P2), with_profiles=True, zi=bool(i % 2), vdtype=vdt)
        N = 140 if tier == "quick" else 3000
        for i in range(N):
            kind = rng.choice(["rand", "rand", "latin", "block", "noisy"])
            if kind == "block" and tier != "quick" and i % 3 == 0:
                P1, P2 = I.block_instance(rng.randint(6, 12))
            else:
                P1, P2 = I.gen_profiles(rng, kind, 8)
            vk = rng.choice(["borda", "rand", "ties", "zero", "distinct"])
            V1, V2 = I.gen_valuations(rng, P1, P2, vk)
            c = dict(entry="Irving.scf", family=kind, P1=P1, P2=P2, V1=V1, V2=V2, with_profiles=(vk != "distinct" or i % 2 == 0), zi=bool(i % 2),
                     dtype=rng.choice(["int64", "int64", "int32", "float"]), cpv=(len(P1) <= 6 and i % 3 == 0))
            if i % 4 == 2:       # history: the same Irving object solved an instance of another size first
                Q1, Q2 = I.gen_profiles(rng, "rand", 5); W1, W2 = I.gen_valuations(rng, Q1, Q2, "rand")
                c["prelude"] = dict(P1=Q1, P2=Q2, V1=W1, V2=W2); c["family"] = kind + "_history"
            yield c

    def neighbours(self, case):
        """used by the search after a broken correspondence: the SAME ordinal instance under many valuation patterns (a wrong intermediate structure - poset
        edge, eliminating rotation, weight - turns into a wrong matching only for some weights), then the usual smaller instances"""
        import random
        P1, P2 = self.ordinal(case); n = len(P1); r = random.Random(n * 1000003 + sum(map(sum, P1)))
        for c in self.probes(case, P1, P2): yield c
        for t in range(120):
            kind = t % 4
            if kind == 0: V1, V2 = I.gen_valuations(r, P1, P2, "rand")
            elif kind == 1: V1, V2 = I.gen_valuations(r, P1, P2, "ties")
            elif kind == 2:      # sparse: almost all zeros, a few positive entries on one side
                V1 = [[0] * n for _ in range(n)]; V2 = [[0] * n for _ in range(n)]
                for _ in range(r.randint(1, 3)): V1[r.randrange(n)][r.randrange(n)] = r.randint(1, 5)
                if t % 8 == 6: V2[r.randrange(n)][r.randrange(n)] = r.randint(1, 5)
            else:                # signed pattern: small values, many equal
                V1 = [[r.choice([0, 0, 1, 2]) for _ in range(n)] for _ in range(n)]; V2 = [[r.choice([0, 0, 1, 3]) for _ in range(n)] for _ in range(n)]
            yield dict(case, P1=P1, P2=P2, V1=V1, V2=V2, with_profiles=True, family=case["family"] + "_revalued", cpv=False, vdtype="int64")
        for c in self.shrink(case): yield c

    def probes(self, case, P1, P2):
        """precedence probes: for every ordered pair (pi, rho) of the instance's rotations, valuations that make rho attractive (+10 on the pair its first man moves TO)
        and pi repulsive (+25 on the pair pi's first man moves AWAY from). If pi must precede rho the optimum leaves both out; an implementation that lost the
        precedence pi -> rho (a missing poset edge, a wrong eliminating rotation) eliminates rho alone: an exception or an unstable / sub-optimal matching"""
        n = len(P1); z = [[0] * n for _ in range(n)]
        try:
            obs = self.run(dict(case, P1=P1, P2=P2, V1=z, V2=[r[:] for r in z], with_profiles=True, cpv=False, vdtype="int64", dtype="int64"))
        except Exception:  # noqa
            return
        rots = obs.get("rots") or []; cnt = 0
        for b, rho in enumerate(rots):
            for a, pi in enumerate(rots):
                if a == b or len(rho) < 2 or len(pi) < 2 or cnt >= 400: continue
                cnt += 1
                V1 = [[0] * n for _ in range(n)]
                V1[rho[0][0]][rho[1][1]] += 10
                V1[pi[0][0]][pi[0][1]] += 25
                yield dict(case, P1=P1, P2=P2, V1=V1, V2=[[0] * n for _ in range(n)], with_profiles=True, family=case["family"] + "_probe", cpv=False, vdtype="int64", dtype="int64")

    def targeted_probes(self, case):
        """search only: compare the precedence relation the implementation's poset encodes (transitive closure of P') with the TRUE one, read off all stable
        matchings (pi precedes rho iff every stable matching in which rho has been eliminated has pi eliminated too), and yield a probe for every pair on which
        they differ - the valuations of `probes` turn a lost or a spurious precedence into a wrong final matching, which the oracle then judges"""
        P1, P2 = self.ordinal(case); n = len(P1)
        if n > 8: return
        z = [[0] * n for _ in range(n)]
        base = dict(case, P1=P1, P2=P2, V1=z, V2=[r[:] for r in z], with_profiles=True, cpv=False, vdtype="int64", dtype="int64")
        base.pop("prelude", None)
        try:
            obs = self.run(base)
        except Exception:  # noqa
            return
        rots = obs.get("rots") or []; Pp = obs.get("Pp") or []; k = len(rots)
        if obs.get("status") != "ok" or k < 2 or len(Pp) != k: return
        sets = []
        for wife in I.all_stable(P1, P2):
            sets.append(frozenset(r for r in range(k) if P1[rots[r][0][0]][wife[rots[r][0][0]]] > P1[rots[r][0][0]][rots[r][0][1]]))
        true = [[a != b and all((a in S) for S in sets if b in S) for b in range(k)] for a in range(k)]       # true[a][b]: a precedes b
        clo = [[b in Pp[a] for b in range(k)] for a in range(k)]
        for c in range(k):
            for a in range(k):
                if clo[a][c]:
                    for b in range(k):
                        if clo[c][b]: clo[a][b] = True
        for a in range(k):
            for b in range(k):
                if a != b and true[a][b] != clo[a][b] and len(rots[a]) >= 2 and len(rots[b]) >= 2:
                    V1 = [[0] * n for _ in range(n)]
                    V1[rots[b][0][0]][rots[b][1][1]] += 10
                    V1[rots[a][0][0]][rots[a][0][1]] += 25
                    yield dict(base, V1=V1, family=str(case.get("family", "")) + "_precedence_probe")

    def search_cases(self, rng):
        """after a broken obligation: many ordinal instances with several rotations; an instance is only evaluated through its targeted probes"""
        for i in range(200000):
            kind = ["rand", "noisy", "rand", "latin", "noisy"][i % 5]
            P1, P2 = I.gen_profiles(rng, kind, [6, 7, 8, 8][i % 4])
            if len(P1) < 4: continue
            case = dict(entry="Irving.scf", family="search_" + kind, P1=P1, P2=P2, V1=None, V2=None, with_profiles=True, zi=True)
            for c in self.targeted_probes(case): yield c
            if i % 25 == 24:
                V1, V2 = I.gen_valuations(rng, P1, P2, rng.choice(["rand", "ties", "borda"]))
                yield dict(case, V1=V1, V2=V2)

    def ordinal(self, case):
        """the ordinal profiles the rule works with (given, or induced by distinct valuations)"""
        if case.get("with_profiles", True):
            return case["P1"], case["P2"]
        def ind(V):
            return [[1 + sorted(range(len(r)), key=lambda j: -r[j]).index(j) for j in range(len(r))] for r in V]
        return ind(case["V1"]), ind(case["V2"])

    def run(self, case):
        c = dict(case)
        if not case.get("with_profiles", True):
            c["P1"], c["P2"] = self.ordinal(case)     # stage calls use the induced rankings
            c["with_profiles"] = False
        obs = I.run_stages(c, self.deadline)
        if obs["status"] == "ok":
            f = 0 if case.get("zi", True) else 1
            obs["out0"] = [[a - f, b - f] for a, b in obs["out"]]
        return obs

    def oracle(self, case, obs):
        if obs["status"] != "ok":
            return ("no_result", "Irving.scf failed: %s %s %s" % (obs["status"], obs.get("err"), obs.get("msg")))
        P1, P2 = self.ordinal(case); V1, V2 = case["V1"], case["V2"]; n = len(P1)
        out = obs["out0"]
        if sorted(a for a, _ in out) != list(range(n)) or sorted(b for _, b in out) != list(range(n)):
            return ("not_perfect", "output %r is not a perfect matching" % (obs["out"],))
        wife = [None] * n
        for a, b in out: wife[a] = b
        if not I.is_stable(P1, P2, wife):
            return ("unstable", "returned matching has a blocking pair")
        val = I.value(V1, V2, wife)
        if case["family"] == "block" or n > 9:
            b = 3; best = 0
            for blk in range(n // b):
                idx = list(range(blk * b, blk * b + b))
                sub1 = [[sorted(P1[i][j] for j in idx).index(P1[i][jj]) + 1 for jj in idx] for i in idx]
                sub2 = [[sorted(P2[i][j] for j in idx).index(P2[i][jj]) + 1 for jj in idx] for i in idx]
                best += max(sum(V1[idx[m]][idx[w]] + V2[idx[w]][idx[m]] for m, w in enumerate(wf)) for wf in I.all_stable(sub1, sub2))
        else:
            best = max(I.value(V1, V2, wf) for wf in I.all_stable(P1, P2))
        if val != best:
            return ("not_optimal", "total value %d but a stable matching of value %d exists" % (val, best))
        if obs.get("mutated"):
            return ("mutated_argument", "arguments modified")
        return None

    def coq(self, case, obs):
        P1, P2 = self.ordinal(case)
        if len(P1) > 15 or "ff" not in obs:
            return None
        if case.get("cpv"):
            # certified per-case validation: the proved checker optimal_b evaluated on the implementation's output
            z = lambda P: [[x - 1 for x in r] for r in P]
            return ("opt", ct(I.cll(z(P1)), I.cll(z(P2)), I.cllz(case["V1"]), I.cllz(case["V2"]), I.clp(obs["out0"])))
        return ("irv", I.coq_stage_case(P1, P2, case["V1"], case["V2"], obs))

    def nontrivial(self, case, obs):
        return obs["status"] == "ok" and len(obs.get("rots", [])) >= 1

PROP = C03()
