"""C02 — Gale-Shapley is optimal for the proposing side."""
import itertools
from ..core import *
from ..runner import Prop, Group
from . import gs_common as G

class C02(Prop):
    translators = ['gsres', 'gshosp']   # both loops of GaleShapley.scf regenerated from deterministic_matching.py on every run and proved to refine the model
    layouts = True
    pid = "C02"
    sources = ["socialchoicekit/deterministic_matching.py"]
    groups = {"gs": Group("gs", "From SCK Require Import Argsort RunGS.", "RunGS.gs_case", "RunGS.chk_gs")}
    rule = ("all stable matchings enumerated by brute force for instances with n<=5, m<=3 (random + structured + exhaustive n,m<=2 slice); "
            "renumbering relation (random permutations of residents and hospitals) on instances up to n=10, m=6; both orientations. "
            "Non-trivial = the instance has at least two stable matchings, or (renumbering cases) a non-identity permutation; distinct by input hash")
    trusted_base = C01_tb = ["same models and correspondence as C01 (exact set of pairs compared, so optimality of the model transfers)"]
    assumptions = ["profiles strict with matching shapes; capacities >= 1"]

    def cases(self, rng, tier):
        k = 0
        for case in G.gen_cases(rng, tier, exh=True):
            n, m = len(case["R"]), len(case["H"])
            if case["family"].startswith("exh"):
                k += 1
                if tier == "quick" and k % 5:
                    continue
            if n <= 5 and m <= 3:
                yield dict(case, mode="enumerate")
            elif case["family"] == "long_chain":      # too large to enumerate: exact comparison with the proved-optimal model + renumbering
                pr = list(range(n)); rng.shuffle(pr); ph = list(range(m)); rng.shuffle(ph)
                yield dict(case, mode="renumber", pr=pr, ph=ph)
        N = 250 if tier == "quick" else 5000
        for i in range(N):
            n = rng.randint(2, 5); m = rng.randint(2, 3); pn = rng.choice([0, 0.2])
            R = G.rand_profile(rng, n, m, pn); H = G.rand_profile(rng, m, n, pn)
            if not (G.valid_profile(R) and G.valid_profile(H)): continue
            c = [rng.randint(1, 2) for _ in range(m)]
            for ro in (True, False):
                yield dict(entry="GaleShapley.scf", family="random_small", R=R, H=H, c=c, ro=ro, zi=bool(i % 2), mode="enumerate")
        N = 100 if tier == "quick" else 3000
        for i in range(N):
            n = rng.randint(3, 10); m = rng.randint(2, 6); pn = rng.choice([0, 0.2, 0.4])
            R = G.rand_profile(rng, n, m, pn); H = G.rand_profile(rng, m, n, pn)
            if not (G.valid_profile(R) and G.valid_profile(H)): continue
            c = [rng.randint(1, 3) for _ in range(m)]
            pr = list(range(n)); rng.shuffle(pr); ph = list(range(m)); rng.shuffle(ph)
            for ro in (True, False):
                yield dict(entry="GaleShapley.scf", family="renumber", R=R, H=H, c=c, ro=ro, zi=bool(i % 2), mode="renumber", pr=pr, ph=ph)

    def shrink(self, case):
        if case.get("mode") == "renumber":
            return []
        return G.shrink_gs(case)

    def run(self, case):
        obs = G.run_gs(case)
        if case.get("mode") == "renumber" and obs["status"] == "ok":
            pr, ph = case["pr"], case["ph"]   # new index i holds old resident pr[i]
            n, m = len(pr), len(ph)
            R2 = [[case["R"][pr[i]][ph[j]] for j in range(m)] for i in range(n)]
            H2 = [[case["H"][ph[j]][pr[i]] for i in range(n)] for j in range(m)]
            c2 = [case["c"][ph[j]] for j in range(m)]
            o2 = G.run_gs(dict(case, R=R2, H=H2, c=c2))
            obs["renumbered"] = o2
        return obs

    def pairs0(self, case, obs):
        f = 0 if case["zi"] else 1
        return [(a - f, b - f) for a, b in obs["pairs"]]

    def oracle(self, case, obs):
        if obs["status"] != "ok":
            return ("no_result", "GaleShapley.scf failed on a valid instance: %s %s" % (obs["status"], obs.get("err")))
        p0 = self.pairs0(case, obs)
        if case.get("mode") == "renumber":
            bad = G.check_stable(case, p0)       # the optimal stable matching is, first of all, a stable matching
            if bad:
                return bad
            o2 = obs["renumbered"]
            if o2["status"] != "ok":
                return ("no_result", "renumbered instance failed")
            q0 = self.pairs0(case, o2)
            back = sorted((case["pr"][a], case["ph"][b]) for a, b in q0)
            if back != sorted(p0):
                return ("not_equivariant", "renumbering residents/hospitals changed the matching beyond the renumbering")
            return None
        bad = G.check_stable(case, p0)
        if bad:
            return bad
        of = {r: h for r, h in p0}
        R = case["R"]
        for asg in G.all_stable(case):
            for r, h in enumerate(asg):
                mine = of.get(r)
                if case["ro"]:
                    # resident-optimal: mine at least as good as h
                    if h is not None and (mine is None or R[r][mine] > R[r][h]):
                        return ("not_resident_optimal", "resident %d gets %s but a stable matching gives it %d" % (r, mine, h))
                else:
                    if mine is not None and (h is None or R[r][h] > R[r][mine]):
                        return ("not_resident_pessimal", "resident %d gets %d but a stable matching gives it %s (worse)" % (r, mine, h))
        return None

    def coq(self, case, obs):
        return ("gs", G.coq_case(case, self.pairs0(case, obs)))

    def nontrivial(self, case, obs):
        if obs["status"] != "ok":
            return False
        if case.get("mode") == "renumber":
            return case["pr"] != sorted(case["pr"]) or case["ph"] != sorted(case["ph"])
        return len(G.all_stable(case)) >= 2

PROP = C02()
