"""C09 — the bipartite matching routine returns a maximum matching."""
import itertools
from ..core import *
from ..runner import Prop, Group

def kuhn(G, X):
    match = {}
    def aug(x, seen):
        for y in G.get(x, []):
            if y in seen: continue
            seen.add(y)
            if y not in match or aug(match[y], seen):
                match[y] = x; return True
        return False
    return sum(1 for x in X if aug(x, set()))

def G_of(case):
    return {int(k): [int(v) for v in a] for k, a in case["G"]}

class C09(Prop):
    translators = ['flow', 'bip', 'validators']   # ford_fulkerson / dfs_path, the result packaging, convert_bipartite_graph_to_flow_network and the matching read-off regenerated from flow.py on every run
    pid = "C09"
    sources = ["socialchoicekit/flow.py", "socialchoicekit/utils.py"]
    groups = {"bip": Group("bip", "From SCK Require Import FlowModel BipModel RunBip.", "RunBip.bip_case", "RunBip.chk_bip")}
    rule = ("exhaustive: all bipartite graphs with 3+3 vertices (512 edge sets) in the directed and the undirected encoding, plus all on 2+3/3+2; "
            "random: up to 7+7 vertices, densities .1-.8, sparse graphs (left degree 1-4) up to 10+11 vertices, isolated vertices on both sides, shuffled dict/adjacency orders; "
            "adjacency lists that repeat an edge (oracle only); malformed stream (inconsistent X/Y) compared on the error class only. Non-trivial = non-empty matching; distinct by input hash")
    trusted_base = ["models FlowModel.v/BipModel.v of flow.py:205-277; validation (check_bipartite_graph) is not modelled: valid inputs must not raise, inconsistent X/Y must raise ValueError"]
    assumptions = ["graph is bipartite w.r.t. the supplied X, Y (wfbb): X, Y duplicate-free and disjoint, not using the reserved ids -1/-2, left adjacency lists duplicate-free and inside Y"]
    deadline = 10.0

    def mk(self, family, X, Y, edges, und, rng=None):
        keys = X + Y
        if rng: rng.shuffle(keys)
        G = {v: [] for v in keys}
        es = list(edges)
        if rng: rng.shuffle(es)
        for x, y in es:
            G[x].append(y)
            if und: G[y].append(x)
        return dict(entry="maximum_cardinality_matching_bipartite", family=family, G=[[k, a] for k, a in G.items()], X=X, Y=Y, und=und)

    def cases(self, rng, tier):
        for a, b in ((3, 3), (2, 3), (3, 2), (1, 1), (2, 2), (1, 0), (3, 0), (0, 1), (0, 3)):      # incl. an empty side (no edges possible, empty matching)
            X = list(range(a)); Y = list(range(a, a + b))
            allp = [(x, y) for x in X for y in Y]
            for mask in range(2 ** len(allp)):
                es = [p for i, p in enumerate(allp) if mask >> i & 1]
                for und in (False, True):
                    yield self.mk("exh%d%d" % (a, b), X, Y, es, und)
        for _ in range(500 if tier == "quick" else 20000):
            a = rng.randint(1, 7); b = rng.randint(1, 7)
            ids = rng.sample(range(0, 30), a + b)
            X, Y = ids[:a], ids[a:]
            dens = rng.choice([0.1, 0.2, 0.5, 0.8])
            es = [(x, y) for x in X for y in Y if rng.random() < dens]
            yield self.mk("random", X, Y, es, rng.random() < 0.5, rng)
        # the same edge listed more than once in an adjacency list (still the same graph; outside the model's domain
        # predicate, so decided by the direct oracle on the implementation only)
        for _ in range(200 if tier == "quick" else 5000):
            a = rng.randint(1, 5); b = rng.randint(1, 5)
            ids = rng.sample(range(0, 20), a + b)
            X, Y = ids[:a], ids[a:]
            es = [(x, y) for x in X for y in Y if rng.random() < rng.choice([0.3, 0.6])]
            es = es + [e for e in es if rng.random() < 0.4]
            yield self.mk("repeated", X, Y, es, rng.random() < 0.5, rng)
        # larger sparse graphs: long alternating chains, augmentations through several reversed edges
        for c in itertools.islice(self.search_cases(rng), 300 if tier == "quick" else 12000):
            c["family"] = "sparse"; yield c
        for _ in range(30):
            a = rng.randint(1, 4); b = rng.randint(1, 4)
            X = list(range(a)); Y = list(range(a, a + b))
            c = self.mk("malformed", X, Y, [(x, y) for x in X for y in Y if rng.random() < 0.5], False, rng)
            c["Y"] = Y + [99]  # vertex unknown to G
            yield c

    def search_cases(self, rng):
        """after a broken obligation: larger sparse graphs (long alternating chains, several augmentations through reversed edges), which small dense graphs never need"""
        for i in range(60000):
            a = rng.randint(5, 10); b = rng.randint(max(5, a - 1), a + 1)
            X = list(range(a)); Y = list(range(a, a + b))
            es = set()
            for x in X:
                for y in rng.sample(Y, rng.choice([1, 2, 2, 3, 3, 4])): es.add((x, y))
            yield self.mk("search_sparse", X, Y, sorted(es), False, rng)
            if i % 20 == 19:      # and medium dense ones
                a = rng.randint(4, 8); b = rng.randint(4, 8); X = list(range(a)); Y = list(range(a, a + b))
                yield self.mk("search_random", X, Y, [(x, y) for x in X for y in Y if rng.random() < 0.4], rng.random() < 0.5, rng)

    def shrink(self, case):
        G = case["G"]
        for i, (k, a) in enumerate(G):
            for j in range(len(a)):
                G2 = [[kk, list(aa)] for kk, aa in G]
                y = G2[i][1].pop(j)
                if case["und"]:
                    for e in G2:
                        if e[0] == y and k in e[1]: e[1].remove(k)
                yield dict(case, G=G2)

    def run(self, case):
        import socialchoicekit.flow as F, copy
        G = G_of(case); G0 = copy.deepcopy(G)
        X, Y = list(case["X"]), list(case["Y"])
        st = {"depth": 0, "top": 0}
        orig = F.dfs_path
        def wrap(Gf, cur, sink, vis):
            if st["depth"] == 0: st["top"] += 1
            st["depth"] += 1
            try: return orig(Gf, cur, sink, vis)
            finally: st["depth"] -= 1
        F.dfs_path = wrap
        try:
            r = supervised(lambda: F.maximum_cardinality_matching_bipartite(G, X, Y), self.deadline)
        finally:
            F.dfs_path = orig
        if r[0] != "ok":
            return dict(status=r[0], err=(r[1] if len(r) > 1 else ""), msg=(r[2] if len(r) > 2 else ""))
        try:
            return dict(status="ok", M=[[int(x), int(y)] for x, y in r[1]], fuel=st["top"] + 1,
                        mutated=(G != G0 or X != list(case["X"]) or Y != list(case["Y"])))
        except Exception:  # noqa
            return dict(status="malformed", msg=repr(r[1])[:200])

    def oracle(self, case, obs):
        G = G_of(case); X, Y = case["X"], case["Y"]
        if case["family"] == "malformed":
            if obs["status"] == "err" and obs["err"] == "ValueError":
                return None
            return ("malformed_accepted", "X/Y inconsistent with the graph but no ValueError: %s" % obs["status"])
        if obs["status"] != "ok":
            return ("no_result", "matching routine failed on a valid bipartite graph: %s %s %s" % (obs["status"], obs.get("err"), obs.get("msg")))
        M = [tuple(p) for p in obs["M"]]
        for x, y in M:
            if x not in X or y not in G.get(x, []):
                return ("not_an_edge", "(%d,%d) is not an edge of the graph" % (x, y))
        if len({x for x, _ in M}) != len(M) or len({y for _, y in M}) != len(M):
            return ("vertex_twice", "a vertex occurs twice in the matching")
        best = kuhn(G, X)
        if len(M) != best:
            return ("not_maximum", "matching has %d edges, maximum is %d" % (len(M), best))
        if obs.get("mutated"):
            return ("mutated_argument", "arguments were modified")
        return None

    def coq(self, case, obs):
        if case["family"] in ("malformed", "repeated"):
            return None
        g = cl([ct(cz(k), cl([cz(v) for v in a])) for k, a in case["G"]])
        return ("bip", ct(g, cl([cz(x) for x in case["X"]]), cl([cz(y) for y in case["Y"]]), cn(obs["fuel"]),
                          cl([ct(cz(x), cz(y)) for x, y in obs["M"]])))

    def nontrivial(self, case, obs):
        return obs["status"] == "ok" and len(obs["M"]) > 0

PROP = C09()
