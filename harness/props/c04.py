"""C04 — maximum-weight allocation is a welfare-maximal perfect assignment."""
import itertools
from fractions import Fraction
import numpy as np
from ..core import *
from ..runner import Prop, Group

def hungarian_max(W):
    """W: n x n of Fraction or None. returns ("opt", assignment, u, v) with w_ij <= u_i+v_j on acceptable pairs, tight on the assignment,
    or ("infeasible", A, B) with a Hall violator."""
    n = len(W)
    # feasibility + violator by augmenting paths
    match_item = [None] * n
    def aug(i, seen):
        for j in range(n):
            if W[i][j] is not None and j not in seen:
                seen.add(j)
                if match_item[j] is None or aug(match_item[j], seen):
                    match_item[j] = i; return True
        return False
    for i in range(n):
        if not aug(i, set()):
            # alternating reachability from i
            A = {i}; B = set(); frontier = [i]
            while frontier:
                a = frontier.pop()
                for j in range(n):
                    if W[a][j] is not None and j not in B:
                        B.add(j)
                        b = match_item[j]
                        if b is not None and b not in A:
                            A.add(b); frontier.append(b)
            return ("infeasible", sorted(A), sorted(B))
    big = sum(abs(x) for row in W for x in row if x is not None) * 2 + 1
    cost = [[(-W[i][j] if W[i][j] is not None else big) for j in range(n)] for i in range(n)]
    INF = None
    u = [Fraction(0)] * (n + 1); v = [Fraction(0)] * (n + 1); p = [0] * (n + 1); way = [0] * (n + 1)
    for i in range(1, n + 1):
        p[0] = i; j0 = 0
        minv = [None] * (n + 1); used = [False] * (n + 1)
        while True:
            used[j0] = True; i0 = p[j0]; delta = None; j1 = 0
            for j in range(1, n + 1):
                if not used[j]:
                    cur = cost[i0 - 1][j - 1] - u[i0] - v[j]
                    if minv[j] is None or cur < minv[j]:
                        minv[j] = cur; way[j] = j0
                    if delta is None or minv[j] < delta:
                        delta = minv[j]; j1 = j
            for j in range(n + 1):
                if used[j]:
                    u[p[j]] += delta; v[j] -= delta
                elif minv[j] is not None:
                    minv[j] -= delta
            j0 = j1
            if p[j0] == 0:
                break
        while True:
            j1 = way[j0]; p[j0] = p[j1]; j0 = j1
            if j0 == 0:
                break
    asg = [None] * n
    for j in range(1, n + 1):
        asg[p[j] - 1] = j - 1
    # min-cost potentials: cost_ij - u_i - v_j >= 0, = 0 on matching  =>  w_ij <= (-u_i) + (-v_j)
    return ("opt", asg, [-u[i] for i in range(1, n + 1)], [-v[j] for j in range(1, n + 1)])

class C04(Prop):
    translators = ['mwm', 'validators']   # MaximumWeightMatching.__init__ / scf regenerated from deterministic_allocation.py on every run (the solver call is an oracle)
    layouts = True
    parallel = 16    # thorough tier: 4^9 matrices, each solved in a forked, killable worker
    pid = "C04"
    sources = ["socialchoicekit/deterministic_allocation.py"]
    groups = {"mwm": Group("mwm", "From SCK Require Import MWMCheck.", "MWMCheck.mwm_case", "MWMCheck.chk_mwm")}
    rule = ("exhaustive: all matrices over {NaN,0,1,2} with n<=2 (and a slice of n=3 in quick, all 4^9 in thorough); integers with zeros n<=7, generic floats, tie-heavy step-shaped floats "
            "(values of the shape the elicitation rules produce: eps=1e-5, v, v/m^(l/(k+1))), NaN patterns with and without a feasible assignment; each output is certified in Coq "
            "(dual potentials / Hall violator computed by an exact-rational Hungarian method in the harness) and compared with brute force for n<=7. "
            "Non-trivial = n >= 2 and at least two feasible assignments with different welfare; distinct by input hash")
    trusted_base = ["scipy's linear_sum_assignment is NOT modelled: oracle, certified per explored case by cert_okb / hall_okb (proved sound)",
                    "the harness' exact Hungarian method only proposes certificates; a wrong certificate fails the check, it cannot make a wrong output pass"]
    assumptions = ["square valuation profile, non-negative utilities, NaN = unacceptable"]
    deadline = 5.0

    def cases(self, rng, tier):
        vals = [None, 0.0, 1.0, 2.0]
        for n in (1, 2):
            for ent in itertools.product(vals, repeat=n * n):
                yield dict(entry="MaximumWeightMatching.scf", family="exh%d" % n, W=[list(ent[i * n:(i + 1) * n]) for i in range(n)], zi=True)
        n3 = list(itertools.product(vals, repeat=9))
        for ent in (rng.sample(n3, 600) if tier == "quick" else n3):
            yield dict(entry="MaximumWeightMatching.scf", family="exh3", W=[list(ent[i * 3:(i + 1) * 3]) for i in range(3)], zi=False)
        N = 400 if tier == "quick" else 8000
        for i in range(N):
            n = rng.randint(1, 7); kind = rng.choice(["int", "float", "step", "nan_int", "nan_float", "sparse_nan"])
            W = []
            for _ in range(n):
                row = []
                for _ in range(n):
                    if kind in ("int", "nan_int"): x = float(rng.randint(0, 3))
                    elif kind == "step": x = rng.choice([1e-5, 1e-5, 0.0, 0.3, 0.3 / 4 ** (1 / 3), 0.3 / 4 ** (2 / 3), 0.7, 0.7 / 2])
                    else: x = rng.random()
                    if kind.startswith("nan") and rng.random() < 0.25: x = None
                    if kind == "sparse_nan" and rng.random() < 0.6: x = None
                    row.append(x)
                W.append(row)
            if kind in ("nan_int", "step") and i % 4 == 2:      # the same profile in a much smaller or larger unit (exact power of two): the optimal assignments do not change
                u = 2.0 ** [-60, -200, -1000, 200, 900, -70][(i // 4) % 6]
                W = [[(None if x is None else x * u) for x in row] for row in W]; kind = kind + "_unit"
            c = dict(entry="MaximumWeightMatching.scf", family=kind, W=W, zi=bool(i % 2), itype=(kind == "int" and i % 3 == 0))
            if i % 3 == 1:        # the rule object is reused: complete and other NaN-pattern profiles of the same size first
                def other():
                    return [[(None if rng.random() < 0.2 else float(rng.randint(0, 9))) for _ in range(n)] for _ in range(n)]
                c["prelude"] = [[[float(rng.randint(1, 9)) for _ in range(n)] for _ in range(n)]] + [other() for _ in range(rng.randint(0, 2))]
                c["family"] = kind + "_reuse"
            if kind == "int":     # integer-valued profiles in every integer encoding a caller may hold them in (IntegerValuationProfile)
                c["itype"] = ["int64", None, "uint8", "int32", "uint16", None, "uint32", "int8", "uint64", "int16"][i % 10]
            if kind == "nan_int" and i % 4 == 1 and "prelude" not in c:     # the same small integers (and NaN) in single / half precision
                c["ftype"] = ["float32", "float16"][(i // 4) % 2]; c["family"] = kind + "_narrow_float"
            yield c

    def shrink(self, case):
        W = case["W"]; n = len(W)
        if n <= 1: return
        for k in range(n):
            for l in range(n):
                yield dict(case, W=[[x for j, x in enumerate(row) if j != l] for i, row in enumerate(W) if i != k])

    def run(self, case):
        from socialchoicekit.deterministic_allocation import MaximumWeightMatching
        from socialchoicekit.profile_utils import ValuationProfile
        if case.get("itype"):
            A = np.array(case["W"]).astype(int if case["itype"] is True else case["itype"])
        else:
            A = lay(np.array([[np.nan if x is None else x for x in row] for row in case["W"]], dtype=float).astype(case.get("ftype", "float64")), case.get("layout"))
        A0 = A.copy()
        def go():
            from socialchoicekit.profile_utils import IntegerValuationProfile
            prof = IntegerValuationProfile.of(A) if (case.get("itype") and case["itype"] is not True) else ValuationProfile.of(A)
            rule = MaximumWeightMatching(zero_indexed=case["zi"])
            for pre in case.get("prelude", []):      # history: the same rule object solved other profiles (of the same size) before
                try:
                    rule.scf(ValuationProfile.of(np.array([[np.nan if x is None else x for x in row] for row in pre], dtype=float)))
                except Exception:  # noqa
                    pass
            out = rule.scf(prof)
            return [int(x) for x in np.asarray(out).tolist()], (A.tobytes() != A0.tobytes())
        # forked worker: the solver is C/C++ code, a hang there cannot be interrupted by a Python-level alarm
        r = supervised_fork(go, self.deadline)
        if r[0] != "ok":
            return dict(status=r[0], err=(r[1] if len(r) > 1 else ""), msg=(r[2] if len(r) > 2 else ""))
        return dict(status="ok", out=r[1][0], mutated=r[1][1])

    def WF(self, case):
        return [[None if x is None else Fraction(x) for x in row] for row in case["W"]]

    def oracle(self, case, obs):
        W = self.WF(case); n = len(W)
        best = None
        if n <= 7:
            for p in itertools.permutations(range(n)):
                if all(W[i][p[i]] is not None for i in range(n)):
                    val = sum(W[i][p[i]] for i in range(n)); best = val if best is None else max(best, val)
        else:
            h = hungarian_max(W)
            best = None if h[0] == "infeasible" else sum(W[i][h[1][i]] for i in range(n))
        if obs["status"] == "timeout":
            return ("no_termination", "MaximumWeightMatching.scf did not return within the deadline")
        if obs["status"] == "err":
            if obs["err"] == "ValueError" and best is None:
                return None
            return ("wrong_error", "raised %s(%s) although %s" % (obs["err"], obs.get("msg"), "an acceptable assignment exists" if best is not None else "only ValueError is expected"))
        if obs["status"] != "ok":
            return ("no_result", obs["status"])
        fix = 0 if case["zi"] else 1
        out = [x - fix for x in obs["out"]]
        if best is None:
            return ("assignment_without_feasible", "returned %r although no one-to-one assignment of acceptable pairs exists" % (obs["out"],))
        if sorted(out) != list(range(n)):
            return ("not_one_to_one", "output %r is not a one-to-one assignment" % (obs["out"],))
        if any(W[i][out[i]] is None for i in range(n)):
            return ("unacceptable_pair", "assignment uses an unacceptable (NaN) pair")
        val = sum(W[i][out[i]] for i in range(n))
        scale = max([abs(x) for row in W for x in row if x is not None] or [0])       # the tolerance is relative to the unit the utilities are measured in
        if val != best and abs(val - best) > Fraction(1, 10 ** 9) * scale:
            return ("not_maximal", "welfare %s but the maximum is %s" % (float(val), float(best)))
        if obs.get("mutated"):
            return ("mutated_argument", "valuation profile modified")
        return None

    def coq(self, case, obs):
        W = self.WF(case); n = len(W)
        cw = cl([cl([copt(x, cq) for x in row]) for row in W])
        h = hungarian_max(W)
        if obs["status"] == "ok":
            fix = 0 if case["zi"] else 1
            out = [x - fix for x in obs["out"]]
            if h[0] != "opt":
                return None
            val = sum(W[i][out[i]] for i in range(n)); hv = sum(W[i][h[1][i]] for i in range(n))
            if val != hv:
                return None  # float-level near tie (|difference| <= 1e-9, accepted by the oracle): no exact certificate exists
            return ("mwm", ct(cw, "(Some %s)" % cl([cn(x) for x in out]), cl([cq(x) for x in h[2]]), cl([cq(x) for x in h[3]]), "[]", "[]"))
        if h[0] != "infeasible":
            return None
        return ("mwm", ct(cw, "None", "[]", "[]", cl([cn(x) for x in h[1]]), cl([cn(x) for x in h[2]])))

    def nontrivial(self, case, obs):
        W = self.WF(case); n = len(W)
        if n < 2 or n > 6: return n > 6
        vals = set()
        for p in itertools.permutations(range(n)):
            if all(W[i][p[i]] is not None for i in range(n)):
                vals.add(sum(W[i][p[i]] for i in range(n)))
        return len(vals) >= 2

PROP = C04()
