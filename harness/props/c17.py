"""C17 — two-sided lambda-TSF returns a stable matching optimal for the simulated values."""
import numpy as np
from ..core import *
from ..runner import Prop, Group
from . import elicit_common as E
from . import irv_common as I

class C17(Prop):
    layouts = True
    translators = ['elicitor', 'bsearch', 'flow', 'irvsmall', 'thrrules', 'mwcs', 'irvscf', 'irvposet', 'irvinit', 'irvrot', 'irvall', 'irvpipe', 'elicitclasses']   # Elicitor, the two-sided binary_search and ford_fulkerson / dfs_path (used by Irving's closed-subset step) regenerated from the source on every run
    pid = "C17"
    sources = ["socialchoicekit/elicitation_matching.py", "socialchoicekit/deterministic_matching.py"]
    groups = {"dbl": Group("dbl", "From SCK Require Import ElicitM Irving RunDouble.", "RunDouble.double_case", "RunDouble.chk_double", shard=10),
              "opt": Group("opt", "From SCK Require Import StableCheck.", "StableCheck.opt_case", "StableCheck.chk_opt", shard=10)}
    rule = ("instances as in C03 (random n<=8, Latin squares, noisy Latin squares, blocks of 3) with consistent non-negative integer valuations (tie-heavy, zeros, large), all (lambda_1, lambda_2) "
            "sampled from 1..n; simulated profiles of both sides and the final matching compared with the composed model (pure evaluation of the query programs, then the Irving model); the proved "
            "checker optimal_b evaluated on the implementation's output for the SIMULATED values (n<=6); oracle: stable matchings enumerated by pruned backtracking. "
            "Non-trivial = at least one rotation; distinct by input hash")
    trusted_base = ["composition of ElicitRules.thr_rule (two-sided mode) and Irving.v; thresholds as in C14", "same partial status as C03"]
    assumptions = ["strict complete n x n profiles; consistent non-negative integer valuations"]
    deadline = 60.0

    def cases(self, rng, tier):
        for c in self.exact_threshold_cases(rng, tier):
            yield c
        N = 110 if tier == "quick" else 2500
        for i in range(N):
            kind = rng.choice(["rand", "rand", "latin", "block", "noisy"])
            P1, P2 = I.gen_profiles(rng, kind, 8 if tier != "quick" else 7)
            n = len(P1)
            if n > 9 and i % 4: continue
            vk = rng.choice(["int", "bigint", "zero", "ties"])
            def mk(P):
                out = []
                for row in P:
                    vals = E.gen_valuation_row(rng, n, vk if vk != "ties" else "int", 1)
                    if vk == "ties": vals = sorted([float(int(x) // 2) for x in vals], reverse=True)
                    out.append([vals[r - 1] for r in row])
                return out
            yield dict(entry="DoubleLambdaTSF.scf", family=kind + "_" + vk, rule="Double", P=P1, P2=P2, V=mk(P1), V2=mk(P2), k=rng.randint(1, n), k2=rng.randint(1, n),
                       zi=bool(i % 2), want_out=True, cpv=(n <= 6 and i % 2 == 0))

    def exact_threshold_cases(self, rng, tier):
        # sizes for which n ** (l / (lambda + 1)) is an exact number (4, 9, 16 with lambda = 1; 8 with lambda = 2): small integer
        # values then sit EXACTLY on a threshold, with ties behind them
        for i in range(1600 if tier == "quick" else 12000):
            n, k = [(4, 1)] * 14 + [(9, 1), (8, 2)] if False else ([(4, 1)] * 14 + [(9, 1), (8, 2)])[i % 16] if i % 160 else (16, 1)
            P1 = [rng.sample(range(1, n + 1), n) for _ in range(n)]; P2 = [rng.sample(range(1, n + 1), n) for _ in range(n)]
            hi = rng.choice([3, 3, 4, 9])
            def mk(P):
                out = []
                for row in P:
                    vals = sorted([float(rng.randint(0, hi)) for _ in row], reverse=True); out.append([vals[r - 1] for r in row])
                return out
            yield dict(entry="DoubleLambdaTSF.scf", family="exact_threshold_%d" % n, rule="Double", P=P1, P2=P2, V=mk(P1), V2=mk(P2), k=k, k2=(k if i % 3 else rng.randint(1, n)),
                       zi=bool(i % 2), want_out=True, cpv=False, nocoq=(n == 4 and i % 6 != 0))

    def run(self, case):
        import socialchoicekit.flow as F
        st = {"depth": 0, "top": 0, "max": 0}
        orig, origff = F.dfs_path, F.ford_fulkerson
        def wrap(G, cur, sink, vis):
            if st["depth"] == 0: st["top"] += 1
            st["depth"] += 1
            try: return orig(G, cur, sink, vis)
            finally: st["depth"] -= 1
        import socialchoicekit.deterministic_matching as DM
        def ffwrap(G, s, t):
            st["top"] = 0
            r = origff(G, s, t); st["max"] = max(st["max"], st["top"]); return r
        F.dfs_path = wrap; DM.ford_fulkerson = ffwrap
        try:
            obs = E.run_rule(case, deadline=self.deadline)
        finally:
            F.dfs_path = orig; DM.ford_fulkerson = origff
        if obs["status"] == "ok":
            f = 0 if case["zi"] else 1
            obs["out0"] = [[a - f, b - f] for a, b in obs["out"]]; obs["ff"] = st["max"] + 1
        return obs

    def oracle(self, case, obs):
        if obs["status"] != "ok":
            return ("no_result", "DoubleLambdaTSF.scf failed: %s %s %s" % (obs["status"], obs.get("err"), obs.get("msg")))
        P1, P2 = case["P"], case["P2"]; n = len(P1); out = obs["out0"]
        if sorted(a for a, _ in out) != list(range(n)) or sorted(b for _, b in out) != list(range(n)):
            return ("not_perfect", "output %r is not a perfect matching" % (obs["out"],))
        wife = [None] * n
        for a, b in out: wife[a] = b
        if not I.is_stable(P1, P2, wife):
            return ("unstable", "returned matching has a blocking pair w.r.t. the ordinal profiles")
        # the simulated values BY DEFINITION (linear scan over the ranking, independent of the library's search), truncated as the rule does
        R1, _ = E.ref_threshold_fill(P1, case["V"], case["k"], n, 0.0, True); R2, _ = E.ref_threshold_fill(P2, case["V2"], case["k2"], n, 0.0, True)
        S1 = [[int(x) for x in r] for r in R1]; S2 = [[int(x) for x in r] for r in R2]
        val = I.value(S1, S2, wife)
        best = max(I.value(S1, S2, wf) for wf in I.all_stable(P1, P2))
        if val != best:
            return ("not_optimal", "total simulated value %d but a stable matching of simulated value %d exists" % (val, best))
        return None      # (whether get_simulated_cardinal_profiles itself is right is C14's question)

    def coq(self, case, obs):
        P1, P2 = case["P"], case["P2"]; n = len(P1)
        if n > 9 or case.get("nocoq"): return None
        z = lambda P: [[x - 1 for x in r] for r in P]
        S1 = [[int(x) for x in r] for r in obs["vt"]]; S2 = [[int(x) for x in r] for r in obs["vt2"]]
        if case.get("cpv"):
            return ("opt", ct(I.cll(z(P1)), I.cll(z(P2)), I.cllz(S1), I.cllz(S2), I.clp(obs["out0"])))
        rk1, rk2 = E.ranking(P1), E.ranking(P2)
        tau1 = E.thresholds([case["V"][i][rk1[i][0]] for i in range(n)], n, case["k"])
        tau2 = E.thresholds([case["V2"][i][rk2[i][0]] for i in range(n)], n, case["k2"])
        return ("dbl", ct(E.cVm(case["V"]), E.cVm(case["V2"]), I.cll(z(P1)), I.cll(z(P2)), cn(case["k"]), cn(case["k2"]), E.cVm(tau1), E.cVm(tau2), cn(obs["ff"]),
                          ct(I.cllz(S1), I.cllz(S2), I.clp(obs["out0"]))))

    def nontrivial(self, case, obs):
        return obs["status"] == "ok" and len(I.all_stable(case["P"], case["P2"])) >= 2

PROP = C17()
