"""Shared pieces for C03/C17 (Irving): instance families, stage-by-stage runner, stable-matching enumeration."""
import itertools
import numpy as np
from ..core import *

def block_instance(k, b=3):
    n = k * b; P1 = [[0] * n for _ in range(n)]; P2 = [[0] * n for _ in range(n)]
    for blk in range(k):
        for i in range(b):
            m = blk * b + i
            order = [blk * b + (i + t) % b for t in range(b)] + [x for x in range(n) if x // b != blk]
            for r, w in enumerate(order): P1[m][w] = r + 1
            order = [blk * b + (i + 1 + t) % b for t in range(b)] + [x for x in range(n) if x // b != blk]
            for r, mm in enumerate(order): P2[m][mm] = r + 1
    return P1, P2

def latin(n):
    P1 = [[0] * n for _ in range(n)]; P2 = [[0] * n for _ in range(n)]
    for i in range(n):
        for t in range(n):
            P1[i][(i + t) % n] = t + 1; P2[i][(i + 1 + t) % n] = t + 1
    return P1, P2

def noisy(rng, P):
    P = [list(r) for r in P]; n = len(P)
    for i in range(n):
        for _ in range(rng.randint(0, 2)):
            a, b = rng.randrange(n), rng.randrange(n); P[i][a], P[i][b] = P[i][b], P[i][a]
    return P

def gen_profiles(rng, kind, nmax=8):
    if kind == "rand":
        n = rng.randint(1, nmax)
        return [rng.sample(range(1, n + 1), n) for _ in range(n)], [rng.sample(range(1, n + 1), n) for _ in range(n)]
    if kind == "latin":
        return latin(rng.randint(2, min(nmax + 1, 12)))
    if kind == "block":
        return block_instance(rng.randint(1, 5))
    P1, P2 = latin(rng.randint(3, min(nmax + 1, 9)))
    return noisy(rng, P1), noisy(rng, P2)

def gen_valuations(rng, P1, P2, vk):
    n = len(P1)
    if vk == "borda":
        return [[n - x for x in r] for r in P1], [[n - x for x in r] for r in P2]
    if vk == "rand":
        return [[rng.randint(0, 9) for _ in range(n)] for _ in range(n)], [[rng.randint(0, 9) for _ in range(n)] for _ in range(n)]
    if vk == "ties":
        return [[(n - x) // 2 for x in r] for r in P1], [[(n - x) // 3 for x in r] for r in P2]
    if vk == "zero":
        return [[0] * n for _ in range(n)], [[3 if x == 1 else 0 for x in r] for r in P2]
    # distinct: a random strictly decreasing valuation along the ranking
    def mk(P):
        out = []
        for r in P:
            vals = sorted(rng.sample(range(0, 4 * n + 1), n), reverse=True)
            out.append([vals[x - 1] for x in r])
        return out
    return mk(P1), mk(P2)

def is_stable(P1, P2, wife):
    n = len(P1); husband = [0] * n
    for m, w in enumerate(wife): husband[w] = m
    for m in range(n):
        for w in range(n):
            if w != wife[m] and P1[m][w] < P1[m][wife[m]] and P2[w][m] < P2[w][husband[w]]:
                return False
    return True

def all_stable(P1, P2):
    """all stable matchings (wife lists) by backtracking with incremental blocking-pair pruning"""
    n = len(P1); out = []
    wife = [None] * n; husband = [None] * n
    def blocks(m):
        # any blocking pair among assigned agents involving man m or its wife
        w = wife[m]
        for m2 in range(m + 1):
            w2 = wife[m2]
            if m2 != m:
                if P1[m][w2] < P1[m][w] and P2[w2][m] < P2[w2][m2]: return True
                if P1[m2][w] < P1[m2][w2] and P2[w][m2] < P2[w][m]: return True
        return False
    def rec(m):
        if m == n:
            if is_stable(P1, P2, wife): out.append(list(wife))
            return
        for w in range(n):
            if husband[w] is None:
                wife[m] = w; husband[w] = m
                if not blocks(m): rec(m + 1)
                wife[m] = None; husband[w] = None
    rec(0)
    return out

def value(V1, V2, wife):
    return sum(V1[m][w] + V2[w][m] for m, w in enumerate(wife))

def run_stages(case, deadline=60.0):
    """runs Irving.scf and every public stage; returns dict with all intermediate structures"""
    import socialchoicekit.flow as F
    from socialchoicekit.deterministic_matching import Irving, GaleShapley
    from socialchoicekit.profile_utils import StrictCompleteProfile, IntegerValuationProfile
    st = {"depth": 0, "top": 0}
    orig = F.dfs_path
    def wrap(G, cur, sink, vis):
        if st["depth"] == 0: st["top"] += 1
        st["depth"] += 1
        try: return orig(G, cur, sink, vis)
        finally: st["depth"] -= 1
    dt = {"int64": np.int64, "int32": np.int32, "float": float}[case.get("dtype", "int64")]
    def go():
        P1 = lay(np.array(case["P1"], dtype=dt), case.get("layout")); P2 = lay(np.array(case["P2"], dtype=dt), case.get("layout"))
        vdt = case.get("vdtype", "int64")      # integer encoding in which the caller stores the valuations
        V1 = lay(np.array(case["V1"], dtype=vdt), case.get("layout")); V2 = lay(np.array(case["V2"], dtype=vdt), case.get("layout"))
        snap = [a.copy() for a in (P1, P2, V1, V2)]
        n = P1.shape[0]; irv = Irving(zero_indexed=case.get("zi", True))
        iv1, iv2 = IntegerValuationProfile.of(V1), IntegerValuationProfile.of(V2)
        if case.get("prelude"):        # the same Irving object solved another instance first
            try:
                q = case["prelude"]
                irv.scf(IntegerValuationProfile.of(np.array(q["V1"], dtype=np.int64)), IntegerValuationProfile.of(np.array(q["V2"], dtype=np.int64)),
                        StrictCompleteProfile.of(np.array(q["P1"], dtype=np.int64)), StrictCompleteProfile.of(np.array(q["P2"], dtype=np.int64)))
            except Exception:  # noqa
                pass
        if case.get("with_profiles", True):
            outm = irv.scf(iv1, iv2, StrictCompleteProfile.of(P1), StrictCompleteProfile.of(P2))
        else:
            outm = irv.scf(iv1, iv2)
        res = dict(status="ok", out=[[int(a), int(b)] for a, b in outm])
        res["mutated"] = not all(a.tobytes() == b.tobytes() for a, b in zip((P1, P2, V1, V2), snap))
        if case.get("stages", True):
            Pi1 = np.array(case["P1"], dtype=np.int64); Pi2 = np.array(case["P2"], dtype=np.int64)
            M0 = GaleShapley(resident_oriented=True, zero_indexed=True).scf(StrictCompleteProfile.of(Pi1), StrictCompleteProfile.of(Pi2), np.ones(n, dtype=int))
            pl1, pl2 = irv.find_initial_preference_lists(M0, Pi1 - 1, Pi2 - 1)
            i1 = {i: np.array(pl1[i]) for i in range(n)}; i2 = {i: np.array(pl2[i]) for i in range(n)}
            rots, el = irv.find_all_rotations_and_eliminations(i1, i2)
            Pp = irv.construct_sparse_rotation_poset_graph(rots, pl1, el)
            ws = [int(irv.rotation_weight(r, iv1, iv2)) for r in rots]
            st["top"] = 0
            S = irv.find_maximum_weight_closed_subset(Pp, rots, iv1, iv2)
            res.update(M0=[[int(a), int(b)] for a, b in M0], pl1=[[int(x) for x in pl1[i]] for i in range(n)], pl2=[[int(x) for x in pl2[i]] for i in range(n)],
                       rots=[[[int(a), int(b)] for a, b in r] for r in rots], el=[[int(a), int(b), int(v)] for (a, b), v in el.items()],
                       Pp=[[int(x) for x in Pp[i]] for i in range(len(rots))], ws=ws, S=sorted(int(x) for x in S), ff=st["top"] + 1)
        return res
    F.dfs_path = wrap
    try:
        r = supervised(go, deadline)
    finally:
        F.dfs_path = orig
    if r[0] != "ok":
        return dict(status=r[0], err=(r[1] if len(r) > 1 else ""), msg=(r[2] if len(r) > 2 else ""))
    return r[1]

def cll(L): return cl([cl([cn(x) for x in row]) for row in L])
def cllz(L): return cl([cl([cz(x) for x in row]) for row in L])
def clp(L): return cl([ct(cn(a), cn(b)) for a, b in L])

def coq_stage_case(P1, P2, V1, V2, obs):
    e = "{| Irving.e_M0 := %s; Irving.e_pl1 := %s; Irving.e_pl2 := %s; Irving.e_rots := %s; Irving.e_elim := %s; Irving.e_P := %s; Irving.e_ws := %s; Irving.e_S := %s; Irving.e_out := %s |}" % (
        clp(obs["M0"]), cll(obs["pl1"]), cll(obs["pl2"]), cl([clp(r) for r in obs["rots"]]),
        cl([ct(ct(cn(a), cn(b)), cn(v)) for a, b, v in obs["el"]]), cll(obs["Pp"]), cl([cz(w) for w in obs["ws"]]), cl([cn(x) for x in obs["S"]]), clp(obs["out0"]))
    return ct(cll([[x - 1 for x in r] for r in P1]), cll([[x - 1 for x in r] for r in P2]), cllz(V1), cllz(V2), cn(obs["ff"]), e)
