"""Generic check driver: proof obligations + correspondence + direct oracle + failing-input search."""
import os, sys, json, time, random, hashlib, glob
from . import core
from .core import Group  # noqa

class Prop:
    pid = "C00"
    title = ""
    level = "proof"
    groups = {}
    sources = []            # repo-relative files whose AST fingerprint is recorded
    trusted_base = []
    assumptions = []
    rule = ""               # how cases are generated / what counts as non-trivial
    deadline = 20.0
    extra_theorem_files = []  # other Properties/*.v whose obligations this property also relies on
    layouts = False           # True: generated cases are spread over memory layouts of their input arrays (core.lay); run() must honour case["layout"]
    translators = []          # models regenerated from the source on every run (core.TRANSLATORS) whose equivalence proofs are re-checked

    def cases(self, rng, tier):
        return []
    def run(self, case):
        raise NotImplementedError
    def oracle(self, case, obs):
        return None
    def coq(self, case, obs):
        return None
    def nontrivial(self, case, obs):
        return True
    def search_cases(self, rng):
        return self.cases(rng, "thorough")
    def shrink(self, case):
        return []
    def finish(self, records):
        """hook: extra whole-run checks; returns list of (index, kind, message)"""
        return []
    def extra_coverage(self):
        return {}

COMMON_TB = [
    "Coq 8.16.1 kernel (coqc), vm_compute for evaluating the model on generated cases; no native_compute",
    "hand-written Gallina model tied to /repo by the correspondence check (differential testing: bounded by its generators)",
    "Python harness: generators, float->exact-rational serialiser, canonicalisation, in-process numpy.random wrappers",
]

def _case_key(case):
    return hashlib.sha256(json.dumps(core.jsonable(case), sort_keys=True, default=str).encode()).hexdigest()

def corpus_cases(pid):
    out = []
    for p in sorted(glob.glob(os.path.join(core.CORPUS, pid, "*.json"))):
        try:
            out.append(json.load(open(p))["case"])
        except Exception:  # noqa
            pass
    return out

def match_known(P, case, kind, known):
    for f in known:
        if f.get("property") != P.pid or f.get("status") != "open":
            continue
        if f.get("entry") not in (None, case.get("entry")):
            continue
        if f.get("kind") != kind:
            continue
        pred = f.get("predicate")
        if pred and not getattr(P, pred)(case):
            continue
        return f
    return None

def write_replay(P, payload):
    os.makedirs(core.REPLAYS, exist_ok=True)
    h = hashlib.sha256(json.dumps(payload, sort_keys=True, default=str).encode()).hexdigest()[:12]
    path = os.path.join(core.REPLAYS, "%s-%s.json" % (P.pid, h))
    payload = dict(payload)
    if isinstance(payload.get("observed"), (dict, list)) and len(json.dumps(payload["observed"], default=str)) > 2000000:
        payload["observed"] = _shorten(payload["observed"])      # the case (the replay input) is kept in full; a multi-megabyte observation is abridged
    payload["property"] = P.pid
    payload["how_to_replay"] = "cd /verif && ./check %s --replay %s" % (P.pid, path)
    with open(path, "w") as fh:
        json.dump(core.jsonable(payload), fh, indent=1, default=str)
    return path

def evaluate(P, case):
    obs = P.run(case)
    orc = P.oracle(case, obs)
    return obs, orc

def try_shrink(P, case, kind, budget=200):
    cur = case
    steps = 0
    improved = True
    while improved and steps < budget:
        improved = False
        for cand in P.shrink(cur):
            steps += 1
            if steps >= budget:
                break
            try:
                obs, orc = evaluate(P, cand)
            except Exception:  # noqa
                continue
            if orc is not None and orc[0] == kind:
                cur = cand
                improved = True
                break
    return cur

def _shorten(x, depth=0):
    """evidence samples stay readable: long lists / strings are cut (the full case is in the replay file when one is written)"""
    if isinstance(x, str):
        return x if len(x) <= 600 else x[:600] + "...[%d more characters]" % (len(x) - 600)
    if isinstance(x, list):
        cut = x[:30] if depth else x[:60]
        out = [_shorten(v, depth + 1) for v in cut]
        if len(x) > len(cut):
            out.append("...[%d more items]" % (len(x) - len(cut)))
        return out
    if isinstance(x, dict):
        return {k: _shorten(v, depth + 1) for k, v in x.items()}
    return x

_PAR_PROP = None
def _par_run(case):
    obs = _PAR_PROP.run(case)
    return obs, _PAR_PROP.oracle(case, obs)

def run_check(P, tier="quick", seed=0, max_search_s=None):
    t0 = time.time()
    rng = random.Random(seed)
    known = core.load_known()
    lines = []            # KNOWN-FINDING lines
    status = dict(violations=0)

    # 1. proof side
    lint_bad = core.lint()
    ok_build, build_log = core.build()
    pos = [core.proof_obligations(P.pid)] + [core.proof_obligations(x) for x in P.extra_theorem_files]
    if P.translators:
        from concurrent.futures import ThreadPoolExecutor
        with ThreadPoolExecutor(max_workers=min(8, len(P.translators))) as ex:
            pos += list(ex.map(core.translator_obligation, P.translators))
    po = pos[0]
    proof_ok = (not lint_bad) and ok_build and all(x["ok"] for x in pos)
    proof_problem = None
    if not proof_ok:
        proof_problem = dict(lint=lint_bad, build_ok=ok_build, build_log=(build_log if not ok_build else ""),
                             obligations=[dict(file=x["file"], ok=x["ok"], log=x["log"][-1500:]) for x in pos if not x["ok"]])

    # 2. run the implementation, direct oracle
    seen, records = set(), []
    gen_errors = 0
    par = getattr(P, "parallel", 0) if tier == "thorough" else 0
    todo = []
    gidx = 0
    for src, it in (("corpus", corpus_cases(P.pid)), ("gen", P.cases(rng, tier))):
        for case in it:
            if src == "gen" and P.layouts and "layout" not in case:
                gidx += 1
                lo = core.LAYOUTS[gidx % len(core.LAYOUTS)]
                if lo: case["layout"] = lo
            k = _case_key(case)
            if k in seen:
                continue
            seen.add(k)
            if par:
                todo.append((case, k))
                continue
            obs = P.run(case)
            orc = P.oracle(case, obs)
            records.append([case, obs, orc, k])
    if par:
        # implementation runs that are dominated by per-case process start-up (forked supervision of C code):
        # a pool of forked workers, order preserved, every case still supervised by its own deadline inside P.run
        import multiprocessing
        global _PAR_PROP
        _PAR_PROP = P
        with multiprocessing.get_context("fork").Pool(par) as pool:
            for (case, k), (obs, orc) in zip(todo, pool.imap(_par_run, [c for c, _ in todo], chunksize=16)):
                records.append([case, obs, orc, k])
    extra = P.finish(records)
    for (i, kind, msg) in extra:
        if records[i][2] is None:
            records[i][2] = (kind, msg)

    # 3. correspondence
    by_group = {}
    compared = 0
    for i, (case, obs, orc, k) in enumerate(records):
        if orc is not None:
            continue
        lit = P.coq(case, obs)
        if lit is None:
            continue
        by_group.setdefault(lit[0], []).append((i, lit[1]))
    mism, coq_err = [], None
    for g, items in by_group.items():
        bad, err = core.coq_mismatches(P.pid, P.groups[g], [l for _, l in items])
        compared += len(items)
        if err:
            coq_err = err
        for b in bad:
            if b < len(items):
                mism.append((g, items[b][0]))
    # 3b. informational groups: on how many cases does a decidable hypothesis of a theorem hold (evaluated by the kernel; never a failure)
    hyp_info = {}
    if hasattr(P, "coq_info"):
        by_info = {}
        for i, (case, obs, orc, k) in enumerate(records):
            if orc is not None:
                continue
            lit = P.coq_info(case, obs)
            if lit is not None:
                by_info.setdefault(lit[0], []).append((i, lit[1]))
        for g, items in by_info.items():
            bad, err = core.coq_mismatches(P.pid, P.groups[g], [l for _, l in items])
            if err:
                coq_err = err
            hyp_info[g] = dict(checker=P.groups[g].checker, evaluated=len(items), holds=len(items) - len(bad))
    core.cleanup(P.pid)

    # 4. verdicts
    new_viol = []
    known_hit = {}
    for i, (case, obs, orc, k) in enumerate(records):
        if orc is None:
            continue
        f = match_known(P, case, orc[0], known)
        if f is not None:
            known_hit.setdefault(f.get("id", f.get("kind")), (f, i))
        else:
            new_viol.append(i)
    for fid, (f, i) in known_hit.items():
        print("KNOWN-FINDING: property=%s %s" % (P.pid, f.get("what_fails", fid)))
    exit_code = 0
    replay_path = None
    if new_viol:
        i = new_viol[0]
        case, obs, orc, k = records[i]
        small = try_shrink(P, case, orc[0])
        sobs, sorc = evaluate(P, small)
        if sorc is None or sorc[0] != orc[0]:
            small, sobs, sorc = case, obs, orc
        replay_path = write_replay(P, dict(kind="failing-input", failure=sorc[0], message=sorc[1], case=small, observed=sobs,
                                            other_failing_cases=len(new_viol) - 1))
        print("VIOLATION property=%s replay=%s" % (P.pid, replay_path))
        exit_code = 1
    elif (not proof_ok) or mism or coq_err:
        # something no longer checks: search for a concrete failing input
        print("note: %s no longer checks (proof_ok=%s lint=%s build_ok=%s mismatches=%d coq_err=%s); searching for a failing input" % (
            P.pid, proof_ok, lint_bad[:3], ok_build, len(mism), (coq_err or "")[-600:]))
        found = None
        t_search = time.time()
        budget = max_search_s if max_search_s is not None else (120 if tier == "quick" else 900)
        srng = random.Random(seed + 7919)
        # neighbourhood of mismatching cases first
        cand_iter = []
        for (g, i) in mism[:20]:
            cand_iter.extend(getattr(P, "neighbours", P.shrink)(records[i][0]))      # cases near the ones on which model and implementation disagree
        def chain():
            for c in cand_iter:
                yield c
            for c in P.search_cases(srng):
                yield c
        searched = 0
        for case in chain():
            if time.time() - t_search > budget:
                break
            if P.layouts and "layout" not in case:
                gidx += 1
                lo = core.LAYOUTS[gidx % len(core.LAYOUTS)]
                if lo: case["layout"] = lo
            k = _case_key(case)
            if k in seen:
                continue
            seen.add(k)
            searched += 1
            obs, orc = evaluate(P, case)
            if orc is not None and match_known(P, case, orc[0], known) is None:
                found = (case, obs, orc)
                break
        if found:
            case, obs, orc = found
            small = try_shrink(P, case, orc[0])
            sobs, sorc = evaluate(P, small)
            if sorc is None or sorc[0] != orc[0]:
                small, sobs, sorc = case, obs, orc
            replay_path = write_replay(P, dict(kind="failing-input", failure=sorc[0], message=sorc[1], case=small, observed=sobs,
                                                found_by="search after broken obligation/correspondence"))
            print("VIOLATION property=%s replay=%s" % (P.pid, replay_path))
        else:
            payload = dict(kind="broken-obligation", searched_cases=searched)
            if not proof_ok:
                payload["theorem_side"] = proof_problem
            if mism:
                g, i = mism[0]
                payload["correspondence"] = dict(group=g, checker=P.groups[g].checker, mismatching_cases=len(mism),
                                                 first_case=records[i][0], implementation_output=records[i][1],
                                                 coq_literal=P.coq(records[i][0], records[i][1])[1][:4000])
            if coq_err:
                payload["coq_error"] = coq_err
            replay_path = write_replay(P, payload)
            print("VIOLATION property=%s replay=%s no-failing-input-found" % (P.pid, replay_path))
        exit_code = 1

    # 5. evidence
    nontriv = set()
    for case, obs, orc, k in records:
        try:
            if P.nontrivial(case, obs):
                nontriv.add(k)
        except Exception:  # noqa
            pass
    dist = {}
    for case, obs, orc, k in records:
        e = case.get("entry", "?") + "/" + str(case.get("family", ""))
        dist[e] = dist.get(e, 0) + 1
    outcomes = {}
    for case, obs, orc, k in records:
        o = obs.get("status", "ok") if isinstance(obs, dict) else "ok"
        outcomes[o] = outcomes.get(o, 0) + 1
    samples = []
    step = max(1, len(records) // 3)
    for case, obs, orc, k in records[::step][:3]:
        samples.append(_shorten(core.jsonable(dict(case=case, observed=obs))))
    thms = []
    for x in pos:
        thms.extend(x["theorems"])
    axioms = sorted({a for t in thms for a in t["assumptions"]})
    cov = dict(
        obligations=sum(x["obligations"] for x in pos),
        discharged=sum(x["discharged"] for x in pos),
        checker_cmd="make -C /verif/coq (full .vo build) && coqc -R /verif/coq SCK coq/Properties/%s.v (Print Assumptions under every theorem) && lint" % P.pid,
        trusted_base=COMMON_TB + list(P.trusted_base) + (["standard-library axioms used: " + ", ".join(axioms)] if axioms else ["all property theorems: Closed under the global context (no axioms)"]),
        theorems=thms,
        evaluations=len(records),
        distinct_nontrivial=len(nontriv),
        rule=P.rule,
        samples=samples,
        correspondence=dict(compared_in_coq=compared, mismatches=len(mism), coq_error=coq_err),
        input_distribution=dist,
        outcomes=outcomes,
        oracle_violations=sum(1 for r in records if r[2] is not None),
        known_findings_reproduced=sorted(known_hit.keys()),
        fingerprints={s: core.fingerprint(s) for s in P.sources},
        lint=lint_bad,
        exhaustive=False,
    )
    cov.update(P.extra_coverage())
    if hyp_info:
        cov["theorem_hypotheses_evaluated_in_coq"] = hyp_info
    ev = dict(property_id=P.pid, tier=tier, seed=seed, level=P.level, coverage=cov,
              assumptions=list(P.assumptions), wall_s=round(time.time() - t0, 2), violations=(1 if exit_code else 0))
    os.makedirs(core.EVID, exist_ok=True)
    with open(os.path.join(core.EVID, P.pid + ".json"), "w") as fh:
        json.dump(core.jsonable(ev), fh, indent=1, default=str)
    print("%s %s tier=%s cases=%d compared=%d mismatches=%d oracle_violations=%d obligations=%d/%d wall=%.1fs" % (
        P.pid, "FAIL" if exit_code else "ok", tier, len(records), compared, len(mism), cov["oracle_violations"],
        cov["discharged"], cov["obligations"], time.time() - t0))
    return exit_code

def replay(P, path):
    data = json.load(open(path))
    if data.get("kind") != "failing-input":
        print("replay file records a broken obligation/correspondence, not an input; re-running the quick check")
        return run_check(P, "quick", 0)
    case = data["case"]
    obs, orc = evaluate(P, case)
    if orc is None:
        print("replay: property holds on this input now")
        return 0
    f = match_known(P, case, orc[0], core.load_known())
    if f:
        print("KNOWN-FINDING: property=%s %s" % (P.pid, f.get("what_fails")))
        return 0
    print("replay: %s: %s" % orc)
    print("VIOLATION property=%s replay=%s" % (P.pid, path))
    return 1
