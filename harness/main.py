import sys, os, importlib, argparse, warnings
warnings.filterwarnings("ignore")
from . import runner

def main():
    ap = argparse.ArgumentParser()
    ap.add_argument("pid")
    ap.add_argument("--tier", default=os.environ.get("VERIF_TIER", "quick"))
    ap.add_argument("--replay")
    ap.add_argument("--seed", type=int, default=int(os.environ.get("VERIF_SEED", "0")))
    a = ap.parse_args()
    mod = importlib.import_module("harness.props." + a.pid.lower())
    P = mod.PROP
    if a.replay:
        sys.exit(runner.replay(P, a.replay))
    sys.exit(runner.run_check(P, a.tier, a.seed))

if __name__ == "__main__":
    main()
