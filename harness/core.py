"""Core of the verification harness: Coq literal emitters, shard evaluation inside Coq,
proof-obligation checking, implementation supervision, verdict / evidence / replay plumbing.

Everything a registered check needs lives under /verif; scratch goes to /verif/work/<id>/ and is
removed at the end of the run."""
import os, sys, json, time, random, hashlib, subprocess, re, signal, shutil, traceback, ast
from fractions import Fraction
from concurrent.futures import ThreadPoolExecutor

VERIF = os.path.dirname(os.path.dirname(os.path.abspath(__file__)))
REPO = os.environ.get("VERIF_REPO", "/repo")
COQ = os.path.join(VERIF, "coq")
WORK = os.path.join(VERIF, "work")
EVID = os.path.join(VERIF, "evidence")
REPLAYS = os.path.join(VERIF, "replays")
CORPUS = os.path.join(VERIF, "corpus")
NCPU = int(os.environ.get("VERIF_JOBS", "16"))
GUARD = "SOCIALCHOICEKIT_VERIF"

os.environ.setdefault("PYTHONHASHSEED", "0")
if REPO not in sys.path:
    sys.path.insert(0, REPO)
os.environ[GUARD] = "1"

ALLOWED_AXIOMS = {
    # standard-library axioms that may appear (named in the trusted base when they do)
    "functional_extensionality_dep", "proof_irrelevance", "classic", "JMeq_eq", "Eqdep.Eq_rect_eq.eq_rect_eq",
    "eq_rect_eq", "ClassicalDedekindReals.sig_forall_dec", "ClassicalDedekindReals.sig_not_dec",
    "FunctionalExtensionality.functional_extensionality_dep",
}

# ----------------------------------------------------------------------------------------------
# Coq literals (explicit scope delimiters everywhere; generated files open no scope)

def cz(x):
    return "(%d)%%Z" % int(x)

def cn(x):
    return "%d%%nat" % int(x)

def cq(x):
    f = x if isinstance(x, Fraction) else Fraction(x)
    return "(%d # %d)%%Q" % (f.numerator, f.denominator)

def cb(x):
    return "true" if x else "false"

def cl(items):
    return "[" + "; ".join(items) + "]"

def ct(*items):
    return "(" + ", ".join(items) + ")"

def copt(x, f):
    return "None" if x is None else "(Some %s)" % f(x)

def isnan(x):
    return x is None or (isinstance(x, float) and x != x)

def frac(x):
    """exact rational value of a Python/numpy number (binary64 -> its exact value)"""
    if isinstance(x, Fraction):
        return x
    if isinstance(x, int):
        return Fraction(x)
    return Fraction(float(x))

# ----------------------------------------------------------------------------------------------
# Supervised execution of implementation code

class Timeout(Exception):
    pass

def _alarm(signum, frame):
    raise Timeout()

def supervised(fn, deadline=20.0):
    """run fn() under a deadline; returns ("ok", value) | ("err", ExceptionClassName, message) | ("timeout",)"""
    old = signal.signal(signal.SIGALRM, _alarm)
    signal.setitimer(signal.ITIMER_REAL, deadline)
    try:
        v = fn()
        return ("ok", v)
    except Timeout:
        return ("timeout",)
    except RecursionError as e:
        return ("err", "RecursionError", str(e)[:200])
    except Exception as e:  # noqa
        return ("err", type(e).__name__, str(e)[:200])
    finally:
        signal.setitimer(signal.ITIMER_REAL, 0)
        signal.signal(signal.SIGALRM, old)

def lay(a, layout):
    """the same array values in another memory layout, as callers produce them without noticing: 'F' = column-major (what a
    transposed table `T.T` or a column selection `A[:, perm]` gives), 'S' = a strided view into a larger buffer (every second
    row / column of a bigger array). None / 'C' = the array as built."""
    import numpy as np
    if layout == "F" and getattr(a, "ndim", 0) == 2:
        return np.asfortranarray(a)
    if layout == "S" and getattr(a, "ndim", 0) == 2:
        big = np.zeros((2 * a.shape[0] + 1, 2 * a.shape[1] + 1), dtype=a.dtype); v = big[1::2, 1::2]; v[...] = a
        return v
    if layout == "S" and getattr(a, "ndim", 0) == 1:
        big = np.zeros(2 * a.shape[0] + 1, dtype=a.dtype); v = big[1::2]; v[...] = a
        return v
    return a
LAYOUTS = (None, None, "F", None, None, "S", None, "F", None, None, None)

def supervised_fork(fn, deadline=20.0):
    """like supervised, but in a forked child that is killed after the deadline: also stops hangs inside C code
    (where the interpreter never gets to run the SIGALRM handler). fn must return picklable plain data."""
    import pickle, select
    r, w = os.pipe()
    pid = os.fork()
    if pid == 0:
        os.close(r)
        try:
            data = pickle.dumps(supervised(fn, deadline))
        except BaseException as e:  # noqa
            data = pickle.dumps(("err", type(e).__name__, str(e)[:200]))
        try:
            with os.fdopen(w, "wb") as fh:
                fh.write(data)
        finally:
            os._exit(0)
    os.close(w)
    buf = b""
    end = time.time() + deadline + 2.0
    while True:
        rem = end - time.time()
        if rem <= 0:
            break
        rl, _, _ = select.select([r], [], [], rem)
        if not rl:
            break
        chunk = os.read(r, 1 << 16)
        if not chunk:
            break
        buf += chunk
    os.close(r)
    try:
        os.kill(pid, 9)
    except OSError:
        pass
    try:
        os.waitpid(pid, 0)
    except OSError:
        pass
    if not buf:
        return ("timeout",)
    try:
        return pickle.loads(buf)
    except Exception:  # noqa
        return ("timeout",)

# ----------------------------------------------------------------------------------------------
# Coq side

def sh(cmd, timeout=1800, cwd=None):
    p = subprocess.run(cmd, shell=True, cwd=cwd, stdout=subprocess.PIPE, stderr=subprocess.STDOUT, timeout=timeout, text=True)
    return p.returncode, p.stdout

FORBIDDEN = re.compile(r"\b(Admitted|admit|Axiom|Axioms|Parameter|Parameters|Conjecture|Conjectures|Admit Obligations|bypass_check)\b|Unset Guard Checking|Unset Positivity Checking|Unset Universe Checking|type-in-type|impredicative-set")

def strip_coq_comments(src):
    out, depth, i = [], 0, 0
    while i < len(src):
        if src.startswith("(*", i):
            depth += 1; i += 2
        elif src.startswith("*)", i) and depth > 0:
            depth -= 1; i += 2
        else:
            if depth == 0:
                out.append(src[i])
            i += 1
    return "".join(out)

def lint():
    """grep-lint of the development; returns list of offending 'file:line: text'"""
    bad = []
    for root, _, files in os.walk(COQ):
        for f in files:
            if not f.endswith(".v"):
                continue
            p = os.path.join(root, f)
            src = strip_coq_comments(open(p).read())
            # Variable/Hypothesis outside sections
            depth = 0
            for ln, line in enumerate(src.split("\n"), 1):
                if FORBIDDEN.search(line):
                    bad.append("%s:%d: %s" % (os.path.relpath(p, VERIF), ln, line.strip()[:80]))
                if re.match(r"\s*Section\s", line):
                    depth += 1
                elif re.match(r"\s*End\s", line) and depth > 0:
                    depth -= 1
                elif depth == 0 and re.match(r"\s*(Variable|Variables|Hypothesis|Hypotheses|Context)\b", line):
                    bad.append("%s:%d: %s (outside a Section)" % (os.path.relpath(p, VERIF), ln, line.strip()[:80]))
    if os.path.exists(os.path.join(COQ, "_CoqProject")):
        if re.search(r"type-in-type|impredicative-set|-vos|-vok|bypass", open(os.path.join(COQ, "_CoqProject")).read()):
            bad.append("_CoqProject: forbidden flag")
    return bad

def build():
    """full .vo build of the development (no-op when up to date)"""
    import fcntl
    os.makedirs(WORK, exist_ok=True)
    with open(os.path.join(WORK, ".build.lock"), "w") as lk:      # two checks started at the same time must not run make concurrently
        fcntl.flock(lk, fcntl.LOCK_EX)
        mk, cp = os.path.join(COQ, "Makefile"), os.path.join(COQ, "_CoqProject")
        if not os.path.exists(mk) or os.path.getmtime(cp) > os.path.getmtime(mk):
            rc, out = sh("coq_makefile -f _CoqProject -o Makefile", cwd=COQ)
            if rc != 0:
                return False, out
        rc, out = sh("timeout 3000 make -j%d 2>&1" % NCPU, timeout=3100, cwd=COQ)
        return rc == 0, out[-4000:]

def _pair_assumptions(src, rc, out, res):
    """pair each theorem of a statements file with its Print Assumptions answer in coqc's output"""
    src = strip_coq_comments(src)
    names = re.findall(r"Print Assumptions\s+([A-Za-z0-9_'.]+)\s*\.", src)
    thms = re.findall(r"^\s*(?:Theorem|Lemma|Corollary)\s+([A-Za-z0-9_']+)", src, re.M)
    res["obligations"] = len(thms)
    missing = [t for t in thms if t not in names]
    res["log"] = out[-3000:]
    if rc != 0:
        return res
    blocks = re.split(r"\n(?=Closed under the global context|Axioms:)", "\n" + out)
    blocks = [b.strip() for b in blocks if b.strip().startswith(("Closed under", "Axioms:"))]
    ok = (len(blocks) == len(names)) and not missing
    for nm, b in zip(names, blocks):
        if b.startswith("Closed under"):
            res["theorems"].append(dict(name=nm, assumptions=[]))
            res["discharged"] += 1
        else:
            ax = re.findall(r"^([A-Za-z0-9_'.]+)\s*:", b, re.M)
            res["theorems"].append(dict(name=nm, assumptions=ax))
            if all(a in ALLOWED_AXIOMS or a.split(".")[-1] in ALLOWED_AXIOMS for a in ax):
                res["discharged"] += 1
            else:
                ok = False
    if missing:
        res["log"] += "\ntheorems without Print Assumptions: %s" % missing
    res["ok"] = ok and res["discharged"] == res["obligations"] and res["obligations"] > 0
    return res

def proof_obligations(pid):
    """recompile Properties/<pid>.v, pair each theorem with its Print Assumptions answer.
    returns dict(ok, obligations, discharged, theorems=[{name, assumptions}], log)"""
    path = os.path.join(COQ, "Properties", pid + ".v")
    res = dict(ok=False, obligations=0, discharged=0, theorems=[], log="", file="coq/Properties/%s.v" % pid)
    if not os.path.exists(path):
        res["log"] = "no property file"
        return res
    rc, out = sh("timeout 900 coqc -R . SCK Properties/%s.v" % pid, timeout=1000, cwd=COQ)
    return _pair_assumptions(open(path).read(), rc, out, res)

# name -> (generated files in build order as (file, translate function suffix), committed proof file)
TRANSLATORS = {"scoring": ([("ScoringGen.v", "scoring")], "ScoringGenProof.v"),
               "copeland": ([("CopelandGen.v", "copeland")], "CopelandGenProof.v"),
               "stv": ([("ScoringGen.v", "scoring"), ("StvGen.v", "stv")], "StvGenProof.v"),
               "elicitor": ([("ElicitorGen.v", "elicitor")], "ElicitorGenProof.v"),
               "bsearch": ([("BsearchGen.v", "bsearch")], "BsearchGenProof.v"),
               "rootn": ([("RootnGen.v", "rootn")], "RootnGenProof.v"),
               "flow": ([("FlowGen.v", "flow")], "FlowGenProof.v"),
               # a file name with translate function None is a committed proof file the last one builds on
               "bip": ([("FlowGen.v", "flow"), ("FlowGenProof.v", None), ("BipGen.v", "flow2")], "BipGenProof.v"),
               "preflib": ([("PreflibGen.v", "preflib")], "PreflibGenProof.v"),
               "randscoring": ([("RandGen.v", "randscoring")], "RandGenProof.v"),
               "mwm": ([("MwmGen.v", "mwm")], "MwmGenProof.v"),
               "rsd": ([("RsdGen.v", "rsd")], "RsdGenProof.v"),
               "gsres": ([("GsResGen.v", "gs_res")], "GsResGenProof.v"),
               "gshosp": ([("GsResGen.v", "gs_res"), ("GsHospGen.v", "gs_hosp")], "GsHospGenProof.v"),
               "elicitvoting": ([("ScoringGen.v", "scoring"), ("ElicitVoteGen.v", "elicitvoting")], "ElicitVoteGenProof.v"),
               "irvsmall": ([("IrvSmallGen.v", "irvsmall")], "IrvSmallGenProof.v"),
               "posgraph": ([("PosGraphGen.v", "posgraph")], "PosGraphGenProof.v"),
               "complete": ([("CompleteGen.v", "complete")], "CompleteGenProof.v"),
               "thrrules": ([("BsearchGen.v", "bsearch"), ("BsearchGenProof.v", None), ("ThrGen.v", "thrrules")], "ThrGenProof.v"),
               "mwcs": ([("MwcsGen.v", "mwcs")], "MwcsGenProof.v"),
               "validators": ([("ValGen.v", "validators")], "ValGenProof.v"),
               "eatscf": ([("EatScfGen.v", "eatscf")], "EatScfGenProof.v"),
               "eatloop": ([("EatLoopGen.v", "eatloop")], "EatLoopGenProof.v"),
               "distortion": ([("ScoringGen.v", "scoring"), ("DistGen.v", "distortion")], "DistGenProof.v"),
               "bvnloop": ([("PosGraphGen.v", "posgraph"), ("PosGraphGenProof.v", None), ("BvnGen.v", "bvnloop")], "BvnGenProof.v"),
               "consistent": ([("ConsGen.v", "consistent")], "ConsGenProof.v"),
               "datagen": ([("DataGenGen.v", "datagen")], "DataGenGenProof.v"),
               "ordinal": ([("OrdGen.v", "ordinal")], "OrdGenProof.v"),
               "irvscf": ([("IrvScfGen.v", "irvscf")], "IrvScfGenProof.v"),
               "m2q": ([("M2qGen.v", "m2q")], "M2qGenProof.v"),
               "irvposet": ([("IrvPosetGen.v", "irvposet")], "IrvPosetGenProof.v"),
               "reach": ([("ReachGen.v", "reach")], "ReachGenProof.v"),
               "irvinit": ([("IrvInitGen.v", "irvinit")], "IrvInitGenProof.v"),
               "irvrot": ([("IrvRotGen.v", "irvrot")], "IrvRotGenProof.v"),
               "irvall": ([("IrvAllGen.v", "irvall")], "IrvAllGenProof.v"),
               "flowhelpers": ([("FlowHelpGen.v", "flowhelpers")], "FlowHelpGenProof.v"),
               "wrappers": ([("WrapGen.v", "wrappers")], "WrapGenProof.v"),
               "elicitclasses": ([("ElicitClsGen.v", "elicitclasses")], "ElicitClsGenProof.v"),
               "strictify": ([("StrictGen.v", "strictify")], "StrictGenProof.v"),
               "irvpipe": ([("IrvScfGen.v", "irvscf"), ("IrvScfGenProof.v", None), ("IrvInitGen.v", "irvinit"), ("IrvInitGenProof.v", None), ("IrvRotGen.v", "irvrot"), ("IrvRotGenProof.v", None),
                            ("IrvAllGen.v", "irvall"), ("IrvAllGenProof.v", None), ("IrvPosetGen.v", "irvposet"), ("IrvPosetGenProof.v", None), ("MwcsGen.v", "mwcs"), ("MwcsGenProof.v", None),
                            ("IrvSmallGen.v", "irvsmall"), ("IrvSmallGenProof.v", None)], "IrvPipeGenProof.v")}

def translator_obligation(name):
    """regenerate the model of <name> from /repo's current source (harness/translate.py), compile it, and re-check the
    committed equivalence proofs coq/gen/<..>Proof.v against it. Same result shape as proof_obligations."""
    from . import translate
    gens, proof = TRANSLATORS[name]
    res = dict(ok=False, obligations=0, discharged=0, theorems=[], log="", file="coq/gen/%s (against %s regenerated from %s)" % (proof, ", ".join(g for g, f in gens if f), REPO))
    gdir = os.path.join(WORK, "gen_%s_%d" % (name, os.getpid()))
    shutil.rmtree(gdir, ignore_errors=True)
    os.makedirs(gdir)
    try:
        psrc = open(os.path.join(COQ, "gen", proof)).read()
        res["obligations"] = len(re.findall(r"^\s*(?:Theorem|Lemma|Corollary)\s+([A-Za-z0-9_']+)", strip_coq_comments(psrc), re.M))
        h = hashlib.sha256()
        for gen, fnname in gens:
            if fnname is None:
                shutil.copy(os.path.join(COQ, "gen", gen), os.path.join(gdir, gen))
                rc, out = sh("timeout 300 coqc -R %s SCK -R . SCKGen %s" % (COQ, gen), timeout=320, cwd=gdir)
                if rc != 0:
                    res["log"] = "committed proof %s does not check against the regenerated model:\n" % gen + out[-2000:]
                    return res
                continue
            try:
                text = getattr(translate, "translate_" + fnname)(REPO)
            except translate.TErr as e:
                res["log"] = "translator rejected the source (fail-closed): %s" % e
                return res
            except Exception as e:
                res["log"] = "translator failed: %s: %s" % (type(e).__name__, e)
                return res
            if FORBIDDEN.search(strip_coq_comments(text)):
                res["log"] = "generated text contains a forbidden command"
                return res
            h.update(text.encode())
            open(os.path.join(gdir, gen), "w").write(text)
            rc, out = sh("timeout 300 coqc -R %s SCK -R . SCKGen %s" % (COQ, gen), timeout=320, cwd=gdir)
            if rc != 0:
                res["log"] = "generated model %s does not compile:\n" % gen + out[-2000:]
                return res
        open(os.path.join(gdir, proof), "w").write(psrc)
        rc, out = sh("timeout 600 coqc -R %s SCK -R . SCKGen %s" % (COQ, proof), timeout=620, cwd=gdir)
        res = _pair_assumptions(psrc, rc, out, res)
        res["generated_sha256"] = h.hexdigest()
        return res
    finally:
        shutil.rmtree(gdir, ignore_errors=True)

class Group:
    """one correspondence group: cases of one Coq type checked by one boolean checker"""
    def __init__(self, name, requires, ctype, checker, shard=300):
        self.name, self.requires, self.ctype, self.checker, self.shard = name, requires, ctype, checker, shard

def _run_shard(args):
    path, = args
    d, f = os.path.split(path)
    try:
        p = subprocess.run("ulimit -s unlimited 2>/dev/null; timeout 1500 coqc -R %s SCK %s" % (COQ, f), shell=True, cwd=d,
                           stdout=subprocess.PIPE, stderr=subprocess.STDOUT, text=True, timeout=1600)
        return p.returncode, p.stdout
    except subprocess.TimeoutExpired:
        return 124, "timeout"

def coq_mismatches(pid, group, literals, shard=None):
    """evaluate the model on every literal inside Coq; returns (list of mismatching indices, error or None)"""
    if not literals:
        return [], None
    shard = shard or group.shard
    d = os.path.join(WORK, pid)
    os.makedirs(d, exist_ok=True)
    paths = []
    for k in range(0, len(literals), shard):
        name = "cases_%s_%d" % (re.sub(r"\W", "_", group.name), k // shard)
        p = os.path.join(d, name + ".v")
        with open(p, "w") as fh:
            fh.write("From Coq Require Import ZArith QArith List Bool String.\nImport ListNotations.\n")
            fh.write("From SCK Require Corr.\n" + group.requires + "\n")
            fh.write("Definition cases : list (%s) := [\n" % group.ctype)
            fh.write(";\n".join(literals[k:k + shard]))
            fh.write("].\nEval vm_compute in (SCK.Corr.mism (%s) 0%%nat cases).\n" % group.checker)
        paths.append(p)
    bad, err = [], None
    with ThreadPoolExecutor(max_workers=NCPU) as ex:
        for k, (rc, out) in enumerate(ex.map(_run_shard, [(p,) for p in paths])):
            m = re.search(r"=\s*\[(.*?)\]\s*:\s*list nat", out, re.S)
            if rc != 0 or not m:
                err = "coqc failed on %s: %s" % (paths[k], out[-1500:])
                continue
            for tok in re.findall(r"(\d+)%nat|(\d+)", m.group(1)):
                idx = int(tok[0] or tok[1])
                bad.append(k * shard + idx)
    return sorted(bad), err

def cleanup(pid):
    shutil.rmtree(os.path.join(WORK, pid), ignore_errors=True)

# ----------------------------------------------------------------------------------------------
# Fingerprints of modelled source

def fingerprint(relpath, names=None):
    """sha256 of the docstring-stripped AST of functions/classes `names` in REPO/relpath"""
    try:
        src = open(os.path.join(REPO, relpath)).read()
        t = ast.parse(src)
    except Exception as e:  # noqa
        return "unparsable: %s" % type(e).__name__
    for n in ast.walk(t):
        if isinstance(n, (ast.FunctionDef, ast.ClassDef, ast.Module)) and n.body and isinstance(n.body[0], ast.Expr) \
                and isinstance(getattr(n.body[0], "value", None), ast.Constant) and isinstance(n.body[0].value.value, str):
            n.body = n.body[1:] or [ast.Pass()]
    return hashlib.sha256(ast.dump(t).encode()).hexdigest()[:16]

# ----------------------------------------------------------------------------------------------
# Known findings

def load_known():
    p = os.path.join(VERIF, "known_findings.json")
    if not os.path.exists(p):
        return []
    return json.load(open(p)).get("findings", [])

def jsonable(x):
    import numpy as np
    if isinstance(x, dict):
        return {str(k): jsonable(v) for k, v in x.items()}
    if isinstance(x, (list, tuple, set, frozenset)):
        return [jsonable(v) for v in (sorted(x) if isinstance(x, (set, frozenset)) else x)]
    if isinstance(x, np.ndarray):
        return jsonable(x.tolist())
    if isinstance(x, (np.integer,)):
        return int(x)
    if isinstance(x, (np.floating, float)):
        return None if x != x else (float(x))
    if isinstance(x, Fraction):
        return "%d/%d" % (x.numerator, x.denominator)
    if isinstance(x, (np.bool_,)):
        return bool(x)
    return x
