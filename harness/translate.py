"""Fail-closed translator: Python source of socialchoicekit's scoring rules -> Gallina (work/gen/ScoringGen.v).

The generated file is rebuilt from /repo's CURRENT source on every run and the committed proof file
coq/gen/ScoringGenProof.v shows that every generated definition equals the hand-written model (Voting.v) the property
theorems are about.  Anything the translator does not recognise raises TErr: the obligation is then reported as broken
(never silently skipped).

Recognised subset (everything else is rejected):
  statements   NAME = expr ; return expr ; if/elif/else chains of return / raise (break_tie) ; docstrings
  scalars      int literals, NAME bound to a scalar, X.shape[1] for the profile matrix X, self.k, + - *
  matrices     the profile parameter, X.view(np.ndarray), NAME bound to one of these
  elementwise  MAT, SCALAR op MAT, MAT op SCALAR (op in + - *), comparisons MAT cmp SCALAR (== != < <= > >=),
               np.where(COND, a, b) with elementwise / scalar branches
  reductions   np.sum(A, axis=0); super().score(A) (inlined from BaseScoring.score)
  rank counts  np.array([np.sum(MAT == r, axis=0) for r in range(a, b)]) / np.arange(a', b').reshape(m, 1)
  winners      np.argwhere(S == np.amax(S)).flatten() + self.index_fixer ; break_tie(winners, self.tie_breaker)
  break_tie    tie_breaker == "..." [and include_accept] tests; np.random.choice(alts) / alts[0] / alts / raise
"""
import ast, hashlib, os, re, sys
from fractions import Fraction

class TErr(Exception):
    pass

def _fail(node, msg):
    raise TErr("line %s: %s: %s" % (getattr(node, "lineno", "?"), msg, ast.dump(node)[:160] if isinstance(node, ast.AST) else node))

def _is_np(node, name):
    return isinstance(node, ast.Attribute) and node.attr == name and isinstance(node.value, ast.Name) and node.value.id == "np"

def _body(fn):
    b = list(fn.body)
    if b and isinstance(b[0], ast.Expr) and isinstance(b[0].value, ast.Constant) and isinstance(b[0].value.value, str):
        b = b[1:]
    return b

def _find(nodes, kind, name):
    for n in nodes:
        if isinstance(n, kind) and n.name == name:
            if getattr(n, "decorator_list", None):
                raise TErr("%s %s is decorated (a decorator can change what the body means)" % (kind.__name__, name))
            return n
    raise TErr("%s %s not found" % (kind.__name__, name))

class ScoreTr:
    """translates one score(self, profile) method; env: name -> ('mat',) | ('scalar', coq)"""
    def __init__(self, base_score_fn):
        self.base = base_score_fn
        self.lets = []

    # ---- scalars
    def scalar(self, e, env):
        if isinstance(e, ast.Constant) and isinstance(e.value, int) and not isinstance(e.value, bool):
            return "(%d)" % e.value
        if isinstance(e, ast.Name) and env.get(e.id, (None,))[0] == "scalar":
            return env[e.id][1]
        if isinstance(e, ast.Attribute) and e.attr == "k" and isinstance(e.value, ast.Name) and e.value.id == "self":
            return "k"
        if (isinstance(e, ast.Subscript) and isinstance(e.value, ast.Attribute) and e.value.attr == "shape"
                and self.is_mat(e.value.value, env) and isinstance(e.slice, ast.Constant) and e.slice.value == 1):
            return "m"
        if isinstance(e, ast.BinOp) and isinstance(e.op, (ast.Add, ast.Sub, ast.Mult)):
            op = {ast.Add: "+", ast.Sub: "-", ast.Mult: "*"}[type(e.op)]
            a, b = self.scalar(e.left, env), self.scalar(e.right, env)
            if a is None or b is None:
                return None
            return "(%s %s %s)" % (a, op, b)
        return None

    def is_mat(self, e, env):
        if isinstance(e, ast.Name) and env.get(e.id, (None,))[0] == "mat":
            return True
        if (isinstance(e, ast.Call) and isinstance(e.func, ast.Attribute) and e.func.attr == "view" and self.is_mat(e.func.value, env)
                and len(e.args) == 1 and _is_np(e.args[0], "ndarray") and not e.keywords):
            return True
        return False

    # ---- elementwise expressions over the profile matrix: returns (body in x, 'Z' | 'B')
    def elem(self, e, env):
        if self.is_mat(e, env):
            return "x", "Z"
        s = self.scalar(e, env)
        if s is not None:
            return s, "Z"
        if isinstance(e, ast.BinOp) and isinstance(e.op, (ast.Add, ast.Sub, ast.Mult)):
            (a, ta), (b, tb_) = self.elem(e.left, env), self.elem(e.right, env)
            if ta != "Z" or tb_ != "Z": _fail(e, "arithmetic on booleans")
            return "(%s %s %s)" % (a, {ast.Add: "+", ast.Sub: "-", ast.Mult: "*"}[type(e.op)], b), "Z"
        if isinstance(e, ast.Compare) and len(e.ops) == 1:
            ops = {ast.Eq: "(%s =? %s)", ast.NotEq: "(negb (%s =? %s))", ast.Lt: "(%s <? %s)", ast.LtE: "(%s <=? %s)",
                   ast.Gt: "(%s >? %s)", ast.GtE: "(%s >=? %s)"}
            if type(e.ops[0]) not in ops: _fail(e, "comparison not supported")
            (a, ta), (b, tb_) = self.elem(e.left, env), self.elem(e.comparators[0], env)
            if ta != "Z" or tb_ != "Z": _fail(e, "comparison of booleans")
            return ops[type(e.ops[0])] % (a, b), "B"
        if isinstance(e, ast.Call) and _is_np(e.func, "where") and len(e.args) == 3 and not e.keywords:
            (c, tc), (a, ta), (b, tb_) = self.elem(e.args[0], env), self.elem(e.args[1], env), self.elem(e.args[2], env)
            if tc != "B" or ta != "Z" or tb_ != "Z": _fail(e, "np.where with unsupported operand types")
            return "(if %s then %s else %s)" % (c, a, b), "Z"
        _fail(e, "elementwise expression not recognised")

    def mentions_mat(self, e, env):
        return any(self.is_mat(n, env) for n in ast.walk(e))

    # ---- array expressions: returns (coq, type) with type in Zmat, Zvec, Qvec, Zrows(lo,hi)
    def arr(self, e, env):
        # np.sum(A, axis=0)
        if (isinstance(e, ast.Call) and _is_np(e.func, "sum") and len(e.args) == 1 and len(e.keywords) == 1
                and e.keywords[0].arg == "axis" and isinstance(e.keywords[0].value, ast.Constant) and e.keywords[0].value.value == 0):
            a, t = self.arr(e.args[0], env)
            if t == "Zmat": return "(colsumZ m %s)" % a, "Zvec"
            if t == "Qmat": return "(colsumQ m %s)" % a, "Qvec"
            _fail(e, "np.sum(axis=0) of a %s" % t)
        # super().score(A): inline BaseScoring.score
        if (isinstance(e, ast.Call) and isinstance(e.func, ast.Attribute) and e.func.attr == "score" and isinstance(e.func.value, ast.Call)
                and isinstance(e.func.value.func, ast.Name) and e.func.value.func.id == "super" and not e.func.value.args
                and len(e.args) == 1 and not e.keywords):
            b = _body(self.base)
            params = [a.arg for a in self.base.args.args]
            if len(params) != 2 or len(b) != 1 or not isinstance(b[0], ast.Return): _fail(self.base, "BaseScoring.score: unexpected shape")
            inner, t = self.arr(e.args[0], env)
            nm = "sbv%d" % len(self.lets)
            self.lets.append((nm, inner))
            env2 = dict(env); env2[params[1]] = ("bound", nm, t)
            return self.arr(b[0].value, env2)
        if isinstance(e, ast.Name) and env.get(e.id, (None,))[0] == "bound":
            return env[e.id][1], env[e.id][2]
        # np.array([np.sum(MAT == r, axis=0) for r in range(a, b)])
        if (isinstance(e, ast.Call) and _is_np(e.func, "array") and len(e.args) == 1 and not e.keywords and isinstance(e.args[0], ast.ListComp)):
            lc = e.args[0]
            if len(lc.generators) != 1 or lc.generators[0].ifs or lc.generators[0].is_async or not isinstance(lc.generators[0].target, ast.Name):
                _fail(e, "comprehension shape")
            g = lc.generators[0]
            if not (isinstance(g.iter, ast.Call) and isinstance(g.iter.func, ast.Name) and g.iter.func.id == "range" and len(g.iter.args) == 2 and not g.iter.keywords):
                _fail(e, "comprehension must iterate over range(a, b)")
            lo, hi = self.scalar(g.iter.args[0], env), self.scalar(g.iter.args[1], env)
            if lo is None or hi is None: _fail(e, "range bounds must be scalars")
            var = g.target.id
            env2 = dict(env); env2[var] = ("scalar", "r_" + var)
            elt, t = self.arr(lc.elt, env2)
            if t != "Zvec": _fail(e, "comprehension element must be an integer vector")
            return "(map (fun r_%s => %s) (zrange %s %s))" % (var, elt, lo, hi), "Zrows"
        # ROWS / np.arange(a, b).reshape(m, 1)
        if isinstance(e, ast.BinOp) and isinstance(e.op, ast.Div):
            a, t = self.arr(e.left, env)
            d = e.right
            if t != "Zrows": _fail(e, "division of a %s" % t)
            if not (isinstance(d, ast.Call) and isinstance(d.func, ast.Attribute) and d.func.attr == "reshape" and len(d.args) == 2 and not d.keywords
                    and self.scalar(d.args[0], env) == "m" and isinstance(d.args[1], ast.Constant) and d.args[1].value == 1
                    and isinstance(d.func.value, ast.Call) and _is_np(d.func.value.func, "arange") and len(d.func.value.args) == 2 and not d.func.value.keywords):
                _fail(e, "divisor must be np.arange(a, b).reshape(m, 1)")
            lo, hi = self.scalar(d.func.value.args[0], env), self.scalar(d.func.value.args[1], env)
            if lo is None or hi is None: _fail(e, "arange bounds must be scalars")
            return "(divrows %s (zrange %s %s))" % (a, lo, hi), "Qmat"
        # elementwise expression over the profile matrix
        if self.mentions_mat(e, env):
            body, t = self.elem(e, env)
            if t == "B":      # a boolean matrix summed by np.sum counts its True entries
                body = "(if %s then 1 else 0)" % body
            return "(mmapZ (fun x => %s) P)" % body, "Zmat"
        _fail(e, "array expression not recognised")

    def method(self, fn):
        params = [a.arg for a in fn.args.args]
        if len(params) != 2 or params[0] != "self": _fail(fn, "score(self, profile) expected")
        env = {params[1]: ("mat",)}
        body = _body(fn)
        if not body or not isinstance(body[-1], ast.Return): _fail(fn, "score must end with return")
        for st in body[:-1]:
            if not (isinstance(st, ast.Assign) and len(st.targets) == 1 and isinstance(st.targets[0], ast.Name)): _fail(st, "statement not supported")
            nm = st.targets[0].id
            if self.is_mat(st.value, env):
                env[nm] = ("mat",)
                continue
            s = self.scalar(st.value, env)
            if s is not None:
                env[nm] = ("scalar", s)
                continue
            a, t = self.arr(st.value, env)
            lname = "v_%s" % nm
            self.lets.append((lname, a))
            env[nm] = ("bound", lname, t)
        res, t = self.arr(body[-1].value, env)
        if t == "Zvec": res = "(map inject_Z %s)" % res
        elif t != "Qvec": _fail(fn, "score returns a %s" % t)
        out = "  let m := ncols P in\n"
        for nm, a in self.lets:
            out += "  let %s := %s in\n" % (nm, a)
        return out + "  " + res

def tr_break_tie(fn):
    params = [a.arg for a in fn.args.args]
    if params != ["alternatives", "tie_breaker", "include_accept"]: _fail(fn, "break_tie signature")
    defaults = fn.args.defaults
    if len(defaults) != 2 or not isinstance(defaults[1], ast.Constant) or not isinstance(defaults[1].value, bool): _fail(fn, "break_tie defaults")
    inc_default = defaults[1].value
    def test(t):
        if isinstance(t, ast.BoolOp) and isinstance(t.op, ast.And):
            return "(" + " && ".join(test(v) for v in t.values) + ")"
        if isinstance(t, ast.Name) and t.id == "include_accept":
            return "include_accept"
        if (isinstance(t, ast.Compare) and len(t.ops) == 1 and isinstance(t.ops[0], ast.Eq) and isinstance(t.left, ast.Name) and t.left.id == "tie_breaker"
                and isinstance(t.comparators[0], ast.Constant) and isinstance(t.comparators[0].value, str) and t.comparators[0].value.isalpha()):
            return '(String.eqb tie_breaker "%s"%%string)' % t.comparators[0].value
        _fail(t, "break_tie test not recognised")
    def action(stmts):
        if len(stmts) != 1: _fail(stmts[0] if stmts else fn, "one statement per branch expected")
        s = stmts[0]
        if isinstance(s, ast.Raise):
            return "OErr"
        if isinstance(s, ast.If):
            return chain(s)
        if isinstance(s, ast.Return):
            v = s.value
            if isinstance(v, ast.Name) and v.id == "alternatives": return "(OList alternatives)"
            if (isinstance(v, ast.Subscript) and isinstance(v.value, ast.Name) and v.value.id == "alternatives"
                    and isinstance(v.slice, ast.Constant) and v.slice.value == 0): return "(pick_first alternatives)"
            if (isinstance(v, ast.Call) and isinstance(v.func, ast.Attribute) and v.func.attr == "choice" and _is_np(v.func.value, "random")
                    and len(v.args) == 1 and not v.keywords and isinstance(v.args[0], ast.Name) and v.args[0].id == "alternatives"):
                return "(pick_choice alternatives oracle)"
        _fail(s, "break_tie branch not recognised")
    def chain(ifn):
        if not ifn.orelse: _fail(ifn, "if without else")
        return "(if %s then %s else %s)" % (test(ifn.test), action(ifn.body), action(ifn.orelse))
    body = _body(fn)
    if len(body) != 1 or not isinstance(body[0], ast.If): _fail(fn, "break_tie body")
    return chain(body[0]), inc_default

def tr_scf(fn, inc_default):
    body = _body(fn)
    params = [a.arg for a in fn.args.args]
    if len(params) != 2 or len(body) != 2: _fail(fn, "BaseScoring.scf shape")
    sc = params[1]
    a, r = body
    if not (isinstance(a, ast.Assign) and len(a.targets) == 1 and isinstance(a.targets[0], ast.Name) and isinstance(a.value, ast.BinOp) and isinstance(a.value.op, ast.Add)):
        _fail(a, "winners assignment")
    w = a.targets[0].id
    fx, left = a.value.right, a.value.left
    if not (isinstance(fx, ast.Attribute) and fx.attr == "index_fixer" and isinstance(fx.value, ast.Name) and fx.value.id == "self"): _fail(a, "index fixer")
    ok = (isinstance(left, ast.Call) and isinstance(left.func, ast.Attribute) and left.func.attr == "flatten" and not left.args and not left.keywords
          and isinstance(left.func.value, ast.Call) and _is_np(left.func.value.func, "argwhere") and len(left.func.value.args) == 1 and not left.func.value.keywords)
    if not ok: _fail(a, "np.argwhere(...).flatten() expected")
    c = left.func.value.args[0]
    ok = (isinstance(c, ast.Compare) and len(c.ops) == 1 and isinstance(c.ops[0], ast.Eq) and isinstance(c.left, ast.Name) and c.left.id == sc
          and isinstance(c.comparators[0], ast.Call) and _is_np(c.comparators[0].func, "amax") and len(c.comparators[0].args) == 1 and not c.comparators[0].keywords
          and isinstance(c.comparators[0].args[0], ast.Name) and c.comparators[0].args[0].id == sc)
    if not ok: _fail(a, "score == np.amax(score) expected")
    ok = (isinstance(r, ast.Return) and isinstance(r.value, ast.Call) and isinstance(r.value.func, ast.Name) and r.value.func.id == "break_tie"
          and len(r.value.args) == 2 and not r.value.keywords and isinstance(r.value.args[0], ast.Name) and r.value.args[0].id == w
          and isinstance(r.value.args[1], ast.Attribute) and r.value.args[1].attr == "tie_breaker")
    if not ok: _fail(r, "return break_tie(winners, self.tie_breaker) expected")
    winners = "map (fun i => Z.of_nat i + fixer) (argwhere (map (fun x => Qeq_bool x (amaxQ score)) score))"
    return winners, "gen_break_tie (gen_winners score fixer) tie_breaker %s oracle" % ("true" if inc_default else "false")

def tr_init(fn):
    for st in _body(fn):
        if (isinstance(st, ast.Assign) and len(st.targets) == 1 and isinstance(st.targets[0], ast.Attribute) and st.targets[0].attr == "index_fixer"):
            v = st.value
            if (isinstance(v, ast.IfExp) and isinstance(v.test, ast.Name) and v.test.id == "zero_indexed"
                    and isinstance(v.body, ast.Constant) and isinstance(v.orelse, ast.Constant)
                    and isinstance(v.body.value, int) and isinstance(v.orelse.value, int)):
                return "if zero_indexed then (%d) else (%d)" % (v.body.value, v.orelse.value)
            _fail(st, "index_fixer assignment not recognised")
    _fail(fn, "index_fixer assignment not found")

def tr_social_welfare(fn):
    params = [a.arg for a in fn.args.args]
    body = _body(fn)
    if len(params) != 2 or len(body) != 1 or not isinstance(body[0], ast.Return): _fail(fn, "SocialWelfare.score shape")
    V = params[1]
    def nansum(e):
        if not (isinstance(e, ast.Call) and _is_np(e.func, "nansum") and len(e.args) == 1 and isinstance(e.args[0], ast.Name) and e.args[0].id == V):
            return None
        if not e.keywords:
            return ("scalar", "(nansum_all V)")
        if len(e.keywords) == 1 and e.keywords[0].arg == "axis" and isinstance(e.keywords[0].value, ast.Constant) and e.keywords[0].value.value == 0:
            return ("vec", "(nancolsum (qncols V) V)")
        return None
    e = body[0].value
    if not (isinstance(e, ast.BinOp) and isinstance(e.op, ast.Div)): _fail(e, "vector / scalar expected")
    a, b = nansum(e.left), nansum(e.right)
    if a is None or b is None or a[0] != "vec" or b[0] != "scalar": _fail(e, "np.nansum(V, axis=0) / np.nansum(V) expected")
    return "divvec %s %s" % (a[1], b[1])

RULES = ["Plurality", "Borda", "Veto", "KApproval", "Harmonic"]

def translate_scoring(repo):
    p1 = os.path.join(repo, "socialchoicekit", "deterministic_scoring.py")
    p2 = os.path.join(repo, "socialchoicekit", "utils.py")
    s1, s2 = open(p1).read(), open(p2).read()
    m1, m2 = ast.parse(s1), ast.parse(s2)
    base = _find(m1.body, ast.ClassDef, "BaseScoring")
    base_score = _find(base.body, ast.FunctionDef, "score")
    out = ["(* GENERATED by harness/translate.py from socialchoicekit/deterministic_scoring.py (sha256 %s) and utils.py (sha256 %s). Do not edit. *)"
           % (hashlib.sha256(s1.encode()).hexdigest()[:16], hashlib.sha256(s2.encode()).hexdigest()[:16]),
           "From Coq Require Import ZArith QArith List Bool String.", "Import ListNotations.", "From SCK Require Import Voting VoteExt GenLib GenUtil.",
           "Local Open Scope Z_scope.", ""]
    for r in RULES:
        cls = _find(m1.body, ast.ClassDef, r)
        if [b.id for b in cls.bases if isinstance(b, ast.Name)] != ["BaseScoring"]: _fail(cls, "base class")
        fn = _find(cls.body, ast.FunctionDef, "score")
        body = ScoreTr(base_score).method(fn)
        out.append("(* %s.score, deterministic_scoring.py:%d *)" % (r, fn.lineno))
        out.append("Definition gen_score_%s (k : Z) (P : list (list Z)) : list Q :=\n%s.\n" % (r, body))
    # SocialWelfare.score: np.nansum(V, axis=0) / np.nansum(V)
    sw = _find(m1.body, ast.ClassDef, "SocialWelfare")
    fn = _find(sw.body, ast.FunctionDef, "score")
    out.append("(* SocialWelfare.score, deterministic_scoring.py:%d *)" % fn.lineno)
    out.append("Definition gen_score_SocialWelfare (V : list (list (option Q))) : list Q :=\n  %s.\n" % tr_social_welfare(fn))
    bt, inc_default = tr_break_tie(_find(m2.body, ast.FunctionDef, "break_tie"))
    out.append("(* utils.break_tie *)")
    out.append("Definition gen_break_tie (alternatives : list Z) (tie_breaker : string) (include_accept : bool) (oracle : nat) : outcome :=\n  %s.\n" % bt)
    winners, scf = tr_scf(_find(base.body, ast.FunctionDef, "scf"), inc_default)
    out.append("(* BaseScoring.scf *)")
    out.append("Definition gen_winners (score : list Q) (fixer : Z) : list Z :=\n  %s.\n" % winners)
    out.append("Definition gen_scf (score : list Q) (fixer : Z) (tie_breaker : string) (oracle : nat) : outcome :=\n  %s.\n" % scf)
    out.append("(* BaseScoring.__init__ *)")
    out.append("Definition gen_fixer (zero_indexed : bool) : Z := %s.\n" % tr_init(_find(base.body, ast.FunctionDef, "__init__")))
    # the subclasses' scf must be `score = self.score(profile); return super().scf(score)`
    for r in RULES:
        cls = _find(m1.body, ast.ClassDef, r)
        b = _body(_find(cls.body, ast.FunctionDef, "scf"))
        ok = (len(b) == 2 and isinstance(b[0], ast.Assign) and isinstance(b[0].value, ast.Call) and isinstance(b[0].value.func, ast.Attribute)
              and b[0].value.func.attr == "score" and isinstance(b[0].value.func.value, ast.Name) and b[0].value.func.value.id == "self"
              and isinstance(b[1], ast.Return) and isinstance(b[1].value, ast.Call) and isinstance(b[1].value.func, ast.Attribute)
              and b[1].value.func.attr == "scf" and isinstance(b[1].value.func.value, ast.Call)
              and isinstance(b[1].value.func.value.func, ast.Name) and b[1].value.func.value.func.id == "super")
        if not ok: _fail(cls, "%s.scf is not `score = self.score(profile); return super().scf(score)`" % r)
    return "\n".join(out)

if __name__ == "__main__":
    import sys
    print(translate_scoring(sys.argv[1] if len(sys.argv) > 1 else "/repo"))


# ---------------------------------------------------------------------------------------------------------------------
# Copeland.score (deterministic_tournament.py): a loop over the alternatives building the matrix of net preferences
# ---------------------------------------------------------------------------------------------------------------------
def _intconst(e):
    if isinstance(e, ast.Constant) and isinstance(e.value, int) and not isinstance(e.value, bool):
        return e.value
    if isinstance(e, ast.UnaryOp) and isinstance(e.op, ast.USub) and isinstance(e.operand, ast.Constant) and isinstance(e.operand.value, int):
        return -e.operand.value
    return None

def _where_step(e, cur):
    """np.where(CUR cmp c, a, CUR)  ->  Gallina step on t"""
    if not (isinstance(e, ast.Call) and _is_np(e.func, "where") and len(e.args) == 3 and not e.keywords):
        return None
    c, a, b = e.args
    if not (isinstance(b, ast.Name) and b.id == cur): _fail(e, "np.where must keep the current value in its else-branch")
    if not (isinstance(c, ast.Compare) and len(c.ops) == 1 and isinstance(c.left, ast.Name) and c.left.id == cur): _fail(e, "np.where condition")
    ops = {ast.Gt: ">?", ast.Lt: "<?", ast.GtE: ">=?", ast.LtE: "<=?", ast.Eq: "=?"}
    k, v = _intconst(c.comparators[0]), _intconst(a)
    if type(c.ops[0]) not in ops or k is None or v is None: _fail(e, "np.where(T cmp const, const, T) expected")
    return "let t := (if (t %s (%d)) then (%d) else t) in" % (ops[type(c.ops[0])], k, v)

def translate_copeland(repo):
    p = os.path.join(repo, "socialchoicekit", "deterministic_tournament.py")
    src = open(p).read()
    mod = ast.parse(src)
    cls = _find(mod.body, ast.ClassDef, "Copeland")
    fn = _find(cls.body, ast.FunctionDef, "score")
    params = [a.arg for a in fn.args.args]
    if len(params) != 2: _fail(fn, "score(self, profile)")
    prof = params[1]
    def dim(e):      # profile.shape[0] -> n, profile.shape[1] -> m
        if (isinstance(e, ast.Subscript) and isinstance(e.value, ast.Attribute) and e.value.attr == "shape" and isinstance(e.value.value, ast.Name)
                and e.value.value.id == prof and isinstance(e.slice, ast.Constant) and e.slice.value in (0, 1)):
            return "nm"[e.slice.value]
        return None
    body = _body(fn)
    if len(body) < 4: _fail(fn, "Copeland.score: unexpected shape")
    z = body[0]
    ok = (isinstance(z, ast.Assign) and len(z.targets) == 1 and isinstance(z.targets[0], ast.Name) and isinstance(z.value, ast.Call) and _is_np(z.value.func, "zeros")
          and len(z.value.args) == 1 and isinstance(z.value.args[0], ast.Tuple) and [dim(x) for x in z.value.args[0].elts] == ["m", "m"])
    if not ok: _fail(z, "net = np.zeros((m, m)) expected")
    net = z.targets[0].id
    loop = body[1]
    ok = (isinstance(loop, ast.For) and isinstance(loop.target, ast.Name) and not loop.orelse and isinstance(loop.iter, ast.Call) and isinstance(loop.iter.func, ast.Name)
          and loop.iter.func.id == "range" and len(loop.iter.args) == 1 and dim(loop.iter.args[0]) == "m")
    if not ok: _fail(loop, "for i in range(m) expected")
    i = loop.target.id
    lb = loop.body
    first = lb[0]
    ok = (isinstance(first, ast.Assign) and len(first.targets) == 1 and isinstance(first.targets[0], ast.Name) and isinstance(first.value, ast.BinOp)
          and isinstance(first.value.op, ast.Sub) and isinstance(first.value.left, ast.Name) and first.value.left.id == prof)
    if not ok: _fail(first, "T = profile - profile[:, i].reshape(n, 1) expected")
    T = first.targets[0].id
    r = first.value.right
    ok = (isinstance(r, ast.Call) and isinstance(r.func, ast.Attribute) and r.func.attr == "reshape" and len(r.args) == 2 and dim(r.args[0]) == "n"
          and isinstance(r.args[1], ast.Constant) and r.args[1].value == 1 and isinstance(r.func.value, ast.Subscript) and isinstance(r.func.value.value, ast.Name)
          and r.func.value.value.id == prof and isinstance(r.func.value.slice, ast.Tuple) and len(r.func.value.slice.elts) == 2
          and isinstance(r.func.value.slice.elts[0], ast.Slice) and r.func.value.slice.elts[0].lower is None and r.func.value.slice.elts[0].upper is None
          and r.func.value.slice.elts[0].step is None and isinstance(r.func.value.slice.elts[1], ast.Name) and r.func.value.slice.elts[1].id == i)
    if not ok: _fail(first, "profile[:, i].reshape(n, 1) expected")
    fsteps, k = [], 1
    while k < len(lb):
        st = lb[k]
        if not (isinstance(st, ast.Assign) and len(st.targets) == 1 and isinstance(st.targets[0], ast.Name) and st.targets[0].id == T): break
        s = _where_step(st.value, T)
        if s is None: break
        fsteps.append(s); k += 1
    st = lb[k] if k < len(lb) else None
    ok = (st is not None and isinstance(st, ast.Assign) and isinstance(st.targets[0], ast.Name) and st.targets[0].id == T and isinstance(st.value, ast.Call)
          and _is_np(st.value.func, "sum") and len(st.value.args) == 1 and isinstance(st.value.args[0], ast.Name) and st.value.args[0].id == T
          and len(st.value.keywords) == 1 and st.value.keywords[0].arg == "axis" and _intconst(st.value.keywords[0].value) == 0)
    if not ok: _fail(st or loop, "T = np.sum(T, axis=0) expected")
    st = lb[k + 1] if k + 1 < len(lb) else None
    ok = (st is not None and k + 2 == len(lb) and isinstance(st, ast.Assign) and isinstance(st.targets[0], ast.Subscript) and isinstance(st.targets[0].value, ast.Name)
          and st.targets[0].value.id == net and isinstance(st.targets[0].slice, ast.Tuple) and len(st.targets[0].slice.elts) == 2
          and isinstance(st.targets[0].slice.elts[0], ast.Name) and st.targets[0].slice.elts[0].id == i and isinstance(st.targets[0].slice.elts[1], ast.Slice)
          and st.targets[0].slice.elts[1].lower is None and st.targets[0].slice.elts[1].upper is None and isinstance(st.value, ast.Name) and st.value.id == T)
    if not ok: _fail(st or loop, "net[i, :] = T expected as the last statement of the loop")
    # after the loop
    rest = body[2:]
    gsteps, cur, k = [], net, 0
    S = None
    while k < len(rest):
        st = rest[k]
        if not (isinstance(st, ast.Assign) and len(st.targets) == 1 and isinstance(st.targets[0], ast.Name)): break
        s = _where_step(st.value, cur)
        if s is None: break
        gsteps.append(s); cur = st.targets[0].id; k += 1
    st = rest[k] if k < len(rest) else None
    v = st.value if st is not None and isinstance(st, ast.Assign) else None
    ok = (v is not None and isinstance(v, ast.Attribute) and v.attr == "T" and isinstance(v.value, ast.Call) and _is_np(v.value.func, "sum") and len(v.value.args) == 1
          and isinstance(v.value.args[0], ast.Name) and v.value.args[0].id == cur and len(v.value.keywords) == 1 and v.value.keywords[0].arg == "axis"
          and _intconst(v.value.keywords[0].value) == 1 and isinstance(st.targets[0], ast.Name))
    if not ok: _fail(st or fn, "score = np.sum(score, axis=1).T expected")
    res = st.targets[0].id
    st = rest[k + 1] if k + 1 < len(rest) else None
    if not (st is not None and k + 2 == len(rest) and isinstance(st, ast.Return) and isinstance(st.value, ast.Name) and st.value.id == res): _fail(st or fn, "return score expected")
    out = ["(* GENERATED by harness/translate.py from socialchoicekit/deterministic_tournament.py (sha256 %s). Do not edit. *)" % hashlib.sha256(src.encode()).hexdigest()[:16],
           "From Coq Require Import ZArith List Bool.", "Import ListNotations.", "From SCK Require Import Voting GenLib.", "Local Open Scope Z_scope.", "",
           "(* Copeland.score, deterministic_tournament.py:%d: the np.where steps applied to the rank differences ... *)" % fn.lineno,
           "Definition gen_cop_f (t : Z) : Z :=\n  %s\n  t.\n" % "\n  ".join(fsteps),
           "(* ... and to the net preferences *)",
           "Definition gen_cop_g (t : Z) : Z :=\n  %s\n  t.\n" % "\n  ".join(gsteps),
           "Definition gen_copeland (P : list (list Z)) : list Z :=\n  let m := ncols P in\n"
           "  let net := map (fun %s => colsumZ m (map (fun row => map (fun x => gen_cop_f (x - nth %s row 0)) row) P)) (seq 0 (Z.to_nat m)) in\n"
           "  map (fun r => sumZ (map gen_cop_g r)) net.\n" % (i, i)]
    return "\n".join(out)


# ---------------------------------------------------------------------------------------------------------------------
# SingleTransferableVote.scf (deterministic_multiround.py): the elimination loop
# ---------------------------------------------------------------------------------------------------------------------
def translate_stv(repo):
    p = os.path.join(repo, "socialchoicekit", "deterministic_multiround.py")
    src = open(p).read()
    mod = ast.parse(src)
    cls = _find(mod.body, ast.ClassDef, "SingleTransferableVote")
    init = _find(cls.body, ast.FunctionDef, "__init__")
    # self.voting_rule must be Plurality(...), self.index_fixer = 0 if zero_indexed else 1
    rule_ok = fixer = None
    for st in _body(init):
        if isinstance(st, ast.Assign) and len(st.targets) == 1 and isinstance(st.targets[0], ast.Attribute):
            if st.targets[0].attr == "voting_rule":
                rule_ok = isinstance(st.value, ast.Call) and isinstance(st.value.func, ast.Name) and st.value.func.id == "Plurality"
            if st.targets[0].attr == "index_fixer":
                fixer = tr_init(init)
    if not rule_ok: _fail(init, "self.voting_rule = Plurality(...) expected")
    if fixer is None: _fail(init, "index_fixer")
    # Plurality must be the class of deterministic_scoring (imported by name)
    imp = [n for n in mod.body if isinstance(n, ast.ImportFrom) and n.module == "socialchoicekit.deterministic_scoring" and any(a.name == "Plurality" and a.asname is None for a in n.names)]
    if not imp: _fail(mod, "from socialchoicekit.deterministic_scoring import Plurality expected")
    fn = _find(cls.body, ast.FunctionDef, "scf")
    params = [a.arg for a in fn.args.args]
    if len(params) != 2: _fail(fn, "scf(self, profile)")
    prof = params[1]
    body = _body(fn)
    if len(body) != 4: _fail(fn, "STV.scf: four top-level statements expected")
    a0, a1, loop, ret = body
    def is_name(e, n): return isinstance(e, ast.Name) and e.id == n
    def shape(e, who, k): return (isinstance(e, ast.Subscript) and isinstance(e.value, ast.Attribute) and e.value.attr == "shape" and is_name(e.value.value, who)
                                  and isinstance(e.slice, ast.Constant) and e.slice.value == k)
    ok = (isinstance(a0, ast.Assign) and isinstance(a0.targets[0], ast.Name) and isinstance(a0.value, ast.Call) and isinstance(a0.value.func, ast.Attribute)
          and a0.value.func.attr == "view" and is_name(a0.value.func.value, prof) and len(a0.value.args) == 1 and _is_np(a0.value.args[0], "ndarray"))
    if not ok: _fail(a0, "current_profile = profile.view(np.ndarray) expected")
    CP = a0.targets[0].id
    ok = (isinstance(a1, ast.Assign) and isinstance(a1.targets[0], ast.Name) and isinstance(a1.value, ast.BinOp) and isinstance(a1.value.op, ast.Add)
          and isinstance(a1.value.left, ast.Call) and _is_np(a1.value.left.func, "arange") and len(a1.value.left.args) == 1 and shape(a1.value.left.args[0], prof, 1)
          and isinstance(a1.value.right, ast.Attribute) and a1.value.right.attr == "index_fixer")
    if not ok: _fail(a1, "alternatives = np.arange(profile.shape[1]) + self.index_fixer expected")
    AL = a1.targets[0].id
    ok = isinstance(loop, ast.While) and isinstance(loop.test, ast.Constant) and loop.test.value is True and not loop.orelse and len(loop.body) == 8
    if not ok: _fail(loop, "while True: with eight statements expected")
    s_score, s_break, s_cands, s_bt, s_col, s_del, s_where, s_alts = loop.body
    v = s_score.value if isinstance(s_score, ast.Assign) else None
    ok = (v is not None and isinstance(s_score.targets[0], ast.Name) and isinstance(v, ast.Call) and isinstance(v.func, ast.Attribute) and v.func.attr == "score"
          and isinstance(v.func.value, ast.Attribute) and v.func.value.attr == "voting_rule" and len(v.args) == 1 and isinstance(v.args[0], ast.Call)
          and isinstance(v.args[0].func, ast.Attribute) and v.args[0].func.attr == "of" and len(v.args[0].args) == 1 and is_name(v.args[0].args[0], CP))
    if not ok: _fail(s_score, "score = self.voting_rule.score(CompleteProfile.of(current_profile)) expected")
    SC = s_score.targets[0].id
    ok = (isinstance(s_break, ast.If) and not s_break.orelse and len(s_break.body) == 1 and isinstance(s_break.body[0], ast.Break) and isinstance(s_break.test, ast.Compare)
          and len(s_break.test.ops) == 1 and isinstance(s_break.test.ops[0], ast.Eq) and shape(s_break.test.left, AL, 0) and _intconst(s_break.test.comparators[0]) is not None)
    if not ok: _fail(s_break, "if alternatives.shape[0] == c: break expected")
    stop_len = _intconst(s_break.test.comparators[0])
    v = s_cands.value if isinstance(s_cands, ast.Assign) else None
    ok = (v is not None and isinstance(s_cands.targets[0], ast.Name) and isinstance(v, ast.Subscript) and isinstance(v.slice, ast.Constant) and v.slice.value == 0
          and isinstance(v.value, ast.Call) and _is_np(v.value.func, "where") and len(v.value.args) == 1 and isinstance(v.value.args[0], ast.Compare)
          and len(v.value.args[0].ops) == 1 and isinstance(v.value.args[0].ops[0], ast.Eq) and is_name(v.value.args[0].left, SC)
          and isinstance(v.value.args[0].comparators[0], ast.Call) and _is_np(v.value.args[0].comparators[0].func, "amin")
          and len(v.value.args[0].comparators[0].args) == 1 and is_name(v.value.args[0].comparators[0].args[0], SC))
    if not ok: _fail(s_cands, "cands = np.where(score == np.amin(score))[0] expected")
    CA = s_cands.targets[0].id
    v = s_bt.value if isinstance(s_bt, ast.Assign) else None
    ok = (v is not None and isinstance(s_bt.targets[0], ast.Name) and isinstance(v, ast.Call) and is_name(v.func, "break_tie") and len(v.args) == 2 and is_name(v.args[0], CA)
          and isinstance(v.args[1], ast.Attribute) and v.args[1].attr == "tie_breaker" and len(v.keywords) == 1 and v.keywords[0].arg == "include_accept"
          and isinstance(v.keywords[0].value, ast.Constant) and isinstance(v.keywords[0].value.value, bool))
    if not ok: _fail(s_bt, "d = break_tie(cands, self.tie_breaker, include_accept=...) expected")
    D = s_bt.targets[0].id
    inc = "true" if v.keywords[0].value.value else "false"
    v = s_col.value if isinstance(s_col, ast.Assign) else None
    ok = (v is not None and isinstance(s_col.targets[0], ast.Name) and isinstance(v, ast.Call) and _is_np(v.func, "reshape") and len(v.args) == 2
          and isinstance(v.args[0], ast.Subscript) and is_name(v.args[0].value, CP) and isinstance(v.args[0].slice, ast.Tuple) and len(v.args[0].slice.elts) == 2
          and isinstance(v.args[0].slice.elts[0], ast.Slice) and v.args[0].slice.elts[0].lower is None and v.args[0].slice.elts[0].upper is None
          and is_name(v.args[0].slice.elts[1], D) and isinstance(v.args[1], ast.Tuple) and len(v.args[1].elts) == 2 and shape(v.args[1].elts[0], prof, 0)
          and _intconst(v.args[1].elts[1]) == 1)
    if not ok: _fail(s_col, "dropped_row = np.reshape(current_profile[:, d], (profile.shape[0], 1)) expected")
    DR = s_col.targets[0].id
    v = s_del.value if isinstance(s_del, ast.Assign) else None
    ok = (v is not None and is_name(s_del.targets[0], CP) and isinstance(v, ast.Call) and _is_np(v.func, "delete") and len(v.args) == 2 and is_name(v.args[0], CP)
          and is_name(v.args[1], D) and len(v.keywords) == 1 and v.keywords[0].arg == "axis" and _intconst(v.keywords[0].value) == 1)
    if not ok: _fail(s_del, "current_profile = np.delete(current_profile, d, axis=1) expected")
    v = s_where.value if isinstance(s_where, ast.Assign) else None
    ok = (v is not None and is_name(s_where.targets[0], CP) and isinstance(v, ast.Call) and _is_np(v.func, "where") and len(v.args) == 3
          and isinstance(v.args[0], ast.Compare) and len(v.args[0].ops) == 1 and is_name(v.args[0].left, CP) and is_name(v.args[0].comparators[0], DR)
          and isinstance(v.args[1], ast.BinOp) and isinstance(v.args[1].op, (ast.Sub, ast.Add)) and is_name(v.args[1].left, CP) and _intconst(v.args[1].right) is not None
          and is_name(v.args[2], CP))
    ops = {ast.Gt: ">?", ast.Lt: "<?", ast.GtE: ">=?", ast.LtE: "<=?", ast.Eq: "=?"}
    if not ok or type(v.args[0].ops[0]) not in ops: _fail(s_where, "current_profile = np.where(current_profile > dropped_row, current_profile - 1, current_profile) expected")
    f_body = "if (x %s r) then (x %s (%d)) else x" % (ops[type(v.args[0].ops[0])], "-" if isinstance(v.args[1].op, ast.Sub) else "+", _intconst(v.args[1].right))
    v = s_alts.value if isinstance(s_alts, ast.Assign) else None
    ok = (v is not None and is_name(s_alts.targets[0], AL) and isinstance(v, ast.Call) and _is_np(v.func, "delete") and len(v.args) == 2 and is_name(v.args[0], AL)
          and is_name(v.args[1], D) and not v.keywords)
    if not ok: _fail(s_alts, "alternatives = np.delete(alternatives, d) expected")
    ok = (isinstance(ret, ast.Return) and isinstance(ret.value, ast.Subscript) and is_name(ret.value.value, AL) and _intconst(ret.value.slice) is not None)
    if not ok: _fail(ret, "return alternatives[c] expected")
    ret_idx = _intconst(ret.value.slice)
    out = ["(* GENERATED by harness/translate.py from socialchoicekit/deterministic_multiround.py (sha256 %s). Do not edit. *)" % hashlib.sha256(src.encode()).hexdigest()[:16],
           "From Coq Require Import ZArith QArith List Bool String.", "Import ListNotations.", "From SCK Require Import Voting GenLib GenStv.",
           "From SCKGen Require Import ScoringGen.", "Local Open Scope Z_scope.", "",
           "(* SingleTransferableVote.scf, deterministic_multiround.py:%d *)" % fn.lineno,
           "Definition gen_stv_f (x r : Z) : Z := %s.\n" % f_body,
           "(* the loop's break test together with the value returned after the loop *)",
           "Definition gen_stv_done (st : stv_state) : option Z :=\n  let '(current_profile, alternatives) := st in\n"
           "  if (List.length alternatives =? %d)%%nat then Some (nth %d alternatives 0) else None.\n" % (stop_len, ret_idx),
           "(* one pass of the loop body; the tie-breaker's random draw is the oracle o *)",
           "Definition gen_stv_next (tie_breaker : string) (o : nat) (st : stv_state) : option stv_state :=\n  let '(current_profile, alternatives) := st in\n"
           "  let score := gen_score_Plurality 0 current_profile in\n"
           "  let cands := argwhere (map (fun x => Qeq_bool x (aminQ score)) score) in\n"
           "  match outcome_index (gen_break_tie (map Z.of_nat cands) tie_breaker %s o) with\n"
           "  | Some d => Some (rowwise gen_stv_f (delcol d current_profile) (colof d current_profile), remove_nth alternatives d)\n"
           "  | None => None\n  end.\n" % inc,
           "Definition gen_stv_init (zero_indexed : bool) (P : list (list Z)) : stv_state :=\n"
           "  (P, map (fun j => Z.of_nat j + (%s)) (seq 0 (Z.to_nat (ncols P)))).\n" % fixer,
           "Definition gen_stv (tie_breaker : string) (zero_indexed : bool) (fuel : nat) (P : list (list Z)) (oracle : list nat) : option Z :=\n"
           "  stv_iter gen_stv_done (gen_stv_next tie_breaker) fuel (gen_stv_init zero_indexed P) oracle.\n"]
    return "\n".join(out)


# ---------------------------------------------------------------------------------------------------------------------
# Elicitor.elicit / Elicitor.__init__ (elicitation_utils.py): the memoising elicitor as a state-passing function
# ---------------------------------------------------------------------------------------------------------------------
def translate_elicitor(repo):
    p = os.path.join(repo, "socialchoicekit", "elicitation_utils.py")
    src = open(p).read()
    mod = ast.parse(src)
    cls = _find(mod.body, ast.ClassDef, "Elicitor")
    init = _find(cls.body, ast.FunctionDef, "__init__")
    fn = _find(cls.body, ast.FunctionDef, "elicit")
    def selfattr(e, name): return isinstance(e, ast.Attribute) and e.attr == name and isinstance(e.value, ast.Name) and e.value.id == "self"
    def is_name(e, n): return isinstance(e, ast.Name) and e.id == n
    # __init__: elicitation_count = c0; memoize = memoize; if memoize: memoized_values = {}; index_fixer = a if zero_indexed else b
    c0 = fixer = None; memo_init = False
    for st in _body(init):
        if isinstance(st, ast.Assign) and len(st.targets) == 1 and selfattr(st.targets[0], "elicitation_count"):
            c0 = _intconst(st.value)
        elif isinstance(st, ast.Assign) and len(st.targets) == 1 and selfattr(st.targets[0], "index_fixer"):
            v = st.value
            if isinstance(v, ast.IfExp) and is_name(v.test, "zero_indexed") and _intconst(v.body) is not None and _intconst(v.orelse) is not None:
                fixer = "if zero_indexed then (%d) else (%d)" % (_intconst(v.body), _intconst(v.orelse))
        elif isinstance(st, ast.If) and is_name(st.test, "memoize") and len(st.body) == 1 and isinstance(st.body[0], ast.Assign) \
                and selfattr(st.body[0].targets[0], "memoized_values") and isinstance(st.body[0].value, ast.Dict) and not st.body[0].value.keys:
            memo_init = True
        elif isinstance(st, ast.Assign) and len(st.targets) == 1 and selfattr(st.targets[0], "memoize") and is_name(st.value, "memoize"):
            pass
        else:
            _fail(st, "Elicitor.__init__: statement not recognised")
    if c0 is None or fixer is None or not memo_init: _fail(init, "Elicitor.__init__: counter / index_fixer / memo table initialisation expected")
    params = [a.arg for a in fn.args.args]
    if params != ["self", "agent", "alternative"]: _fail(fn, "elicit(self, agent, alternative)")
    body = _body(fn)
    lines = []
    key = "(agent, alternative)"
    def keytuple(e): return isinstance(e, ast.Tuple) and len(e.elts) == 2 and is_name(e.elts[0], "agent") and is_name(e.elts[1], "alternative")
    i = 0
    # index shifts
    while i < len(body) and isinstance(body[i], ast.AugAssign) and isinstance(body[i].op, ast.Add) and isinstance(body[i].target, ast.Name) \
            and body[i].target.id in ("agent", "alternative") and selfattr(body[i].value, "index_fixer"):
        lines.append("let %s := %s + index_fixer in" % (body[i].target.id, body[i].target.id)); i += 1
    if i != 2: _fail(fn, "agent += self.index_fixer; alternative += self.index_fixer expected")
    st = body[i]
    ok = (isinstance(st, ast.If) and selfattr(st.test, "memoize") and not st.orelse and len(st.body) == 2 and isinstance(st.body[0], ast.Assign)
          and isinstance(st.body[0].targets[0], ast.Name) and isinstance(st.body[0].value, ast.Call) and isinstance(st.body[0].value.func, ast.Attribute)
          and st.body[0].value.func.attr == "get" and selfattr(st.body[0].value.func.value, "memoized_values") and len(st.body[0].value.args) == 1
          and keytuple(st.body[0].value.args[0]) and isinstance(st.body[1], ast.If) and not st.body[1].orelse and len(st.body[1].body) == 1
          and isinstance(st.body[1].body[0], ast.Return))
    if not ok: _fail(st, "if self.memoize: v = self.memoized_values.get((agent, alternative)); if v is not None: return v  expected")
    mv = st.body[0].targets[0].id
    t = st.body[1].test
    if not (isinstance(t, ast.Compare) and len(t.ops) == 1 and isinstance(t.ops[0], ast.IsNot) and is_name(t.left, mv)
            and isinstance(t.comparators[0], ast.Constant) and t.comparators[0].value is None and is_name(st.body[1].body[0].value, mv)):
        _fail(st.body[1], "if v is not None: return v expected")
    i += 1
    st = body[i]
    if not (isinstance(st, ast.AugAssign) and isinstance(st.op, ast.Add) and selfattr(st.target, "elicitation_count") and _intconst(st.value) is not None):
        _fail(st, "self.elicitation_count += c expected")
    inc = _intconst(st.value); i += 1
    st = body[i]
    ok = (isinstance(st, ast.Assign) and isinstance(st.targets[0], ast.Name) and isinstance(st.value, ast.Call) and selfattr(st.value.func, "_elicit_impl")
          and len(st.value.args) == 2 and is_name(st.value.args[0], "agent") and is_name(st.value.args[1], "alternative") and not st.value.keywords)
    if not ok: _fail(st, "v = self._elicit_impl(agent, alternative) expected")
    ev = st.targets[0].id; i += 1
    st = body[i]
    ok = (isinstance(st, ast.If) and selfattr(st.test, "memoize") and not st.orelse and len(st.body) == 1 and isinstance(st.body[0], ast.Assign)
          and isinstance(st.body[0].targets[0], ast.Subscript) and selfattr(st.body[0].targets[0].value, "memoized_values") and keytuple(st.body[0].targets[0].slice)
          and is_name(st.body[0].value, ev))
    if not ok: _fail(st, "if self.memoize: self.memoized_values[(agent, alternative)] = v expected")
    i += 1
    st = body[i]
    if not (i + 1 == len(body) and isinstance(st, ast.Return) and is_name(st.value, ev)): _fail(st, "return v expected as the last statement")
    out = ["(* GENERATED by harness/translate.py from socialchoicekit/elicitation_utils.py (sha256 %s). Do not edit. *)" % hashlib.sha256(src.encode()).hexdigest()[:16],
           "From Coq Require Import ZArith QArith List Bool.", "Import ListNotations.", "From SCK Require Import ElicitM.", "Local Open Scope Z_scope.", "",
           "(* Elicitor.__init__, elicitation_utils.py:%d *)" % init.lineno,
           "Definition gen_einit : estate := {| memo := []; cnt := %d; trace := [] |}." % c0,
           "Definition gen_index_fixer (zero_indexed : bool) : Z := %s.\n" % fixer,
           "(* Elicitor.elicit, elicitation_utils.py:%d; V plays _elicit_impl (the only access to the values), its calls are recorded in trace *)" % fn.lineno,
           "Definition gen_elicit (memoize : bool) (index_fixer : Z) (V : key -> Q) (st : estate) (k0 : key) : estate * Q :=\n"
           "  let agent := fst k0 in let alternative := snd k0 in\n  %s\n"
           "  match (if memoize then mget (memo st) %s else None) with\n"
           "  | Some %s => (st, %s)\n"
           "  | None =>\n"
           "    let st := {| memo := memo st; cnt := (cnt st + %d)%%nat; trace := trace st |} in\n"
           "    let %s := V %s in\n"
           "    let st := {| memo := memo st; cnt := cnt st; trace := trace st ++ [%s] |} in\n"
           "    let st := if memoize then {| memo := (%s, %s) :: memo st; cnt := cnt st; trace := trace st |} else st in\n"
           "    (st, %s)\n  end.\n" % ("\n  ".join(lines), key, mv, mv, inc, ev, key, key, key, ev, ev)]
    return "\n".join(out)


# ---------------------------------------------------------------------------------------------------------------------
# the recursive binary searches of the threshold rules (k-ARV, lambda-TSF, two-sided lambda-TSF) as query programs
# ---------------------------------------------------------------------------------------------------------------------
def _tr_bsearch(fn, tag):
    params = [a.arg for a in fn.args.args]
    if len(params) != 5: _fail(fn, "binary_search(i, lo, hi, scale, v) expected")
    I, LO, HI, SC, VV = params
    def is_name(e, n): return isinstance(e, ast.Name) and e.id == n
    body = _body(fn)
    if len(body) != 4: _fail(fn, "binary_search: four statements expected")
    s1, s2, s3, s4 = body
    cmpops = {ast.LtE: "<=?", ast.Lt: "<?", ast.Eq: "=?"}
    ok = (isinstance(s1, ast.If) and not s1.orelse and len(s1.body) == 1 and isinstance(s1.body[0], ast.Return) and isinstance(s1.test, ast.Compare) and len(s1.test.ops) == 1
          and type(s1.test.ops[0]) in cmpops and isinstance(s1.test.left, ast.BinOp) and isinstance(s1.test.left.op, ast.Sub)
          and isinstance(s1.test.left.left, ast.Name) and isinstance(s1.test.left.right, ast.Name) and s1.test.left.left.id in (LO, HI) and s1.test.left.right.id in (LO, HI)
          and _intconst(s1.test.comparators[0]) is not None and isinstance(s1.body[0].value, ast.Name) and s1.body[0].value.id in (LO, HI))
    if not ok: _fail(s1, "if hi - lo <= 1: return lo expected")
    env = {LO: "lo", HI: "hi"}
    base_test = "(%s - %s %s %d)" % (env[s1.test.left.left.id], env[s1.test.left.right.id], cmpops[type(s1.test.ops[0])], _intconst(s1.test.comparators[0]))
    base_ret = env[s1.body[0].value.id]
    v = s2.value if isinstance(s2, ast.Assign) else None
    ok = (v is not None and isinstance(s2.targets[0], ast.Name) and isinstance(v, ast.BinOp) and isinstance(v.op, ast.FloorDiv) and _intconst(v.right) is not None
          and isinstance(v.left, ast.BinOp) and isinstance(v.left.op, ast.Add) and isinstance(v.left.left, ast.Name) and isinstance(v.left.right, ast.Name)
          and v.left.left.id in env and v.left.right.id in env)
    if not ok: _fail(s2, "mid = (lo + hi) // 2 expected")
    MID = s2.targets[0].id
    mid_expr = "(%s + %s) / %d" % (env[v.left.left.id], env[v.left.right.id], _intconst(v.right))
    v = s3.value if isinstance(s3, ast.Assign) else None
    ok = (v is not None and isinstance(s3.targets[0], ast.Name) and isinstance(v, ast.Call) and isinstance(v.func, ast.Attribute) and v.func.attr == "elicit"
          and len(v.args) == 2 and is_name(v.args[0], I) and isinstance(v.args[1], ast.Subscript) and isinstance(v.args[1].value, ast.Name)
          and isinstance(v.args[1].slice, ast.Tuple) and len(v.args[1].slice.elts) == 2 and is_name(v.args[1].slice.elts[0], I) and is_name(v.args[1].slice.elts[1], MID))
    if not ok: _fail(s3, "u = <elicitor>.elicit(i, ranked_profile[i, mid]) expected")
    U = s3.targets[0].id
    env2 = dict(env); env2[MID] = "mid"
    def reccall(st):
        r = st[0].value if len(st) == 1 and isinstance(st[0], ast.Return) else None
        ok = (r is not None and isinstance(r, ast.Call) and is_name(r.func, fn.name) and len(r.args) == 5 and is_name(r.args[0], I) and isinstance(r.args[1], ast.Name)
              and isinstance(r.args[2], ast.Name) and r.args[1].id in env2 and r.args[2].id in env2 and is_name(r.args[3], SC) and is_name(r.args[4], VV))
        if not ok: _fail(st[0] if st else fn, "return binary_search(i, a, b, scale, v) expected")
        return "gen_bsearch_%s f rk i %s %s tau" % (tag, env2[r.args[1].id], env2[r.args[2].id])
    t = s4.test if isinstance(s4, ast.If) else None
    ok = (t is not None and isinstance(t, ast.Compare) and len(t.ops) == 1 and isinstance(t.ops[0], (ast.GtE, ast.Gt)) and is_name(t.left, U)
          and isinstance(t.comparators[0], ast.BinOp) and isinstance(t.comparators[0].op, ast.Div) and is_name(t.comparators[0].left, VV) and is_name(t.comparators[0].right, SC))
    if not ok: _fail(s4, "if u >= v / scale: ... else: ... expected")
    test = "Qle_bool tau u" if isinstance(t.ops[0], ast.GtE) else "negb (Qle_bool u tau)"
    return ("(* binary_search at line %d; tau stands for the float v / scale computed by the code (threshold oracle) *)\n"
            "Fixpoint gen_bsearch_%s (fuel : nat) (rk : list Z) (i lo hi : Z) (tau : Q) : prog Z :=\n"
            "  match fuel with O => Ret lo | S f =>\n"
            "    if %s then Ret %s else\n"
            "    let mid := %s in\n"
            "    Ask (i, nth (Z.to_nat mid) rk 0) (fun u => if %s then %s else %s)\n"
            "  end.\n" % (fn.lineno, tag, base_test, base_ret, mid_expr, test, reccall(s4.body), reccall(s4.orelse)))

def translate_bsearch(repo):
    out = ["(* GENERATED by harness/translate.py from the three binary_search functions of the elicitation rules. Do not edit. *)",
           "From Coq Require Import ZArith QArith List Bool.", "Import ListNotations.", "From SCK Require Import ElicitM.", "Local Open Scope Z_scope.", ""]
    for tag, f, cls, meth in (("KARV", "elicitation_voting.py", "KARV", "get_simulated_cardinal_profile"),
                              ("TSF", "elicitation_allocation.py", "LambdaTSF", "get_simulated_cardinal_profile"),
                              ("Double", "elicitation_matching.py", "DoubleLambdaTSF", "get_simulated_cardinal_profiles")):
        src = open(os.path.join(repo, "socialchoicekit", f)).read()
        mod = ast.parse(src)
        m = _find(_find(mod.body, ast.ClassDef, cls).body, ast.FunctionDef, meth)
        inner = [n for n in ast.walk(m) if isinstance(n, ast.FunctionDef) and n.name == "binary_search"]
        if len(inner) != 1: _fail(m, "exactly one inner binary_search expected in %s.%s" % (cls, meth))
        out.append("(* %s.%s, %s (sha256 %s) *)" % (cls, meth, f, hashlib.sha256(src.encode()).hexdigest()[:16]))
        out.append(_tr_bsearch(inner[0], tag))
    return "\n".join(out)

# =====================================================================================================================
# deterministic_allocation.py: root_n_serial_dictatorship
# =====================================================================================================================
def translate_rootn(repo):
    """root_n_serial_dictatorship (deterministic_allocation.py) -> Gallina.
    Recognised shape: n, m from profile.shape; np.argsort(profile, axis=1)[.view(np.ndarray)]; a counter array np.zeros(m); a result
    array np.full(n, np.nan) (NaN is written -1); `for agent in range(n): for alt in ranked[agent]: if cnt[alt] < np.sqrt(n): <updates>; break`;
    a test `x == np.nan` is the constant False (IEEE: NaN compares unequal to everything), so a statement guarded by it is dead;
    `cnt < np.sqrt(n)` on a non-negative integer counter is written cnt * cnt < n."""
    src = open(os.path.join(repo, "socialchoicekit", "deterministic_allocation.py")).read()
    fn = _find(ast.parse(src).body, ast.FunctionDef, "root_n_serial_dictatorship")
    if [a.arg for a in fn.args.args] != ["profile"]: _fail(fn, "root_n_serial_dictatorship(profile) expected")
    def is_name(e, n): return isinstance(e, ast.Name) and e.id == n
    def shape(e):
        if (isinstance(e, ast.Subscript) and isinstance(e.value, ast.Attribute) and e.value.attr == "shape" and is_name(e.value.value, "profile")
                and _intconst(e.slice) in (0, 1)): return _intconst(e.slice)
        return None
    dims = {}; ranked = cnt = alloc = None; loop = None; ret = None
    for st in _body(fn):
        if isinstance(st, ast.Assign) and len(st.targets) == 1 and isinstance(st.targets[0], ast.Name):
            t, v = st.targets[0].id, st.value
            if loop is not None: _fail(st, "assignment after the main loop")
            if shape(v) is not None:
                dims[t] = shape(v); continue
            w = v
            if isinstance(w, ast.Call) and isinstance(w.func, ast.Attribute) and w.func.attr == "view" and len(w.args) == 1 and _is_np(w.args[0], "ndarray"): w = w.func.value
            if (isinstance(w, ast.Call) and _is_np(w.func, "argsort") and len(w.args) == 1 and is_name(w.args[0], "profile")
                    and len(w.keywords) == 1 and w.keywords[0].arg == "axis" and _intconst(w.keywords[0].value) == 1):
                ranked = t; continue
            if isinstance(v, ast.Call) and _is_np(v.func, "zeros") and len(v.args) == 1 and isinstance(v.args[0], ast.Name) and dims.get(v.args[0].id) == 1 and not v.keywords:
                cnt = t; continue
            if (isinstance(v, ast.Call) and _is_np(v.func, "full") and len(v.args) == 2 and isinstance(v.args[0], ast.Name) and dims.get(v.args[0].id) == 0
                    and _is_np(v.args[1], "nan") and not v.keywords):
                alloc = t; continue
            _fail(st, "unrecognised assignment")
        elif isinstance(st, ast.For):
            if loop is not None: _fail(st, "one main loop expected")
            loop = st
        elif isinstance(st, ast.Return):
            ret = st
        else:
            _fail(st, "unrecognised statement")
    if None in (ranked, cnt, alloc, loop, ret): _fail(fn, "ranking / counter / allocation / loop / return not all found")
    N = [k for k, d in dims.items() if d == 0]; M = [k for k, d in dims.items() if d == 1]
    if len(N) != 1 or len(M) != 1: _fail(fn, "n = profile.shape[0] and m = profile.shape[1] expected once each")
    N, M = N[0], M[0]
    if not (isinstance(ret.value, ast.Call) and isinstance(ret.value.func, ast.Attribute) and ret.value.func.attr == "astype" and is_name(ret.value.func.value, alloc)
            and len(ret.value.args) == 1 and is_name(ret.value.args[0], "int")): _fail(ret, "return allocation.astype(int) expected")
    # for agent in range(n):
    if not (isinstance(loop.target, ast.Name) and isinstance(loop.iter, ast.Call) and is_name(loop.iter.func, "range") and len(loop.iter.args) == 1
            and is_name(loop.iter.args[0], N) and not loop.orelse): _fail(loop, "for agent in range(n) expected")
    AG = loop.target.id
    if not loop.body or not isinstance(loop.body[0], ast.For): _fail(loop, "inner loop expected first")
    inner = loop.body[0]
    for extra in loop.body[1:]:
        # if allocation[agent] == np.nan: raise ...   -- NaN == NaN is False: dead statement
        t = extra.test if isinstance(extra, ast.If) else None
        dead = (t is not None and isinstance(t, ast.Compare) and len(t.ops) == 1 and isinstance(t.ops[0], ast.Eq) and (_is_np(t.comparators[0], "nan") or _is_np(t.left, "nan"))
                and not extra.orelse)
        if not dead: _fail(extra, "only a statement guarded by `== np.nan` (constant False) may follow the inner loop")
    if not (isinstance(inner.target, ast.Name) and isinstance(inner.iter, ast.Subscript) and is_name(inner.iter.value, ranked) and is_name(inner.iter.slice, AG)
            and not inner.orelse and len(inner.body) == 1 and isinstance(inner.body[0], ast.If) and not inner.body[0].orelse):
        _fail(inner, "for alternative in ranked_profile[agent]: if ...: expected")
    ALT = inner.target.id; cond = inner.body[0]
    def cnt_at(e): return isinstance(e, ast.Subscript) and is_name(e.value, cnt) and is_name(e.slice, ALT)
    t = cond.test
    if not (isinstance(t, ast.Compare) and len(t.ops) == 1 and isinstance(t.ops[0], (ast.Lt, ast.LtE)) and cnt_at(t.left) and isinstance(t.comparators[0], ast.Call)
            and _is_np(t.comparators[0].func, "sqrt") and len(t.comparators[0].args) == 1 and is_name(t.comparators[0].args[0], N)):
        _fail(t, "allocation_count[alternative] < np.sqrt(n) expected")
    c = "nth (Z.to_nat %s) %s O" % (ALT, cnt)
    test = "(%s * %s %s %s)%%nat" % (c, c, "<?" if isinstance(t.ops[0], ast.Lt) else "<=?", N)
    body = list(cond.body)
    if not body or not isinstance(body[-1], ast.Break): _fail(cond, "the guarded block must end in break")
    new_cnt, new_alloc = cnt, alloc
    for st in body[:-1]:
        if isinstance(st, ast.AugAssign) and isinstance(st.op, ast.Add) and cnt_at(st.target) and _intconst(st.value) is not None and _intconst(st.value) >= 0:
            c2 = "nth (Z.to_nat %s) %s O" % (ALT, new_cnt)
            new_cnt = "(updz %s (Z.to_nat %s) (%s + %d)%%nat)" % (new_cnt, ALT, c2, _intconst(st.value))
        elif (isinstance(st, ast.Assign) and len(st.targets) == 1 and isinstance(st.targets[0], ast.Subscript) and is_name(st.targets[0].value, alloc)
              and is_name(st.targets[0].slice, AG) and is_name(st.value, ALT)):
            new_alloc = "(updz %s %s %s)" % (new_alloc, AG, ALT)
        else:
            _fail(st, "unrecognised update in the guarded block")
    return "\n".join([
        "(* GENERATED by harness/translate.py from root_n_serial_dictatorship (deterministic_allocation.py, line %d). Do not edit. *)" % fn.lineno,
        "From Coq Require Import ZArith List Bool.", "Import ListNotations.", "From SCK Require Import ElicitM ElicitRules.", "Local Open Scope Z_scope.", "",
        "(* NaN in the result array is written -1; `x == np.nan` is the constant false, so the raise it guards is dead code *)",
        "Definition gen_rootn_sd (profile : list (list Z)) : list Z :=",
        "  let %s := length profile in" % N,
        "  let %s := length (nth 0 profile []) in" % M,
        "  let %s := map rank_list profile in" % ranked,
        "  fst (fold_left (fun (st : list Z * list nat) (%s : nat) =>" % AG,
        "         let '(%s, %s) := st in" % (alloc, cnt),
        "         match find (fun %s => %s) (nth %s %s []) with" % (ALT, test, AG, ranked),
        "         | Some %s => (%s, %s)" % (ALT, new_alloc, new_cnt),
        "         | None => (%s, %s)" % (alloc, cnt),
        "         end) (seq 0 %s) (repeat (-1) %s, repeat O %s))." % (N, N, M), ""])

# ---------------------------------------------------------------------------------------------------------------------
# flow.py: ford_fulkerson and dfs_path -> Gallina, by a small store-passing compiler for the imperative subset they use.
#   kinds of Python values:  Z (vertex, capacity), nat (loop index), graph (dict vertex -> list of (vertex, capacity)),
#   flow (dict (u, v) -> int), adj (list of pairs), path (list of vertices), vis (the `visited` dict, kept as the list of
#   vertices whose entry is non-zero), opt(...) (value or None)
# ---------------------------------------------------------------------------------------------------------------------
class FlowC:
    def __init__(self, env):
        self.env = dict(env)      # python name -> kind
        self.sub = {}             # python name -> Coq text to use when reading it (unwrapped optionals, dict-item values)
    def kind(self, e):
        return self.env.get(e.id) if isinstance(e, ast.Name) else None
    def name(self, n):
        return self.sub.get(n, n)
    # ---- expressions of kind Z / pair / list
    def ex(self, e):
        if isinstance(e, ast.Name): return self.name(e.id)
        k = _intconst(e)
        if k is not None: return str(k) if k >= 0 else "(%d)" % k
        if isinstance(e, ast.Attribute) and e.attr == "maxsize" and isinstance(e.value, ast.Name) and e.value.id == "sys": return "maxsize"
        if isinstance(e, ast.Tuple): return "(" + ", ".join(self.ex(x) for x in e.elts) + ")"
        if isinstance(e, ast.List): return "[" + "; ".join(self.ex(x) for x in e.elts) + "]"
        if isinstance(e, ast.BinOp):
            lk = self.lkind(e.left)
            if isinstance(e.op, ast.Add) and lk in ("adj", "path"): return "(%s ++ %s)" % (self.ex(e.left), self.ex(e.right))
            if isinstance(e.op, (ast.Add, ast.Sub)) and lk == "Z": return "(%s %s %s)" % (self.ex(e.left), "+" if isinstance(e.op, ast.Add) else "-", self.ex(e.right))
            _fail(e, "unsupported arithmetic")
        if isinstance(e, ast.Call) and isinstance(e.func, ast.Name) and e.func.id == "min" and len(e.args) == 2: return "(Z.min %s %s)" % (self.ex(e.args[0]), self.ex(e.args[1]))
        if isinstance(e, ast.Subscript):
            k = self.kind(e.value)
            if k == "graph":
                key = e.slice
                if isinstance(key, ast.Name) and ("item:" + e.value.id + ":" + key.id) in self.sub: return self.sub["item:" + e.value.id + ":" + key.id]
                return "(lookup %s %s)" % (self.name(e.value.id), self.ex(key))
            if k == "flow":
                if not (isinstance(e.slice, ast.Tuple) and len(e.slice.elts) == 2): _fail(e, "flow[(u, v)] expected")
                return "(fget %s %s)" % (self.name(e.value.id), self.ex(e.slice))
            if k == "path": return "(nth %s %s 0)" % (self.nx(e.slice), self.name(e.value.id))
            _fail(e, "unsupported subscript")
        if isinstance(e, ast.IfExp): return "(if %s then %s else %s)" % (self.bx(e.test), self.ex(e.body), self.ex(e.orelse))
        if isinstance(e, ast.ListComp) and len(e.generators) == 1 and not e.generators[0].ifs:     # [f(w, c) for (w, c) in L]
            g = e.generators[0]; names = self.pairtarget(g.target)
            c2 = self.child({names[0]: "Z", names[1]: "Z"})
            return "(map (fun e_ : Z * Z => %s%s) %s)" % (self.bindpair(names, "e_"), c2.ex(e.elt), self.ex(g.iter))
        _fail(e, "unsupported expression")
    def lkind(self, e):
        if isinstance(e, ast.Name): return self.env.get(e.id)
        if isinstance(e, ast.List): return "path" if not e.elts or not isinstance(e.elts[0], ast.Tuple) else "adj"
        if isinstance(e, ast.Subscript) and self.kind(e.value) == "graph": return "adj"
        return "Z"
    def nx(self, e):    # nat-valued index expressions
        if isinstance(e, ast.Name) and self.env.get(e.id) == "nat": return e.id
        if isinstance(e, ast.BinOp) and isinstance(e.op, ast.Add) and _intconst(e.right) is not None: return "(%s + %d)%%nat" % (self.nx(e.left), _intconst(e.right))
        _fail(e, "unsupported index")
    def pairtarget(self, t):
        if not (isinstance(t, ast.Tuple) and len(t.elts) == 2 and all(isinstance(x, ast.Name) for x in t.elts)): _fail(t, "(a, b) target expected")
        return [x.id for x in t.elts]
    def bindpair(self, names, var):
        return "".join("let %s := %s %s in " % (n, f, var) for n, f in zip(names, ("fst", "snd")) if n != "_")
    def child(self, extra):
        c = FlowC(self.env); c.sub = dict(self.sub); c.env.update(extra); return c
    # ---- boolean expressions
    def bx(self, t):
        if isinstance(t, ast.Compare) and len(t.ops) == 1:
            l, r, op = t.left, t.comparators[0], t.ops[0]
            if isinstance(l, ast.Subscript) and self.kind(l.value) == "vis" and _intconst(r) == 0 and isinstance(op, (ast.NotEq, ast.Eq)):
                m = "(memZ %s %s)" % (self.ex(l.slice), self.name(l.value.id))
                return m if isinstance(op, ast.NotEq) else "(negb %s)" % m
            ops = {ast.Eq: "(%s =? %s)", ast.NotEq: "(negb (%s =? %s))", ast.Gt: "(%s >? %s)", ast.Lt: "(%s <? %s)", ast.GtE: "(%s >=? %s)", ast.LtE: "(%s <=? %s)"}
            if type(op) in ops: return ops[type(op)] % (self.ex(l), self.ex(r))
        if isinstance(t, ast.Call) and isinstance(t.func, ast.Name) and t.func.id == "all" and len(t.args) == 1 and isinstance(t.args[0], ast.ListComp):
            lc = t.args[0]; g = lc.generators[0]
            if len(lc.generators) != 1 or g.ifs: _fail(t, "all([cond for (a, b) in L]) expected")
            names = self.pairtarget(g.target); c2 = self.child({n: "Z" for n in names})
            return "(forallb (fun e_ : Z * Z => %s%s) %s)" % (self.bindpair(names, "e_"), c2.bx(lc.elt), self.ex(g.iter))
        _fail(t, "unsupported test")
    # ---- statements; `fall` is the text returned when control reaches the end of the block (or `continue`)
    def store(self, tgt, val):
        """X[k] = val as a rebinding of X"""
        k = self.kind(tgt.value); X = tgt.value.id
        if k == "flow": return "let %s := fset %s %s %s in\n" % (X, self.name(X), self.ex(tgt.slice), val)
        if k == "graph": return "let %s := set_adj %s %s %s in\n" % (X, self.name(X), self.ex(tgt.slice), val)
        _fail(tgt, "unsupported store")
    def block(self, stmts, fall, ret, rec=None):
        if not stmts: return fall
        s, rest = stmts[0], stmts[1:]
        more = lambda c=self: c.block(rest, fall, ret, rec)
        if isinstance(s, ast.Continue): return fall
        if isinstance(s, ast.Return): return ret(self, s.value)
        if isinstance(s, ast.Assign) and len(s.targets) == 1:
            t, v = s.targets[0], s.value
            if isinstance(t, ast.Subscript) and self.kind(t.value) == "vis":      # visited[x] = 0 / 1
                X = t.value.id; b = _intconst(v)
                if b == 1: return "let %s := %s :: %s in\n" % (X, self.ex(t.slice), self.name(X)) + more()
                if b == 0: return "let %s := removeZ %s %s in\n" % (X, self.ex(t.slice), self.name(X)) + more()
                _fail(s, "visited[x] = 0 or 1 expected")
            if isinstance(t, ast.Subscript): return self.store(t, self.ex(v)) + more()
            if isinstance(t, ast.Name):
                if isinstance(v, ast.Constant) and v.value is None:
                    self.env[t.id] = "opt"; return "let %s := None in\n" % t.id + more()
                if rec is not None and isinstance(v, ast.Call) and isinstance(v.func, ast.Name) and v.func.id == rec["name"]:
                    call, vis = rec["call"](self, v)
                    self.env[t.id] = "opt"
                    return "match %s with None => None | Some (%s, %s) =>\n%s end" % (call, vis, t.id, more())
                k = self.env.get(t.id)
                if k == "opt": return "let %s := Some %s in\n" % (t.id, self.ex(v)) + more()
                self.env[t.id] = self.lkind(v) if not isinstance(v, ast.Subscript) else ("adj" if self.kind(v.value) == "graph" else "Z")
                return "let %s := %s in\n" % (t.id, self.ex(v)) + more()
            if isinstance(t, ast.Tuple) and isinstance(v, ast.Name) and v.id in self.sub:       # path, capacity = subpath (after `is not None`)
                names = self.pairtarget(t); self.env[names[0]] = "path"; self.env[names[1]] = "Z"
                return "let '(%s, %s) := %s in\n" % (names[0], names[1], self.sub[v.id]) + more()
            _fail(s, "unsupported assignment")
        if isinstance(s, ast.AugAssign):
            t = s.target
            if isinstance(t, ast.Subscript) and self.kind(t.value) == "flow" and isinstance(s.op, (ast.Add, ast.Sub)):
                return self.store(t, "(%s %s %s)" % (self.ex(t), "+" if isinstance(s.op, ast.Add) else "-", self.ex(s.value))) + more()
            if isinstance(t, ast.Subscript) and self.kind(t.value) == "graph" and isinstance(s.op, ast.Add):
                return self.store(t, "(%s ++ %s)" % (self.ex(t), self.ex(s.value))) + more()
            _fail(s, "unsupported augmented assignment")
        if isinstance(s, ast.If):
            t = s.test
            if (isinstance(t, ast.Compare) and len(t.ops) == 1 and isinstance(t.ops[0], (ast.IsNot, ast.Is)) and isinstance(t.comparators[0], ast.Constant)
                    and t.comparators[0].value is None and isinstance(t.left, ast.Name) and self.env.get(t.left.id) == "opt"):
                X = t.left.id; some = self.child({}); some.sub[X] = X + "_v"; none = self.child({})
                yes, no = (s.body, s.orelse) if isinstance(t.ops[0], ast.IsNot) else (s.orelse, s.body)
                return "match %s with\n| Some %s_v => %s\n| None => %s\nend" % (self.name(X), X, some.block(list(yes) + rest, fall, ret, rec), none.block(list(no) + rest, fall, ret, rec))
            a, b = self.child({}), self.child({})
            return "if %s then %s\nelse %s" % (self.bx(t), a.block(list(s.body) + rest, fall, ret, rec), b.block(list(s.orelse) + rest, fall, ret, rec))
        _fail(s, "unsupported statement")

def assigned(stmts):
    out = []
    for st in stmts:
        for n in ast.walk(st):
            t = None
            if isinstance(n, ast.Assign): t = n.targets[0]
            elif isinstance(n, ast.AugAssign): t = n.target
            if t is None: continue
            while isinstance(t, ast.Subscript): t = t.value
            for x in (t.elts if isinstance(t, ast.Tuple) else [t]):
                if isinstance(x, ast.Name) and x.id not in out: out.append(x.id)
    return out

def is_name(e, n): return isinstance(e, ast.Name) and e.id == n

def tr_dfs(fn):
    ps = [a.arg for a in fn.args.args]
    if len(ps) != 4: _fail(fn, "dfs_path(G, current, sink, visited) expected")
    G, CUR, SINK, VIS = ps
    body = _body(fn)
    loops = [i for i, s in enumerate(body) if isinstance(s, ast.For)]
    if len(loops) != 1: _fail(fn, "exactly one loop expected in dfs_path")
    li = loops[0]; loop = body[li]
    c = FlowC({G: "graph", CUR: "Z", SINK: "Z", VIS: "vis"})
    def ret(cc, v):       # return (path, cap) / return None, with the visited store threaded out
        if isinstance(v, ast.Constant) and v.value is None: return "Some (%s, None)" % VIS
        if isinstance(v, ast.Tuple) and len(v.elts) == 2: return "Some (%s, Some %s)" % (VIS, cc.ex(v))
        _fail(v, "return (path, capacity) or return None expected")
    def reccall(cc, call):
        a = call.args
        if not (len(a) == 4 and is_name(a[0], G) and is_name(a[2], SINK) and is_name(a[3], VIS)): _fail(call, "dfs_path(G, v, sink, visited) expected")
        return "gen_dfs f %s %s %s %s" % (G, SINK, cc.ex(a[1]), VIS), VIS
    rec = dict(name=fn.name, call=reccall)
    # the loop: for (v, c) in candidates
    names = c.pairtarget(loop.target)
    if loop.orelse: _fail(loop, "for-else not supported")
    pre = body[:li]; post = body[li + 1:]
    # state of the loop = visited + everything the loop body assigns that is bound before the loop
    def after_pre(cc):
        st = [VIS] + [x for x in assigned(loop.body) if x in cc.env and x != VIS and x not in names]
        tup = "(" + ", ".join(st) + ")"
        lc = cc.child({names[0]: "Z", names[1]: "Z"})
        bodytxt = lc.block(list(loop.body), "Some " + tup, None, rec)
        for x in st: cc.env.setdefault(x, lc.env.get(x))
        it = cc.ex(loop.iter)
        txt = ("match fold_left (fun st_ (e_ : Z * Z) => match st_ with None => None | Some %s =>\n%s%s end) %s (Some %s) with\n| None => None\n| Some %s =>\n%s\nend"
               % (tup, cc.bindpair(names, "e_"), bodytxt, it, tup, tup, cc.block(list(post), "Some (%s, None)" % VIS, ret, None)))
        return txt
    # compile pre-statements, then the loop, as one block: emulate by compiling pre with a fall that is produced lazily
    class Lazy(FlowC): pass
    def block_pre(cc, stmts):
        if not stmts: return after_pre(cc)
        s, rest = stmts[0], stmts[1:]
        if isinstance(s, ast.If) and not s.orelse and isinstance(s.body[-1], ast.Return):      # early return
            a = cc.child({})
            return "if %s then %s\nelse\n%s" % (cc.bx(s.test), a.block(list(s.body), None, ret, None), block_pre(cc, rest))
        if isinstance(s, ast.Assign) and isinstance(s.targets[0], ast.Name):
            one = cc.block([s], "@@", ret, None)
            return one.replace("@@", "") + block_pre(cc, rest)
        _fail(s, "unsupported statement before the loop")
    txt = block_pre(c, pre)
    return ("(* dfs_path (flow.py line %d); `visited` is threaded through as the list of vertices marked 1; outer None = out of fuel *)\n"
            "Fixpoint gen_dfs (fuel : nat) (%s : graph) (%s %s : Z) (%s : list Z) {struct fuel} : option (list Z * option (list Z * Z)) :=\n"
            "match fuel with O => None | S f =>\n%s\nend.\n" % (fn.lineno, G, SINK, CUR, VIS, txt))

def tr_ff(fn):
    ps = [a.arg for a in fn.args.args]
    if len(ps) != 3: _fail(fn, "ford_fulkerson(G, s, t) expected")
    G, S, T = ps
    body = _body(fn)
    c = FlowC({G: "graph", S: "Z", T: "Z"})
    out = []; i = 0; lets = ""
    # leading simple assignments
    while i < len(body) and isinstance(body[i], ast.Assign):
        s = body[i]; t, v = s.targets[0], s.value
        if not isinstance(t, ast.Name): _fail(s, "simple assignment expected")
        if isinstance(v, ast.Call) and isinstance(v.func, ast.Attribute) and v.func.attr == "deepcopy" and len(v.args) == 1 and is_name(v.args[0], G):
            c.env[t.id] = "graph"; lets += "let %s := %s in\n" % (t.id, G)
        elif isinstance(v, ast.Call) and is_name(v.func, "dict") and not v.args:
            c.env[t.id] = "flow"; lets += "let %s := @nil ((Z * Z) * Z) in\n" % t.id
        else: _fail(s, "G_f = copy.deepcopy(G) / flow = dict() expected")
        i += 1
    if not (i + 2 == len(body) and isinstance(body[i], ast.For) and isinstance(body[i + 1], ast.While)): _fail(fn, "initialisation loop followed by `while True` expected")
    init, loop = body[i], body[i + 1]
    st = [x for x in c.env if c.env[x] in ("graph", "flow") and x != G]
    tup = "(" + ", ".join(st) + ")"; sty = "graph * flowmap"
    if [c.env[x] for x in st] != ["graph", "flow"]: _fail(fn, "state (residual graph, flow) expected")
    # for i in G.keys(): for j, _ in G[i]: ...
    def keys_of(e): return isinstance(e, ast.Call) and isinstance(e.func, ast.Attribute) and e.func.attr == "keys" and is_name(e.func.value, G) and not e.args
    if not (isinstance(init.target, ast.Name) and keys_of(init.iter) and len(init.body) == 1 and isinstance(init.body[0], ast.For)): _fail(init, "for i in G.keys(): for j, _ in G[i]: expected")
    I = init.target.id; inner = init.body[0]
    c1 = c.child({I: "Z"}); c1.sub["item:%s:%s" % (G, I)] = "(snd ka_)"       # G is never stored to: G[i] inside `for i in G.keys()` is the item's value
    names = c1.pairtarget(inner.target); c2 = c1.child({n: "Z" for n in names})
    innertxt = c2.block(list(inner.body), tup, None, None)
    out.append("(* ford_fulkerson (flow.py line %d): residual graph and zero flow *)\nDefinition gen_init (%s : graph) : %s :=\n%s"
               "fold_left (fun (st_ : %s) (ka_ : Z * adjl) => let '%s := st_ in let %s := fst ka_ in\n"
               "  fold_left (fun (st_ : %s) (e_ : Z * Z) => let '%s := st_ in %s\n%s) %s %s) %s %s.\n"
               % (fn.lineno, G, sty, lets, sty, tup, I, sty, tup, c2.bindpair(names, "e_"), innertxt, c1.ex(inner.iter), tup, G, tup))
    # while True:
    if not (isinstance(loop.test, ast.Constant) and loop.test.value is True and not loop.orelse): _fail(loop, "while True expected")
    wb = list(loop.body)
    if len(wb) != 4: _fail(loop, "four statements expected in the main loop")
    s1, s2, s3, s4 = wb
    # p = dfs_path(G_f, s, t, {i: int(i == s) for i in G_f.keys()})
    ok = (isinstance(s1, ast.Assign) and isinstance(s1.targets[0], ast.Name) and isinstance(s1.value, ast.Call) and is_name(s1.value.func, "dfs_path") and len(s1.value.args) == 4
          and is_name(s1.value.args[0], st[0]) and isinstance(s1.value.args[3], ast.DictComp))
    if not ok: _fail(s1, "p = dfs_path(G_f, s, t, {...}) expected")
    P = s1.targets[0].id; a = s1.value.args; dc = a[3]
    g = dc.generators[0]
    ok = (len(dc.generators) == 1 and not g.ifs and isinstance(g.target, ast.Name) and is_name(dc.key, g.target.id) and isinstance(g.iter, ast.Call)
          and isinstance(g.iter.func, ast.Attribute) and g.iter.func.attr == "keys" and is_name(g.iter.func.value, st[0])
          and isinstance(dc.value, ast.Call) and is_name(dc.value.func, "int") and len(dc.value.args) == 1 and isinstance(dc.value.args[0], ast.Compare)
          and len(dc.value.args[0].ops) == 1 and isinstance(dc.value.args[0].ops[0], ast.Eq) and is_name(dc.value.args[0].left, g.target.id)
          and isinstance(dc.value.args[0].comparators[0], ast.Name))
    if not ok: _fail(dc, "{i: int(i == s) for i in G_f.keys()} expected")
    start_marked = c.ex(dc.value.args[0].comparators[0])
    call = "gen_dfs (length %s + 2) %s %s %s [%s]" % (st[0], st[0], c.ex(a[2]), c.ex(a[1]), start_marked)
    # if p is None: ... return ...
    ok = (isinstance(s2, ast.If) and not s2.orelse and isinstance(s2.test, ast.Compare) and isinstance(s2.test.ops[0], ast.Is) and is_name(s2.test.left, P)
          and isinstance(s2.test.comparators[0], ast.Constant) and s2.test.comparators[0].value is None and isinstance(s2.body[-1], ast.Return))
    if not ok: _fail(s2, "if p is None: ... return ... expected")
    # path, c_f_p = p
    ok = isinstance(s3, ast.Assign) and isinstance(s3.targets[0], ast.Tuple) and is_name(s3.value, P)
    if not ok: _fail(s3, "path, c_f_p = p expected")
    PATH, CFP = c.pairtarget(s3.targets[0])
    # for i in range(len(path) - 1):
    r = s4.iter if isinstance(s4, ast.For) else None
    ok = (r is not None and isinstance(s4.target, ast.Name) and isinstance(r, ast.Call) and is_name(r.func, "range") and len(r.args) == 1 and isinstance(r.args[0], ast.BinOp)
          and isinstance(r.args[0].op, ast.Sub) and _intconst(r.args[0].right) == 1 and isinstance(r.args[0].left, ast.Call) and is_name(r.args[0].left.func, "len")
          and is_name(r.args[0].left.args[0], PATH))
    if not ok: _fail(s4, "for i in range(len(path) - 1) expected")
    c3 = c.child({PATH: "path", CFP: "Z", s4.target.id: "nat"})
    augtxt = c3.block(list(s4.body), tup, None, None)
    out.append("(* one augmentation: the loop over consecutive vertices of the path *)\nDefinition gen_augment (%s : list Z) (%s : Z) (st_ : %s) : %s :=\n"
               "fold_left (fun (st_ : %s) (%s : nat) => let '%s := st_ in\n%s) (seq 0 (length %s - 1)) st_.\n" % (PATH, CFP, sty, sty, sty, s4.target.id, tup, augtxt, PATH))
    out.append("(* the main loop; the `visited` dict {i: int(i == s)} is the list [s]; dfs_path gets fuel |V| + 2; returns the state at the `return` *)\n"
               "Fixpoint gen_ff_loop (fuel : nat) (st_ : %s) (%s %s : Z) {struct fuel} : option (%s) :=\n"
               "match fuel with O => None | S f =>\n let '%s := st_ in\n match %s with\n | None => None\n | Some (_, None) => Some %s\n"
               " | Some (_, Some (%s, %s)) => gen_ff_loop f (gen_augment %s %s %s) %s %s\n end\nend.\n" % (sty, S, T, sty, tup, call, tup, PATH, CFP, PATH, CFP, tup, S, T))
    return "\n".join(out)

def translate_flow(repo):
    src = open(os.path.join(repo, "socialchoicekit", "flow.py")).read()
    mod = ast.parse(src)
    hdr = ["(* GENERATED by harness/translate.py from ford_fulkerson and dfs_path (flow.py). Do not edit. *)",
           "From Coq Require Import ZArith List Bool.", "Import ListNotations.", "From SCK Require Import FlowModel.", "Local Open Scope Z_scope.", ""]
    return "\n".join(hdr) + tr_dfs(_find(mod.body, ast.FunctionDef, "dfs_path")) + "\n" + tr_ff(_find(mod.body, ast.FunctionDef, "ford_fulkerson"))


# ---------------------------------------------------------------------------------------------------------------------
# second part: the packaging of ford_fulkerson's result, convert_bipartite_graph_to_flow_network and the read-off of
# maximum_cardinality_matching_bipartite
# ---------------------------------------------------------------------------------------------------------------------
PRELUDE2 = '''(* dict insertion on an association list (replace the value of an existing key in place, else append) *)
Fixpoint dset (G : graph) (k : Z) (a : adjl) : graph :=
  match G with [] => [(k, a)] | (k0, a0) :: r => if k0 =? k then (k0, a) :: r else (k0, a0) :: dset r k a end.
'''

def tr_ff_result(fn):
    """if p is None: flow_final = dict(); for i in G.keys(): for j, _ in G[i]: flow_final[(i, j)] = flow[(i, j)]; return flow_final, reachable_vertices(G_f, s)"""
    G, S, T = [a.arg for a in fn.args.args]
    loop = [s for s in _body(fn) if isinstance(s, ast.While)][0]
    blk = list(loop.body[1].body)
    if len(blk) != 3: _fail(loop.body[1], "three statements expected before the return")
    s1, s2, s3 = blk
    if not (isinstance(s1, ast.Assign) and isinstance(s1.targets[0], ast.Name) and isinstance(s1.value, ast.Call) and is_name(s1.value.func, "dict") and not s1.value.args):
        _fail(s1, "flow_final = dict() expected")
    FF = s1.targets[0].id
    c = FlowC({G: "graph", S: "Z", T: "Z", "flow": "flow", FF: "flow"})
    flowname = [n.targets[0].id for n in _body(fn) if isinstance(n, ast.Assign) and isinstance(n.value, ast.Call) and is_name(n.value.func, "dict")][0]
    gfname = [n.targets[0].id for n in _body(fn) if isinstance(n, ast.Assign) and isinstance(n.value, ast.Call) and isinstance(n.value.func, ast.Attribute) and n.value.func.attr == "deepcopy"][0]
    c.env[flowname] = "flow"
    def keys_of(e): return isinstance(e, ast.Call) and isinstance(e.func, ast.Attribute) and e.func.attr == "keys" and is_name(e.func.value, G) and not e.args
    if not (isinstance(s2, ast.For) and isinstance(s2.target, ast.Name) and keys_of(s2.iter) and len(s2.body) == 1 and isinstance(s2.body[0], ast.For)): _fail(s2, "for i in G.keys(): for j, _ in G[i]: expected")
    I = s2.target.id; inner = s2.body[0]
    c1 = c.child({I: "Z"}); c1.sub["item:%s:%s" % (G, I)] = "(snd ka_)"
    names = c1.pairtarget(inner.target); c2 = c1.child({n: "Z" for n in names})
    innertxt = c2.block(list(inner.body), FF, None, None)
    r = s3.value if isinstance(s3, ast.Return) else None
    ok = (r is not None and isinstance(r, ast.Tuple) and len(r.elts) == 2 and is_name(r.elts[0], FF) and isinstance(r.elts[1], ast.Call) and is_name(r.elts[1].func, "reachable_vertices")
          and len(r.elts[1].args) == 2 and is_name(r.elts[1].args[0], gfname) and is_name(r.elts[1].args[1], S))
    if not ok: _fail(s3, "return flow_final, reachable_vertices(G_f, s) expected")
    return ("(* the flow reported by ford_fulkerson: the final values on the ORIGINAL edges, in dict insertion order *)\n"
            "Definition gen_flow_final (%s : graph) (%s : flowmap) : flowmap :=\nlet %s := @nil ((Z * Z) * Z) in\n"
            "fold_left (fun (%s : flowmap) (ka_ : Z * adjl) => let %s := fst ka_ in\n  fold_left (fun (%s : flowmap) (e_ : Z * Z) => %s\n%s) %s %s) %s %s.\n"
            % (G, flowname, FF, FF, I, FF, c2.bindpair(names, "e_"), innertxt, c1.ex(inner.iter), FF, G, FF))

def tr_net(fn):
    ps = [a.arg for a in fn.args.args]
    if len(ps) != 3: _fail(fn, "convert_bipartite_graph_to_flow_network(G, X, Y) expected")
    G, X, Y = ps
    body = _body(fn)
    if not (isinstance(body[0], ast.Assign) and isinstance(body[0].targets[0], ast.Name) and isinstance(body[0].value, ast.Call) and is_name(body[0].value.func, "dict") and not body[0].value.args):
        _fail(body[0], "network = dict() expected")
    NET = body[0].targets[0].id
    if not (isinstance(body[-1], ast.Return) and is_name(body[-1].value, NET)): _fail(body[-1], "return network expected")
    def adjlit(e, var):      # [(y, 1) for y in G.get(v, [])]  /  [(x, 1) for x in X]  /  [(-2, 1)]  /  []
        if isinstance(e, ast.List):
            out = []
            for el in e.elts:
                if not (isinstance(el, ast.Tuple) and len(el.elts) == 2 and all(_intconst(x) is not None for x in el.elts)): _fail(e, "list of constant pairs expected")
                out.append("(%s, %s)" % tuple(("(%d)" % _intconst(x)) if _intconst(x) < 0 else str(_intconst(x)) for x in el.elts))
            return "[" + "; ".join(out) + "]"
        if isinstance(e, ast.ListComp) and len(e.generators) == 1 and not e.generators[0].ifs and isinstance(e.generators[0].target, ast.Name):
            g = e.generators[0]; y = g.target.id
            if not (isinstance(e.elt, ast.Tuple) and len(e.elt.elts) == 2 and is_name(e.elt.elts[0], y) and _intconst(e.elt.elts[1]) is not None): _fail(e, "[(y, c) for y in ...] expected")
            it = g.iter
            if is_name(it, X): src = X
            elif (isinstance(it, ast.Call) and isinstance(it.func, ast.Attribute) and it.func.attr == "get" and is_name(it.func.value, G) and len(it.args) == 2 and var is not None
                  and is_name(it.args[0], var) and isinstance(it.args[1], ast.List) and not it.args[1].elts): src = "(adj %s %s)" % (G, var)
            else: _fail(it, "X or G.get(v, []) expected")
            return "(map (fun %s : Z => (%s, %d)) %s)" % (y, y, _intconst(e.elt.elts[1]), src)
        _fail(e, "unsupported adjacency expression")
    txt = "let %s := @nil (Z * adjl) in\n" % NET
    for st in body[1:-1]:
        if isinstance(st, ast.For) and isinstance(st.target, ast.Name) and isinstance(st.iter, ast.Name) and st.iter.id in (X, Y) and len(st.body) == 1 and not st.orelse:
            v = st.target.id; a = st.body[0]
            if not (isinstance(a, ast.Assign) and isinstance(a.targets[0], ast.Subscript) and is_name(a.targets[0].value, NET) and is_name(a.targets[0].slice, v)): _fail(a, "network[v] = ... expected")
            txt += "let %s := fold_left (fun (%s : graph) (%s : Z) => dset %s %s %s) %s %s in\n" % (NET, NET, v, NET, v, adjlit(a.value, v), st.iter.id, NET)
        elif isinstance(st, ast.Assign) and isinstance(st.targets[0], ast.Subscript) and is_name(st.targets[0].value, NET) and _intconst(st.targets[0].slice) is not None:
            txt += "let %s := dset %s (%d) %s in\n" % (NET, NET, _intconst(st.targets[0].slice), adjlit(st.value, None))
        else: _fail(st, "unsupported statement in convert_bipartite_graph_to_flow_network")
    return ("(* convert_bipartite_graph_to_flow_network (flow.py line %d) *)\nDefinition gen_net (%s : bgraph) (%s %s : list Z) : graph :=\n%s%s.\n" % (fn.lineno, G, X, Y, txt, NET))

def tr_readoff(fn):
    ps = [a.arg for a in fn.args.args]
    G, X, Y = ps
    body = _body(fn)
    # check_bipartite_graph(G, X, Y); network = convert...(G, X, Y); flow, _ = ford_fulkerson(network, -1, -2); matchings = []; for x in X: ...; return matchings
    if len(body) != 6: _fail(fn, "six statements expected in maximum_cardinality_matching_bipartite")
    s1, s2, s3, s4, s5, s6 = body
    ok = isinstance(s1, ast.Expr) and isinstance(s1.value, ast.Call) and is_name(s1.value.func, "check_bipartite_graph") and [getattr(a, "id", None) for a in s1.value.args] == [G, X, Y]
    if not ok: _fail(s1, "check_bipartite_graph(G, X, Y) expected")
    ok = (isinstance(s2, ast.Assign) and isinstance(s2.targets[0], ast.Name) and isinstance(s2.value, ast.Call) and is_name(s2.value.func, "convert_bipartite_graph_to_flow_network")
          and [getattr(a, "id", None) for a in s2.value.args] == [G, X, Y])
    if not ok: _fail(s2, "network = convert_bipartite_graph_to_flow_network(G, X, Y) expected")
    NET = s2.targets[0].id
    ok = (isinstance(s3, ast.Assign) and isinstance(s3.targets[0], ast.Tuple) and len(s3.targets[0].elts) == 2 and isinstance(s3.targets[0].elts[0], ast.Name)
          and isinstance(s3.value, ast.Call) and is_name(s3.value.func, "ford_fulkerson") and len(s3.value.args) == 3 and is_name(s3.value.args[0], NET)
          and _intconst(s3.value.args[1]) is not None and _intconst(s3.value.args[2]) is not None)
    if not ok: _fail(s3, "flow, _ = ford_fulkerson(network, s, t) expected")
    FL = s3.targets[0].elts[0].id; src, snk = _intconst(s3.value.args[1]), _intconst(s3.value.args[2])
    ok = isinstance(s4, ast.Assign) and isinstance(s4.targets[0], ast.Name) and isinstance(s4.value, ast.List) and not s4.value.elts
    if not ok: _fail(s4, "matchings = [] expected")
    MS = s4.targets[0].id
    if not (isinstance(s6, ast.Return) and is_name(s6.value, MS)): _fail(s6, "return matchings expected")
    if not (isinstance(s5, ast.For) and isinstance(s5.target, ast.Name) and is_name(s5.iter, X) and len(s5.body) == 3): _fail(s5, "for x in X: (three statements) expected")
    x = s5.target.id; b1, b2, b3 = s5.body
    def Gx(e): return isinstance(e, ast.Subscript) and is_name(e.value, G) and is_name(e.slice, x)
    ok = (isinstance(b1, ast.If) and not b1.orelse and len(b1.body) == 1 and isinstance(b1.body[0], ast.Continue) and isinstance(b1.test, ast.Compare) and isinstance(b1.test.ops[0], ast.Eq)
          and _intconst(b1.test.comparators[0]) == 0 and isinstance(b1.test.left, ast.Call) and is_name(b1.test.left.func, "len") and Gx(b1.test.left.args[0]))
    if not ok: _fail(b1, "if len(G[x]) == 0: continue expected")
    # matched_y = G[x][np.argmax(np.array([flow[(x, y)] for y in G[x]]))]
    v = b2.value if isinstance(b2, ast.Assign) and isinstance(b2.targets[0], ast.Name) else None
    ok = v is not None and isinstance(v, ast.Subscript) and Gx(v.value) and isinstance(v.slice, ast.Call) and _is_np(v.slice.func, "argmax") and len(v.slice.args) == 1
    if ok:
        arr = v.slice.args[0]
        ok = isinstance(arr, ast.Call) and _is_np(arr.func, "array") and len(arr.args) == 1 and isinstance(arr.args[0], ast.ListComp)
    if ok:
        lc = arr.args[0]; g = lc.generators[0]
        ok = (len(lc.generators) == 1 and not g.ifs and isinstance(g.target, ast.Name) and Gx(g.iter) and isinstance(lc.elt, ast.Subscript) and is_name(lc.elt.value, FL)
              and isinstance(lc.elt.slice, ast.Tuple) and is_name(lc.elt.slice.elts[0], x) and is_name(lc.elt.slice.elts[1], g.target.id))
    if not ok: _fail(b2, "matched_y = G[x][np.argmax(np.array([flow[(x, y)] for y in G[x]]))] expected")
    MY = b2.targets[0].id; y = g.target.id
    t = b3.test if isinstance(b3, ast.If) and not b3.orelse and len(b3.body) == 1 else None
    ok = (t is not None and isinstance(t, ast.Compare) and isinstance(t.ops[0], ast.Eq) and _intconst(t.comparators[0]) is not None and isinstance(t.left, ast.Subscript) and is_name(t.left.value, FL)
          and isinstance(t.left.slice, ast.Tuple) and is_name(t.left.slice.elts[0], x) and is_name(t.left.slice.elts[1], MY))
    if ok:
        ap = b3.body[0]
        ok = (isinstance(ap, ast.Expr) and isinstance(ap.value, ast.Call) and isinstance(ap.value.func, ast.Attribute) and ap.value.func.attr == "append" and is_name(ap.value.func.value, MS)
              and isinstance(ap.value.args[0], ast.Tuple) and is_name(ap.value.args[0].elts[0], x) and is_name(ap.value.args[0].elts[1], MY))
    if not ok: _fail(b3, "if flow[x, matched_y] == 1: matchings.append((x, matched_y)) expected")
    one = _intconst(t.comparators[0])
    return ("(* maximum_cardinality_matching_bipartite (flow.py line %d): the read-off of the matching from the flow; np.argmax = index of the first maximum *)\n"
            "Definition gen_read_off (%s : bgraph) (%s : list Z) (%s : flowmap) : list (Z * Z) :=\n"
            "fold_left (fun (%s : list (Z * Z)) (%s : Z) =>\n  if (length (adj %s %s) =? 0)%%nat then %s else\n"
            "  let %s := nth (argmax_first (map (fun %s : Z => fget %s (%s, %s)) (adj %s %s))) (adj %s %s) 0 in\n"
            "  if fget %s (%s, %s) =? %d then %s ++ [(%s, %s)] else %s) %s [].\n"
            "Definition gen_max_matching (fuel : nat) (%s : bgraph) (%s %s : list Z) : option (list (Z * Z)) :=\n"
            "  match gen_ff_loop fuel (gen_init (gen_net %s %s %s)) (%d) (%d) with None => None | Some (_, %s) => Some (gen_read_off %s %s %s) end.\n"
            % (fn.lineno, G, X, FL, MS, x, G, x, MS, MY, y, FL, x, y, G, x, G, x, FL, x, MY, one, MS, x, MY, MS, X,
               G, X, Y, G, X, Y, src, snk, FL, G, X, FL))

def translate_flow2(repo):
    src = open(os.path.join(repo, "socialchoicekit", "flow.py")).read()
    mod = ast.parse(src)
    hdr = ["(* GENERATED by harness/translate.py from flow.py (result packaging, bipartite conversion and read-off). Do not edit. *)",
           "From Coq Require Import ZArith List Bool.", "Import ListNotations.", "From SCK Require Import FlowModel BipModel.", "From SCKGen Require Import FlowGen.", "Local Open Scope Z_scope.", "", PRELUDE2]
    return "\n".join(hdr) + "\n".join([tr_ff_result(_find(mod.body, ast.FunctionDef, "ford_fulkerson")), tr_net(_find(mod.body, ast.FunctionDef, "convert_bipartite_graph_to_flow_network")),
                                       tr_readoff(_find(mod.body, ast.FunctionDef, "maximum_cardinality_matching_bipartite"))])

# =====================================================================================================================
# later additions: preflib_utils, randomized_scoring, MaximumWeightMatching, RandomSerialDictatorship, GaleShapley
# =====================================================================================================================
def selfattr(e, name): return isinstance(e, ast.Attribute) and e.attr == name and is_name(e.value, "self")
# ---------------------------------------------------------------------------------------------------------------------
# preflib_utils.py: the five converters -> Gallina. The instance is abstracted as (declared data type, number of alternatives,
# list of (order, multiplicity)) - what flatten_strict() / vote_map().items() / preferences + multiplicity iterate over.
# numpy idioms (fixed reading, PRELUDE): np.array(X) - 1, np.zeros(m, dtype=int), np.full(m, np.nan), np.arange(a, b), np.sort,
# row[idx] = vector (scatter, in order, last write wins), row[idx] = scalar, np.random.shuffle (an oracle permutation `shuf`).
# ---------------------------------------------------------------------------------------------------------------------
PL_PRELUDE = '''Inductive gtie := GAccept | GFirst | GRandom.       (* tie_breaker == "accept" / "first" / "random" *)
Definition arange (a b : Z) : list Z := map (fun i => a + Z.of_nat i) (seq 0 (Z.to_nat (b - a))).
Definition scatter (row : list (option Z)) (idx vals : list Z) : list (option Z) :=
  fold_left (fun r iv => upd r (Z.to_nat (fst iv)) (Some (snd iv))) (combine idx vals) row.
Definition scatter_const (row : list (option Z)) (idx : list Z) (v : Z) : list (option Z) :=
  fold_left (fun r i => upd r (Z.to_nat i) (Some v)) idx row.
'''


class PlC:
    def __init__(self, M):
        self.M = M          # Coq text for the number of alternatives (a nat)
        self.vec = set()    # names bound to index vectors (list Z)
    def num_alts(self, e):
        return (isinstance(e, ast.Attribute) and e.attr == "num_alternatives" and is_name(e.value, "instance")) or (isinstance(e, ast.Name) and e.id == self.mname)
    def scalar(self, e):
        k = _intconst(e)
        if k is not None: return str(k) if k >= 0 else "(%d)" % k
        if self.num_alts(e): return "(Z.of_nat %s)" % self.M
        if isinstance(e, ast.Name): return e.id
        if isinstance(e, ast.Call) and is_name(e.func, "len") and len(e.args) == 1 and isinstance(e.args[0], ast.Name): return "(Z.of_nat (length %s))" % e.args[0].id
        if isinstance(e, ast.BinOp) and isinstance(e.op, (ast.Add, ast.Sub)): return "(%s %s %s)" % (self.scalar(e.left), "+" if isinstance(e.op, ast.Add) else "-", self.scalar(e.right))
        _fail(e, "unsupported scalar")
    def vector(self, e):
        if isinstance(e, ast.BinOp) and isinstance(e.op, ast.Sub) and _intconst(e.right) is not None and isinstance(e.left, ast.Call) and _is_np(e.left.func, "array") and len(e.left.args) == 1 and isinstance(e.left.args[0], ast.Name):
            return "(map (fun a_ : Z => a_ - %d) %s)" % (_intconst(e.right), e.left.args[0].id)
        if isinstance(e, ast.Call) and _is_np(e.func, "arange") and len(e.args) == 2: return "(arange %s %s)" % (self.scalar(e.args[0]), self.scalar(e.args[1]))
        if isinstance(e, ast.Call) and _is_np(e.func, "sort") and len(e.args) == 1 and isinstance(e.args[0], ast.Name): return "(sortZ %s)" % e.args[0].id
        _fail(e, "unsupported vector expression")
    def newrow(self, e):
        if isinstance(e, ast.Call) and _is_np(e.func, "zeros") and len(e.args) == 1 and self.num_alts(e.args[0]) and [k.arg for k in e.keywords] == ["dtype"] and is_name(e.keywords[0].value, "int"):
            return "(repeat (Some 0) %s)" % self.M
        if isinstance(e, ast.Call) and _is_np(e.func, "full") and len(e.args) == 2 and self.num_alts(e.args[0]) and _is_np(e.args[1], "nan") and not e.keywords:
            return "(repeat (@None Z) %s)" % self.M
        return None
    def stmts(self, body, fall, row):
        """straight-line statements (with the tie_breaker if/else and the empty-class `continue`) as a let-chain ending in `fall`"""
        if not body: return fall
        s, rest = body[0], body[1:]
        more = lambda: self.stmts(rest, fall, row)
        if isinstance(s, ast.Assign) and len(s.targets) == 1:
            t, v = s.targets[0], s.value
            if isinstance(t, ast.Name):
                nr = self.newrow(v)
                if nr is not None:
                    if row[0] is not None and row[0] != t.id: _fail(s, "one row variable expected")
                    row[0] = t.id; return "let %s := %s in\n" % (t.id, nr) + more()
                if _intconst(v) is not None: return "let %s := %d in\n" % (t.id, _intconst(v)) + more()
                return "let %s := %s in\n" % (t.id, self.vector(v)) + more()
            if isinstance(t, ast.Subscript) and isinstance(t.value, ast.Name) and t.value.id == row[0] and isinstance(t.slice, ast.Name):
                if isinstance(v, ast.Call): return "let %s := scatter %s %s %s in\n" % (row[0], row[0], t.slice.id, self.vector(v)) + more()
                return "let %s := scatter_const %s %s %s in\n" % (row[0], row[0], t.slice.id, self.scalar(v)) + more()
            _fail(s, "unsupported assignment")
        if isinstance(s, ast.AugAssign) and isinstance(s.target, ast.Name) and isinstance(s.op, ast.Add):
            return "let %s := %s + %s in\n" % (s.target.id, s.target.id, self.scalar(s.value)) + more()
        if isinstance(s, ast.Expr) and isinstance(s.value, ast.Call) and isinstance(s.value.func, ast.Attribute) and s.value.func.attr == "shuffle" and len(s.value.args) == 1 and isinstance(s.value.args[0], ast.Name):
            x = s.value.args[0].id; return "let %s := shuf %s in\n" % (x, x) + more()
        if isinstance(s, ast.If):
            t = s.test
            # if len(x) == 0: continue
            if (isinstance(t, ast.Compare) and isinstance(t.ops[0], ast.Eq) and _intconst(t.comparators[0]) == 0 and isinstance(t.left, ast.Call) and is_name(t.left.func, "len")
                    and len(s.body) == 1 and isinstance(s.body[0], ast.Continue) and not s.orelse):
                return "if (length %s =? 0)%%nat then %s else\n" % (t.left.args[0].id, fall) + more()
            tb = self.tbtest(t)
            if tb is not None:
                arms = self.tbchain(s)          # dict constructor -> statement list, None key = otherwise
                if getattr(self, "known", None):     # already inside an arm of `match pol`: the test is decided
                    return self.stmts(list(arms.get(self.known, arms[None])) + rest, fall, row)
                out = "match pol with\n"
                for c in ("GAccept", "GFirst", "GRandom"):
                    self.known = c
                    out += "| %s => %s\n" % (c, self.stmts(list(arms.get(c, arms[None])) + rest, fall, row))
                    self.known = None
                return out + "end"
            _fail(s, "unsupported if")
        _fail(s, "unsupported statement")
    def tbtest(self, t):
        if isinstance(t, ast.Compare) and len(t.ops) == 1 and isinstance(t.ops[0], ast.Eq) and is_name(t.left, "tie_breaker") and isinstance(t.comparators[0], ast.Constant):
            return {"accept": "GAccept", "first": "GFirst", "random": "GRandom"}.get(t.comparators[0].value)
        return None
    def tbchain(self, s):
        """if tie_breaker == A: X elif ... else: Y  ->  {constructor: stmts, None: else-stmts}; nested ifs inside an arm are expanded by stmts()"""
        arms = {}
        while True:
            c = self.tbtest(s.test)
            if c is None: _fail(s, "tie_breaker == '...' expected")
            arms[c] = list(s.body)
            if len(s.orelse) == 1 and isinstance(s.orelse[0], ast.If) and self.tbtest(s.orelse[0].test) is not None and s.orelse[0] is not None and len(s.orelse) == 1 and not self._has_tail(s):
                s = s.orelse[0]; continue
            arms[None] = list(s.orelse)
            return arms
    def _has_tail(self, s): return False

def tr_converter(fn, tag, guard_kind):
    c = PlC("m"); c.mname = None
    body = _body(fn)
    # guard: if instance.data_type != "xxx": raise   /   if not isinstance(instance, CategoricalInstance): raise
    g = body[0]
    ok = isinstance(g, ast.If) and not g.orelse and len(g.body) == 1 and isinstance(g.body[0], ast.Raise)
    if ok and guard_kind != "CAT":
        t = g.test
        ok = (isinstance(t, ast.Compare) and len(t.ops) == 1 and isinstance(t.ops[0], ast.NotEq) and isinstance(t.left, ast.Attribute) and t.left.attr == "data_type"
              and is_name(t.left.value, "instance") and isinstance(t.comparators[0], ast.Constant) and t.comparators[0].value == guard_kind.lower())
    elif ok:
        t = g.test
        ok = (isinstance(t, ast.UnaryOp) and isinstance(t.op, ast.Not) and isinstance(t.operand, ast.Call) and is_name(t.operand.func, "isinstance") and is_name(t.operand.args[0], "instance")
              and is_name(t.operand.args[1], "CategoricalInstance"))
    if not ok: _fail(g, "data-type guard expected first")
    src = None; arrname = None; loop = None; ret = None
    for s in body[1:]:
        if isinstance(s, ast.Expr) and isinstance(s.value, ast.Call) and (is_name(s.value.func, "print") or is_name(s.value.func, "check_tie_breaker")): continue
        if isinstance(s, ast.Assign) and isinstance(s.targets[0], ast.Name):
            v = s.value; t = s.targets[0].id
            if isinstance(v, ast.Call) and isinstance(v.func, ast.Attribute) and v.func.attr in ("flatten_strict", "vote_map") and is_name(v.func.value, "instance") and not v.args:
                src = (t, v.func.attr); continue
            if isinstance(v, ast.Attribute) and v.attr == "num_alternatives" and is_name(v.value, "instance"):
                c.mname = t; continue
            if isinstance(v, ast.List) and not v.elts: arrname = t; continue
            _fail(s, "unsupported assignment before the loop")
        elif isinstance(s, ast.For): 
            if loop is not None: _fail(s, "one loop expected")
            loop = s
        elif isinstance(s, ast.Return): ret = s
        else: _fail(s, "unsupported statement")
    if loop is None or ret is None or arrname is None: _fail(fn, "arr = [], a loop and a return expected")
    # return XProfile.of(np.array(arr))
    r = ret.value
    if not (isinstance(r, ast.Call) and isinstance(r.func, ast.Attribute) and r.func.attr == "of" and len(r.args) == 1 and isinstance(r.args[0], ast.Call) and _is_np(r.args[0].func, "array")
            and is_name(r.args[0].args[0], arrname)): _fail(ret, "return <Profile>.of(np.array(arr)) expected")
    # loop header
    it = loop.iter; tgt = loop.target
    if guard_kind == "CAT":
        if not (isinstance(tgt, ast.Name) and isinstance(it, ast.Attribute) and it.attr == "preferences" and is_name(it.value, "instance")): _fail(loop, "for p in instance.preferences expected")
        ORDER = tgt.id; MULT = None
    else:
        okh = isinstance(tgt, ast.Tuple) and len(tgt.elts) == 2 and all(isinstance(x, ast.Name) for x in tgt.elts) and src is not None
        if okh and src[1] == "flatten_strict": okh = is_name(it, src[0])
        elif okh: okh = isinstance(it, ast.Call) and isinstance(it.func, ast.Attribute) and it.func.attr == "items" and is_name(it.func.value, src[0])
        if not okh: _fail(loop, "for order, multiplicity in flattened_order / vote_map.items() expected")
        ORDER, MULT = tgt.elts[0].id, tgt.elts[1].id
    lb = list(loop.body)
    # last statement: for _ in range(mult): arr.append(preference)
    rep = lb[-1]
    ok = (isinstance(rep, ast.For) and isinstance(rep.iter, ast.Call) and is_name(rep.iter.func, "range") and len(rep.iter.args) == 1 and len(rep.body) == 1
          and isinstance(rep.body[0], ast.Expr) and isinstance(rep.body[0].value, ast.Call) and isinstance(rep.body[0].value.func, ast.Attribute)
          and rep.body[0].value.func.attr == "append" and is_name(rep.body[0].value.func.value, arrname) and isinstance(rep.body[0].value.args[0], ast.Name))
    if ok:
        ra = rep.iter.args[0]
        ok = is_name(ra, MULT) if MULT else (isinstance(ra, ast.Subscript) and isinstance(ra.value, ast.Attribute) and ra.value.attr == "multiplicity" and is_name(ra.value.value, "instance") and is_name(ra.slice, ORDER))
    if not ok: _fail(rep, "for _ in range(multiplicity): arr.append(preference) expected last in the loop")
    ROW = rep.body[0].value.args[0].id
    row = [None]
    strict = src is not None and src[1] == "flatten_strict"
    inner = [s for s in lb[:-1] if isinstance(s, ast.For)]
    if strict:
        if inner: _fail(loop, "no inner loop expected in a strict converter")
        rowtxt = c.stmts(lb[:-1], "@ROW@", row)
        if row[0] != ROW: _fail(loop, "the appended row is not the one built")
        rowtxt = rowtxt.replace("@ROW@", ROW)
        sig = "(m : nat) (%s : list Z)" % ORDER; oty = "list Z"
    else:
        if len(inner) != 1 or lb.index(inner[0]) != len(lb) - 2: _fail(loop, "exactly one inner loop over the indifference classes expected before the append loop")
        il = inner[0]
        if not (isinstance(il.target, ast.Name) and is_name(il.iter, ORDER)): _fail(il, "for tied_items in order expected")
        pre = c.stmts(lb[:lb.index(il)], "@PRE@", row)
        if row[0] != ROW: _fail(loop, "the appended row is not the one built")
        state = [ROW] + [s.targets[0].id for s in lb[:lb.index(il)] if isinstance(s, ast.Assign) and isinstance(s.targets[0], ast.Name) and s.targets[0].id != ROW]
        if len(state) != 2: _fail(loop, "row and current_rank expected as loop state")
        tup = "(%s, %s)" % tuple(state)
        bodytxt = c.stmts(list(il.body), tup, row)
        rowtxt = pre.replace("@PRE@", "fst (fold_left (fun (st_ : list (option Z) * Z) (%s : list Z) => let '%s := st_ in\n%s) %s %s)" % (il.target.id, tup, bodytxt, ORDER, tup))
        sig = "(pol : gtie) (shuf : list Z -> list Z) (m : nat) (%s : list (list Z))" % ORDER; oty = "list (list Z)"
    args = "m om_" if strict else "pol shuf m om_"
    conv_sig = "(m : nat)" if strict else "(pol : gtie) (shuf : list Z -> list Z) (m : nat)"
    call = "gen_%s_row %s (fst om_)" % (tag, "m" if strict else "pol shuf m")
    return ("(* preflib_%s_to_profile (line %d): one row of the profile *)\nDefinition gen_%s_row %s : list (option Z) :=\n%s.\n"
            "(* the converter: None = ValueError of the data-type guard; every order is appended `multiplicity` times *)\n"
            "Definition gen_%s (actual : kind) %s (votes : list (%s * nat)) : option (list (list (option Z))) :=\n"
            "  if negb (kind_eqb actual %s) then None else\n  Some (fold_left (fun (arr : list (list (option Z))) (om_ : %s * nat) => arr ++ repeat (%s) (snd om_)) votes []).\n"
            % (tag, fn.lineno, tag, sig, rowtxt, tag, conv_sig, oty, guard_kind, oty, call))

def translate_preflib(repo):
    src = open(os.path.join(repo, "socialchoicekit", "preflib_utils.py")).read()
    mod = ast.parse(src)
    hdr = ["(* GENERATED by harness/translate.py from preflib_utils.py. Do not edit. *)", "From Coq Require Import ZArith List Bool.", "Import ListNotations.",
           "From SCK Require Import Preflib.", "Local Open Scope Z_scope.", "", PL_PRELUDE]
    out = []
    for tag, kind in (("soc", "SOC"), ("soi", "SOI"), ("toc", "TOC"), ("toi", "TOI"), ("categorical", "CAT")):
        out.append(tr_converter(_find(mod.body, ast.FunctionDef, "preflib_%s_to_profile" % tag), tag if tag != "categorical" else "cat", kind))
    return "\n".join(hdr) + "\n".join(out)


# ---------------------------------------------------------------------------------------------------------------------
# randomized_scoring.py: BaseRandomizedScoring (__init__, score, scf) and the five subclasses' choice of scoring rule
# ---------------------------------------------------------------------------------------------------------------------
def translate_randscoring(repo):
    src = open(os.path.join(repo, "socialchoicekit", "randomized_scoring.py")).read()
    mod = ast.parse(src)
    base = _find(mod.body, ast.ClassDef, "BaseRandomizedScoring")
    init = _find(base.body, ast.FunctionDef, "__init__"); sc = _find(base.body, ast.FunctionDef, "score"); scf = _find(base.body, ast.FunctionDef, "scf")
    # __init__: self.voting_rule = voting_rule; self.index_fixer = 0 if zero_indexed else 1
    b = _body(init)
    ok = (len(b) == 2 and isinstance(b[0], ast.Assign) and selfattr(b[0].targets[0], "voting_rule") and is_name(b[0].value, "voting_rule")
          and isinstance(b[1], ast.Assign) and selfattr(b[1].targets[0], "index_fixer") and isinstance(b[1].value, ast.IfExp) and is_name(b[1].value.test, "zero_indexed")
          and _intconst(b[1].value.body) is not None and _intconst(b[1].value.orelse) is not None)
    if not ok: _fail(init, "BaseRandomizedScoring.__init__ shape")
    fz, fo = _intconst(b[1].value.body), _intconst(b[1].value.orelse)
    # score: return self.voting_rule.score(profile)
    b = _body(sc)
    ok = (len(b) == 1 and isinstance(b[0], ast.Return) and isinstance(b[0].value, ast.Call) and isinstance(b[0].value.func, ast.Attribute) and b[0].value.func.attr == "score"
          and selfattr(b[0].value.func.value, "voting_rule") and len(b[0].value.args) == 1 and is_name(b[0].value.args[0], sc.args.args[1].arg))
    if not ok: _fail(sc, "score = self.voting_rule.score(profile) expected")
    # scf: score = self.score(profile); return np.random.choice(np.arange(score.shape[0]), p=score/np.sum(score)) + self.index_fixer
    b = _body(scf)
    ok = (len(b) == 2 and isinstance(b[0], ast.Assign) and isinstance(b[0].targets[0], ast.Name) and isinstance(b[0].value, ast.Call) and selfattr(b[0].value.func, "score")
          and isinstance(b[1], ast.Return) and isinstance(b[1].value, ast.BinOp) and isinstance(b[1].value.op, ast.Add) and selfattr(b[1].value.right, "index_fixer"))
    if ok:
        S = b[0].targets[0].id; call = b[1].value.left
        ok = (isinstance(call, ast.Call) and isinstance(call.func, ast.Attribute) and call.func.attr == "choice" and isinstance(call.func.value, ast.Attribute) and call.func.value.attr == "random"
              and len(call.args) == 1 and [k.arg for k in call.keywords] == ["p"])
    if ok:
        pop, p = call.args[0], call.keywords[0].value
        ok = (isinstance(pop, ast.Call) and _is_np(pop.func, "arange") and len(pop.args) == 1 and isinstance(pop.args[0], ast.Subscript) and isinstance(pop.args[0].value, ast.Attribute)
              and pop.args[0].value.attr == "shape" and is_name(pop.args[0].value.value, S) and _intconst(pop.args[0].slice) == 0
              and isinstance(p, ast.BinOp) and isinstance(p.op, ast.Div) and is_name(p.left, S) and isinstance(p.right, ast.Call) and _is_np(p.right.func, "sum")
              and len(p.right.args) == 1 and is_name(p.right.args[0], S) and not p.right.keywords)
    if not ok: _fail(scf, "np.random.choice(np.arange(score.shape[0]), p=score/np.sum(score)) + self.index_fixer expected")
    out = ["(* GENERATED by harness/translate.py from randomized_scoring.py. Do not edit. *)", "From Coq Require Import ZArith QArith List Bool.", "Import ListNotations.",
           "From SCK Require Import VoteExt.", "",
           "(* BaseRandomizedScoring.scf: the sampler is handed the population 0..len(score)-1 and the vector score / sum(score); its draw is shifted by the index fixer *)",
           "Definition gen_rand_fixer (zero_indexed : bool) : Z := if zero_indexed then %d%%Z else %d%%Z." % (fz, fo),
           "Definition gen_rand_population (score : list Q) : list nat := seq 0 (length score).",
           "Definition gen_rand_p (score : list Q) : list Q := map (fun x => Qred (x / sumQl score)) score.",
           "Definition gen_rand_scf (zero_indexed : bool) (score : list Q) (sampler : list nat -> list Q -> nat) : Z :=",
           "  (Z.of_nat (sampler (gen_rand_population score) (gen_rand_p score)) + gen_rand_fixer zero_indexed)%Z.", "",
           "(* which deterministic scoring rule each randomized rule scores with (index into Plurality, Borda, Veto, KApproval, Harmonic) *)"]
    names = ["Plurality", "Borda", "Veto", "KApproval", "Harmonic"]
    rows = []
    for nm in names:
        cls = _find(mod.body, ast.ClassDef, "Randomized" + nm)
        if not (len(cls.bases) == 1 and is_name(cls.bases[0], "BaseRandomizedScoring")): _fail(cls, "subclass of BaseRandomizedScoring expected")
        meths = [x for x in cls.body if isinstance(x, ast.FunctionDef)]
        if [x.name for x in meths] != ["__init__"]: _fail(cls, "only __init__ expected in Randomized%s" % nm)
        b = _body(meths[0])
        ok = (len(b) == 2 and isinstance(b[0], ast.Assign) and is_name(b[0].targets[0], "voting_rule") and isinstance(b[0].value, ast.Call) and isinstance(b[0].value.func, ast.Name)
              and isinstance(b[1], ast.Expr) and isinstance(b[1].value, ast.Call) and isinstance(b[1].value.func, ast.Attribute) and b[1].value.func.attr == "__init__"
              and {k.arg: getattr(k.value, "id", None) for k in b[1].value.keywords} == {"voting_rule": "voting_rule", "zero_indexed": "zero_indexed"} and not b[1].value.args)
        if not ok: _fail(cls, "voting_rule = X(...); super().__init__(voting_rule=voting_rule, zero_indexed=zero_indexed) expected")
        ctor = b[0].value
        if ctor.func.id not in names: _fail(ctor, "unknown scoring rule")
        kws = {k.arg: getattr(k.value, "id", None) for k in ctor.keywords}
        want = {"zero_indexed": "zero_indexed"}
        if ctor.func.id == "KApproval": want["k"] = "k"
        if kws != want or ctor.args: _fail(ctor, "constructor arguments")
        rows.append("  | %d%%nat => %d%%nat" % (names.index(nm), names.index(ctor.func.id)))
    out.append("Definition gen_rand_rule (i : nat) : nat :=\n  match i with\n" + "\n".join(rows) + "\n  | _ => i\n  end.")
    return "\n".join(out) + "\n"

# ---------------------------------------------------------------------------------------------------------------------
# deterministic_allocation.py: MaximumWeightMatching.__init__ / scf (the solver call is an oracle)
# ---------------------------------------------------------------------------------------------------------------------
def translate_mwm(repo):
    src = open(os.path.join(repo, "socialchoicekit", "deterministic_allocation.py")).read()
    mod = ast.parse(src)
    cls = _find(mod.body, ast.ClassDef, "MaximumWeightMatching")
    meths = [x for x in cls.body if isinstance(x, ast.FunctionDef)]
    if [x.name for x in meths] != ["__init__", "scf"]: _fail(cls, "__init__ and scf expected")
    if any(x.decorator_list for x in meths): _fail(cls, "decorated method")
    b = _body(meths[0])
    ok = (len(b) == 1 and isinstance(b[0], ast.Assign) and selfattr(b[0].targets[0], "index_fixer") and isinstance(b[0].value, ast.IfExp) and is_name(b[0].value.test, "zero_indexed")
          and _intconst(b[0].value.body) is not None and _intconst(b[0].value.orelse) is not None)
    if not ok: _fail(meths[0], "self.index_fixer = 0 if zero_indexed else 1 expected")
    fz, fo = _intconst(b[0].value.body), _intconst(b[0].value.orelse)
    scf = meths[1]; V = scf.args.args[1].arg
    b = _body(scf)
    if len(b) != 4: _fail(scf, "four statements expected in scf")
    s1, s2, s3, s4 = b
    ok = isinstance(s1, ast.Expr) and isinstance(s1.value, ast.Call) and is_name(s1.value.func, "check_square_matrix") and len(s1.value.args) == 1 and is_name(s1.value.args[0], V)
    if not ok: _fail(s1, "check_square_matrix(valuation_profile) expected")
    v = s2.value if isinstance(s2, ast.Assign) and isinstance(s2.targets[0], ast.Name) else None
    ok = (v is not None and isinstance(v, ast.Call) and _is_np(v.func, "where") and len(v.args) == 3 and isinstance(v.args[0], ast.Call) and _is_np(v.args[0].func, "isnan")
          and is_name(v.args[0].args[0], V) and isinstance(v.args[1], ast.UnaryOp) and isinstance(v.args[1].op, ast.USub) and _is_np(v.args[1].operand, "inf")
          and isinstance(v.args[2], ast.Call) and _is_np(v.args[2].func, "array") and is_name(v.args[2].args[0], V)
          and [k.arg for k in v.args[2].keywords] == ["dtype"] and is_name(v.args[2].keywords[0].value, "float"))
    if not ok: _fail(s2, "weights = np.where(np.isnan(V), -np.inf, np.array(V, dtype=float)) expected")
    W = s2.targets[0].id
    ok = (isinstance(s3, ast.Try) and len(s3.body) == 1 and len(s3.handlers) == 1 and not s3.orelse and not s3.finalbody and is_name(s3.handlers[0].type, "ValueError")
          and len(s3.handlers[0].body) == 1 and isinstance(s3.handlers[0].body[0], ast.Raise))
    if ok:
        a = s3.body[0]
        ok = (isinstance(a, ast.Assign) and isinstance(a.targets[0], ast.Tuple) and len(a.targets[0].elts) == 2 and isinstance(a.targets[0].elts[1], ast.Name)
              and isinstance(a.value, ast.Call) and is_name(a.value.func, "linear_sum_assignment") and len(a.value.args) == 1 and is_name(a.value.args[0], W)
              and [(k.arg, getattr(k.value, "value", None)) for k in a.value.keywords] == [("maximize", True)])
        r = s3.handlers[0].body[0].exc
        ok = ok and isinstance(r, ast.Call) and is_name(r.func, "ValueError")
    if not ok: _fail(s3, "try: _, col_ind = linear_sum_assignment(weights, maximize=True) except ValueError: raise ValueError(...) expected")
    COL = s3.body[0].targets[0].elts[1].id
    ok = isinstance(s4, ast.Return) and isinstance(s4.value, ast.BinOp) and isinstance(s4.value.op, ast.Add) and is_name(s4.value.left, COL) and selfattr(s4.value.right, "index_fixer")
    if not ok: _fail(s4, "return col_ind + self.index_fixer expected")
    return "\n".join(["(* GENERATED by harness/translate.py from MaximumWeightMatching (deterministic_allocation.py). Do not edit. *)",
        "From Coq Require Import ZArith QArith List Bool.", "Import ListNotations.", "",
        "(* the matrix handed to the solver: minus infinity on the NaN (unacceptable) pairs, the utility itself elsewhere *)",
        "Inductive ext := NegInf | Fin (q : Q).",
        "Definition gen_mwm_fixer (zero_indexed : bool) : Z := if zero_indexed then %d%%Z else %d%%Z." % (fz, fo),
        "Definition gen_mwm_weights (V : list (list (option Q))) : list (list ext) := map (map (fun x => match x with None => NegInf | Some v => Fin v end)) V.",
        "(* scipy's linear_sum_assignment(weights, maximize=True) is an oracle: None = it raised ValueError (re-raised by scf), Some col = its column indices *)",
        "Definition gen_mwm_scf (zero_indexed : bool) (solver : list (list ext) -> option (list nat)) (V : list (list (option Q))) : option (list Z) :=",
        "  match solver (gen_mwm_weights V) with None => None | Some col_ind => Some (map (fun c => (Z.of_nat c + gen_mwm_fixer zero_indexed)%Z) col_ind) end.", ""])


RSD_PRELUDE = '''(* np.nanargmin of a row: the first index holding the smallest non-NaN entry (0 if there is none; the code never asks then) *)
Fixpoint nanargmin_from (row : list (option Z)) (j : nat) (best : option (nat * Z)) : option (nat * Z) :=
  match row with
  | [] => best
  | r :: t => nanargmin_from t (S j) (match r with None => best | Some rk => match best with None => Some (j, rk) | Some (_, rb) => if rk <? rb then Some (j, rk) else best end end)
  end.
Definition nanargmin (row : list (option Z)) : nat := match nanargmin_from row 0 None with Some (j, _) => j | None => O end.
Definition allnan (row : list (option Z)) : bool := forallb (fun x => match x with None => true | Some _ => false end) row.
'''

def translate_rsd(repo):
    """RandomSerialDictatorship.__init__ / scf: the shuffled order is an argument (oracle); pref[:, item] = np.nan blanks a column"""
    src = open(os.path.join(repo, "socialchoicekit", "randomized_allocation.py")).read()
    cls = _find(ast.parse(src).body, ast.ClassDef, "RandomSerialDictatorship")
    meths = [x for x in cls.body if isinstance(x, ast.FunctionDef)]
    if [x.name for x in meths] != ["__init__", "scf"] or any(x.decorator_list for x in meths): _fail(cls, "__init__ and scf expected")
    b = _body(meths[0])
    ok = (len(b) == 1 and isinstance(b[0], ast.Assign) and selfattr(b[0].targets[0], "index_fixer") and isinstance(b[0].value, ast.IfExp) and is_name(b[0].value.test, "zero_indexed")
          and _intconst(b[0].value.body) is not None and _intconst(b[0].value.orelse) is not None)
    if not ok: _fail(meths[0], "self.index_fixer = 0 if zero_indexed else 1 expected")
    fz, fo = _intconst(b[0].value.body), _intconst(b[0].value.orelse)
    scf = meths[1]; PR = scf.args.args[1].arg
    b = _body(scf)
    if len(b) != 6: _fail(scf, "six statements expected in scf")
    s1, s2, s3, s4, s5, s6 = b
    def view(e): return isinstance(e, ast.Call) and isinstance(e.func, ast.Attribute) and e.func.attr == "view" and is_name(e.func.value, PR) and len(e.args) == 1 and _is_np(e.args[0], "ndarray")
    ok = (isinstance(s1, ast.Assign) and isinstance(s1.targets[0], ast.Name) and isinstance(s1.value, ast.Call) and _is_np(s1.value.func, "array") and len(s1.value.args) == 1
          and (view(s1.value.args[0]) or is_name(s1.value.args[0], PR)) and [k.arg for k in s1.value.keywords] == ["dtype"] and is_name(s1.value.keywords[0].value, "float"))
    if not ok: _fail(s1, "pref = np.array(profile.view(np.ndarray), dtype=float) expected")
    PREF = s1.targets[0].id
    def shape0(e, who): return isinstance(e, ast.Subscript) and isinstance(e.value, ast.Attribute) and e.value.attr == "shape" and is_name(e.value.value, who) and _intconst(e.slice) == 0
    ok = (isinstance(s2, ast.Assign) and isinstance(s2.targets[0], ast.Name) and isinstance(s2.value, ast.Call) and _is_np(s2.value.func, "full") and len(s2.value.args) == 2
          and (shape0(s2.value.args[0], PR) or shape0(s2.value.args[0], PREF)) and _is_np(s2.value.args[1], "nan"))
    if not ok: _fail(s2, "allocation = np.full(profile.shape[0], np.nan) expected")
    AL = s2.targets[0].id
    ok = (isinstance(s3, ast.Assign) and isinstance(s3.targets[0], ast.Name) and isinstance(s3.value, ast.Call) and _is_np(s3.value.func, "arange") and len(s3.value.args) == 1
          and (shape0(s3.value.args[0], PR) or shape0(s3.value.args[0], PREF)))
    if not ok: _fail(s3, "order = np.arange(pref.shape[0]) expected")
    ORD = s3.targets[0].id
    ok = (isinstance(s4, ast.Expr) and isinstance(s4.value, ast.Call) and isinstance(s4.value.func, ast.Attribute) and s4.value.func.attr == "shuffle" and len(s4.value.args) == 1 and is_name(s4.value.args[0], ORD))
    if not ok: _fail(s4, "np.random.shuffle(order) expected")
    if not (isinstance(s6, ast.Return) and is_name(s6.value, AL)): _fail(s6, "return allocation expected")
    if not (isinstance(s5, ast.For) and isinstance(s5.target, ast.Name) and is_name(s5.iter, ORD) and len(s5.body) == 4 and not s5.orelse): _fail(s5, "for agent in order: (four statements) expected")
    AG = s5.target.id; b1, b2, b3, b4 = s5.body
    def prefrow(e): return isinstance(e, ast.Subscript) and is_name(e.value, PREF) and is_name(e.slice, AG)
    t = b1.test if isinstance(b1, ast.If) and not b1.orelse and len(b1.body) == 1 and isinstance(b1.body[0], ast.Continue) else None
    ok = (t is not None and isinstance(t, ast.Call) and _is_np(t.func, "all") and len(t.args) == 1 and isinstance(t.args[0], ast.Call) and _is_np(t.args[0].func, "isnan") and prefrow(t.args[0].args[0]))
    if not ok: _fail(b1, "if np.all(np.isnan(pref[agent])): continue expected")
    ok = isinstance(b2, ast.Assign) and isinstance(b2.targets[0], ast.Name) and isinstance(b2.value, ast.Call) and _is_np(b2.value.func, "nanargmin") and len(b2.value.args) == 1 and prefrow(b2.value.args[0]) and not b2.value.keywords
    if not ok: _fail(b2, "item = np.nanargmin(pref[agent]) expected")
    IT = b2.targets[0].id
    v = b3.value if isinstance(b3, ast.Assign) else None
    ok = (v is not None and isinstance(b3.targets[0], ast.Subscript) and is_name(b3.targets[0].value, AL) and is_name(b3.targets[0].slice, AG) and isinstance(v, ast.BinOp) and isinstance(v.op, ast.Add)
          and selfattr(v.right, "index_fixer") and ((isinstance(v.left, ast.Call) and is_name(v.left.func, "int") and is_name(v.left.args[0], IT)) or is_name(v.left, IT)))
    if not ok: _fail(b3, "allocation[agent] = int(item) + self.index_fixer expected")
    ok = (isinstance(b4, ast.Assign) and isinstance(b4.targets[0], ast.Subscript) and is_name(b4.targets[0].value, PREF) and isinstance(b4.targets[0].slice, ast.Tuple) and len(b4.targets[0].slice.elts) == 2
          and isinstance(b4.targets[0].slice.elts[0], ast.Slice) and b4.targets[0].slice.elts[0].lower is None and b4.targets[0].slice.elts[0].upper is None and b4.targets[0].slice.elts[0].step is None
          and is_name(b4.targets[0].slice.elts[1], IT) and _is_np(b4.value, "nan"))
    if not ok: _fail(b4, "pref[:, item] = np.nan expected")
    return "\n".join(["(* GENERATED by harness/translate.py from RandomSerialDictatorship (randomized_allocation.py). Do not edit. *)",
        "From Coq Require Import ZArith List Bool.", "Import ListNotations.", "From SCK Require Import RSD.", "Local Open Scope Z_scope.", "", RSD_PRELUDE,
        "Definition gen_rsd_fixer (zero_indexed : bool) : Z := if zero_indexed then %d else %d." % (fz, fo),
        "(* scf: `order` is the shuffled np.arange(n) (an oracle); NaN in the allocation is None *)",
        "Definition gen_rsd (fixer : Z) (%s : list (list (option Z))) (%s : list nat) : list (option Z) :=" % (PR, ORD),
        "  let %s := %s in" % (PREF, PR),
        "  let %s := repeat (@None Z) (length %s) in" % (AL, PR),
        "  fst (fold_left (fun (st_ : list (option Z) * list (list (option Z))) (%s : nat) => let '(%s, %s) := st_ in" % (AG, AL, PREF),
        "         if allnan (nth %s %s []) then (%s, %s) else" % (AG, PREF, AL, PREF),
        "         let %s := nanargmin (nth %s %s []) in" % (IT, AG, PREF),
        "         let %s := upd %s %s (Some (Z.of_nat %s + fixer)) in" % (AL, AL, AG, IT),
        "         let %s := map (fun row_ => upd row_ %s None) %s in" % (PREF, IT, PREF),
        "         (%s, %s)) %s (%s, %s))." % (AL, PREF, ORD, AL, PREF), ""])


# ---------------------------------------------------------------------------------------------------------------------
# deterministic_matching.py: GaleShapley.scf, resident-oriented branch -> Gallina.
# State of the main loop as total functions (a dict with .get(k, d) / an array = a function with default d / initial value):
#   resident_applications : nat -> Z, hospital_waiting_lists : nat -> list Z (the heaps of negated ranks, as unordered lists:
#   heappush = cons, heappop = remove the minimum), next_current_applicants : nat -> Z.
# rprofile / hprofile are the matrices of 0-based ranks (the code's `profile - 1`), NaN = None; np.argsort(.., axis=1) is the
# stable argsort with NaN last (Argsort.argsort) of every row.
# ---------------------------------------------------------------------------------------------------------------------
GS_PRELUDE = '''Definition okz (k : okey) : Z := match k with Some x => Z.of_nat x | None => 0 end.
Definition isnan (k : okey) : bool := match k with None => true | Some _ => false end.
Fixpoint minl (l : list Z) : Z := match l with [] => 0 | x :: r => match r with [] => x | _ => Z.min x (minl r) end end.
Fixpoint rem1z (x : Z) (l : list Z) : list Z := match l with [] => [] | y :: r => if x =? y then r else y :: rem1z x r end.
'''

class GsC:
    """store-passing compiler for the body of `for resident in range(n)`"""
    def __init__(self, names, state):
        self.n = names          # python names: R (rprofile), H (hprofile), RR, RH (ranked), C (capacities), M (m)
        self.state = state      # [resident_applications, hospital_waiting_lists, next_current_applicants]
        self.kind = {}          # local name -> 'Z' | 'nat' | ('alias', dictname, keytext)
        self.fz = set()         # names of nat -> Z functions (readable with X[i])
    def fall(self): return "(" + ", ".join(self.state) + ")"
    def natx(self, e):
        if isinstance(e, ast.Name) and self.kind.get(e.id) == "nat": return e.id
        if isinstance(e, ast.Name) and self.kind.get(e.id) == "Z": return "(Z.to_nat %s)" % e.id       # an integer used as an index
        _fail(e, "index name expected")
    def rank_at(self, e):
        """rprofile[a, b] / hprofile[a, b] -> okey"""
        if isinstance(e, ast.Subscript) and isinstance(e.value, ast.Name) and e.value.id in (self.n["R"], self.n["H"]) and isinstance(e.slice, ast.Tuple) and len(e.slice.elts) == 2:
            M = "R" if e.value.id == self.n["R"] else "H"
            return "(nth %s (nth %s %s []) None)" % (self.natx(e.slice.elts[1]), self.natx(e.slice.elts[0]), M)
        return None
    def zx(self, e):
        k = _intconst(e)
        if k is not None: return str(k) if k >= 0 else "(%d)" % k
        if isinstance(e, ast.Name):
            if self.kind.get(e.id) == "Z": return e.id
            if self.kind.get(e.id) == "nat": return "(Z.of_nat %s)" % e.id
            if e.id == self.n["M"]: return "(Z.of_nat m)"
            if e.id == self.n["N"]: return "(Z.of_nat n)"
        if isinstance(e, ast.BinOp) and isinstance(e.op, (ast.Add, ast.Sub)): return "(%s %s %s)" % (self.zx(e.left), "+" if isinstance(e.op, ast.Add) else "-", self.zx(e.right))
        if isinstance(e, ast.BinOp) and isinstance(e.op, ast.Mult) and _intconst(e.right) == -1: return "(- %s)" % self.zx(e.left)
        if isinstance(e, ast.Subscript) and isinstance(e.value, ast.Name) and e.value.id in self.fz: return "(%s %s)" % (e.value.id, self.natx(e.slice))
        if isinstance(e, ast.Call) and is_name(e.func, "int") and len(e.args) == 1: return self.zx(e.args[0])
        r = self.rank_at(e)
        if r is not None: return "(okz %s)" % r
        _fail(e, "unsupported integer expression")
    def bx(self, t):
        if isinstance(t, ast.BoolOp) and isinstance(t.op, ast.Or): return "(" + " || ".join(self.bx(v) for v in t.values) + ")"
        if isinstance(t, ast.Call) and _is_np(t.func, "isnan") and len(t.args) == 1:
            r = self.rank_at(t.args[0])
            if r is not None: return "(isnan %s)" % r
        if isinstance(t, ast.Compare) and len(t.ops) == 1:
            l, r, op = t.left, t.comparators[0], t.ops[0]
            # len(alias) <= c[h]
            if (isinstance(l, ast.Call) and is_name(l.func, "len") and isinstance(l.args[0], ast.Name) and isinstance(self.kind.get(l.args[0].id), tuple) and isinstance(op, ast.LtE)
                    and isinstance(r, ast.Subscript) and is_name(r.value, self.n["C"])):
                _, d, key = self.kind[l.args[0].id]
                return "(length (%s %s) <=? nth %s c 0)%%nat" % (d, key, self.natx(r.slice))
            ops = {ast.Eq: "(%s =? %s)", ast.NotEq: "(negb (%s =? %s))", ast.GtE: "(%s >=? %s)", ast.Gt: "(%s >? %s)", ast.LtE: "(%s <=? %s)", ast.Lt: "(%s <? %s)"}
            if type(op) in ops: return ops[type(op)] % (self.zx(l), self.zx(r))
        _fail(t, "unsupported test")
    def ranked_at(self, e):
        """ranked_rprofile[a, zexpr] -> nat"""
        if isinstance(e, ast.Subscript) and isinstance(e.value, ast.Name) and e.value.id in (self.n["RR"], self.n["RH"]) and isinstance(e.slice, ast.Tuple) and len(e.slice.elts) == 2:
            M = "R" if e.value.id == self.n["RR"] else "H"
            return M, e.slice.elts[0], e.slice.elts[1]
        return None
    def block(self, stmts):
        if not stmts: return self.fall()
        s, rest = stmts[0], stmts[1:]
        more = lambda: self.block(rest)
        if isinstance(s, ast.Continue): return self.fall()
        if isinstance(s, ast.If) and not s.orelse:
            a = GsC(self.n, self.state); a.kind = dict(self.kind); a.fz = set(self.fz); a.fzstate = getattr(self, "fzstate", set())
            if isinstance(s.body[-1], ast.Continue):
                return "if %s then %s else\n%s" % (self.bx(s.test), a.block(list(s.body)), more())
            b2 = GsC(self.n, self.state); b2.kind = dict(self.kind); b2.fz = set(self.fz); b2.fzstate = getattr(self, "fzstate", set())
            return "if %s then %s else\n%s" % (self.bx(s.test), a.block(list(s.body) + rest), b2.block(rest))
        if isinstance(s, ast.AugAssign) and isinstance(s.op, (ast.Add, ast.Sub)) and isinstance(s.target, ast.Subscript) and isinstance(s.target.value, ast.Name) and s.target.value.id in getattr(self, "fzstate", set()):
            X = s.target.value.id; i = self.natx(s.target.slice)
            return "let %s := fupd %s %s (%s %s %s %s) in\n" % (X, X, i, X, i, "+" if isinstance(s.op, ast.Add) else "-", self.zx(s.value)) + more()
        if isinstance(s, ast.Assign) and len(s.targets) == 1:
            t, v = s.targets[0], s.value
            if isinstance(t, ast.Name):
                # v = D.get(k, default)
                if isinstance(v, ast.Call) and isinstance(v.func, ast.Attribute) and v.func.attr == "get" and isinstance(v.func.value, ast.Name) and len(v.args) == 2:
                    d = v.func.value.id
                    if d == self.state[0] and _intconst(v.args[1]) == -1:
                        self.kind[t.id] = "Z"; return "let %s := %s %s in\n" % (t.id, d, self.natx(v.args[0])) + more()
                    if d == self.state[1] and isinstance(v.args[1], ast.List) and not v.args[1].elts:
                        self.kind[t.id] = ("alias", d, self.natx(v.args[0])); return more()       # the list object stored in the dict (every key 0..m-1 exists)
                    _fail(s, "unsupported dict.get")
                ra = self.ranked_at(v)
                if ra is not None:
                    M, a, idx = ra
                    pre = ""
                    if (isinstance(idx, ast.BinOp) and isinstance(idx.op, ast.Mult) and _intconst(idx.right) == -1 and isinstance(idx.left, ast.Call) and isinstance(idx.left.func, ast.Attribute)
                            and idx.left.func.attr == "heappop" and len(idx.left.args) == 1 and isinstance(idx.left.args[0], ast.Name) and isinstance(self.kind.get(idx.left.args[0].id), tuple)):
                        _, d, key = self.kind[idx.left.args[0].id]
                        pre = "let popped_ := minl (%s %s) in\nlet %s := fupd %s %s (rem1z popped_ (%s %s)) in\n" % (d, key, d, d, key, d, key)
                        ztxt = "(- popped_)"
                    else:
                        ztxt = self.zx(idx)
                    self.kind[t.id] = "nat"
                    return pre + "let %s := nth (Z.to_nat %s) (argsort (nth %s %s [])) O in\n" % (t.id, ztxt, self.natx(a), M) + more()
                if isinstance(v, ast.Subscript) and isinstance(v.value, ast.Name) and v.value.id in getattr(self, "fzstate", set()):
                    self.kind[t.id] = "Z"; return "let %s := %s %s in\n" % (t.id, v.value.id, self.natx(v.slice)) + more()
                _fail(s, "unsupported assignment")
            if isinstance(t, ast.Name) and isinstance(v, ast.Subscript) and isinstance(v.value, ast.Name) and v.value.id in getattr(self, "fzstate", set()):
                self.kind[t.id] = "Z"; return "let %s := %s %s in\n" % (t.id, v.value.id, self.natx(v.slice)) + more()
            if isinstance(t, ast.Subscript) and isinstance(t.value, ast.Name) and (t.value.id in (self.state[0], self.state[2]) or t.value.id in getattr(self, "fzstate", set())):
                return "let %s := fupd %s %s %s in\n" % (t.value.id, t.value.id, self.natx(t.slice), self.zx(v)) + more()
            _fail(s, "unsupported store")
        if isinstance(s, ast.Expr) and isinstance(s.value, ast.Call) and isinstance(s.value.func, ast.Attribute) and s.value.func.attr == "heappush" and len(s.value.args) == 2:
            a0 = s.value.args[0]
            if not (isinstance(a0, ast.Name) and isinstance(self.kind.get(a0.id), tuple)): _fail(s, "heappush on the aliased waiting list expected")
            _, d, key = self.kind[a0.id]
            return "let %s := fupd %s %s (%s :: %s %s) in\n" % (d, d, key, self.zx(s.value.args[1]), d, key) + more()
        _fail(s, "unsupported statement in the loop body")

def U(node): return re.sub(r"\s+", " ", ast.unparse(node)).strip()

def translate_gs_res(repo):
    src = open(os.path.join(repo, "socialchoicekit", "deterministic_matching.py")).read()
    cls = _find(ast.parse(src).body, ast.ClassDef, "GaleShapley")
    scf = _find(cls.body, ast.FunctionDef, "scf")
    if scf.decorator_list: _fail(scf, "decorated")
    meths = [x.name for x in cls.body if isinstance(x, ast.FunctionDef)]
    if meths != ["__init__", "scf"]: _fail(cls, "__init__ and scf expected in GaleShapley")
    ib = [U(x) for x in _body(_find(cls.body, ast.FunctionDef, "__init__"))]
    if ib != ["self.index_fixer = 0 if zero_indexed else 1", "self.resident_oriented = resident_oriented"]: _fail(cls, "GaleShapley.__init__ shape")
    ps = [a.arg for a in scf.args.args]
    if len(ps) != 4: _fail(scf, "scf(self, resident_profile, hospital_profile, c) expected")
    _, RP, HP, C = ps
    b = _body(scf)
    if len(b) != 8: _fail(scf, "eight top-level statements expected in scf")
    pat = [r"(\w+) = %s\.shape\[0\]" % RP, r"(\w+) = %s\.shape\[1\]" % RP]
    m0, m1 = re.fullmatch(pat[0], U(b[0])), re.fullmatch(pat[1], U(b[1]))
    if not (m0 and m1): _fail(b[0], "n = resident_profile.shape[0]; m = resident_profile.shape[1] expected")
    N, M = m0.group(1), m1.group(1)
    if U(b[2]) != "if %s != %s.shape[1] or %s != %s.shape[0]: raise ValueError('The resident profile and hospital profile dimensions do not match.')" % (N, HP, M, HP):
        _fail(b[2], "dimension guard expected")
    m3 = re.fullmatch(r"(\w+) = %s\.view\(np\.ndarray\) - 1" % RP, U(b[3])); m4 = re.fullmatch(r"(\w+) = %s\.view\(np\.ndarray\) - 1" % HP, U(b[4]))
    if not (m3 and m4): _fail(b[3], "rprofile = resident_profile.view(np.ndarray) - 1 (and the same for the hospitals) expected")
    R, H = m3.group(1), m4.group(1)
    m5 = re.fullmatch(r"(\w+) = np\.argsort\(%s, axis=1\)" % R, U(b[5])); m6 = re.fullmatch(r"(\w+) = np\.argsort\(%s, axis=1\)" % H, U(b[6]))
    if not (m5 and m6): _fail(b[5], "ranked_rprofile = np.argsort(rprofile, axis=1) (and the same for the hospitals) expected")
    RR, RH = m5.group(1), m6.group(1)
    top = b[7]
    if not (isinstance(top, ast.If) and selfattr(top.test, "resident_oriented") and top.orelse): _fail(top, "if self.resident_oriented: ... else: ... expected")
    A = list(top.body)
    if len(A) != 7: _fail(top, "seven statements expected in the resident-oriented branch")
    a1, a2, a3, a4, a5, a6, a7 = A
    g1 = re.fullmatch(r"(\w+) = \{\}", U(a1)); g2 = re.fullmatch(r"(\w+) = \{(\w+): \[\] for \2 in range\(%s\)\}" % M, U(a2)); g3 = re.fullmatch(r"(\w+) = np\.ones\(%s, dtype=int\)" % N, U(a3))
    if not (g1 and g2 and g3): _fail(a1, "resident_applications = {}; hospital_waiting_lists = {i: [] for i in range(m)}; next_current_applicants = np.ones(n, dtype=int) expected")
    RA, HWL, NCA = g1.group(1), g2.group(1), g3.group(1)
    if not (isinstance(a4, ast.While) and U(a4.test) == "True" and len(a4.body) == 3 and not a4.orelse): _fail(a4, "while True: (three statements) expected")
    w1, w2, w3 = a4.body
    if U(w1) != "if np.all(%s != 1): break" % NCA: _fail(w1, "if np.all(next_current_applicants != 1): break expected")
    g = re.fullmatch(r"(\w+) = np\.array\(%s\)" % NCA, U(w2))
    if not g: _fail(w2, "current_applicants = np.array(next_current_applicants) expected")
    CA = g.group(1)
    if not (isinstance(w3, ast.For) and isinstance(w3.target, ast.Name) and U(w3.iter) == "range(%s)" % N and not w3.orelse): _fail(w3, "for resident in range(n) expected")
    RES = w3.target.id
    names = dict(R=R, H=H, RR=RR, RH=RH, C=C, M=M, N=N)
    c = GsC(names, [RA, HWL, NCA]); c.kind[RES] = "nat"; c.fz = {CA, NCA}
    body = c.block(list(w3.body))
    # output
    g5 = re.fullmatch(r"(\w+) = \[\]", U(a5))
    if not g5: _fail(a5, "ans = [] expected")
    ANS = g5.group(1)
    if U(a7) != "return %s" % ANS: _fail(a7, "return ans expected")
    ok = isinstance(a6, ast.For) and isinstance(a6.target, ast.Name) and U(a6.iter) == "range(%s)" % M and len(a6.body) == 1 and isinstance(a6.body[0], ast.For)
    if ok:
        HO = a6.target.id; inner = a6.body[0]
        ok = isinstance(inner.target, ast.Name) and U(inner.iter) == "%s.get(%s, [])" % (HWL, HO) and len(inner.body) == 1
    if ok:
        RK = inner.target.id
        ok = U(inner.body[0]) == "%s.append((int(%s[%s, %s * -1]) + self.index_fixer, %s + self.index_fixer))" % (ANS, RH, HO, RK, HO)
    if not ok: _fail(a6, "the read-off loop over the waiting lists expected")
    sty = "(nat -> Z) * (nat -> list Z) * (nat -> Z)"
    return "\n".join(["(* GENERATED by harness/translate.py from GaleShapley.scf, resident-oriented branch (deterministic_matching.py, line %d). Do not edit. *)" % scf.lineno,
        "From Coq Require Import ZArith List Bool.", "Import ListNotations.", "From SCK Require Import Argsort GS2.", "Local Open Scope Z_scope.", "", GS_PRELUDE,
        "Section GenRes.", "Variables (R H : list (list okey)) (c : list nat).      (* 0-based ranks (profile - 1), NaN = None; capacities *)",
        "Let n := length R.", "Let m := length (nth 0 R []).", "",
        "Definition gen_res_step (%s : nat -> Z) (st_ : %s) (%s : nat) : %s :=" % (CA, sty, RES, sty),
        "let '(%s, %s, %s) := st_ in" % (RA, HWL, NCA), body + ".", "",
        "Fixpoint gen_res_loop (fuel : nat) (st_ : %s) : option (%s) :=" % (sty, sty),
        "  match fuel with O => None | S f =>", "    let '(%s, %s, %s) := st_ in" % (RA, HWL, NCA),
        "    if forallb (fun i_ => negb (%s i_ =? 1)) (seq 0 n) then Some st_" % NCA,
        "    else gen_res_loop f (fold_left (gen_res_step %s) (seq 0 n) st_)" % NCA, "  end.",
        "Definition gen_res_init : %s := (fun _ => -1, fun _ => [], fun _ => 1)." % sty,
        "Definition gen_res_out (fixer : Z) (st_ : %s) : list (Z * Z) :=" % sty,
        "  let '(%s, %s, %s) := st_ in" % (RA, HWL, NCA),
        "  flat_map (fun %s : nat => map (fun %s : Z => (Z.of_nat (nth (Z.to_nat (- %s)) (argsort (nth %s H [])) O) + fixer, Z.of_nat %s + fixer)) (%s %s)) (seq 0 m)." % (HO, RK, RK, HO, HO, HWL, HO),
        "(* None = the ValueError of the dimension guard or out of fuel *)",
        "Definition gen_gs_res (fixer : Z) (fuel : nat) : option (list (Z * Z)) :=",
        "  if negb ((n =? length (nth 0 H []))%nat && (m =? length H)%nat) then None else",
        "  match gen_res_loop fuel gen_res_init with Some st_ => Some (gen_res_out fixer st_) | None => None end.",
        "End GenRes.", ""])


def translate_gs_hosp(repo):
    src = open(os.path.join(repo, "socialchoicekit", "deterministic_matching.py")).read()
    cls = _find(ast.parse(src).body, ast.ClassDef, "GaleShapley")
    scf = _find(cls.body, ast.FunctionDef, "scf")
    ps = [a.arg for a in scf.args.args]; _, RP, HP, C = ps
    b = _body(scf)
    if len(b) != 8: _fail(scf, "eight top-level statements expected in scf")
    N = re.fullmatch(r"(\w+) = %s\.shape\[0\]" % RP, U(b[0])).group(1); M = re.fullmatch(r"(\w+) = %s\.shape\[1\]" % RP, U(b[1])).group(1)
    R = re.fullmatch(r"(\w+) = %s\.view\(np\.ndarray\) - 1" % RP, U(b[3])).group(1); H = re.fullmatch(r"(\w+) = %s\.view\(np\.ndarray\) - 1" % HP, U(b[4])).group(1)
    RR = re.fullmatch(r"(\w+) = np\.argsort\(%s, axis=1\)" % R, U(b[5])).group(1); RH = re.fullmatch(r"(\w+) = np\.argsort\(%s, axis=1\)" % H, U(b[6])).group(1)
    B = list(b[7].orelse)
    if len(B) != 8: _fail(b[7], "eight statements expected in the hospital-oriented branch")
    b1, b2, b3, b4, b5, b6, b7, b8 = B
    g1 = re.fullmatch(r"(\w+) = \{\}", U(b1)); g2 = re.fullmatch(r"(\w+) = \{(\w+): -1 for \2 in range\(%s\)\}" % N, U(b2))
    g3 = re.fullmatch(r"(\w+) = np\.zeros\(%s, dtype=int\)" % M, U(b3)); g4 = re.fullmatch(r"(\w+) = np\.ones\(%s, dtype=int\)" % M, U(b4))
    if not (g1 and g2 and g3 and g4): _fail(b1, "hospital_offers = {}; resident_waiting_lists = {i: -1 ...}; hospital_accepted_offers = np.zeros(m, dtype=int); current_offerers = np.ones(m, dtype=int) expected")
    HO, RWL, HAO, CO = g1.group(1), g2.group(1), g3.group(1), g4.group(1)
    if not (isinstance(b5, ast.While) and U(b5.test) == "True" and len(b5.body) == 3 and not b5.orelse): _fail(b5, "while True: (three statements) expected")
    w1, w2, w3 = b5.body
    if U(w1) != "%s = np.where(%s == 2, 2, np.where(%s == %s, 0, 1))" % (CO, CO, C, HAO): _fail(w1, "the re-flagging of current_offerers expected")
    if U(w2) != "if np.all(%s != 1): break" % CO: _fail(w2, "if np.all(current_offerers != 1): break expected")
    if not (isinstance(w3, ast.For) and isinstance(w3.target, ast.Name) and U(w3.iter) == "range(%s)" % M and not w3.orelse): _fail(w3, "for hospital in range(m) expected")
    HS = w3.target.id
    names = dict(R=R, H=H, RR=RR, RH=RH, C=C, M=M, N=N)
    c = GsC(names, [HO, RWL, HAO, CO]); c.kind[HS] = "nat"; c.fz = {CO}; c.fzstate = {RWL, HAO, CO}
    # in this branch the dict read with .get(k, -1) is hospital_offers (state[0]); stores to it and to the arrays are fupd
    body = c.block(list(w3.body))
    g6 = re.fullmatch(r"(\w+) = \[\]", U(b6))
    if not g6: _fail(b6, "ans = [] expected")
    ANS = g6.group(1)
    if U(b8) != "return %s" % ANS: _fail(b8, "return ans expected")
    ok = isinstance(b7, ast.For) and isinstance(b7.target, ast.Name) and U(b7.iter) == "range(%s)" % N and len(b7.body) == 3
    if ok:
        RS = b7.target.id; x1, x2, x3 = b7.body
        gg = re.fullmatch(r"(\w+) = %s\.get\(%s, -1\)" % (RWL, RS), U(x1))
        ok = gg is not None
    if ok:
        HV = gg.group(1)
        ok = U(x2) == "if %s == -1: continue" % HV and U(x3) == "%s.append((%s + self.index_fixer, %s + self.index_fixer))" % (ANS, RS, HV)
    if not ok: _fail(b7, "the read-off loop over the residents expected")
    sty = "(nat -> Z) * (nat -> Z) * (nat -> Z) * (nat -> Z)"
    tup = "(%s, %s, %s, %s)" % (HO, RWL, HAO, CO)
    return "\n".join(["(* GENERATED by harness/translate.py from GaleShapley.scf, hospital-oriented branch (deterministic_matching.py). Do not edit. *)",
        "From Coq Require Import ZArith List Bool.", "Import ListNotations.", "From SCK Require Import Argsort GS2.", "From SCKGen Require Import GsResGen.", "Local Open Scope Z_scope.", "",
        "Section GenHosp.", "Variables (R H : list (list okey)) (c : list nat).", "Let n := length R.", "Let m := length (nth 0 R []).", "",
        "Definition gen_hosp_step (st_ : %s) (%s : nat) : %s :=" % (sty, HS, sty), "let '%s := st_ in" % tup, body + ".", "",
        "Fixpoint gen_hosp_loop (fuel : nat) (st_ : %s) : option (%s) :=" % (sty, sty),
        "  match fuel with O => None | S f =>", "    let '%s := st_ in" % tup,
        "    let %s := fun i_ : nat => if %s i_ =? 2 then 2 else if Z.of_nat (nth i_ c 0%%nat) =? %s i_ then 0 else 1 in" % (CO, CO, HAO),
        "    if forallb (fun i_ => negb (%s i_ =? 1)) (seq 0 m) then Some st_" % CO,
        "    else gen_hosp_loop f (fold_left gen_hosp_step (seq 0 m) %s)" % tup, "  end.",
        "Definition gen_hosp_init : %s := (fun _ => -1, fun _ => -1, fun _ => 0, fun _ => 1)." % sty,
        "Definition gen_hosp_out (fixer : Z) (st_ : %s) : list (Z * Z) :=" % sty, "  let '%s := st_ in" % tup,
        "  flat_map (fun %s : nat => let %s := %s %s in if %s =? -1 then [] else [(Z.of_nat %s + fixer, %s + fixer)]) (seq 0 n)." % (RS, HV, RWL, RS, HV, RS, HV),
        "Definition gen_gs_hosp (fixer : Z) (fuel : nat) : option (list (Z * Z)) :=",
        "  if negb ((n =? length (nth 0 H []))%nat && (m =? length H)%nat) then None else",
        "  match gen_hosp_loop fuel gen_hosp_init with Some st_ => Some (gen_hosp_out fixer st_) | None => None end.",
        "End GenHosp.", ""])

# ---- elicitation_voting.py (winner selection) and Irving's small methods ----

def translate_elicitvoting(repo):
    """elicitation_voting.py: BaseElicitationVoting.__init__ / scf (winner selection shared by lambda-PRV and k-ARV), the two rules' scf
    (score, then the shared selection) and KARV.score (column sums of the simulated profile)"""
    src = open(os.path.join(repo, "socialchoicekit", "elicitation_voting.py")).read()
    mod = ast.parse(src)
    base = _find(mod.body, ast.ClassDef, "BaseElicitationVoting")
    meths = [x.name for x in base.body if isinstance(x, ast.FunctionDef)]
    if meths != ["__init__", "scf"]: _fail(base, "__init__ and scf expected in BaseElicitationVoting")
    ib = [U(x) for x in _body(_find(base.body, ast.FunctionDef, "__init__"))]
    g = re.fullmatch(r"self\.index_fixer = (-?\d+) if zero_indexed else (-?\d+)", ib[1]) if len(ib) == 3 else None
    if not (g and ib[0] == "self.tie_breaker = tie_breaker" and ib[2] == "check_tie_breaker(self.tie_breaker)"): _fail(base, "BaseElicitationVoting.__init__ shape")
    winners, scf = tr_scf(_find(base.body, ast.FunctionDef, "scf"), True)
    for cname in ("LambdaPRV", "KARV"):
        cls = _find(mod.body, ast.ClassDef, cname)
        if [U(b) for b in cls.bases] != ["BaseElicitationVoting"]: _fail(cls, "subclass of BaseElicitationVoting expected")
        f = _find(cls.body, ast.FunctionDef, "scf")
        ps = [a.arg for a in f.args.args]
        if [U(x) for x in _body(f)] != ["score = self.score(%s, %s)" % (ps[1], ps[2]), "return super().scf(score)"]: _fail(f, "%s.scf: score, then the shared winner selection expected" % cname)
    ks = _find(_find(mod.body, ast.ClassDef, "KARV").body, ast.FunctionDef, "score")
    ps = [a.arg for a in ks.args.args]
    b = [U(x) for x in _body(ks)]
    g2 = re.fullmatch(r"(\w+) = self\.get_simulated_cardinal_profile\(%s, %s\)" % (ps[1], ps[2]), b[0]) if len(b) == 2 else None
    if not (g2 and b[1] == "return np.sum(%s, axis=0)" % g2.group(1)): _fail(ks, "KARV.score: column sums of the simulated profile expected")
    return "\n".join(["(* GENERATED by harness/translate.py from elicitation_voting.py (winner selection of lambda-PRV / k-ARV, KARV.score). Do not edit. *)",
        "From Coq Require Import ZArith QArith List Bool String.", "Import ListNotations.", "From SCK Require Import Voting GenLib.", "From SCKGen Require Import ScoringGen.", "Local Open Scope Z_scope.", "",
        "Definition gen_ev_fixer (zero_indexed : bool) : Z := if zero_indexed then (%s)%%Z else (%s)%%Z." % (g.group(1), g.group(2)),
        "Definition gen_ev_winners (score : list Q) (fixer : Z) : list Z :=", "  " + winners + ".",
        "Definition gen_ev_scf (score : list Q) (fixer : Z) (tie_breaker : string) (oracle : nat) : outcome :=",
        "  gen_break_tie (gen_ev_winners score fixer) tie_breaker true oracle.",
        "(* KARV.score: np.sum(v_tilde, axis=0) over the simulated profile with m columns *)",
        "Definition gen_karv_score (m : nat) (v_tilde : list (list Q)) : list Q := map (fun j => fold_left (fun a row => Qred (a + nth j row 0%Q)%Q) v_tilde 0%Q) (seq 0 m).", ""])


def _method(cls, name, static):
    for f in cls.body:
        if isinstance(f, ast.FunctionDef) and f.name == name:
            decs = [U(d) for d in f.decorator_list]
            if decs != (["staticmethod"] if static else []): _fail(f, "unexpected decorators %r" % decs)
            return f
    raise TErr("method %s not found" % name)

class IrvE:
    """expressions over a rotation (list of pairs), 0-based indices, the two integer valuation matrices"""
    def __init__(self, rot, r, V1, V2): self.rot, self.r, self.V1, self.V2 = rot, r, V1, V2
    def idx(self, e):      # nat index expressions: i, (i + 1) % r, (i - 1) % r
        if isinstance(e, ast.Name): return e.id
        if isinstance(e, ast.BinOp) and isinstance(e.op, ast.Mod) and is_name(e.right, self.r) and isinstance(e.left, ast.BinOp) and isinstance(e.left.left, ast.Name) and _intconst(e.left.right) == 1:
            i = e.left.left.id
            if isinstance(e.left.op, ast.Add): return "((%s + 1) mod %s)%%nat" % (i, self.r)
            if isinstance(e.left.op, ast.Sub): return "((%s + %s - 1) mod %s)%%nat" % (i, self.r, self.r)      # Python's % is non-negative: (i - 1) % r = (i + r - 1) mod r
        _fail(e, "unsupported index")
    def comp(self, e):     # rotation[idx][0 / 1]  -> nat
        if (isinstance(e, ast.Subscript) and _intconst(e.slice) in (0, 1) and isinstance(e.value, ast.Subscript) and is_name(e.value.value, self.rot)):
            return "(%s (nth %s %s (O, O)))" % ("fst" if _intconst(e.slice) == 0 else "snd", self.idx(e.value.slice), self.rot)
        if isinstance(e, ast.Name): return e.id
        _fail(e, "rotation[i][0] / rotation[i][1] expected")
    def val(self, e):      # int(V[a, b]) -> Z ;  sums and differences
        if isinstance(e, ast.Call) and is_name(e.func, "int") and len(e.args) == 1: return self.val(e.args[0])
        if isinstance(e, ast.Subscript) and isinstance(e.value, ast.Name) and e.value.id in (self.V1, self.V2) and isinstance(e.slice, ast.Tuple) and len(e.slice.elts) == 2:
            return "(vget %s %s %s)" % ("V1" if e.value.id == self.V1 else "V2", self.comp(e.slice.elts[0]), self.comp(e.slice.elts[1]))
        if isinstance(e, ast.BinOp) and isinstance(e.op, (ast.Add, ast.Sub)): return "(%s %s %s)" % (self.val(e.left), "+" if isinstance(e.op, ast.Add) else "-", self.val(e.right))
        _fail(e, "unsupported value expression")

def translate_irvsmall(repo):
    src = open(os.path.join(repo, "socialchoicekit", "deterministic_matching.py")).read()
    cls = [c for c in ast.parse(src).body if isinstance(c, ast.ClassDef) and c.name == "Irving"]
    if not cls: raise TErr("class Irving not found")
    cls = cls[0]
    out = ["(* GENERATED by harness/translate.py from Irving.rotation_weight / stable_matching_value / eliminate_rotations (deterministic_matching.py). Do not edit. *)",
           "From Coq Require Import Arith ZArith List Bool.", "Import ListNotations.", "From SCK Require Import Irving.", "Local Open Scope Z_scope.", ""]
    # ---- rotation_weight
    f = _method(cls, "rotation_weight", True); ps = [a.arg for a in f.args.args]
    if len(ps) != 3: _fail(f, "rotation_weight(rotation, v1, v2) expected")
    ROT, V1, V2 = ps; b = _body(f)
    if len(b) != 5: _fail(f, "five statements expected in rotation_weight")
    g = re.fullmatch(r"(\w+) = len\(%s\)" % ROT, U(b[0])); g2 = re.fullmatch(r"(\w+) = 0", U(b[1]))
    if not (g and g2): _fail(b[0], "r = len(rotation); ans = 0 expected")
    Rn, ANS = g.group(1), g2.group(1)
    loop = b[2]
    if not (isinstance(loop, ast.For) and isinstance(loop.target, ast.Name) and U(loop.iter) == "range(%s)" % Rn and not loop.orelse): _fail(loop, "for i in range(r) expected")
    e = IrvE(ROT, Rn, V1, V2); steps = []
    for st in loop.body:
        if not (isinstance(st, ast.AugAssign) and isinstance(st.op, ast.Add) and is_name(st.target, ANS)): _fail(st, "ans += ... expected")
        steps.append("let %s := %s + %s in" % (ANS, ANS, e.val(st.value)))
    if U(b[3]) != "%s *= -1" % ANS or U(b[4]) != "return %s" % ANS: _fail(b[3], "ans *= -1; return ans expected")
    out += ["Definition gen_rotation_weight (V1 V2 : list (list Z)) (%s : list (nat * nat)) : Z :=" % ROT, "  let %s := length %s in" % (Rn, ROT), "  let %s := 0 in" % ANS,
            "  let %s := fold_left (fun (%s : Z) (%s : nat) => %s %s) (seq 0 %s) %s in" % (ANS, ANS, loop.target.id, " ".join(steps), ANS, Rn, ANS),
            "  let %s := %s * -1 in %s." % (ANS, ANS, ANS), ""]
    # ---- stable_matching_value
    f = _method(cls, "stable_matching_value", True); ps = [a.arg for a in f.args.args]; SM, V1, V2 = ps; b = _body(f)
    if len(b) != 3 or U(b[0]) != "ans = 0" or U(b[2]) != "return ans": _fail(f, "ans = 0; loop; return ans expected")
    loop = b[1]
    if not (isinstance(loop, ast.For) and isinstance(loop.target, ast.Tuple) and len(loop.target.elts) == 2 and is_name(loop.iter, SM) and len(loop.body) == 1): _fail(loop, "for m, w in stable_matching expected")
    mn, wn = [x.id for x in loop.target.elts]; e = IrvE("_", "_", V1, V2); st = loop.body[0]
    if not (isinstance(st, ast.AugAssign) and isinstance(st.op, ast.Add) and is_name(st.target, "ans")): _fail(st, "ans += ... expected")
    out += ["Definition gen_stable_matching_value (V1 V2 : list (list Z)) (%s : list (nat * nat)) : Z :=" % SM,
            "  fold_left (fun (ans : Z) (p_ : nat * nat) => let %s := fst p_ in let %s := snd p_ in ans + %s) %s 0." % (mn, wn, e.val(st.value), SM), ""]
    # ---- eliminate_rotations
    f = _method(cls, "eliminate_rotations", False); ps = [a.arg for a in f.args.args]; _, SM, ROTS = ps; b = _body(f)
    g = re.fullmatch(r"(\w+) = list\(%s\)" % SM, U(b[0])) if len(b) == 3 else None
    if not (g and U(b[2]) == "return %s" % g.group(1)): _fail(f, "current = list(stable_matching); loop; return current expected")
    CUR = g.group(1); loop = b[1]
    if not (isinstance(loop, ast.For) and isinstance(loop.target, ast.Name) and is_name(loop.iter, ROTS) and len(loop.body) == 2): _fail(loop, "for rotation in rotations: r = len(rotation); for i in range(r) expected")
    ROT = loop.target.id; g = re.fullmatch(r"(\w+) = len\(%s\)" % ROT, U(loop.body[0]))
    inner = loop.body[1]
    if not (g and isinstance(inner, ast.For) and isinstance(inner.target, ast.Name) and U(inner.iter) == "range(%s)" % g.group(1) and len(inner.body) == 4): _fail(loop, "inner loop with four statements expected")
    Rn = g.group(1); I = inner.target.id; s1, s2, s3, s4 = inner.body
    g1 = re.fullmatch(r"(\w+) = %s\[%s\]" % (ROT, I), U(s1))
    if not g1: _fail(s1, "pair = rotation[i] expected")
    PAIR = g1.group(1)
    if not (isinstance(s2, ast.If) and U(s2.test) == "%s not in %s" % (PAIR, CUR) and len(s2.body) == 1 and isinstance(s2.body[0], ast.Raise) and not s2.orelse): _fail(s2, "if pair not in current: raise expected")
    g3 = re.fullmatch(r"(\w+) = %s\.index\(%s\)" % (CUR, PAIR), U(s3))
    if not g3: _fail(s3, "pair_index = current.index(pair) expected")
    PI = g3.group(1); e = IrvE(ROT, Rn, "_", "_")
    ok = (isinstance(s4, ast.Assign) and isinstance(s4.targets[0], ast.Subscript) and is_name(s4.targets[0].value, CUR) and is_name(s4.targets[0].slice, PI) and isinstance(s4.value, ast.Tuple) and len(s4.value.elts) == 2)
    if not ok: _fail(s4, "current[pair_index] = (.., ..) expected")
    newpair = "(%s, %s)" % (e.comp(s4.value.elts[0]), e.comp(s4.value.elts[1]))
    out += ["(* None = the ValueError 'rotation is not exposed'; `x in list` / list.index(x) are memp / the first position *)",
            "Definition gen_eliminate_rotations (%s : list (nat * nat)) (%s : list (list (nat * nat))) : option (list (nat * nat)) :=" % (SM, ROTS),
            "  fold_left (fun (cur_ : option (list (nat * nat))) (%s : list (nat * nat)) => let %s := length %s in" % (ROT, Rn, ROT),
            "    fold_left (fun (cur_ : option (list (nat * nat))) (%s : nat) => match cur_ with None => None | Some %s =>" % (I, CUR),
            "      let %s := nth %s %s (O, O) in" % (PAIR, I, ROT),
            "      if negb (memp %s %s) then None else" % (PAIR, CUR),
            "      let %s := match pindex_of %s %s with Some k_ => k_ | None => O end in" % (PI, PAIR, CUR),
            "      Some (upd %s %s %s) end) (seq 0 %s) cur_) %s (Some %s)." % (CUR, PI, newpair, Rn, ROTS, SM), ""]
    return "\n".join(out)


# ---- positivity_graph, incomplete_profile_to_complete_profile, threshold-rule bodies, closed-subset stage, validators ----

def translate_posgraph(repo):
    """bistochastic.positivity_graph: the double loop that fills the dict of neighbours (rows 0..n-1, columns n..2n-1)"""
    src = open(os.path.join(repo, "socialchoicekit", "bistochastic.py")).read()
    fn = _find(ast.parse(src).body, ast.FunctionDef, "positivity_graph")
    ps = [a.arg for a in fn.args.args]
    if len(ps) != 1: _fail(fn, "positivity_graph(X) expected")
    X = ps[0]; b = _body(fn)
    if len(b) != 4: _fail(fn, "four statements expected")
    g1 = re.fullmatch(r"(\w+) = %s\.shape\[0\]" % X, U(b[0])); g2 = re.fullmatch(r"(\w+) = dict\(\)", U(b[1]))
    if not (g1 and g2 and U(b[3]) == "return %s" % g2.group(1)): _fail(fn, "n = X.shape[0]; G_X = dict(); loops; return G_X expected")
    N, G = g1.group(1), g2.group(1); lo = b[2]
    ok = (isinstance(lo, ast.For) and isinstance(lo.target, ast.Name) and U(lo.iter) == "range(%s)" % N and len(lo.body) == 1 and isinstance(lo.body[0], ast.For))
    if ok:
        I = lo.target.id; li = lo.body[0]
        ok = isinstance(li.target, ast.Name) and U(li.iter) == "range(%s)" % N and len(li.body) == 1 and isinstance(li.body[0], ast.If) and not li.body[0].orelse
    if ok:
        J = li.target.id; cond = li.body[0]
        ok = U(cond.test) == "%s[%s, %s] > 0" % (X, I, J) and [U(s) for s in cond.body] == ["%s[%s] = %s.get(%s, []) + [%s + %s]" % (G, I, G, I, J, N), "%s[%s + %s] = %s.get(%s + %s, []) + [%s]" % (G, J, N, G, J, N, I)]
    if not ok: _fail(lo, "for i: for j: if X[i, j] > 0: G_X[i] = G_X.get(i, []) + [j + n]; G_X[j + n] = G_X.get(j + n, []) + [i] expected")
    return "\n".join(["(* GENERATED by harness/translate.py from positivity_graph (bistochastic.py, line %d). Do not edit. *)" % fn.lineno,
        "From Coq Require Import ZArith QArith List Bool.", "Import ListNotations.", "From SCK Require Import FlowModel BipModel BvN2.", "Local Open Scope Z_scope.", "",
        "(* dict insertion on an association list of neighbour lists; G.get(k, []) is BipModel.adj *)",
        "Fixpoint dsetl (G : bgraph) (k : Z) (l : list Z) : bgraph :=",
        "  match G with [] => [(k, l)] | (k0, l0) :: r => if k0 =? k then (k0, l) :: r else (k0, l0) :: dsetl r k l end.",
        "Definition gen_posgraph (%s : mat) (%s : nat) : bgraph :=" % (X, N),
        "  fold_left (fun (%s : bgraph) (%s : nat) => fold_left (fun (%s : bgraph) (%s : nat) =>" % (G, I, G, J),
        "      if posb (mget %s %s %s) then" % (X, I, J),
        "        let %s := dsetl %s (Z.of_nat %s) (adj %s (Z.of_nat %s) ++ [Z.of_nat (%s + %s)]) in" % (G, G, I, G, I, J, N),
        "        let %s := dsetl %s (Z.of_nat (%s + %s)) (adj %s (Z.of_nat (%s + %s)) ++ [Z.of_nat %s]) in %s" % (G, G, J, N, G, J, N, I, G),
        "      else %s) (seq 0 %s) %s) (seq 0 %s) []." % (G, N, G, N), ""])


def translate_complete(repo):
    """profile_utils.incomplete_profile_to_complete_profile: per row, the NaN positions (np.where(np.isnan(row))[0], ascending) receive m - k + 1 ('accept')
    or m - k + 1 .. m in the order of nan_indices (sorted: 'first'; shuffled by the sampler: 'random')"""
    src = open(os.path.join(repo, "socialchoicekit", "profile_utils.py")).read()
    fn = _find(ast.parse(src).body, ast.FunctionDef, "incomplete_profile_to_complete_profile")
    ps = [a.arg for a in fn.args.args]
    if ps != ["profile", "tie_breaker"]: _fail(fn, "(profile, tie_breaker) expected")
    b = [s for s in _body(fn)]
    want = ["check_tie_breaker(tie_breaker, include_accept=True)", "check_profile(profile, is_complete=False, is_strict=False)", "n = profile.shape[0]", "m = profile.shape[1]", "complete_profile = np.array(profile)"]
    if [U(s) for s in b[:5]] != want: _fail(fn, "validation, n, m and the working copy expected first")
    if len(b) != 8 or not isinstance(b[5], ast.For) or U(b[5].iter) != "range(n)" or not isinstance(b[5].target, ast.Name): _fail(fn, "for i in range(n) expected")
    I = b[5].target.id
    body = [U(s) for s in b[5].body]
    exp = ["nan_indices = np.where(np.isnan(profile[%s]))[0]" % I, "num_nan = len(nan_indices)",
           "if tie_breaker == 'random': np.random.shuffle(nan_indices) elif tie_breaker == 'first': nan_indices = np.sort(nan_indices)",
           "if tie_breaker == 'accept': complete_profile[%s, nan_indices] = m - num_nan + 1 else: complete_profile[%s, nan_indices] = np.arange(m - num_nan + 1, m + 1)" % (I, I)]
    if body != exp: _fail(b[5], "loop body: %r" % (body,))
    if U(b[6]) != "if tie_breaker != 'accept' and isinstance(profile, StrictProfile): return StrictCompleteProfile.of(complete_profile)" or U(b[7]) != "return CompleteProfileWithTies.of(complete_profile)":
        _fail(b[6], "the two wrapped returns expected")
    return "\n".join(["(* GENERATED by harness/translate.py from incomplete_profile_to_complete_profile (profile_utils.py, line %d). Do not edit. *)" % fn.lineno,
        "From Coq Require Import Arith ZArith QArith List Bool.", "Import ListNotations.", "From SCK Require Import ProfModel.", "",
        "Inductive ctie := CAccept | CFirst | CRandom.", 
        "Fixpoint updq (l : list oq) (i : nat) (x : oq) : list oq := match l, i with [], _ => [] | _ :: r, O => x :: r | y :: r, S j => y :: updq r j x end.",
        "Definition nan_where (row : list oq) : list nat := filter (fun j => match nth j row None with None => true | Some _ => false end) (seq 0 (length row)).      (* np.where(np.isnan(row))[0] *)",
        "Definition qnat (k : nat) : Q := inject_Z (Z.of_nat k).",
        "(* one row; `shuf` is the sampler's permutation of nan_indices ('random'), np.sort leaves the ascending positions as they are *)",
        "Definition gen_complete_row (tb : ctie) (shuf : list nat -> list nat) (row : list oq) : list oq :=",
        "  let m := length row in", "  let nan_indices := nan_where row in", "  let num_nan := length nan_indices in",
        "  let nan_indices := match tb with CRandom => shuf nan_indices | CFirst => nan_indices | CAccept => nan_indices end in",
        "  match tb with",
        "  | CAccept => fold_left (fun r j => updq r j (Some (qnat (m - num_nan + 1)))) nan_indices row",
        "  | _ => fold_left (fun r jv => updq r (fst jv) (Some (qnat (snd jv)))) (combine nan_indices (seq (m - num_nan + 1) num_nan)) row",
        "  end.",
        "Definition gen_complete (tb : ctie) (shuf : list nat -> list nat) (profile : list (list oq)) : list (list oq) := map (gen_complete_row tb shuf) profile.", ""])


def _thr_body(stmts, tag, N, M, LAM, ELI, lineno):
    """the common body of k-ARV / lambda-TSF / (one side of) the two-sided rule, from `ranked_profile = ...` to the end of the level loop.
    N, M: python names of n and of the number of columns; LAM: python text of k / lambda; ELI: python text of the elicitor"""
    it = iter(stmts)
    s = U(next(it)); g = re.fullmatch(r"(\w+) = np\.argsort\((\w+), axis=1\)\.view\(np\.ndarray\)", s)
    if not g: _fail(stmts[0], "ranked_profile = np.argsort(profile, axis=1).view(np.ndarray) expected")
    RK, PROF = g.group(1), g.group(2)
    s = U(next(it)); g = re.fullmatch(r"(\w+) = %s\.elicit_multiple\(np\.arange\(%s\), %s\[:, 0\]\)" % (re.escape(ELI), N, RK), s)
    if not g: _fail(stmts[1], "v_favorite = elicitor.elicit_multiple(np.arange(n), ranked_profile[:, 0]) expected")
    VF = g.group(1)
    bs = next(it)
    if not (isinstance(bs, ast.FunctionDef) and bs.name == "binary_search"): _fail(bs, "the inner binary_search expected")
    init = "0"
    s = U(next(it))
    if re.fullmatch(r"epsilon = 1e-05", s):
        s = U(next(it)); g = re.fullmatch(r"(\w+): np\.ndarray = %s\.view\(np\.ndarray\) \* 0 \+ epsilon" % PROF, s); init = "eps"
    else:
        g = re.fullmatch(r"(\w+) = np\.zeros\(\(%s, %s\)\)" % (N, M), s)
    if not g: _fail(stmts[3], "v_tilde = np.zeros((n, m)) or profile.view(np.ndarray) * 0 + epsilon expected")
    VT = g.group(1)
    if U(next(it)) != "%s[np.arange(%s), %s[:, 0]] = %s" % (VT, N, RK, VF): _fail(stmts[4], "v_tilde[np.arange(n), ranked_profile[:, 0]] = v_favorite expected")
    g = re.fullmatch(r"(\w+) = np\.zeros\(%s\)" % N, U(next(it)))
    if not g: _fail(stmts[5], "S_prev = np.zeros(n) expected")
    PREV = g.group(1)
    loop = next(it)
    if not (isinstance(loop, ast.For) and isinstance(loop.target, ast.Name) and U(loop.iter) == "range(1, %s + 1)" % LAM): _fail(loop, "for l in range(1, k + 1) expected")
    L = loop.target.id; lb = list(loop.body)
    g = re.fullmatch(r"(\w+) = %s \*\* \(%s / \(%s \+ 1\)\)" % (M, L, re.escape(LAM)), U(lb[0]))
    if not g: _fail(lb[0], "alpha_l = m ** (l / (k + 1)) expected")
    AL = g.group(1)
    g = re.fullmatch(r"(\w+) = np\.array\(\[binary_search\((\w+), 0, %s, %s, %s\[\2\]\) for \2 in range\(%s\)\]\)" % (M, AL, VF, N), U(lb[1]))
    if not g: _fail(lb[1], "p_star = np.array([binary_search(i, 0, m, alpha_l, v_favorite[i]) for i in range(n)]) expected")
    PS = g.group(1); k = 2; memo = None
    g = re.fullmatch(r"(\w+) = np\.array\(\[%s\.elicit\((\w+), %s\[\2, %s\[\2\]\]\) for \2 in range\(%s\)\]\)" % (re.escape(ELI), RK, PS, N), U(lb[k]))
    if g: memo = g.group(1); k += 1
    g = re.fullmatch(r"(\w+) = np\.concatenate\(\[%s\[(\w+), np\.arange\(%s\[\2\] \+ (\d+), %s\[\2\] \+ (\d+), dtype=int\)\] for \2 in range\(%s\)\]\)" % (RK, PREV, PS, N), U(lb[k]))
    if not g: _fail(lb[k], "j_indices = np.concatenate([ranked_profile[i, np.arange(S_prev[i] + a, p_star[i] + b, dtype=int)] for i in range(n)]) expected")
    JI, a, b = g.group(1), int(g.group(3)), int(g.group(4))
    g = re.fullmatch(r"(\w+) = np\.concatenate\(\[np\.ones\(int\(%s\[(\w+)\] - %s\[\2\]\), dtype=int\) \* \2 for \2 in range\(%s\)\]\)" % (PS, PREV, N), U(lb[k + 1]))
    if not g or a != b: _fail(lb[k + 1], "i_indices = np.concatenate([np.ones(int(p_star[i] - S_prev[i]), dtype=int) * i for i in range(n)]) with a matching position range expected")
    II = g.group(1)
    s = U(lb[k + 2])
    if memo and s == "%s[%s, %s] = %s[%s]" % (VT, II, JI, memo, II): val = "(nth i_ %s 0%%Q)" % memo
    elif not memo and s == "%s[%s, %s] = %s[%s] / %s" % (VT, II, JI, VF, II, AL): val = "(tauof tau i_ %s)" % L      # v_favorite[i] / alpha_l is the threshold oracle of level l
    else: _fail(lb[k + 2], "v_tilde[i_indices, j_indices] = v_favorite[i_indices] / alpha_l (or memoized_v[i_indices]) expected")
    if U(lb[k + 3]) != "%s = %s" % (PREV, PS) or len(lb) != k + 4: _fail(lb[k + 3], "S_prev = p_star expected last in the level loop")
    lo = "(nth i_ %s 0)" % PREV if a == 1 else "(nth i_ %s 0 + %d)" % (PREV, a - 1)
    hi = "(nth i_ %s 0)" % PS if b == 1 else "(nth i_ %s 0 + %d)" % (PS, b - 1)
    askm = ("          %s <- mapP (fun i_ => Ask (Z.of_nat i_, rkat (nth i_ ranked []) (nth i_ %s 0)) (fun v_ => Ret v_)) (seq 0 n) ;;\n" % (memo, PS)) if memo else ""
    rest = list(it)
    return rest, VT, "\n".join([
        "(* %s (line %d): favourites, then the level loop; tau i l stands for the float v_favorite[i] / alpha_l (threshold oracle, as in the binary search) *)" % (tag, lineno),
        "Definition gen_thr_%s (ranked : list (list Z)) (tau : list (list Q)) (eps : Q) (n : nat) (m : Z) (k : nat) : prog (list (list Q)) :=" % tag,
        "  %s <- mapP (fun i_ => Ask (Z.of_nat i_, rkat (nth i_ ranked []) 0) (fun v_ => Ret v_)) (seq 0 n) ;;" % VF,
        "  let %s := map (fun i_ : nat => repeat (%s)%%Q (Z.to_nat m)) (seq 0 n) in" % (VT, init),
        "  let %s := map (fun i_ => updz (nth i_ %s []) (Z.to_nat (rkat (nth i_ ranked []) 0)) (nth i_ %s 0%%Q)) (seq 0 n) in" % (VT, VT, VF),
        "  let %s := repeat 0 n in" % PREV,
        "  st_ <- foldP (fun (st_ : list (list Q) * list Z) (%s : nat) => let '(%s, %s) := st_ in" % (L, VT, PREV),
        "          %s <- mapP (fun i_ => gen_bsearch_%s (S (Z.to_nat m)) (nth i_ ranked []) (Z.of_nat i_) 0 m (tauof tau i_ %s)) (seq 0 n) ;;" % (PS, tag, L),
        askm + "          let %s := map (fun i_ => fill (nth i_ %s []) (nth i_ ranked []) %s %s %s) (seq 0 n) in" % (VT, VT, lo, hi, val),
        "          let %s := %s in Ret (%s, %s)) (seq 1 k) (%s, %s) ;;" % (PREV, PS, VT, PREV, VT, PREV),
        "  Ret (fst st_).", ""])

def translate_thrrules(repo):
    out = ["(* GENERATED by harness/translate.py from the bodies of KARV / LambdaTSF / DoubleLambdaTSF get_simulated_cardinal_profile(s). Do not edit. *)",
           "From Coq Require Import ZArith QArith List Bool.", "Import ListNotations.", "From SCK Require Import ElicitM ElicitRules.", "From SCKGen Require Import BsearchGen.", "Local Open Scope Z_scope.", ""]
    # k-ARV
    mod = ast.parse(open(os.path.join(repo, "socialchoicekit", "elicitation_voting.py")).read())
    f = _find(_find(mod.body, ast.ClassDef, "KARV").body, ast.FunctionDef, "get_simulated_cardinal_profile"); ps = [a.arg for a in f.args.args]; b = _body(f)
    if [U(x) for x in b[:3]] != ["if self.k > %s.shape[1]: raise ValueError('Invalid k')" % ps[1], "n = %s.shape[0]" % ps[1], "m = %s.shape[1]" % ps[1]]: _fail(f, "KARV: guard, n, m expected first")
    rest, VT, txt = _thr_body(b[3:], "KARV", "n", "m", "self.k", ps[2], f.lineno)
    if [U(x) for x in rest] != ["return CompleteValuationProfile.of(%s)" % VT]: _fail(f, "KARV: return CompleteValuationProfile.of(v_tilde) expected")
    out.append(txt)
    # lambda-TSF
    mod = ast.parse(open(os.path.join(repo, "socialchoicekit", "elicitation_allocation.py")).read())
    f = _find(_find(mod.body, ast.ClassDef, "LambdaTSF").body, ast.FunctionDef, "get_simulated_cardinal_profile"); ps = [a.arg for a in f.args.args]; b = _body(f)
    want = ["n = %s.shape[0]" % ps[1], "m = %s.shape[1]" % ps[1], "if self.lambda_ > m: raise ValueError('Invalid lambda')", "if not isinstance(%s, StrictProfile): raise ValueError('Profile must be a StrictProfile for now')" % ps[1]]
    if [U(x) for x in b[:4]] != want: _fail(f, "LambdaTSF: n, m and the two guards expected first")
    rest, VT, txt = _thr_body(b[4:], "TSF", "n", "m", "self.lambda_", ps[2], f.lineno)
    if [U(x) for x in rest] != ["return IncompleteValuationProfile.of(%s)" % VT]: _fail(f, "LambdaTSF: return IncompleteValuationProfile.of(v_tilde) expected")
    out.append(txt)
    # two-sided rule: the same body for k = 0, 1 over (profile_k, lambda_k, elicitor_k)
    mod = ast.parse(open(os.path.join(repo, "socialchoicekit", "elicitation_matching.py")).read())
    f = _find(_find(mod.body, ast.ClassDef, "DoubleLambdaTSF").body, ast.FunctionDef, "get_simulated_cardinal_profiles"); ps = [a.arg for a in f.args.args]; b = _body(f)
    want = ["n = %s.shape[0]" % ps[1], "assert %s.shape == (n, n)" % ps[1], "assert %s.shape == (n, n)" % ps[2], "profiles = [%s, %s]" % (ps[1], ps[2]), "lambdas = [self.lambda_1, self.lambda_2]",
            "elicitors = [%s, %s]" % (ps[3], ps[4]), "v_tildes = []", "if lambdas[0] > n or lambdas[1] > n: raise ValueError('Invalid lambda')"]
    if [U(x) for x in b[:8]] != want: _fail(f, "DoubleLambdaTSF: preamble expected")
    lp = b[8]
    if not (isinstance(lp, ast.For) and U(lp.target) == "(k, profile)" and U(lp.iter) == "enumerate(profiles)"): _fail(lp, "for k, profile in enumerate(profiles) expected")
    rest, VT, txt = _thr_body(list(lp.body), "Double", "n", "n", "lambdas[k]", "elicitors[k]", f.lineno)
    if [U(x) for x in rest] != ["v_tildes.append(%s.astype(int))" % VT]: _fail(lp, "v_tildes.append(v_tilde.astype(int)) expected last in the side loop")
    if [U(x) for x in b[9:]] != ["return (IntegerValuationProfile.of(v_tildes[0]), IntegerValuationProfile.of(v_tildes[1]))"]: _fail(f, "return of the two integer profiles expected")
    out.append(txt)
    return "\n".join(out)


def translate_mwcs(repo):
    """Irving.find_maximum_weight_closed_subset: the min-cut network built key by key in a dict, the seed (positive rotations outside the cut) and
    the closure loop. Python sets are written as duplicate-free lists (add = cons when absent); the rotation weights are an input (list ws);
    the dict P_prime has the keys 0..len-1 in this order (it is built that way by construct_sparse_rotation_poset_graph)."""
    src = open(os.path.join(repo, "socialchoicekit", "deterministic_matching.py")).read()
    cls = [c for c in ast.parse(src).body if isinstance(c, ast.ClassDef) and c.name == "Irving"][0]
    fn = [f for f in cls.body if isinstance(f, ast.FunctionDef) and f.name == "find_maximum_weight_closed_subset"][0]
    if fn.decorator_list: _fail(fn, "decorated")
    ps = [a.arg for a in fn.args.args]
    if len(ps) != 5: _fail(fn, "(self, P_prime, rotations, v1, v2) expected")
    _, PP, ROTS, V1, V2 = ps
    b = _body(fn)
    if len(b) != 9: _fail(fn, "nine statements expected")
    g1 = re.fullmatch(r"(\w+): Dict\[int, List\[Tuple\[int, int\]\]\] = \{-1: \[\], -2: \[\]\}", U(b[0])) or re.fullmatch(r"(\w+) = \{-1: \[\], -2: \[\]\}", U(b[0]))
    g2 = re.fullmatch(r"(\w+) = set\(\)", U(b[1]))
    if not (g1 and g2): _fail(b[0], "network = {-1: [], -2: []}; temp = set() expected")
    NET, TEMP = g1.group(1), g2.group(1)
    lp = b[2]
    if not (isinstance(lp, ast.For) and isinstance(lp.target, ast.Name) and U(lp.iter) == PP and len(lp.body) == 3): _fail(lp, "for pi in P_prime: (three statements) expected")
    PI = lp.target.id
    g = re.fullmatch(r"%s\[%s\] = \[\((\w+), sys\.maxsize\) for \1 in %s\[%s\]\]" % (NET, PI, PP, PI), U(lp.body[0]))
    if not g: _fail(lp.body[0], "network[pi] = [(rho, sys.maxsize) for rho in P_prime[pi]] expected")
    gw = re.fullmatch(r"(\w+) = self\.rotation_weight\(%s\[%s\], %s, %s\)" % (ROTS, PI, V1, V2), U(lp.body[1]))
    if not gw: _fail(lp.body[1], "w = self.rotation_weight(rotations[pi], v1, v2) expected")
    W = gw.group(1); cond = lp.body[2]
    ok = (isinstance(cond, ast.If) and U(cond.test) == "%s > 0" % W and [U(x) for x in cond.body] == ["%s[%s].append((-2, int(%s)))" % (NET, PI, W), "%s.add(%s)" % (TEMP, PI)]
          and len(cond.orelse) == 1 and isinstance(cond.orelse[0], ast.If) and U(cond.orelse[0].test) == "%s < 0" % W and not cond.orelse[0].orelse
          and [U(x) for x in cond.orelse[0].body] == ["%s[-1].append((%s, int(-%s)))" % (NET, PI, W)])
    if not ok: _fail(cond, "if w > 0: network[pi].append((-2, int(w))); temp.add(pi) elif w < 0: network[-1].append((pi, int(-w))) expected")
    g = re.fullmatch(r"\(?_, (\w+)\)? = ford_fulkerson\(%s, -1, -2\)" % NET, U(b[3]))
    if not g: _fail(b[3], "_, min_cut = ford_fulkerson(network, -1, -2) expected")
    CUT = g.group(1)
    if U(b[4]) != "%s.remove(-1)" % CUT: _fail(b[4], "min_cut.remove(-1) expected")
    g = re.fullmatch(r"(\w+) = set\(\)", U(b[5]))
    if not g: _fail(b[5], "maximum_weight_closed_subset = set() expected")
    CS = g.group(1); sl = b[6]
    ok = (isinstance(sl, ast.For) and isinstance(sl.target, ast.Name) and U(sl.iter) == TEMP and len(sl.body) == 1 and isinstance(sl.body[0], ast.If) and not sl.body[0].orelse
          and U(sl.body[0].test) == "%s not in %s" % (sl.target.id, CUT) and [U(x) for x in sl.body[0].body] == ["%s.add(%s)" % (CS, sl.target.id)])
    if not ok: _fail(sl, "for x in temp: if x not in min_cut: closed.add(x) expected")
    wl = b[7]
    ok = isinstance(wl, ast.While) and U(wl.test) == "True" and len(wl.body) == 3
    if ok:
        g = re.fullmatch(r"(\w+) = False", U(wl.body[0])); fl = wl.body[1]
        ok = g is not None and isinstance(fl, ast.For) and isinstance(fl.target, ast.Name) and U(fl.iter) == "%s.keys()" % PP and len(fl.body) == 2
    if ok:
        FLAG = g.group(1); RHO = fl.target.id
        ok = (U(fl.body[0]) == "if %s in %s: continue" % (RHO, CS)
              and U(fl.body[1]) == "if len(set(%s[%s]).intersection(%s)) > 0: %s.add(%s) %s = True" % (PP, RHO, CS, CS, RHO, FLAG)
              and U(wl.body[2]) == "if not %s: break" % FLAG)
    if not ok: _fail(wl, "the closure loop (while True: flag = False; for rho in P_prime.keys(): ...; if not flag: break) expected")
    if U(b[8]) != "return %s" % CS: _fail(b[8], "return closed subset expected")
    return "\n".join(["(* GENERATED by harness/translate.py from Irving.find_maximum_weight_closed_subset (deterministic_matching.py, line %d). Do not edit. *)" % fn.lineno,
        "From Coq Require Import ZArith List Bool.", "Import ListNotations.", "From SCK Require Import FlowModel Mwcs.", "Local Open Scope Z_scope.", "",
        "(* dict insertion on an association list (value of an existing key replaced in place, a new key appended) *)",
        "Fixpoint dsetg (G : graph) (k : Z) (a : adjl) : graph :=",
        "  match G with [] => [(k, a)] | (k0, a0) :: r => if k0 =? k then (k0, a) :: r else (k0, a0) :: dsetg r k a end.",
        "(* the network and the set of positive rotations; P lists the successors of rotation pi at position pi, ws its weight *)",
        "Definition gen_mw_build (P : list (list nat)) (ws : list Z) : graph * list nat :=",
        "  fold_left (fun (st_ : graph * list nat) (%s : nat) => let '(%s, %s) := st_ in" % (PI, NET, TEMP),
        "      let %s := dsetg %s (Z.of_nat %s) (map (fun rho_ : nat => (Z.of_nat rho_, maxsize)) (nthl P %s)) in" % (NET, NET, PI, PI),
        "      let %s := wt ws %s in" % (W, PI),
        "      if %s >? 0 then (dsetg %s (Z.of_nat %s) (lookup %s (Z.of_nat %s) ++ [(-2, %s)]), %s ++ [%s])" % (W, NET, PI, NET, PI, W, TEMP, PI),
        "      else if %s <? 0 then (dsetg %s (-1) (lookup %s (-1) ++ [(Z.of_nat %s, - %s)]), %s)" % (W, NET, NET, PI, W, TEMP),
        "      else (%s, %s)) (seq 0 (length P)) ([(-1, []); (-2, [])], [])." % (NET, TEMP),
        "(* one sweep of the closure loop: (set, flag) *)",
        "Definition gen_mw_sweep (P : list (list nat)) (st_ : list nat * bool) : list nat * bool :=",
        "  fold_left (fun (st_ : list nat * bool) (%s : nat) => let '(%s, %s) := st_ in" % (RHO, CS, FLAG),
        "      if memn %s %s then (%s, %s) else" % (RHO, CS, CS, FLAG),
        "      if existsb (fun x_ => memn x_ %s) (nthl P %s) then (%s :: %s, true) else (%s, %s)) (seq 0 (length P)) st_." % (CS, RHO, RHO, CS, CS, FLAG),
        "Fixpoint gen_mw_close (fuel : nat) (P : list (list nat)) (%s : list nat) : list nat :=" % CS,
        "  match fuel with O => %s | S f_ => let '(cs_, flag_) := gen_mw_sweep P (%s, false) in if negb flag_ then cs_ else gen_mw_close f_ P cs_ end." % (CS, CS),
        "(* None = the max-flow model ran out of fuel; the closure loop gets |P| + 1 sweeps *)",
        "Definition gen_mwcs (fuel : nat) (P : list (list nat)) (ws : list Z) : option (list nat) :=",
        "  let '(%s, %s) := gen_mw_build P ws in" % (NET, TEMP),
        "  match ford_fulkerson fuel %s (-1) (-2) with" % NET, "  | None => None",
        "  | Some (_, %s) =>" % CUT, "    let %s := removeZ (-1) %s in" % (CUT, CUT),
        "    let %s := filter (fun x_ => negb (memZ (Z.of_nat x_) %s)) %s in" % (CS, CUT, TEMP),
        "    Some (gen_mw_close (S (length P)) P %s)" % CS, "  end.", ""])


def translate_validators(repo):
    """utils.py: check_profile, check_valuation_profile, check_square_matrix, check_graph, check_bipartite_graph, check_tie_breaker as boolean functions
    (true = returns normally, false = raises ValueError). Arrays are given by their rows (None = NaN); the isinstance / ndim tests hold for every array the
    harness hands over and are read as true."""
    src = open(os.path.join(repo, "socialchoicekit", "utils.py")).read()
    mod = ast.parse(src)
    def body(name): 
        f = _find(mod.body, ast.FunctionDef, name); return f, [U(s) for s in _body(f)]
    out = ["(* GENERATED by harness/translate.py from the validators of utils.py. Do not edit. *)", "From Coq Require Import ZArith QArith List Bool String.", "Import ListNotations.",
           "From SCK Require Import FlowModel BipModel.", "",
           "Definition oq := option Q.",
           "Definition hasnan (P : list (list oq)) : bool := existsb (existsb (fun x : oq => match x with None => true | Some _ => false end)) P.      (* np.isnan(np.sum(P)) *)",
           "Definition qvals (P : list (list oq)) : list Q := flat_map (fun row => flat_map (fun x : oq => match x with Some q => [q] | None => [] end) row) P.",
           "Definition qmin (l : list Q) : option Q := match l with [] => None | x :: r => Some (fold_left (fun a b => if Qle_bool b a then b else a) r x) end.      (* np.nanmin; None = NaN (no number at all) *)",
           "Definition qmax (l : list Q) : option Q := match l with [] => None | x :: r => Some (fold_left (fun a b => if Qle_bool a b then b else a) r x) end.",
           "Definition oqeq (a : option Q) (b : Q) : bool := match a with Some x => Qeq_bool x b | None => false end.", ""]
    f, b = body("check_profile"); P, C, S = [a.arg for a in f.args.args]
    want = ["if isinstance(%s, np.ndarray): if np.ndim(%s) == 2: if %s and np.isnan(np.sum(%s)): raise ValueError('Profile cannot contain NaN values') if np.nanmin(%s) == 1: if not %s or not %s or np.nanmax(%s) == %s.shape[1]: return raise ValueError('Profile must contain exactly integers from 1 to M') raise ValueError('Profile must be a two-dimensional array')" % (P, P, C, P, P, C, S, P, P),
            "raise ValueError('Profile is not in a recognized data format')"]
    if b != want: _fail(f, "check_profile shape: %r" % (b,))
    out += ["Definition gen_check_profile (m : nat) (%s : list (list oq)) (%s %s : bool) : bool :=" % (P, C, S),
            "  if %s && hasnan %s then false else" % (C, P),
            "  if oqeq (qmin (qvals %s)) 1 then (if negb %s || negb %s || oqeq (qmax (qvals %s)) (inject_Z (Z.of_nat m)) then true else false) else false." % (P, C, S, P), ""]
    f, b = body("check_valuation_profile"); P, C = [a.arg for a in f.args.args]
    want = ["if isinstance(%s, np.ndarray): if np.ndim(%s) == 2: if %s and np.isnan(np.sum(%s)): raise ValueError('Valuation profile cannot contain NaN values') return raise ValueError('Profile must be a two-dimensional array')" % (P, P, C, P),
            "raise ValueError('Profile is not in a recognized data format')"]
    if b != want: _fail(f, "check_valuation_profile shape: %r" % (b,))
    out += ["Definition gen_check_valuation_profile (%s : list (list oq)) (%s : bool) : bool := if %s && hasnan %s then false else true." % (P, C, C, P), ""]
    f, b = body("check_square_matrix"); M = f.args.args[0].arg
    want = ["if isinstance(%s, np.ndarray): if np.ndim(%s) == 2: if %s.shape[0] == %s.shape[1]: return raise ValueError('Matrix must be square') raise ValueError('Matrix must be a two-dimensional array')" % (M, M, M, M),
            "raise ValueError('Matrix is not in a recognized data format')"]
    if b != want: _fail(f, "check_square_matrix shape: %r" % (b,))
    out += ["Definition gen_check_square_matrix (rows cols : nat) : bool := (rows =? cols)%nat.", ""]
    f, b = body("check_tie_breaker"); T, I = [a.arg for a in f.args.args]
    want = ["if %s in ['random', 'first']: return" % T, "if %s and %s in ['accept']: return" % (I, T), "raise ValueError('Tie breaker is not recognized')"]
    if b != want: _fail(f, "check_tie_breaker shape: %r" % (b,))
    out += ["Definition gen_check_tie_breaker (%s : string) (%s : bool) : bool :=" % (T, I),
            "  if existsb (String.eqb %s) [\"random\"%%string; \"first\"%%string] then true else if %s && existsb (String.eqb %s) [\"accept\"%%string] then true else false." % (T, I, T), ""]
    f, b = body("check_graph"); G = f.args.args[0].arg
    want = ["if isinstance(%s, dict): if all((isinstance(i, int) for i in %s.keys())): if all((isinstance(i, list) for i in %s.values())): for l in %s.values(): if all([i in %s.keys() for i in l]): return raise ValueError('Vertices can only be linked to other vertices') raise ValueError('Graph must contain lists as values') raise ValueError('Graph must contain integers as keys')" % (G, G, G, G, G),
            "raise ValueError('Graph is not in a recognized data format')"]
    if b != want: _fail(f, "check_graph shape: %r" % (b,))
    out += ["(* only the FIRST value of the dict is inspected (the loop returns or raises in its first iteration); an empty dict falls through to a raise *)",
            "Definition gen_check_graph (%s : bgraph) : bool :=" % G,
            "  match %s with [] => false | (_, l) :: _ => forallb (fun i => memZ i (map fst %s)) l end." % (G, G), ""]
    f, b = body("check_bipartite_graph"); G, X, Y = [a.arg for a in f.args.args]
    want = ["check_graph(%s)" % G,
            "if set(%s + %s) == set(%s.keys()): for e in %s: if e in %s: raise ValueError('Graph is not bipartite') if all([y in %s for y in %s[e]]): return raise ValueError('Graph is not bipartite') for e in %s: if all([x in %s for x in %s[e]]): return raise ValueError('Graph is not bipartite')" % (X, Y, G, X, Y, Y, G, Y, X, G),
            "raise ValueError('Supplied X and/or Y are not consistent with the keys of the dictionary')"]
    if b != want: _fail(f, "check_bipartite_graph shape: %r" % (b,))
    out += ["Definition same_set (a b : list Z) : bool := forallb (fun x => memZ x b) a && forallb (fun x => memZ x a) b.",
            "(* again only the first vertex of X (or, if X is empty, of Y) is inspected *)",
            "Definition gen_check_bipartite_graph (%s : bgraph) (%s %s : list Z) : bool :=" % (G, X, Y),
            "  if negb (gen_check_graph %s) then false else" % G,
            "  if same_set (%s ++ %s) (map fst %s) then" % (X, Y, G),
            "    match %s with" % X,
            "    | e :: _ => if memZ e %s then false else forallb (fun y => memZ y %s) (adj %s e)" % (Y, Y, G),
            "    | [] => match %s with e :: _ => forallb (fun x => memZ x %s) (adj %s e) | [] => false end" % (Y, X, G),
            "    end", "  else false.", ""]
    return "\n".join(out)


def translate_eatscf(repo):
    """randomized_allocation.py: SimultaneousEating.__init__ / scf (eating matrix -> Birkhoff-von Neumann terms -> one term drawn with probability
    proportional to its coefficient -> the item of every agent) and the three delegating methods of ProbabilisticSerial (unit speeds)"""
    src = open(os.path.join(repo, "socialchoicekit", "randomized_allocation.py")).read()
    mod = ast.parse(src)
    se = _find(mod.body, ast.ClassDef, "SimultaneousEating"); ps = _find(mod.body, ast.ClassDef, "ProbabilisticSerial")
    if [x.name for x in se.body if isinstance(x, ast.FunctionDef)] != ["__init__", "bistochastic", "scf"]: _fail(se, "__init__, bistochastic, scf expected in SimultaneousEating")
    ib = [U(x) for x in _body(_find(se.body, ast.FunctionDef, "__init__"))]
    g = re.fullmatch(r"self\.index_fixer = (-?\d+) if zero_indexed else (-?\d+)", ib[0]) if len(ib) == 1 else None
    if not g: _fail(se, "SimultaneousEating.__init__ shape")
    f = _find(se.body, ast.FunctionDef, "scf"); a = [x.arg for x in f.args.args]
    want = ["bistochastic = self.bistochastic(%s, %s)" % (a[1], a[2]), "decomposition = birkhoff_von_neumann(bistochastic)", "permutation_probabilities = [p for p, _ in decomposition]",
            "probabilities = np.array(permutation_probabilities) / np.sum(permutation_probabilities)",
            "chosen_permutation = decomposition[np.random.choice(len(permutation_probabilities), p=probabilities)][1]",
            "return np.argmax(chosen_permutation, axis=1) + self.index_fixer"]
    got = [U(x).replace("(p, _)", "p, _") for x in _body(f)]
    if got != want: _fail(f, "SimultaneousEating.scf shape: %r" % (got,))
    if [x.name for x in ps.body if isinstance(x, ast.FunctionDef)] != ["__init__", "bistochastic", "scf"]: _fail(ps, "__init__, bistochastic, scf expected in ProbabilisticSerial")
    want = {"__init__": ["self.simultaneous_eating = SimultaneousEating(zero_indexed=zero_indexed)"],
            "bistochastic": ["return self.simultaneous_eating.bistochastic(profile, np.ones(profile.shape[0]))"],
            "scf": ["return self.simultaneous_eating.scf(profile, np.ones(profile.shape[0]))"]}
    for name, w in want.items():
        if [U(x) for x in _body(_find(ps.body, ast.FunctionDef, name))] != w: _fail(ps, "ProbabilisticSerial.%s shape" % name)
    return "\n".join(["(* GENERATED by harness/translate.py from SimultaneousEating.scf / ProbabilisticSerial (randomized_allocation.py). Do not edit. *)",
        "From Coq Require Import ZArith QArith List Bool.", "Import ListNotations.", "From SCK Require Import FlowModel.", "",
        "Definition gen_eat_fixer (zero_indexed : bool) : Z := if zero_indexed then (%s)%%Z else (%s)%%Z." % (g.group(1), g.group(2)),
        "(* the probability vector handed to the sampler: coefficient / sum of coefficients *)",
        "Definition gen_eat_probabilities (decomposition : list (Q * list (Z * Z))) : list Q :=",
        "  let permutation_probabilities := map fst decomposition in let tot := fold_left (fun a x => Qred (a + x)) permutation_probabilities 0%Q in map (fun p => Qred (p / tot)) permutation_probabilities.",
        "(* scf: bist = the eating matrix (None = the model ran out of fuel), bvn = the decomposition routine, draw = the sampler's index; a term is the matching",
        "   {(i, j + n)} of its permutation matrix, np.argmax of row i of that matrix is the j with (i, j + n) in the term *)",
        "Definition gen_eat_term (bist : option (list (list Q))) (bvn : list (list Q) -> option (list (Q * list (Z * Z)))) (draw : nat) : option (list (Z * Z)) :=",
        "  match bist with None => None | Some bistochastic => match bvn bistochastic with None => None | Some decomposition => option_map snd (nth_error decomposition draw) end end.",
        "Definition gen_eat_alloc (fixer : Z) (n : nat) (term : list (Z * Z)) : list Z :=",
        "  map (fun i : nat => (match find (fun p : Z * Z => (fst p =? Z.of_nat i)%Z) term with Some p => snd p - Z.of_nat n | None => 0 end + fixer)%Z) (seq 0 n).",
        "(* ProbabilisticSerial: the same with unit speeds *)",
        "Definition gen_ps_speeds (n : nat) : list Q := repeat 1%Q n.", ""])

# ---------------------------------------------------------------------------------------------------------------
# SimultaneousEating.bistochastic: the eating loop (numpy vector expressions compiled pointwise)

def _q(x):
    f = Fraction(x)
    return "(%d # %d)" % (f.numerator, f.denominator) if f.denominator != 1 else "(%d # 1)" % f.numerator

def _const_float(e):
    """a constant float expression of the source (literals, + - * /), evaluated in binary64 as Python does"""
    if isinstance(e, ast.Constant) and isinstance(e.value, (int, float)) and not isinstance(e.value, bool): return float(e.value)
    if isinstance(e, ast.BinOp) and isinstance(e.op, (ast.Add, ast.Sub, ast.Mult, ast.Div)):
        a, b = _const_float(e.left), _const_float(e.right)
        if a is None or b is None: return None
        return {ast.Add: a + b, ast.Sub: a - b, ast.Mult: a * b}[type(e.op)] if not isinstance(e.op, ast.Div) else a / b
    return None

class EatC:
    """env: name -> type. Types: 'voq' vector of option Q (float array that may hold NaN), 'von' vector of option nat (float array holding positions or
    item numbers, NaN = none), 'vq' vector of Q (never NaN), 'fq' function nat -> Q (the speeds argument), 'q' scalar Q, 'oq' scalar option Q, 'n' the size"""
    def __init__(self, nvar, ranked, speeds):
        self.env = {nvar: "n", speeds: "fq"}; self.n = nvar; self.ranked = ranked; self.speeds = speeds

    # ---- element of a vector expression at index variable ix; returns (coq, type) with type in {'oq', 'on', 'b'}
    def el(self, e, ix):
        if isinstance(e, ast.Name):
            t = self.env.get(e.id)
            if t == "voq": return "(nth %s %s None)" % (ix, e.id), "oq"
            if t == "von": return "(nth %s %s None)" % (ix, e.id), "on"
            if t == "vq": return "(Some (nth %s %s 0))" % (ix, e.id), "oq"
            if t == "fq": return "(Some (%s %s))" % (e.id, ix), "oq"
            if t == "q": return "(Some %s)" % e.id, "oq"          # scalar broadcast
            _fail(e, "unknown name in a vector expression")
        if isinstance(e, ast.Constant) and isinstance(e.value, (int, float)) and not isinstance(e.value, bool):
            return "(Some %s)" % _q(e.value), "oq"
        if _is_np(e, "nan"): return "None", "nan"
        if isinstance(e, ast.Call) and _is_np(e.func, "ones") and len(e.args) == 1 and is_name(e.args[0], self.n) and not e.keywords:
            return "(Some (1 # 1))", "oq"
        if isinstance(e, ast.BinOp) and isinstance(e.op, (ast.Add, ast.Sub, ast.Mult, ast.Div)):
            a, ta = self.el(e.left, ix); b, tb = self.el(e.right, ix)
            if ta != "oq" or tb != "oq": _fail(e, "arithmetic on non-real vectors")
            return "(%s %s %s)" % ({ast.Add: "oadd", ast.Sub: "osub", ast.Mult: "omul", ast.Div: "odiv"}[type(e.op)], a, b), "oq"
        if isinstance(e, ast.Call) and _is_np(e.func, "isnan") and len(e.args) == 1 and not e.keywords:
            a, ta = self.el(e.args[0], ix)
            if ta not in ("oq", "on"): _fail(e, "isnan of what")
            return "(isnan %s)" % a, "b"
        if isinstance(e, ast.UnaryOp) and isinstance(e.op, ast.Invert):
            a, ta = self.el(e.operand, ix)
            if ta != "b": _fail(e, "~ of a non-boolean vector")
            return "(negb %s)" % a, "b"
        if isinstance(e, ast.Compare) and len(e.ops) == 1:
            l, r = e.left, e.comparators[0]; kr = _const_float(r); kl = _const_float(l)
            a, ta = self.el(l, ix); b, tb = self.el(r, ix)
            if ta == "oq" and tb == "oq" and type(e.ops[0]) in (ast.Gt, ast.Lt, ast.LtE, ast.GtE):
                # comparisons with NaN are False
                if kr is not None: b = "(Some %s)" % _q(kr)      # constant folded in binary64, as Python evaluates it
                if kl is not None: a = "(Some %s)" % _q(kl)
                op = {ast.Gt: "ogtq", ast.Lt: "oltq", ast.LtE: "oleq", ast.GtE: "ogeq"}[type(e.ops[0])]
                return "(%s %s %s)" % (op, a, b), "b"
            _fail(e, "comparison")
        if isinstance(e, ast.Call) and _is_np(e.func, "where") and len(e.args) == 3 and not e.keywords:
            c, tc = self.el(e.args[0], ix); a, ta = self.el(e.args[1], ix); b, tb = self.el(e.args[2], ix)
            if tc != "b": _fail(e, "np.where condition")
            def isint(x): return isinstance(x, ast.Constant) and isinstance(x.value, int) and not isinstance(x.value, bool) and x.value >= 0
            if ta == "on" and isint(e.args[2]): b, tb = "(Some %d%%nat)" % e.args[2].value, "on"      # an integer among positions is a position
            if tb == "on" and isint(e.args[1]): a, ta = "(Some %d%%nat)" % e.args[1].value, "on"
            ts = {ta, tb} - {"nan"}
            if len(ts) != 1: _fail(e, "np.where branches of different kinds")
            t = ts.pop()
            return "(if %s then %s else %s)" % (c, a, b), t
        if isinstance(e, ast.Subscript) and is_name(e.value, self.ranked) and isinstance(e.slice, ast.Tuple) and len(e.slice.elts) == 2:
            # ranked_items[np.arange(n), IDX.astype(int)]  ->  element i is ranked_items i (IDX_i)
            r0, r1 = e.slice.elts
            if U(r0) != "np.arange(%s)" % self.n: _fail(e, "row index of ranked_items")
            if not (isinstance(r1, ast.Call) and isinstance(r1.func, ast.Attribute) and r1.func.attr == "astype" and U(r1.args[0]) == "int" and len(r1.args) == 1): _fail(e, "column index must be .astype(int)")
            a, ta = self.el(r1.func.value, ix)
            if ta != "on": _fail(e, "column index of ranked_items is not a position vector")
            return "(Some (%s %s (oget0 %s)))" % (self.ranked, ix, a), "on"
        _fail(e, "vector expression not understood")

    def el_pos(self, e, ix):
        """np.where(c, 0, position_vector): the literal 0 among positions is the position 0"""
        return self.el(e, ix)

def _fix_where_zero(s):
    return s

def translate_eatloop(repo):
    src = open(os.path.join(repo, "socialchoicekit", "randomized_allocation.py")).read()
    mod = ast.parse(src)
    se = _find(mod.body, ast.ClassDef, "SimultaneousEating")
    f = _find(se.body, ast.FunctionDef, "bistochastic")
    args = [a.arg for a in f.args.args]
    if len(args) != 3 or f.args.defaults or f.args.vararg or f.args.kwarg or f.args.kwonlyargs: _fail(f, "signature (self, profile, speeds) expected")
    PROF, SP = args[1], args[2]
    body = _body(f)
    if len(body) != 8: _fail(f, "8 statements expected (6 initialisations, the loop, the return), got %d" % len(body))
    init = [U(x) for x in body[:6]]
    g = re.fullmatch(r"(\w+) = %s\.shape\[0\]" % PROF, init[0])
    if not g: _fail(body[0], "n = profile.shape[0] expected")
    N = g.group(1)
    g = re.fullmatch(r"(\w+) = np\.argsort\(%s, axis=1\)\.view\(np\.ndarray\)" % PROF, init[1])
    if not g: _fail(body[1], "ranked_items = np.argsort(profile, axis=1).view(np.ndarray) expected")
    RK = g.group(1)
    def ini(i, pat):
        g = re.fullmatch(r"(\w+) = " + pat, init[i])
        if not g: _fail(body[i], "initialisation %s expected" % pat)
        return g.group(1)
    POS = ini(2, r"np\.zeros\(%s\)" % N); REM = ini(3, r"np\.ones\(%s\)" % N); EATEN = ini(4, r"np\.zeros\(%s\)" % N); BIS = ini(5, r"np\.zeros\(\(%s, %s\)\)" % (N, N))
    if len({N, RK, POS, REM, EATEN, BIS, PROF, SP, "self"}) != 9: _fail(f, "names must be pairwise distinct")
    loop = body[6]
    if not (isinstance(loop, ast.While) and isinstance(loop.test, ast.Constant) and loop.test.value is True and not loop.orelse): _fail(loop, "while True expected")
    if U(body[7]) != "return %s" % BIS: _fail(body[7], "return of the matrix expected")
    C = EatC(N, RK, SP); C.env.update({POS: "von", REM: "voq", EATEN: "voq"})
    L = list(loop.body)
    if len(L) != 18: _fail(loop, "18 statements expected in the loop body, got %d" % len(L))
    out = []; defs = []; used = {}
    TY = {N: "nat", RK: "nat -> nat -> nat", SP: "nat -> Q", POS: "list (option nat)", REM: "list (option Q)", EATEN: "list (option Q)", BIS: "list (list Q)"}
    def let(V, ty, body):
        """one Definition per statement: gen_eat_<V>[_k] over the names its body mentions, and a let in the step"""
        TY[V] = ty
        k = used.get(V, 0) + 1; used[V] = k
        name = "gen_eat_set_%s" % V if k == 1 and V not in (REM, EATEN) else "gen_eat_set_%s_%d" % (V, k)
        fv = [x for x in TY if re.search(r"(?<![\w'])%s(?![\w'])" % re.escape(x), body)]
        defs.append("Definition %s %s : %s :=\n  %s." % (name, " ".join("(%s : %s)" % (x, TY[x]) for x in fv), ty, body))
        out.append("let %s := %s %s in" % (V, name, " ".join(fv)))
    # (0) exit test: if np.all(A) or np.all(B): break
    s = L[0]
    if not (isinstance(s, ast.If) and not s.orelse and len(s.body) == 1 and isinstance(s.body[0], ast.Break) and isinstance(s.test, ast.BoolOp) and isinstance(s.test.op, ast.Or) and len(s.test.values) == 2):
        _fail(s, "if np.all(..) or np.all(..): break expected")
    fin = []
    for v in s.test.values:
        if not (isinstance(v, ast.Call) and _is_np(v.func, "all") and len(v.args) == 1 and not v.keywords): _fail(v, "np.all expected")
        c, t = C.el(v.args[0], "i")
        if t != "b": _fail(v, "np.all of a non-boolean vector")
        fin.append("forallb (fun i => %s) (seq 0 %s)" % (c, N))
    fin_def = "  (%s) || (%s)" % (fin[0], fin[1])
    # helpers
    def assign(s, name=None):
        if not (isinstance(s, ast.Assign) and len(s.targets) == 1 and isinstance(s.targets[0], ast.Name)): _fail(s, "assignment to a name expected")
        if name is not None and s.targets[0].id != name: _fail(s, "assignment to %s expected" % name)
        return s.targets[0].id, s.value
    # (1) current_item
    CUR, e = assign(L[1]); c, t = C.el(e, "i")
    if t != "on": _fail(L[1], "current item vector must be a vector of item numbers")
    C.env[CUR] = "von"; let(CUR, "list (option nat)", "map (fun i => %s) (seq 0 %s)" % (c, N))
    # (2) total_speeds = np.array([np.sum(speeds[current_item == j]) for j in range(n)])
    TOT, e = assign(L[2])
    g = re.fullmatch(r"np\.array\(\[np\.sum\(%s\[%s == (\w+)\]\) for (\w+) in range\(%s\)\]\)" % (SP, CUR, N), U(e))
    if not g or g.group(1) != g.group(2): _fail(L[2], "total speeds comprehension expected")
    C.env[TOT] = "vq"
    let(TOT, "list Q", "map (fun j => sumq (map %s (filter (fun i => oeqn (nth i %s None) j) (seq 0 %s)))) (seq 0 %s)" % (SP, CUR, N, N))
    # (3..5) time until an agent is full; nanargmin; its value
    def nanmin3(k):
        V, e = assign(L[k]); c, t = C.el(e, "i")
        if t != "oq": _fail(L[k], "real vector expected")
        C.env[V] = "voq"; let(V, "list (option Q)", "map (fun i => %s) (seq 0 %s)" % (c, N))
        IDX, e = assign(L[k + 1])
        if U(e) != "np.nanargmin(%s)" % V: _fail(L[k + 1], "np.nanargmin(%s) expected" % V)
        T, e = assign(L[k + 2])
        if U(e) != "%s[%s]" % (V, IDX): _fail(L[k + 2], "%s[%s] expected" % (V, IDX))
        for other in L[k + 3:]:
            if any(isinstance(x, ast.Name) and x.id == IDX for x in ast.walk(other)): _fail(other, "the index %s is used again" % IDX)
        return V, T
    VA, TA = nanmin3(3)
    out.append("match nanmin %s with None => None | Some %s =>      (* np.nanargmin raises ValueError when every agent is full *)" % (VA, TA)); TY[TA] = "Q"
    VI, TI = nanmin3(6)
    out.append("let %s := nanmin %s in" % (TI, VI)); TY[TI] = "option Q"
    # (9) t = min(a, b)
    T, e = assign(L[9])
    if U(e) != "min(%s, %s)" % (TA, TI): _fail(L[9], "t = min(%s, %s) expected" % (TA, TI))
    out.append("match qminO (Some %s) %s with None => None | Some %s =>" % (TA, TI, T)); C.env[T] = "q"; TY[T] = "Q"
    # (10..12) scatter-add into the matrix
    II, e = assign(L[10])
    if U(e) != "np.where(~np.isnan(%s))[0]" % CUR: _fail(L[10], "indices of the eating agents expected")
    JJ, e = assign(L[11])
    if U(e) != "%s[%s].astype(int)" % (CUR, II): _fail(L[11], "their items expected")
    s = L[12]
    if not (isinstance(s, ast.AugAssign) and isinstance(s.op, ast.Add) and U(s.target) == "%s[%s, %s]" % (BIS, II, JJ)): _fail(s, "matrix[i_indices, j_indices] += ... expected")
    class Sub(ast.NodeTransformer):      # v[i_indices] at an index that IS one of i_indices = v at that index
        def visit_Subscript(self, n):
            if is_name(n.slice, II) and isinstance(n.value, ast.Name): return n.value
            return self.generic_visit(n)
    inc, t = C.el(Sub().visit(s.value), "i")
    if t != "oq": _fail(s, "increment")
    let(BIS, "list (list Q)", "map (fun i => let row := nth i %s [] in match nth i %s None with Some c => upd row c (qadd (nth c row 0) (oget0q %s)) | None => row end) (seq 0 %s)" % (BIS, CUR, inc, N))
    # (13..16) remaining fractions and eaten amounts
    def upd2(k, V):
        s = L[k]
        if not (isinstance(s, ast.AugAssign) and is_name(s.target, V) and isinstance(s.op, (ast.Add, ast.Sub))): _fail(s, "%s -= / += expected" % V)
        c, t = C.el(ast.BinOp(left=ast.Name(id=V, ctx=ast.Load()), op=s.op, right=s.value), "i")
        let(V, "list (option Q)", "map (fun i => %s) (seq 0 %s)" % (c, N))
        _, e = assign(L[k + 1], V); c, t = C.el(e, "i")
        if t != "oq": _fail(L[k + 1], "real vector expected")
        let(V, "list (option Q)", "map (fun i => %s) (seq 0 %s)" % (c, N))
    upd2(13, REM); upd2(15, EATEN)
    # (16) for agent in range(n): while ...: pos[agent] += 1 ; if ...: pos[agent] = nan
    s = L[17]
    if not (isinstance(s, ast.For) and not s.orelse and isinstance(s.target, ast.Name) and U(s.iter) == "range(%s)" % N and len(s.body) == 2): _fail(s, "for agent in range(n) with two statements expected")
    AG = s.target.id
    if AG in C.env or AG in (N, RK, POS, REM, EATEN, BIS, PROF, SP, CUR, TOT, T): _fail(s, "loop variable shadows a name")
    w, i2 = s.body
    want_w = "while %s[%s] < %s and np.isnan(%s[%s[%s, %s[%s].astype(int)]]): %s[%s] += 1" % (POS, AG, N, REM, RK, AG, POS, AG, POS, AG)
    want_i = "if %s[%s] == %s or np.isnan(%s[%s]): %s[%s] = np.nan" % (POS, AG, N, EATEN, AG, POS, AG)
    if not isinstance(w, ast.While) or w.orelse or U(w) != want_w: _fail(w, "advance loop: %r expected, got %r" % (want_w, U(w)))
    if not isinstance(i2, ast.If) or i2.orelse or U(i2) != want_i: _fail(i2, "retire test: %r expected, got %r" % (want_i, U(i2)))
    let(POS, "list (option nat)", "map (fun %s => match nth %s %s None with\n"
        "    | None => None      (* NaN < n and NaN == n are False: the inner loop is skipped and the position stays NaN whichever way the test goes *)\n"
        "    | Some p => let p' := gen_eat_advance %s %s %s %s (S %s) p in if (p' =? %s)%%nat || isnan (nth %s %s None) then None else Some p' end) (seq 0 %s)" % (AG, AG, POS, N, RK, REM, AG, N, N, AG, EATEN, N))
    out.append("Some {| pos := %s; rem := %s; eaten := %s; X := %s |} end end." % (POS, REM, EATEN, BIS))
    hdr = ["(* GENERATED by harness/translate.py from SimultaneousEating.bistochastic (randomized_allocation.py:%d). Do not edit." % f.lineno,
           "   Every numpy vector expression is compiled pointwise: v = E becomes  let v := map (fun i => <element i of E>) (seq 0 n). NaN is None. *)",
           "From Coq Require Import ZArith QArith List Bool.", "Import ListNotations.", "From SCK Require Import Eat3 GenNp.", "Local Open Scope Q_scope.", "",
           "(* the inner while loop of the last for loop: positions advance while the item there is used up; at most n+1 tests are needed (gen_eat_advance_exit) *)",
           "Fixpoint gen_eat_advance (%s : nat) (%s : nat -> nat -> nat) (%s : list (option Q)) (%s : nat) (fuel p : nat) : nat :=" % (N, RK, REM, AG),
           "  match fuel with O => p | S f => if (p <? %s)%%nat && isnan (nth (%s %s p) %s None) then gen_eat_advance %s %s %s %s f (S p) else p end." % (N, RK, AG, REM, N, RK, REM, AG), "",
           "(* the exit test at the top of the loop *)",
           "Definition gen_eat_finished (%s : nat) (st : est) : bool :=" % N,
           "  let %s := rem st in let %s := eaten st in" % (REM, EATEN), fin_def + ".", "",
           "(* the statements of the loop body, one definition each *)"] + defs + ["",
           "(* one pass through the loop body; None = the pass raises (np.nanargmin of an all-NaN vector) *)",
           "Definition gen_eat_step (%s : nat) (%s : nat -> nat -> nat) (%s : nat -> Q) (st : est) : option est :=" % (N, RK, SP),
           "  let %s := pos st in let %s := rem st in let %s := eaten st in let %s := X st in" % (POS, REM, EATEN, BIS)]
    tail = ["", "(* while True: ... break; fuel bounds the number of passes (2n+2 suffice: Eat3Term.eating_terminates) *)",
            "Fixpoint gen_eat_loop (%s : nat) (%s : nat -> nat -> nat) (%s : nat -> Q) (fuel : nat) (st : est) : option est :=" % (N, RK, SP),
            "  match fuel with O => None | S f => if gen_eat_finished %s st then Some st else match gen_eat_step %s %s %s st with None => None | Some st' => gen_eat_loop %s %s %s f st' end end." % (N, N, RK, SP, N, RK, SP), "",
            "(* the initialisations before the loop: np.zeros(n), np.ones(n), np.zeros(n), np.zeros((n, n)) *)",
            "Definition gen_eat_init (%s : nat) : est := {| pos := repeat (Some 0%%nat) %s; rem := repeat (Some (1 # 1)) %s; eaten := repeat (Some (0 # 1)) %s; X := repeat (repeat (0 # 1) %s) %s |}." % (N, N, N, N, N, N), "",
            "(* ranked_items = np.argsort(profile, axis=1): row i holds agent i's items from best to worst (argsort: the row sorter, see the proof file) *)",
            "Definition gen_eat_ranked {K} (argsort : list K -> list nat) (%s : list (list K)) : nat -> nat -> nat := fun i p => nth p (nth i (map argsort %s) []) O." % (PROF, PROF),
            "Definition gen_eat_bistochastic {K} (argsort : list K -> list nat) (%s : list (list K)) (%s : nat -> Q) : option (list (list Q)) :=" % (PROF, SP),
            "  let %s := length %s in" % (N, PROF),
            "  match gen_eat_loop %s (gen_eat_ranked argsort %s) %s (2 * %s + 2) (gen_eat_init %s) with Some st => Some (X st) | None => None end." % (N, PROF, SP, N, N), ""]
    # ProbabilisticSerial.bistochastic: unit speeds
    ps = _find(mod.body, ast.ClassDef, "ProbabilisticSerial"); pb = _find(ps.body, ast.FunctionDef, "bistochastic")
    if [U(x) for x in _body(pb)] != ["return self.simultaneous_eating.bistochastic(profile, np.ones(profile.shape[0]))"]: _fail(pb, "ProbabilisticSerial.bistochastic shape")
    tail += ["Definition gen_ps_bistochastic {K} (argsort : list K -> list nat) (profile : list (list K)) : option (list (list Q)) := gen_eat_bistochastic argsort profile (fun _ => (1 # 1)).", ""]
    return "\n".join(hdr + ["  " + x for x in out] + tail)


# ---------------------------------------------------------------------------------------------------------------
# distortion.distortion, birkhoff_von_neumann (the loop), is_consistent_valuation_profile, the valuation generators, compute_ordinal_profile

def translate_distortion(repo):
    src = open(os.path.join(repo, "socialchoicekit", "distortion.py")).read()
    mod = ast.parse(src)
    fns = [x.name for x in mod.body if isinstance(x, (ast.FunctionDef, ast.ClassDef))]
    if fns != ["distortion"]: _fail(mod, "distortion.py should define exactly the function distortion, found %r" % (fns,))
    imps = sorted(U(x) for x in mod.body if isinstance(x, (ast.Import, ast.ImportFrom)))
    want_imps = sorted(["import numpy as np", "from typing import Union", "from socialchoicekit.deterministic_scoring import SocialWelfare", "from socialchoicekit.utils import check_valuation_profile",
                        "from socialchoicekit.profile_utils import ValuationProfile, incomplete_valuation_profile_to_complete_valuation_profile"])
    if imps != want_imps: _fail(mod, "imports of distortion.py changed (the names used below could mean something else): %r" % (imps,))
    f = _find(mod.body, ast.FunctionDef, "distortion")
    a = [x.arg for x in f.args.args]
    if len(a) != 2 or f.args.defaults or f.args.vararg or f.args.kwarg or f.args.kwonlyargs: _fail(f, "signature (choice, valuation_profile) expected")
    CH, VP = a
    b = _body(f); got = [U(x) for x in b]
    if len(b) != 6: _fail(f, "6 statements expected, got %d" % len(b))
    if got[0] != "check_valuation_profile(%s, is_complete=False)" % VP: _fail(b[0], "validation call expected")
    g1 = re.fullmatch(r"(\w+) = incomplete_valuation_profile_to_complete_valuation_profile\(%s\)" % VP, got[1])
    if not g1: _fail(b[1], "completion of the valuation profile expected")
    CV = g1.group(1)
    g2 = re.fullmatch(r"(\w+) = SocialWelfare\(tie_breaker='(\w+)'\)", got[2])
    if not g2: _fail(b[2], "SocialWelfare(...) expected")
    SW = g2.group(1)
    g3 = re.fullmatch(r"(\w+) = %s\.score\(%s\)" % (SW, CV), got[3])
    if not g3: _fail(b[3], "score of the completed profile expected")
    SC = g3.group(1)
    if len({CH, VP, CV, SW, SC}) != 5: _fail(f, "names must be pairwise distinct")
    s4 = b[4]
    if not (isinstance(s4, ast.If) and not s4.orelse and len(s4.body) == 1 and U(s4.test) == "isinstance(%s, np.ndarray)" % CH): _fail(s4, "array-choice branch expected")
    def ratio(ret, inner):
        # np.max(score) / INNER(score[choice - K])
        if not isinstance(ret, ast.Return) or not isinstance(ret.value, ast.BinOp) or not isinstance(ret.value.op, ast.Div): _fail(ret, "return of a quotient expected")
        if U(ret.value.left) != "np.max(%s)" % SC: _fail(ret, "numerator np.max(score) expected")
        d = U(ret.value.right)
        g = re.fullmatch((r"np\.min\(%s\[%s - (\d+)\]\)" if inner else r"%s\[%s - (\d+)\]") % (SC, CH), d)
        if not g: _fail(ret, "denominator: score of the choice expected, got %s" % d)
        return int(g.group(1))
    k1 = ratio(s4.body[0], True); k2 = ratio(b[5], False)
    # the completion helper
    src2 = open(os.path.join(repo, "socialchoicekit", "profile_utils.py")).read()
    m2 = ast.parse(src2)
    h = _find(m2.body, ast.FunctionDef, "incomplete_valuation_profile_to_complete_valuation_profile")
    ha = [x.arg for x in h.args.args]
    hb = [U(x) for x in _body(h)]
    g = re.fullmatch(r"return CompleteValuationProfile\.of\(np\.where\(np\.isnan\(%s\), (-?\d+(?:\.\d+)?), %s\)\)" % (ha[0], ha[0]), hb[0]) if len(ha) == 1 and len(hb) == 1 else None
    if not g: _fail(h, "np.where(np.isnan(V), c, V) expected in the completion helper")
    fill = Fraction(g.group(1))
    return "\n".join([
        "(* GENERATED by harness/translate.py from distortion.distortion (distortion.py:%d) and incomplete_valuation_profile_to_complete_valuation_profile (profile_utils.py:%d). Do not edit. *)" % (f.lineno, h.lineno),
        "From Coq Require Import ZArith QArith List Bool.", "Import ListNotations.", "From SCK Require Import Voting GenLib GenUtil.", "From SCKGen Require Import ScoringGen.", "",
        "(* np.where(np.isnan(V), %s, V) *)" % g.group(1),
        "Definition gen_complete_vp (V : list (list (option Q))) : list (list (option Q)) := map (map (fun x : option Q => match x with None => Some (%d # %d) | Some _ => x end)) V." % (fill.numerator, fill.denominator), "",
        "(* np.min over the chosen entries *)",
        "Definition gen_aminQ (l : list Q) : Q := match l with x :: t => fold_left (fun a y => if Qle_bool a y then a else y) t x | [] => 0%Q end.", "",
        "(* choice is an int (an alternative numbered from %d): np.max(score) / score[choice - %d] *)" % (k2, k2),
        "Definition gen_distortion_int (%s : nat) (%s : list (list (option Q))) : Q :=" % (CH, VP),
        "  let %s := gen_complete_vp %s in let %s := gen_score_SocialWelfare %s in (amaxQ %s / nth (%s - %d) %s 0)%%Q." % (CV, VP, SC, CV, SC, CH, k2, SC), "",
        "(* choice is an array of alternatives: np.max(score) / np.min(score[choice - %d]) *)" % k1,
        "Definition gen_distortion_arr (%s : list nat) (%s : list (list (option Q))) : Q :=" % (CH, VP),
        "  let %s := gen_complete_vp %s in let %s := gen_score_SocialWelfare %s in (amaxQ %s / gen_aminQ (map (fun c => nth (c - %d) %s 0%%Q) %s))%%Q." % (CV, VP, SC, CV, SC, k1, SC, CH), ""])

def translate_bvnloop(repo):
    src = open(os.path.join(repo, "socialchoicekit", "bistochastic.py")).read()
    mod = ast.parse(src)
    imps = sorted(U(x) for x in mod.body if isinstance(x, (ast.Import, ast.ImportFrom)))
    if imps != sorted(["import numpy as np", "from typing import List, Tuple, Dict", "from socialchoicekit.utils import check_square_matrix",
                       "from socialchoicekit.flow import maximum_cardinality_matching_bipartite"]): _fail(mod, "imports of bistochastic.py changed: %r" % (imps,))
    f = _find(mod.body, ast.FunctionDef, "birkhoff_von_neumann")
    a = [x.arg for x in f.args.args]
    if len(a) != 1 or f.args.defaults or f.args.vararg or f.args.kwarg or f.args.kwonlyargs: _fail(f, "birkhoff_von_neumann(X) expected")
    X = a[0]; b = _body(f)
    if len(b) != 6: _fail(f, "6 statements expected, got %d" % len(b))
    got = [U(s) for s in b]
    if got[0] != "check_square_matrix(%s)" % X: _fail(b[0], "validation expected")
    if got[1] != "%s = np.array(%s, dtype=float)" % (X, X): _fail(b[1], "working copy X = np.array(X, dtype=float) expected")
    g = re.fullmatch(r"(\w+) = %s\.shape\[0\]" % X, got[2])
    if not g: _fail(b[2], "n = X.shape[0] expected")
    N = g.group(1)
    g = re.fullmatch(r"(\w+) = \[\]", got[3])
    if not g: _fail(b[3], "result = [] expected")
    RES = g.group(1)
    if got[5] != "return %s" % RES: _fail(b[5], "return result expected")
    w = b[4]
    if not (isinstance(w, ast.While) and isinstance(w.test, ast.Constant) and w.test.value is True and not w.orelse): _fail(w, "while True expected")
    L = w.body
    if len(L) != 8: _fail(w, "8 statements expected in the loop, got %d" % len(L))
    s = L[0]
    if not (isinstance(s, ast.If) and not s.orelse and len(s.body) == 1 and isinstance(s.body[0], ast.Break)): _fail(s, "exit test expected")
    g = re.fullmatch(r"np\.all\(np\.abs\(%s\) < ([0-9.e+-]+)\)" % X, U(s.test))
    if not g: _fail(s, "np.all(np.abs(X) < threshold) expected")
    thr = Fraction(float(g.group(1)))
    g = re.fullmatch(r"(\w+) = positivity_graph\(%s\)" % X, U(L[1]))
    if not g: _fail(L[1], "G_X = positivity_graph(X) expected")
    G = g.group(1)
    g = re.fullmatch(r"(\w+) = maximum_cardinality_matching_bipartite\(%s, list\(range\(%s\)\), list\(range\(%s, %s \* 2\)\)\)" % (G, N, N, N), U(L[2]))
    if not g: _fail(L[2], "perfect_matching = maximum_cardinality_matching_bipartite(G_X, list(range(n)), list(range(n, n * 2))) expected")
    PM = g.group(1)
    g = re.fullmatch(r"(\w+) = np\.zeros\(%s\.shape\)" % X, U(L[3]))
    if not g: _fail(L[3], "P = np.zeros(X.shape) expected")
    P = g.group(1)
    g = re.fullmatch(r"(\w+) = np\.inf", U(L[4]))
    if not g: _fail(L[4], "z = np.inf expected")
    Z = g.group(1)
    lo = L[5]
    if not (isinstance(lo, ast.For) and not lo.orelse and U(lo.iter) == PM and isinstance(lo.target, ast.Tuple) and len(lo.target.elts) == 2 and all(isinstance(e, ast.Name) for e in lo.target.elts) and len(lo.body) == 2):
        _fail(lo, "for (i, j) in perfect_matching with two statements expected")
    I, J = [e.id for e in lo.target.elts]
    if len({X, N, RES, G, PM, P, Z, I, J}) != 9: _fail(f, "names must be pairwise distinct")
    if U(lo.body[0]) != "%s[%s, %s - %s] = 1" % (P, I, J, N): _fail(lo.body[0], "P[i, j - n] = 1 expected")
    if U(lo.body[1]) != "%s = min(%s, %s[%s, %s - %s])" % (Z, Z, X, I, J, N): _fail(lo.body[1], "z = min(z, X[i, j - n]) expected")
    if U(L[6]) != "%s -= %s * %s" % (X, Z, P): _fail(L[6], "X -= z * P expected")
    if U(L[7]) not in ("%s.append((%s, %s))" % (RES, Z, P),): _fail(L[7], "result.append((z, P)) expected")
    return "\n".join([
        "(* GENERATED by harness/translate.py from birkhoff_von_neumann (bistochastic.py:%d). Do not edit. *)" % f.lineno,
        "From Coq Require Import ZArith QArith Qabs List Bool.", "Import ListNotations.", "From SCK Require Import FlowModel BipModel BvN2.", "From SCKGen Require Import PosGraphGen.", "",
        "(* exit test: np.all(np.abs(%s) < %s), the constant evaluated in binary64 *)" % (X, g.string and re.search(r"< ([0-9.e+-]+)\)", U(s.test)).group(1)),
        "Definition gen_bvn_done (%s : mat) : bool := forallb (forallb (fun x : Q => negb (Qle_bool (%d # %d) (Qabs x)))) %s." % (X, thr.numerator, thr.denominator, X), "",
        "(* %s = np.inf; for (%s, %s) in %s: %s = min(%s, %s[%s, %s - %s])    (None = still infinite: the matching was empty) *)" % (Z, I, J, PM, Z, Z, X, I, J, N),
        "Definition gen_bvn_z (%s : mat) (%s : nat) (%s : list (Z * Z)) : option Q :=" % (X, N, PM),
        "  fold_left (fun %s ij => let v := mget %s (Z.to_nat (fst ij)) (Z.to_nat (snd ij) - %s) in" % (Z, X, N),
        "                         match %s with None => Some v | Some z0 => Some (if Qle_bool z0 v then z0 else v) end) %s None." % (Z, PM), "",
        "(* %s = np.zeros(%s.shape); for (%s, %s) in %s: %s[%s, %s - %s] = 1    : entry (i, j) of %s is 1 iff (i, j + %s) is in the matching *)" % (P, X, I, J, PM, P, I, J, N, P, N),
        "Definition gen_bvn_P (%s : nat) (%s : list (Z * Z)) (i j : nat) : bool := existsb (pair_eqb (Z.of_nat i, Z.of_nat (j + %s))) %s." % (N, PM, N, PM), "",
        "(* %s -= %s * %s    (for a 0/1 matrix the product and the difference are exact in binary64: x - z * 1 = x - z, x - z * 0 = x) *)" % (X, Z, P),
        "Definition gen_bvn_sub (%s : mat) (%s : nat) (%s : list (Z * Z)) (%s : Q) : mat :=" % (X, N, PM, Z),
        "  map (fun i => map (fun j => if gen_bvn_P %s %s i j then qsub (mget %s i j) %s else mget %s i j) (seq 0 %s)) (seq 0 %s)." % (N, PM, X, Z, X, N, N), "",
        "(* while True; mcmb = maximum_cardinality_matching_bipartite (None = it raises); a term (z, P) is recorded as (z, the matching P stands for) *)",
        "Fixpoint gen_bvn_loop (mcmb : bgraph -> list Z -> list Z -> option (list (Z * Z))) (fuel %s : nat) (%s : mat) (%s : list (Q * list (Z * Z))) : option (list (Q * list (Z * Z))) :=" % (N, X, RES),
        "  match fuel with O => None | S f =>",
        "    if gen_bvn_done %s then Some %s else" % (X, RES),
        "    let %s := gen_posgraph %s %s in" % (G, X, N),
        "    match mcmb %s (map Z.of_nat (seq 0 %s)) (map Z.of_nat (seq %s (%s * 2 - %s))) with None => None | Some %s =>" % (G, N, N, N, N, PM),
        "    match gen_bvn_z %s %s %s with None => None | Some %s =>" % (X, N, PM, Z),
        "    gen_bvn_loop mcmb f %s (gen_bvn_sub %s %s %s %s) (%s ++ [(%s, %s)]) end end end." % (N, X, N, PM, Z, RES, Z, PM), "",
        "Definition gen_bvn (mcmb : bgraph -> list Z -> list Z -> option (list (Z * Z))) (%s : mat) : option (list (Q * list (Z * Z))) :=" % X,
        "  let %s := length %s in gen_bvn_loop mcmb (%s * %s + 2) %s %s []." % (N, X, N, N, N, X), ""])

def translate_consistent(repo):
    src = open(os.path.join(repo, "socialchoicekit", "profile_utils.py")).read()
    mod = ast.parse(src)
    f = _find(mod.body, ast.FunctionDef, "is_consistent_valuation_profile")
    a = [x.arg for x in f.args.args]
    if len(a) != 2 or f.args.defaults or f.args.vararg or f.args.kwarg or f.args.kwonlyargs: _fail(f, "signature (valuation_profile, profile) expected")
    VP, PR = a
    b = _body(f); got = [U(s) for s in b]
    if len(b) != 8: _fail(f, "8 statements expected, got %d" % len(b))
    if got[0] != "check_valuation_profile(%s, is_complete=False)" % VP or got[1] != "check_profile(%s, is_complete=False, is_strict=False)" % PR: _fail(b[0], "the two validation calls expected")
    g1 = re.fullmatch(r"(\w+) = %s\.shape\[0\]" % VP, got[2]); g2 = re.fullmatch(r"(\w+) = %s\.shape\[1\]" % VP, got[3])
    if not (g1 and g2): _fail(b[2], "n, m = shape of the valuation profile expected")
    N, M = g1.group(1), g2.group(1)
    g3 = re.fullmatch(r"(\w+) = np\.argsort\(%s \* -1, axis=1\)\.view\(np\.ndarray\)" % VP, got[4])
    g4 = re.fullmatch(r"(\w+) = np\.argsort\(%s, axis=1\)\.view\(np\.ndarray\)" % PR, got[5])
    if not (g3 and g4): _fail(b[4], "the two argsorts (valuations descending, ranks ascending) expected")
    RV, RP = g3.group(1), g4.group(1)
    if got[7] != "return True": _fail(b[7], "return True expected")
    lo = b[6]
    if not (isinstance(lo, ast.For) and not lo.orelse and isinstance(lo.target, ast.Name) and U(lo.iter) == "range(%s)" % N and len(lo.body) == 1): _fail(lo, "for agent in range(n) expected")
    AG = lo.target.id; li = lo.body[0]
    if not (isinstance(li, ast.For) and not li.orelse and isinstance(li.target, ast.Name) and U(li.iter) == "range(%s)" % M and len(li.body) == 4): _fail(li, "for item_rank in range(m) with four statements expected")
    IR = li.target.id
    s = [U(x) for x in li.body]
    g5 = re.fullmatch(r"(\w+) = %s\[%s, %s\]" % (RV, AG, IR), s[0]); g6 = re.fullmatch(r"(\w+) = %s\[%s, %s\]" % (RP, AG, IR), s[1])
    if not (g5 and g6): _fail(li, "the two items at this position expected")
    IV, IP = g5.group(1), g6.group(1)
    if len({VP, PR, N, M, RV, RP, AG, IR, IV, IP}) != 10: _fail(f, "names must be pairwise distinct")
    c = li.body[2]
    want = "if %s == %s: continue elif np.allclose(%s[%s, %s], %s[%s, %s]): continue" % (IV, IP, VP, AG, IP, VP, AG, IV)
    if not isinstance(c, ast.If) or re.sub(r"\s+", " ", U(c)) != want: _fail(c, "%r expected, got %r" % (want, re.sub(r"\s+", " ", U(c))))
    if s[3] != "return False": _fail(li.body[3], "return False expected")
    at, rt = Fraction(1e-08), Fraction(1e-05)      # numpy's defaults for np.allclose (atol, rtol), as binary64 values
    return "\n".join([
        "(* GENERATED by harness/translate.py from is_consistent_valuation_profile (profile_utils.py:%d). Do not edit. *)" % f.lineno,
        "From Coq Require Import ZArith QArith Qabs List Bool.", "Import ListNotations.", "",
        "(* np.allclose(a, b) on scalars with numpy's default tolerances: |a - b| <= atol + rtol * |b|, atol = 1e-08, rtol = 1e-05 (binary64 values) *)",
        "Definition gen_atol : Q := %d # %d." % (at.numerator, at.denominator), "Definition gen_rtol : Q := %d # %d." % (rt.numerator, rt.denominator),
        "Definition gen_allclose (a b : Q) : bool := Qle_bool (Qabs (a - b)) (gen_atol + gen_rtol * Qabs b).", "",
        "(* one agent: the inner loop; 'return False' anywhere makes the whole predicate False, so the row is accepted iff every position passes *)",
        "Definition gen_consistent_row (%s : nat) (valuation_row : list Q) (ranked_valuation_row ranked_row : list nat) : bool :=" % M,
        "  forallb (fun %s => let %s := nth %s ranked_valuation_row 0%%nat in let %s := nth %s ranked_row 0%%nat in" % (IR, IV, IR, IP, IR),
        "     if (%s =? %s)%%nat then true else if gen_allclose (nth %s valuation_row 0) (nth %s valuation_row 0) then true else false) (seq 0 %s)." % (IV, IP, IP, IV, M), "",
        "(* %s = np.argsort(%s * -1, axis=1), %s = np.argsort(%s, axis=1) are inputs here (numpy's sort; what is assumed of them is stated in the proof file) *)" % (RV, VP, RP, PR),
        "Definition gen_consistent (%s %s : nat) (%s : list (list Q)) (%s %s : list (list nat)) : bool :=" % (N, M, VP, RV, RP),
        "  forallb (fun %s => gen_consistent_row %s (nth %s %s []) (nth %s %s []) (nth %s %s [])) (seq 0 %s)." % (AG, M, AG, VP, AG, RV, AG, RP, N), ""])

def _gen_body(cls, kind):
    f = _find(cls.body, ast.FunctionDef, "generate")
    a = [x.arg for x in f.args.args]
    if len(a) != 2 or f.args.defaults or f.args.vararg or f.args.kwarg or f.args.kwonlyargs: _fail(f, "generate(self, profile) expected")
    PR = a[1]; b = _body(f); got = [re.sub(r"\s+", " ", U(s)) for s in b]
    if len(b) != 7: _fail(f, "7 statements expected in %s.generate, got %d" % (cls.name, len(b)))
    if got[0] != "if self.seed is not None: np.random.seed(self.seed)": _fail(b[0], "seeding expected")
    g1 = re.fullmatch(r"(\w+) = %s\.shape\[0\]" % PR, got[1]); g2 = re.fullmatch(r"(\w+) = %s\.shape\[1\]" % PR, got[2])
    g3 = re.fullmatch(r"(\w+) = np\.argsort\(%s, axis=1\)\.view\(np\.ndarray\)" % PR, got[3])
    g4 = re.fullmatch(r"(\w+) = %s\.view\(np\.ndarray\) \* 0\.0" % PR, got[4])
    if not (g1 and g2 and g3 and g4): _fail(f, "n, m, ranked_profile, ans = profile * 0.0 expected")
    N, M, RK, ANS = g1.group(1), g2.group(1), g3.group(1), g4.group(1)
    if got[6] != "return ValuationProfile.of(%s)" % ANS: _fail(b[6], "return of the filled array expected")
    lo = b[5]
    if not (isinstance(lo, ast.For) and not lo.orelse and isinstance(lo.target, ast.Name) and U(lo.iter) == "range(%s)" % N): _fail(lo, "for agent in range(n) expected")
    AG = lo.target.id; L = lo.body; s = [re.sub(r"\s+", " ", U(x)) for x in L]
    want_n = 4 if kind == "uniform" else 5
    if len(L) != want_n: _fail(lo, "%d statements expected per agent, got %d" % (want_n, len(L)))
    g = re.fullmatch(r"(\w+) = np\.count_nonzero\(~np\.isnan\(%s\[%s\]\)\)" % (PR, AG), s[0])
    if not g: _fail(L[0], "count of the ranked alternatives expected")
    K = g.group(1)
    if kind == "uniform":
        g = re.fullmatch(r"(\w+) = np\.random\.uniform\(size=%s, high=self\.high, low=self\.low\)" % K, s[1])
    else:
        g = re.fullmatch(r"(\w+) = np\.random\.normal\(size=%s, loc=self\.mean, scale=np\.sqrt\(self\.variance\)\)" % K, s[1])
    if not g: _fail(L[1], "the draw expected")
    UT = g.group(1); k = 2; clip = False
    if kind == "normal":
        if s[2] != "%s = np.where(%s < 0, 0, %s)" % (UT, UT, UT): _fail(L[2], "clipping of negative draws expected")
        clip = True; k = 3
    if s[k] != "%s = np.sort(%s)[::-1] / np.sum(%s)" % (UT, UT, UT): _fail(L[k], "descending sort and normalisation expected")
    li = L[k + 1]
    if not (isinstance(li, ast.For) and not li.orelse and isinstance(li.target, ast.Name) and U(li.iter) == "range(%s)" % M and len(li.body) == 3): _fail(li, "for item_rank in range(m) with three statements expected")
    IR = li.target.id; t = [re.sub(r"\s+", " ", U(x)) for x in li.body]
    g = re.fullmatch(r"(\w+) = %s\[%s, %s\]" % (RK, AG, IR), t[0])
    if not g: _fail(li.body[0], "item at this position expected")
    IT = g.group(1)
    if t[1] != "if np.isnan(%s[%s, %s]): break" % (PR, AG, IT): _fail(li.body[1], "break at the first unranked item expected")
    if t[2] != "%s[%s, %s] = %s[%s]" % (ANS, AG, IT, UT, IR): _fail(li.body[2], "assignment of the value expected")
    if len({PR, N, M, RK, ANS, AG, K, UT, IR, IT}) != 10: _fail(f, "names must be pairwise distinct")
    return clip, f.lineno

def translate_datagen(repo):
    src = open(os.path.join(repo, "socialchoicekit", "data_generation.py")).read()
    mod = ast.parse(src)
    uc, ul = _gen_body(_find(mod.body, ast.ClassDef, "UniformValuationProfileGenerator"), "uniform")
    nc, nl = _gen_body(_find(mod.body, ast.ClassDef, "NormalValuationProfileGenerator"), "normal")
    return "\n".join([
        "(* GENERATED by harness/translate.py from UniformValuationProfileGenerator.generate (data_generation.py:%d) and NormalValuationProfileGenerator.generate (:%d). Do not edit. *)" % (ul, nl),
        "From Coq Require Import ZArith QArith List Bool.", "Import ListNotations.", "From SCK Require Import Eat3 ProfModel.", "",
        "(* utilities = [np.where(utilities < 0, 0, utilities)]; utilities = np.sort(utilities)[::-1] / np.sum(utilities)      (the draws are an oracle) *)",
        "Definition gen_dg_utilities (clip : bool) (draws : list Q) : list Q :=",
        "  let utilities := if clip then map (fun x : Q => if negb (Qle_bool 0 x) then 0%Q else x) draws else draws in",
        "  map (fun x => Qred (x / ProfModel.sumq utilities)) (sort_desc utilities).", "",
        "(* for item_rank in range(m): item = ranked[item_rank]; if isnan(profile_row[item]): break; ans[item] = utilities[item_rank] *)",
        "Fixpoint gen_dg_fill (profile_row : list (option Q)) (ranked_row : list nat) (utilities : list Q) (item_rank : nat) (ans : list (option Q)) : list (option Q) :=",
        "  match ranked_row with [] => ans | item :: rest =>",
        "    match nth item profile_row None with None => ans | Some _ => gen_dg_fill profile_row rest utilities (S item_rank) (upd ans item (Some (nth item_rank utilities 0%Q))) end end.", "",
        "(* one agent; ans = profile * 0.0 keeps NaN and turns every rank into 0.0 *)",
        "Definition gen_dg_row (clip : bool) (profile_row : list (option Q)) (ranked_row : list nat) (draws : list Q) : list (option Q) :=",
        "  gen_dg_fill profile_row ranked_row (gen_dg_utilities clip draws) 0 (map (fun x : option Q => match x with Some _ => Some 0%Q | None => None end) profile_row).", "",
        "Definition gen_dg_uniform_clips : bool := %s." % ("true" if uc else "false"),
        "Definition gen_dg_normal_clips : bool := %s." % ("true" if nc else "false"), ""])

def translate_ordinal(repo):
    src = open(os.path.join(repo, "socialchoicekit", "profile_utils.py")).read()
    mod = ast.parse(src)
    f = _find(mod.body, ast.FunctionDef, "compute_ordinal_profile")
    a = [x.arg for x in f.args.args]
    if len(a) != 1 or f.args.defaults or f.args.vararg or f.args.kwarg or f.args.kwonlyargs: _fail(f, "compute_ordinal_profile(cardinal_profile) expected")
    CP = a[0]; b = _body(f); got = [re.sub(r"\s+", " ", U(s)) for s in b]
    if len(b) != 7: _fail(f, "7 statements expected, got %d" % len(b))
    g1 = re.fullmatch(r"(\w+) = %s\.shape\[0\]" % CP, got[0]); g2 = re.fullmatch(r"(\w+) = %s\.shape\[1\]" % CP, got[1])
    g3 = re.fullmatch(r"(\w+) = np\.argsort\(%s \* -1, axis=1\)\.view\(np\.ndarray\)" % CP, got[2])
    g4 = re.fullmatch(r"(\w+) = %s\.view\(np\.ndarray\) \* 0" % CP, got[3])
    if not (g1 and g2 and g3 and g4): _fail(f, "n, m, ranked_profile (descending argsort), ans = cardinal_profile * 0 expected")
    N, M, RK, ANS = g1.group(1), g2.group(1), g3.group(1), g4.group(1)
    lo = b[4]
    if not (isinstance(lo, ast.For) and not lo.orelse and isinstance(lo.target, ast.Name) and U(lo.iter) == "range(%s)" % N and len(lo.body) == 1): _fail(lo, "for agent in range(n) expected")
    AG = lo.target.id; li = lo.body[0]
    if not (isinstance(li, ast.For) and not li.orelse and isinstance(li.target, ast.Name) and U(li.iter) == "range(%s)" % M and len(li.body) == 1): _fail(li, "for item_rank in range(m) expected")
    IR = li.target.id
    g = re.fullmatch(r"%s\[%s, %s\[%s, %s\]\] \+= %s \+ (\d+)" % (ANS, AG, RK, AG, IR, IR), U(li.body[0]))
    if not g: _fail(li.body[0], "ans[agent, ranked_profile[agent, item_rank]] += item_rank + 1 expected")
    off = int(g.group(1))
    if got[5] != "if isinstance(%s, CompleteValuationProfile): return StrictCompleteProfile.of(%s)" % (CP, ANS) or got[6] != "return StrictIncompleteProfile.of(%s)" % ANS: _fail(b[5], "the two wrapping returns expected")
    if len({CP, N, M, RK, ANS, AG, IR}) != 7: _fail(f, "names must be pairwise distinct")
    return "\n".join([
        "(* GENERATED by harness/translate.py from compute_ordinal_profile (profile_utils.py:%d). Do not edit. *)" % f.lineno,
        "From Coq Require Import ZArith QArith List Bool.", "Import ListNotations.", "From SCK Require Import Eat3.", "",
        "(* NaN + x = NaN *)",
        "Definition gen_ord_add (a b : option Q) : option Q := match a, b with Some x, Some y => Some (x + y)%Q | _, _ => None end.",
        "(* for item_rank in range(m): ans[ranked[item_rank]] += item_rank + %d *)" % off,
        "Fixpoint gen_ord_fill (ranked_row : list nat) (item_rank : nat) (ans : list (option Q)) : list (option Q) :=",
        "  match ranked_row with [] => ans | item :: rest =>",
        "    gen_ord_fill rest (S item_rank) (upd ans item (gen_ord_add (nth item ans None) (Some (inject_Z (Z.of_nat (item_rank + %d)))))) end." % off, "",
        "(* one agent; ans = cardinal_profile * 0 keeps NaN and turns every value into 0; ranked_row = np.argsort(-values) is an input (numpy's sort) *)",
        "Definition gen_ord_row (cardinal_row : list (option Q)) (ranked_row : list nat) : list (option Q) :=",
        "  gen_ord_fill ranked_row 0 (map (fun x : option Q => match x with Some _ => Some 0%Q | None => None end) cardinal_row).", ""])


# ---------------------------------------------------------------------------------------------------------------
# Irving.scf: the pipeline of stage calls

def _norm(node):
    s = re.sub(r"\s+", " ", U(node))
    s = re.sub(r"for \((\w+), (\w+)\) in", r"for \1, \2 in", s)
    return re.sub(r"^\((\w+), (\w+)\) = ", r"\1, \2 = ", s)

def translate_irvscf(repo):
    src = open(os.path.join(repo, "socialchoicekit", "deterministic_matching.py")).read()
    mod = ast.parse(src)
    cls = _find(mod.body, ast.ClassDef, "Irving")
    ini = _find(cls.body, ast.FunctionDef, "__init__")
    ib = [U(x) for x in _body(ini)]
    g = re.fullmatch(r"self\.index_fixer = (\d+) if zero_indexed else (\d+)", ib[0]) if len(ib) == 1 else None
    if not g: _fail(ini, "Irving.__init__: self.index_fixer = 0 if zero_indexed else 1 expected")
    f0, f1 = g.group(1), g.group(2)
    f = _find(cls.body, ast.FunctionDef, "scf")
    a = [x.arg for x in f.args.args]
    if len(a) != 5 or [U(d) for d in f.args.defaults] != ["None", "None"] or f.args.vararg or f.args.kwarg or f.args.kwonlyargs: _fail(f, "scf(self, V1, V2, profile_1=None, profile_2=None) expected")
    V1, V2, P1, P2 = a[1:]
    got = [_norm(s) for s in _body(f)]
    O1, O2, N, SM, L1, L2, I1, I2, RO, EL, PP, CS, RE, ANS = ("ordinal_profile_1", "ordinal_profile_2", "n", "stable_matching", "preference_lists_1", "preference_lists_2",
        "initial_preference_lists_1", "initial_preference_lists_2", "rotations", "eliminating_rotation_of_pair", "P_prime", "maximum_weight_closed_subset", "rotations_to_eliminate", "ans")
    def branch(P, V, O):
        return ("if isinstance(%s, StrictCompleteProfile): check_profile(%s, is_complete=True, is_strict=True) %s = %s.view(np.ndarray) else: %s = compute_ordinal_profile(%s).view(np.ndarray)" % (P, P, O, P, O, V))
    want = ["check_valuation_profile(%s, is_complete=True)" % V1, "check_valuation_profile(%s, is_complete=True)" % V2, branch(P1, V1, O1), branch(P2, V2, O2),
            "%s = %s.shape[0]" % (N, V1), "assert (%s, %s) == %s.shape" % (N, N, V1), "assert (%s, %s) == %s.shape" % (N, N, V2), "assert (%s, %s) == %s.shape" % (N, N, O1), "assert (%s, %s) == %s.shape" % (N, N, O2),
            "%s = GaleShapley(resident_oriented=True, zero_indexed=True).scf(StrictCompleteProfile.of(%s), StrictCompleteProfile.of(%s), np.ones(%s, dtype=int))" % (SM, O1, O2, N),
            "assert len(%s) == %s" % (SM, N), "assert len(set([i for i, _ in %s])) == %s" % (SM, N), "assert len(set([j for _, j in %s])) == %s" % (SM, N),
            "%s, %s = self.find_initial_preference_lists(%s, %s - 1, %s - 1)" % (L1, L2, SM, O1, O2),
            "%s = {i: np.array(%s[i]) for i in range(%s)}" % (I1, L1, N), "%s = {i: np.array(%s[i]) for i in range(%s)}" % (I2, L2, N),
            "%s, %s = self.find_all_rotations_and_eliminations(%s, %s)" % (RO, EL, I1, I2),
            "%s = self.construct_sparse_rotation_poset_graph(%s, %s, %s)" % (PP, RO, L1, EL),
            "%s = self.find_maximum_weight_closed_subset(%s, %s, %s, %s)" % (CS, PP, RO, V1, V2),
            "%s = [%s[i] for i in sorted(%s)]" % (RE, RO, CS),
            "%s = self.eliminate_rotations(%s, %s)" % (ANS, SM, RE),
            "return [(i + self.index_fixer, j + self.index_fixer) for i, j in %s]" % ANS]
    if len(got) != len(want): _fail(f, "Irving.scf: %d statements expected, got %d" % (len(want), len(got)))
    for k, (g_, w_) in enumerate(zip(got, want)):
        if g_ != w_: _fail(_body(f)[k], "Irving.scf statement %d: %r expected, got %r" % (k, w_, g_))
    return "\n".join([
        "(* GENERATED by harness/translate.py from Irving.__init__ / Irving.scf (deterministic_matching.py:%d): the pipeline of stage calls. Do not edit. *)" % f.lineno,
        "From Coq Require Import Arith ZArith List Bool.", "Import ListNotations.", "",
        "Definition gen_irv_fixer (zero_indexed : bool) : nat := if zero_indexed then %s else %s." % (f0, f1),
        "(* the three assertions on the Gale-Shapley matching: n pairs, n distinct men, n distinct women *)",
        "Definition gen_irv_perfect (stable_matching : list (nat * nat)) (n : nat) : bool :=",
        "  (length stable_matching =? n) && (length (nodup Nat.eq_dec (map fst stable_matching)) =? n) && (length (nodup Nat.eq_dec (map snd stable_matching)) =? n).", "",
        "(* ordinal profiles: the ones supplied (ranks from 1), or else compute_ordinal_profile of the valuations - `ordinal` abstracts that choice;",
        "   the stages are parameters: gs = GaleShapley(resident_oriented=True, zero_indexed=True).scf, lists = find_initial_preference_lists, all_rotations =",
        "   find_all_rotations_and_eliminations (given copies of the lists), poset = construct_sparse_rotation_poset_graph, closed = find_maximum_weight_closed_subset,",
        "   eliminate = eliminate_rotations. None = the stage raises. *)",
        "Section Glue.",
        "Variables (Rot Elim Poset Val : Type).",
        "Variable gs : list (list nat) -> list (list nat) -> list nat -> option (list (nat * nat)).",
        "Variable lists : list (nat * nat) -> list (list nat) -> list (list nat) -> option (list (list nat) * list (list nat)).",
        "Variable all_rotations : list (list nat) -> list (list nat) -> option (list Rot * Elim).",
        "Variable poset : list Rot -> list (list nat) -> Elim -> option Poset.",
        "Variable closed : Poset -> list Rot -> Val -> Val -> option (list nat).",
        "Variable sorted : list nat -> list nat.",
        "Variable eliminate : list (nat * nat) -> list Rot -> option (list (nat * nat)).",
        "Variable norot : Rot.",
        "Definition gen_irv_scf (index_fixer : nat) (%s %s : Val) (%s %s : list (list nat)) : option (list (nat * nat)) :=" % (V1, V2, O1, O2),
        "  let %s := length %s in" % (N, O1),
        "  match gs %s %s (repeat 1 %s) with None => None | Some %s =>" % (O1, O2, N, SM),
        "  if negb (gen_irv_perfect %s %s) then None else" % (SM, N),
        "  match lists %s (map (map (fun r => r - 1)) %s) (map (map (fun r => r - 1)) %s) with None => None | Some (%s, %s) =>" % (SM, O1, O2, L1, L2),
        "  match all_rotations %s %s with None => None | Some (%s, %s) =>" % (L1, L2, RO, EL),
        "  match poset %s %s %s with None => None | Some %s =>" % (RO, L1, EL, PP),
        "  match closed %s %s %s %s with None => None | Some %s =>" % (PP, RO, V1, V2, CS),
        "  let %s := map (fun i => nth i %s norot) (sorted %s) in" % (RE, RO, CS),
        "  match eliminate %s %s with None => None | Some %s =>" % (SM, RE, ANS),
        "  Some (map (fun ij : nat * nat => (fst ij + index_fixer, snd ij + index_fixer)) %s) end end end end end end." % ANS,
        "End Glue.", ""])


# ---------------------------------------------------------------------------------------------------------------
# MatchTwoQueries and LambdaPRV.score as query programs

def _n(node):
    return re.sub(r"\s+", " ", U(node))

def translate_m2q(repo):
    src = open(os.path.join(repo, "socialchoicekit", "elicitation_allocation.py")).read()
    mod = ast.parse(src)
    cls = _find(mod.body, ast.ClassDef, "MatchTwoQueries")
    if [x.name for x in cls.body if isinstance(x, ast.FunctionDef)] != ["__init__", "scf", "get_simulated_cardinal_profile"]: _fail(cls, "__init__, scf, get_simulated_cardinal_profile expected in MatchTwoQueries")
    ib = [_n(x) for x in _body(_find(cls.body, ast.FunctionDef, "__init__"))]
    g = re.fullmatch(r"self\.index_fixer = (\d+) if zero_indexed else (\d+)", ib[1]) if len(ib) == 2 else None
    if not (g and ib[0] == "self.mwm = MaximumWeightMatching(zero_indexed=zero_indexed)"): _fail(cls, "MatchTwoQueries.__init__ shape")
    f0, f1 = g.group(1), g.group(2)
    sc = _find(cls.body, ast.FunctionDef, "scf"); a = [x.arg for x in sc.args.args]
    sb = [_n(x) for x in _body(sc)]
    g = re.fullmatch(r"(\w+) = self\.get_simulated_cardinal_profile\(%s, %s\)" % (a[1], a[2]), sb[0]) if len(sb) == 2 and len(a) == 3 else None
    if not (g and sb[1] == "return self.mwm.scf(IncompleteValuationProfile.of(%s))" % g.group(1)): _fail(sc, "MatchTwoQueries.scf: simulated profile, then maximum weight matching expected")
    f = _find(cls.body, ast.FunctionDef, "get_simulated_cardinal_profile"); a = [x.arg for x in f.args.args]
    if len(a) != 3: _fail(f, "get_simulated_cardinal_profile(self, profile, elicitor) expected")
    PR, EL = a[1], a[2]; b = _body(f); got = [_n(x) for x in b]
    if len(b) != 9: _fail(f, "9 statements expected, got %d" % len(b))
    if got[0] != "if not isinstance(%s, StrictProfile): raise ValueError('Profile must be a StrictProfile for now')" % PR: _fail(b[0], "type guard expected")
    g1 = re.fullmatch(r"(\w+) = %s\.shape\[0\]" % PR, got[1]); g2 = re.fullmatch(r"(\w+) = np\.argsort\(%s, axis=1\)\.view\(np\.ndarray\)" % PR, got[2])
    g3 = re.fullmatch(r"(\w+) = ([0-9.e+-]+)", got[3])
    if not (g1 and g2 and g3): _fail(f, "n, ranked_profile, epsilon expected")
    N, RK, EPS = g1.group(1), g2.group(1), g3.group(1); eps = Fraction(g3.group(2))
    g4 = re.fullmatch(r"(\w+) = %s\.view\(np\.ndarray\) \* 0 \+ %s" % (PR, EPS), got[4])
    if not g4: _fail(b[4], "v_tilde = profile * 0 + epsilon expected")
    VT = g4.group(1)
    if got[5] != "%s[np.arange(%s), %s[:, 0]] = %s.elicit_multiple(np.arange(%s), %s[:, 0])" % (VT, N, RK, EL, N, RK): _fail(b[5], "favourites asked in one batch expected")
    g6 = re.fullmatch(r"(\w+) = root_n_serial_dictatorship\(%s\)" % PR, got[6])
    if not g6: _fail(b[6], "A = root_n_serial_dictatorship(profile) expected")
    A = g6.group(1)
    if got[8] != "return IncompleteValuationProfile.of(%s)" % VT: _fail(b[8], "return of the simulated profile expected")
    lo = b[7]
    if not (isinstance(lo, ast.For) and not lo.orelse and isinstance(lo.target, ast.Name) and _n(lo.iter) == "range(%s)" % N and len(lo.body) == 5): _fail(lo, "for i in range(n) with five statements expected")
    I = lo.target.id; s = [_n(x) for x in lo.body]
    g = re.fullmatch(r"(\w+) = %s\[%s\]" % (A, I), s[0])
    if not g: _fail(lo.body[0], "j = A[i] expected")
    J = g.group(1)
    if s[1] != "%s[%s, %s[%s]] = %s.elicit(%s, %s)" % (VT, I, A, I, EL, I, J): _fail(lo.body[1], "second query expected")
    g = re.fullmatch(r"(\w+) = int\(%s\[%s, %s\]\)" % (PR, I, J), s[2])
    if not g: _fail(lo.body[2], "current_rank = int(profile[i, j]) expected")
    CR = g.group(1)
    if s[3] != "%s -= 1" % CR: _fail(lo.body[3], "current_rank -= 1 expected")
    w = lo.body[4]
    want = "while %s > 1: %s = %s[%s, %s - 1] %s[%s, %s] = %s[%s, %s[%s]] %s -= 1" % (CR, J, RK, I, CR, VT, I, J, VT, I, A, I, CR)
    if not isinstance(w, ast.While) or w.orelse or _n(w) != want: _fail(w, "copy loop: %r expected, got %r" % (want, _n(w)))
    if len({PR, EL, N, RK, EPS, VT, A, I, J, CR}) != 10: _fail(f, "names must be pairwise distinct")
    # LambdaPRV.score
    src2 = open(os.path.join(repo, "socialchoicekit", "elicitation_voting.py")).read()
    m2 = ast.parse(src2)
    pf = _find(_find(m2.body, ast.ClassDef, "LambdaPRV").body, ast.FunctionDef, "score"); pa = [x.arg for x in pf.args.args]
    pb = [_n(x) for x in _body(pf)]
    P2, E2 = pa[1], pa[2]
    wantp = ["if self.lambda_ > %s.shape[1]: raise ValueError('Invalid lambda')" % P2,
             "j_indices = np.argpartition(-%s, -self.lambda_, axis=1)[:, -self.lambda_:].flatten()" % P2,
             "i_indices = (np.arange(%s.shape[0]).reshape(-1, 1) * np.ones(self.lambda_, dtype=int)).flatten()" % P2,
             "ans = np.zeros(%s.shape[1])" % P2,
             "for i, j in zip(i_indices, j_indices): ans[j] += %s.elicit(i, j)" % E2,
             "return ans"]
    pbn = [re.sub(r"for \((\w+), (\w+)\) in", r"for \1, \2 in", x) for x in pb]
    if pbn != wantp: _fail(pf, "LambdaPRV.score shape: %r" % (pbn,))
    return "\n".join([
        "(* GENERATED by harness/translate.py from MatchTwoQueries (elicitation_allocation.py:%d) and LambdaPRV.score (elicitation_voting.py:%d). Do not edit. *)" % (f.lineno, pf.lineno),
        "From Coq Require Import ZArith QArith List Bool.", "Import ListNotations.", "From SCK Require Import ElicitM ElicitRules.", "Local Open Scope Z_scope.", "",
        "Definition gen_m2q_fixer (zero_indexed : bool) : Z := if zero_indexed then %s else %s." % (f0, f1),
        "Definition gen_m2q_epsilon : Q := %d # %d." % (eps.numerator, eps.denominator), "",
        "(* while %s > 1: %s = %s[%s, %s - 1]; %s[%s, %s] = %s[%s, %s[%s]]; %s -= 1      (row = %s[%s], a = %s[%s]; at most m passes) *)" % (CR, J, RK, I, CR, VT, I, J, VT, I, A, I, CR, VT, I, A, I),
        "Fixpoint gen_m2q_copy (ranked_row : list Z) (a : Z) (fuel : nat) (%s : Z) (row : list Q) : list Q :=" % CR,
        "  match fuel with O => row | S f =>",
        "    if %s >? 1 then let %s := rkat ranked_row (%s - 1) in gen_m2q_copy ranked_row a f (%s - 1) (updz row (Z.to_nat %s) (nth (Z.to_nat a) row 0%%Q)) else row end." % (CR, J, CR, CR, J), "",
        "(* get_simulated_cardinal_profile as a query program: %s = the rows' argsort, %s = root_n_serial_dictatorship(profile) are inputs *)" % (RK, A),
        "Definition gen_m2q (%s : list (list Z)) (%s : list (list Z)) (%s : list Z) (%s m : nat) : prog (list (list Q)) :=" % (PR, RK, A, N),
        "  vfav <- mapP (fun i_ => Ask (Z.of_nat i_, rkat (nth i_ %s []) 0) (fun v_ => Ret v_)) (seq 0 %s) ;;" % (RK, N),
        "  let %s := map (fun i_ => updz (repeat gen_m2q_epsilon m) (Z.to_nat (rkat (nth i_ %s []) 0)) (nth i_ vfav 0%%Q)) (seq 0 %s) in" % (VT, RK, N),
        "  foldP (fun (%s : list (list Q)) (%s : nat) =>" % (VT, I),
        "           let %s := nth %s %s 0 in" % (J, I, A),
        "           Ask (Z.of_nat %s, %s) (fun v_ =>" % (I, J),
        "             let row := updz (nth %s %s []) (Z.to_nat (nth %s %s 0)) v_ in" % (I, VT, I, A),
        "             let %s := nth (Z.to_nat %s) (nth %s %s []) 0 in" % (CR, J, I, PR),
        "             let %s := %s - 1 in" % (CR, CR),
        "             Ret (updz %s %s (gen_m2q_copy (nth %s %s []) (nth %s %s 0) m %s row)))) (seq 0 %s) %s." % (VT, I, I, RK, I, A, CR, N, VT), "",
        "(* LambdaPRV.score: the top-lambda columns of every row (np.argpartition: which columns, in an order numpy chooses - `top`), one query each, accumulated per alternative *)",
        "Definition gen_prv_score (top : list (list Z)) (n m : nat) : prog (list Q) :=",
        "  foldP (fun (ans : list Q) (ij : nat * Z) => Ask (Z.of_nat (fst ij), snd ij) (fun v_ => Ret (updz ans (Z.to_nat (snd ij)) (Qred (nth (Z.to_nat (snd ij)) ans 0%Q + v_)))))",
        "        (flat_map (fun i_ => map (fun j_ => (i_, j_)) (nth i_ top [])) (seq 0 n)) (repeat 0%Q m).", ""])


# ---------------------------------------------------------------------------------------------------------------
# Irving's stages, statements matched one by one (exceptions as None): poset, shortlists, rotation search, rotation bookkeeping; flow.reachable_vertices

def _structure(stmts, ind=0):
    """normalised, indentation-structured listing of a statement list (tuple targets without parentheses)"""
    out = []
    for s in stmts:
        if isinstance(s, ast.For):
            if s.orelse: _fail(s, "for-else")
            out.append(" " * ind + "for %s in %s:" % (U(s.target).strip("()"), U(s.iter))); out += _structure(s.body, ind + 2)
        elif isinstance(s, ast.While):
            if s.orelse: _fail(s, "while-else")
            out.append(" " * ind + "while %s:" % U(s.test)); out += _structure(s.body, ind + 2)
        elif isinstance(s, ast.If):
            out.append(" " * ind + "if %s:" % U(s.test)); out += _structure(s.body, ind + 2)
            if s.orelse:
                out.append(" " * ind + "else:"); out += _structure(s.orelse, ind + 2)
        else:
            out.append(" " * ind + re.sub(r"\s+", " ", U(s)))
    return out

POSET_SHAPE = """P_prime = {pi: [] for pi in range(len(rotations))}
n = len(preference_lists_1)
rotation_of_pair = {}
for index, rotation in enumerate(rotations):
  for i, j in rotation:
    rotation_of_pair[i, j] = index
for m in range(n):
  j = 0
  while j < len(preference_lists_1[m]) - 1:
    w = preference_lists_1[m][j]
    if (m, w) not in rotation_of_pair:
      j += 1
      continue
    j_prime = j + 1
    while j_prime < len(preference_lists_1[m]):
      w_prime = preference_lists_1[m][j_prime]
      if (m, w_prime) in rotation_of_pair:
        pi = rotation_of_pair[m, w]
        rho = rotation_of_pair[m, w_prime]
        if rho not in P_prime[pi]:
          P_prime[pi].append(rho)
        break
      else:
        if (m, w_prime) in eliminating_rotation_of_pair:
          pi = eliminating_rotation_of_pair[m, w_prime]
          rho = rotation_of_pair[m, w]
          rotation = rotations[rho]
          w_next = rotation[(rotation.index((m, w)) + 1) % len(rotation)][1]
          w_rank = np.where(preference_lists_1[m] == w_prime)[0][0]
          w_next_rank = np.where(preference_lists_1[m] == w_next)[0][0]
          if w_rank < w_next_rank:
            if rho not in P_prime[pi]:
              P_prime[pi].append(rho)
      j_prime += 1
    j = j_prime
return P_prime"""

POSET_GALLINA = r"""(* Every lookup that raises in Python (a missing dictionary key, list.index / np.where(..)[0][0] of an absent element, an index out of range, % 0) makes the
   generated function return None. Dictionaries keyed by pairs are association lists (Irving.aget / aset), P_prime is the list of its values in key order 0, 1, ... *)
Section GenPoset.
Variables (rotations : list rot) (preference_lists_1 : list (list nat)) (eliminating_rotation_of_pair : list ((nat * nat) * nat)).
(* rotation_of_pair = {}; for index, rotation in enumerate(rotations): for i, j in rotation: rotation_of_pair[i, j] = index *)
Definition gen_rotation_of_pair : list ((nat * nat) * nat) :=
  fold_left (fun rotation_of_pair ir => fold_left (fun rotation_of_pair ij => aset rotation_of_pair ij (fst ir)) (snd ir) rotation_of_pair) (combine (seq 0 (length rotations)) rotations) [].
(* if rho not in P_prime[pi]: P_prime[pi].append(rho) *)
Definition gen_poset_add (P_prime : list (list nat)) (pi rho : nat) : option (list (list nat)) :=
  if (pi <? length P_prime)%nat then Some (if negb (memn rho (nthl P_prime pi)) then upd P_prime pi (nthl P_prime pi ++ [rho]) else P_prime) else None.
(* the inner while loop; result: P_prime and j_prime at the break or at the exit *)
Fixpoint gen_poset_inner (fuel : nat) (m w : nat) (j_prime : nat) (P_prime : list (list nat)) : option (list (list nat) * nat) :=
  match fuel with O => None | S f =>
    if negb (j_prime <? length (nthl preference_lists_1 m))%nat then Some (P_prime, j_prime) else
    let w_prime := nthn (nthl preference_lists_1 m) j_prime in
    if (match aget gen_rotation_of_pair (m, w_prime) with Some _ => true | None => false end) then
      match aget gen_rotation_of_pair (m, w) with None => None | Some pi =>
      match aget gen_rotation_of_pair (m, w_prime) with None => None | Some rho =>
      match gen_poset_add P_prime pi rho with None => None | Some P_prime => Some (P_prime, j_prime) (* break *) end end end
    else
      match (if (match aget eliminating_rotation_of_pair (m, w_prime) with Some _ => true | None => false end) then
               match aget eliminating_rotation_of_pair (m, w_prime) with None => None | Some pi =>
               match aget gen_rotation_of_pair (m, w) with None => None | Some rho =>
               match nth_error rotations rho with None => None | Some rotation =>
               match pindex_of (m, w) rotation with None => None | Some k_ =>
               if (length rotation =? 0)%nat then None else
               let w_next := snd (nth ((k_ + 1) mod (length rotation)) rotation (O, O)) in
               match index_of w_prime (nthl preference_lists_1 m) with None => None | Some w_rank =>
               match index_of w_next (nthl preference_lists_1 m) with None => None | Some w_next_rank =>
               if (w_rank <? w_next_rank)%nat then gen_poset_add P_prime pi rho else Some P_prime end end end end end end
             else Some P_prime) with
      | None => None
      | Some P_prime => gen_poset_inner f m w (S j_prime) P_prime
      end
  end.
(* the outer while loop of one man *)
Fixpoint gen_poset_outer (fuel : nat) (m : nat) (j : nat) (P_prime : list (list nat)) : option (list (list nat)) :=
  match fuel with O => None | S f =>
    if negb (j <? length (nthl preference_lists_1 m) - 1)%nat then Some P_prime else
    let w := nthn (nthl preference_lists_1 m) j in
    if negb (match aget gen_rotation_of_pair (m, w) with Some _ => true | None => false end) then gen_poset_outer f m (j + 1) P_prime (* continue *) else
    let j_prime := (j + 1)%nat in
    match gen_poset_inner (S (length (nthl preference_lists_1 m))) m w j_prime P_prime with None => None | Some (P_prime, j_prime) =>
    let j := j_prime in gen_poset_outer f m j P_prime end
  end.
Definition gen_poset : option (list (list nat)) :=
  let P_prime := repeat [] (length rotations) in
  let n := length preference_lists_1 in
  fold_left (fun P_prime m => match P_prime with None => None | Some P_prime => gen_poset_outer (S (length (nthl preference_lists_1 m))) m 0 P_prime end) (seq 0 n) (Some P_prime).
End GenPoset.
"""

def translate_irvposet(repo):
    src = open(os.path.join(repo, "socialchoicekit", "deterministic_matching.py")).read()
    cls = _find(ast.parse(src).body, ast.ClassDef, "Irving")
    f = _find(cls.body, ast.FunctionDef, "construct_sparse_rotation_poset_graph")
    a = [x.arg for x in f.args.args]
    if a != ["self", "rotations", "preference_lists_1", "eliminating_rotation_of_pair"] or f.args.defaults or f.args.vararg or f.args.kwarg or f.args.kwonlyargs:
        _fail(f, "construct_sparse_rotation_poset_graph(self, rotations, preference_lists_1, eliminating_rotation_of_pair) expected")
    got = _structure(_body(f)); want = POSET_SHAPE.split("\n")
    for k in range(max(len(got), len(want))):
        g_ = got[k] if k < len(got) else "<end>"; w_ = want[k] if k < len(want) else "<end>"
        if g_ != w_: _fail(f, "construct_sparse_rotation_poset_graph, statement %d: %r expected, got %r" % (k + 1, w_.strip(), g_.strip()))
    return "\n".join(["(* GENERATED by harness/translate.py from Irving.construct_sparse_rotation_poset_graph (deterministic_matching.py:%d), whose statements were matched one by one. Do not edit. *)" % f.lineno,
                      "From Coq Require Import Arith ZArith List Bool.", "Import ListNotations.", "From SCK Require Import FlowModel Mwcs Irving.", "", POSET_GALLINA])

REACH_SHAPE = """ans = set()
frontier = set([s])
while True:
  if len(frontier) == 0:
    break
  current_node = frontier.pop()
  if current_node not in ans:
    ans.add(current_node)
    for v, c in G[current_node]:
      if c > 0:
        frontier.add(v)
return ans"""

REACH_GALLINA = r"""(* Python sets are duplicate-free lists; set.pop() removes and returns an ARBITRARY element: `pop` is an oracle that picks one (assumed only to pick a member).
   G[current_node] raises KeyError for a vertex that is not a key: None. fuel bounds the number of passes of `while True`. *)
Definition gen_set_add (x : Z) (l : list Z) : list Z := if memZ x l then l else l ++ [x].
Fixpoint gen_reach_loop (pop : list Z -> Z) (G : graph) (fuel : nat) (frontier ans : list Z) : option (list Z) :=
  match fuel with O => None | S f =>
    if (length frontier =? 0)%nat then Some ans (* break *) else
    let current_node := pop frontier in
    let frontier := remove Z.eq_dec current_node frontier in
    if negb (memZ current_node ans) then
      let ans := gen_set_add current_node ans in
      if negb (memZ current_node (keys G)) then None else
      let frontier := fold_left (fun frontier vc => if snd vc >? 0 then gen_set_add (fst vc) frontier else frontier) (lookup G current_node) frontier in
      gen_reach_loop pop G f frontier ans
    else gen_reach_loop pop G f frontier ans
  end.
Definition gen_reachable_vertices (pop : list Z -> Z) (G : graph) (fuel : nat) (s : Z) : option (list Z) := gen_reach_loop pop G fuel [s] [].
"""

def translate_reach(repo):
    src = open(os.path.join(repo, "socialchoicekit", "flow.py")).read()
    f = _find(ast.parse(src).body, ast.FunctionDef, "reachable_vertices")
    a = [x.arg for x in f.args.args]
    if a != ["G", "s"] or f.args.defaults or f.args.vararg or f.args.kwarg or f.args.kwonlyargs: _fail(f, "reachable_vertices(G, s) expected")
    got = _structure(_body(f)); want = REACH_SHAPE.split("\n")
    for k in range(max(len(got), len(want))):
        g_ = got[k] if k < len(got) else "<end>"; w_ = want[k] if k < len(want) else "<end>"
        if g_ != w_: _fail(f, "reachable_vertices, statement %d: %r expected, got %r" % (k + 1, w_.strip(), g_.strip()))
    return "\n".join(["(* GENERATED by harness/translate.py from reachable_vertices (flow.py:%d), whose statements were matched one by one. Do not edit. *)" % f.lineno,
                      "From Coq Require Import Arith ZArith List Bool.", "Import ListNotations.", "From SCK Require Import FlowModel.", "Local Open Scope Z_scope.", "", REACH_GALLINA])

INIT_SHAPE = """profile_1 = np.asarray(profile_1).astype(np.int64)
profile_2 = np.asarray(profile_2).astype(np.int64)
n = profile_1.shape[0]
ranked_profile_1 = np.argsort(profile_1, axis=1)
ranked_profile_2 = np.argsort(profile_2, axis=1)
preference_lists_1 = {i: ranked_profile_1[i, profile_1[i, j]:] for i, j in stable_marriage}
preference_lists_2 = {j: ranked_profile_2[j, :profile_2[j, i] + 1] for i, j in stable_marriage}
new_preference_lists_1 = {}
new_preference_lists_2 = {}
for i in range(n):
  new_preference_lists_1[i] = np.array([])
  for j in preference_lists_1[i]:
    if i in preference_lists_2[j]:
      new_preference_lists_1[i] = np.append(new_preference_lists_1[i], j)
for j in range(n):
  new_preference_lists_2[j] = np.array([])
  for i in preference_lists_2[j]:
    if j in new_preference_lists_1[i]:
      new_preference_lists_2[j] = np.append(new_preference_lists_2[j], i)
for i in range(n):
  new_preference_lists_1[i] = new_preference_lists_1[i].astype(np.int64)
  new_preference_lists_2[i] = new_preference_lists_2[i].astype(np.int64)
return (new_preference_lists_1, new_preference_lists_2)"""

INIT_GALLINA = r"""(* A dictionary built by a comprehension over the matching is the list of its (key, value) pairs in that order; a later pair with the same key overwrites an
   earlier one, so a lookup takes the LAST pair with the key (gen_dget). A missing key (KeyError) and an index outside a profile (IndexError) give None.
   np.argsort(profile, axis=1) is the parameter `argsort` applied to every row; the dictionaries returned are the lists of their values for the keys 0 .. n-1. *)
Definition gen_dget {V} (d : list (nat * V)) (k : nat) : option V := option_map snd (find (fun p => (fst p =? k)%nat) (rev d)).
Fixpoint gen_omap {A B} (f : A -> option B) (l : list A) : option (list B) :=
  match l with [] => Some [] | x :: t => match f x with None => None | Some y => match gen_omap f t with None => None | Some r => Some (y :: r) end end end.
Fixpoint gen_ofilter {A} (f : A -> option bool) (l : list A) : option (list A) :=
  match l with [] => Some [] | x :: t => match f x with None => None | Some b => match gen_ofilter f t with None => None | Some r => Some (if b then x :: r else r) end end end.
Section GenInit.
Variable argsort : list nat -> list nat.
Variables (stable_marriage : list (nat * nat)) (profile_1 profile_2 : list (list nat)).
Definition gen_init_at (P : list (list nat)) (a b : nat) : option nat := match nth_error P a with None => None | Some row => nth_error row b end.   (* P[a, b] *)
(* preference_lists_1 = {i: ranked_profile_1[i, profile_1[i, j]:] for i, j in stable_marriage} *)
Definition gen_init_pl1 : option (list (nat * list nat)) :=
  gen_omap (fun ij : nat * nat => match gen_init_at profile_1 (fst ij) (snd ij) with None => None | Some r => Some (fst ij, skipn r (nthl (map argsort profile_1) (fst ij))) end) stable_marriage.
(* preference_lists_2 = {j: ranked_profile_2[j, :profile_2[j, i] + 1] for i, j in stable_marriage} *)
Definition gen_init_pl2 : option (list (nat * list nat)) :=
  gen_omap (fun ij : nat * nat => match gen_init_at profile_2 (snd ij) (fst ij) with None => None | Some r => Some (snd ij, firstn (r + 1) (nthl (map argsort profile_2) (snd ij))) end) stable_marriage.
Definition gen_initial_lists : option (list (list nat) * list (list nat)) :=
  let n := length profile_1 in
  match gen_init_pl1 with None => None | Some preference_lists_1 =>
  match gen_init_pl2 with None => None | Some preference_lists_2 =>
  (* for i in range(n): new_1[i] = [j for j in preference_lists_1[i] if i in preference_lists_2[j]] *)
  match gen_omap (fun i => match gen_dget preference_lists_1 i with None => None | Some l =>
                   gen_ofilter (fun j => option_map (memn i) (gen_dget preference_lists_2 j)) l end) (seq 0 n) with None => None | Some new_preference_lists_1 =>
  (* for j in range(n): new_2[j] = [i for i in preference_lists_2[j] if j in new_1[i]] *)
  match gen_omap (fun j => match gen_dget preference_lists_2 j with None => None | Some l =>
                   gen_ofilter (fun i => option_map (memn j) (nth_error new_preference_lists_1 i)) l end) (seq 0 n) with None => None | Some new_preference_lists_2 =>
  Some (new_preference_lists_1, new_preference_lists_2) end end end end.
End GenInit.
"""

def translate_irvinit(repo):
    src = open(os.path.join(repo, "socialchoicekit", "deterministic_matching.py")).read()
    cls = _find(ast.parse(src).body, ast.ClassDef, "Irving")
    f = _method(cls, "find_initial_preference_lists", True)
    a = [x.arg for x in f.args.args]
    if a != ["stable_marriage", "profile_1", "profile_2"] or f.args.defaults or f.args.vararg or f.args.kwarg or f.args.kwonlyargs: _fail(f, "find_initial_preference_lists(stable_marriage, profile_1, profile_2) expected")
    got = [re.sub(r"for \((\w+), (\w+)\) in", r"for \1, \2 in", x) for x in _structure(_body(f))]; want = INIT_SHAPE.split("\n")
    for k in range(max(len(got), len(want))):
        g_ = got[k] if k < len(got) else "<end>"; w_ = want[k] if k < len(want) else "<end>"
        if g_ != w_: _fail(f, "find_initial_preference_lists, statement %d: %r expected, got %r" % (k + 1, w_.strip(), g_.strip()))
    return "\n".join(["(* GENERATED by harness/translate.py from Irving.find_initial_preference_lists (deterministic_matching.py:%d), whose statements were matched one by one. Do not edit. *)" % f.lineno,
                      "From Coq Require Import Arith ZArith List Bool.", "Import ListNotations.", "From SCK Require Import FlowModel Mwcs Irving.", "", INIT_GALLINA])

ROT_SHAPE = """n = len(preference_lists_1)
assert n == len(preference_lists_2)
G = {i: [] for i in range(n)}
for i in range(n):
  if len(preference_lists_1[i]) <= 1:
    continue
  j = preference_lists_1[i][1]
  i_prime = preference_lists_2[j][-1]
  if i != i_prime:
    G[i].append(i_prime)
visited = [False] * n
start_point = 0
cycles = []
while start_point < n:
  if visited[start_point]:
    start_point += 1
    continue
  cycle = []
  current_node = start_point
  while not visited[current_node]:
    visited[current_node] = True
    if len(G[current_node]) == 0:
      break
    next_node = G[current_node][0]
    cycle.append((current_node, preference_lists_1[current_node][0]))
    current_node = next_node
  if len(preference_lists_1[current_node]) > 0:
    start_cycle_pair = (current_node, preference_lists_1[current_node][0])
    if start_cycle_pair in cycle:
      index = cycle.index(start_cycle_pair)
      cycles.append(cycle[index:])
return cycles"""

ROT_GALLINA = r"""(* The dictionaries of shortlists are the lists of their values for the keys 0 .. n-1. G[i] holds at most one vertex: it is an option. Lookups that raise in
   Python (preference_lists_2[j] for j outside 0 .. n-1, [-1] of an empty list, visited[v] for v outside 0 .. n-1) give None; so does the failed assertion. *)
Section GenRot.
Variables (preference_lists_1 preference_lists_2 : list (list nat)).
Definition gen_rot_G_entry (i : nat) : option (option nat) :=
  if (length (nthl preference_lists_1 i) <=? 1)%nat then Some None (* continue *) else
  let j := nthn (nthl preference_lists_1 i) 1 in
  match nth_error preference_lists_2 j with None => None | Some l2 =>
  match l2 with [] => None | _ :: _ => let i_prime := last l2 O in Some (if negb (i =? i_prime)%nat then Some i_prime else None) end end.
Fixpoint gen_rot_omap {A B} (f : A -> option B) (l : list A) : option (list B) :=
  match l with [] => Some [] | x :: t => match f x with None => None | Some y => match gen_rot_omap f t with None => None | Some r => Some (y :: r) end end end.
(* the inner while loop: (current_node, cycle, visited) at its exit *)
Fixpoint gen_rot_walk (G : list (option nat)) (fuel : nat) (current_node : nat) (cycle : rot) (visited : list bool) : option (nat * rot * list bool) :=
  match fuel with O => None | S f =>
    match nth_error visited current_node with None => None | Some v =>
    if negb (negb v) then Some (current_node, cycle, visited) else
    let visited := upd visited current_node true in
    match nth_error G current_node with None => None | Some g =>
    match g with None => Some (current_node, cycle, visited) (* break *) | Some next_node =>
    gen_rot_walk G f next_node (cycle ++ [(current_node, nthn (nthl preference_lists_1 current_node) 0)]) visited end end end
  end.
(* one pass of the outer while loop with visited[start_point] false, followed by the pass that only increments start_point *)
Definition gen_rot_start (G : list (option nat)) (n : nat) (st : option (list rot * list bool)) (start_point : nat) : option (list rot * list bool) :=
  match st with None => None | Some (cycles, visited) =>
  match nth_error visited start_point with None => None | Some v =>
  if v then Some (cycles, visited) else
  match gen_rot_walk G (S n) start_point [] visited with None => None | Some (current_node, cycle, visited) =>
  if (0 <? length (nthl preference_lists_1 current_node))%nat then
    let start_cycle_pair := (current_node, nthn (nthl preference_lists_1 current_node) 0) in
    match pindex_of start_cycle_pair cycle with
    | Some index => Some (cycles ++ [skipn index cycle], visited)
    | None => Some (cycles, visited) end
  else Some (cycles, visited) end end end.
Definition gen_find_rotations : option (list rot) :=
  let n := length preference_lists_1 in
  if negb (n =? length preference_lists_2)%nat then None else
  match gen_rot_omap gen_rot_G_entry (seq 0 n) with None => None | Some G =>
  option_map fst (fold_left (gen_rot_start G n) (seq 0 n) (Some ([], repeat false n))) end.
End GenRot.
"""

def translate_irvrot(repo):
    src = open(os.path.join(repo, "socialchoicekit", "deterministic_matching.py")).read()
    cls = _find(ast.parse(src).body, ast.ClassDef, "Irving")
    f = _method(cls, "find_rotations", False)
    a = [x.arg for x in f.args.args]
    if a != ["self", "preference_lists_1", "preference_lists_2"] or f.args.defaults or f.args.vararg or f.args.kwarg or f.args.kwonlyargs: _fail(f, "find_rotations(self, preference_lists_1, preference_lists_2) expected")
    got = [re.sub(r"for \((\w+), (\w+)\) in", r"for \1, \2 in", x) for x in _structure(_body(f))]; want = ROT_SHAPE.split("\n")
    for k in range(max(len(got), len(want))):
        g_ = got[k] if k < len(got) else "<end>"; w_ = want[k] if k < len(want) else "<end>"
        if g_ != w_: _fail(f, "find_rotations, statement %d: %r expected, got %r" % (k + 1, w_.strip(), g_.strip()))
    return "\n".join(["(* GENERATED by harness/translate.py from Irving.find_rotations (deterministic_matching.py:%d), whose statements were matched one by one. Do not edit. *)" % f.lineno,
                      "From Coq Require Import Arith ZArith List Bool.", "Import ListNotations.", "From SCK Require Import FlowModel Mwcs Irving.", "", ROT_GALLINA])

ALL_SHAPE = """n = len(preference_lists_1)
assert n == len(preference_lists_2)
ans = []
preference_matrix_1 = {(i, j): 1 for i in range(n) for j in preference_lists_1[i]}
preference_matrix_2 = {(j, i): 1 for j in range(n) for i in preference_lists_2[j]}
eliminating_rotations_of_pair = {}
current_rotation = -1
while True:
  rotations = self.find_rotations(preference_lists_1, preference_lists_2)
  if len(rotations) == 0:
    break
  ans += rotations
  for rotation in rotations:
    current_rotation += 1
    r = len(rotation)
    for i in range(r):
      m_i_minus_1 = rotation[(i - 1) % r][0]
      w_i = rotation[i][1]
      k = len(preference_lists_2[w_i]) - 1
      while k >= 0:
        if preference_lists_2[w_i][k] == m_i_minus_1:
          preference_lists_2[w_i] = preference_lists_2[w_i][:k + 1]
          break
        preference_matrix_2[w_i, preference_lists_2[w_i][k]] = 0
        eliminating_rotations_of_pair[preference_lists_2[w_i][k], w_i] = current_rotation
        k -= 1
  for i in range(n):
    k = 0
    while True:
      if k >= preference_lists_1[i].shape[0]:
        preference_lists_1[i] = np.array([])
        break
      j = preference_lists_1[i][k]
      in_preference_list = preference_matrix_2.get((j, i), 0)
      if in_preference_list:
        preference_lists_1[i] = preference_lists_1[i][k:]
        break
      preference_matrix_1[i, j] = 0
      k += 1
    k = 1
    while True:
      if k >= preference_lists_1[i].shape[0]:
        preference_lists_1[i] = preference_lists_1[i][:1]
        break
      j = preference_lists_1[i][k]
      in_preference_list = preference_matrix_2.get((j, i), 0)
      if in_preference_list:
        preference_lists_1[i] = np.append(preference_lists_1[i][0], preference_lists_1[i][k:])
        break
      k += 1
return (ans, eliminating_rotations_of_pair)"""

ALL_GALLINA = r"""(* preference_matrix_1 is only ever written (the translator checks that no expression reads it): it is left out. preference_matrix_2 and
   eliminating_rotations_of_pair are association lists (Irving.aget / aset). current_rotation starts at -1 and is incremented BEFORE it is used: the state keeps
   next = current_rotation + 1, a natural number, and a rotation is numbered with the value of next before the increment. The scan `k = len(l) - 1; while k >= 0`
   walks the list from its end: it recurses over the reversed list. self.find_rotations is the parameter find_rotations (None = it raises). *)
Definition gen_all_truthy (o : option nat) : bool := match o with Some (S _) => true | _ => false end.      (* `if d.get(key, 0):` *)
Section GenAll.
Variable find_rotations : list (list nat) -> list (list nat) -> option (list rot).
(* k = len(l) - 1; while k >= 0: if l[k] == m_i_minus_1: l = l[:k + 1]; break; matrix_2[w_i, l[k]] = 0; elim[l[k], w_i] = current_rotation; k -= 1 *)
Fixpoint gen_all_scan (revl : list nat) (w_i m_i_minus_1 current_rotation : nat) (preference_matrix_2 eliminating : list ((nat * nat) * nat))
  : option (list nat) * list ((nat * nat) * nat) * list ((nat * nat) * nat) :=
  match revl with
  | [] => (None, preference_matrix_2, eliminating)
  | x :: r => if (x =? m_i_minus_1)%nat then (Some (rev revl), preference_matrix_2, eliminating)
              else gen_all_scan r w_i m_i_minus_1 current_rotation (aset preference_matrix_2 (w_i, x) 0) (aset eliminating (x, w_i) current_rotation)
  end.
Record gen_all_state := { g_pl1 : list (list nat); g_pl2 : list (list nat); g_m2 : list ((nat * nat) * nat); g_elim : list ((nat * nat) * nat); g_next : nat; g_ans : list rot }.
(* the body of `for i in range(r)` *)
Definition gen_all_pair (rotation : rot) (current_rotation : nat) (st : gen_all_state) (i : nat) : gen_all_state :=
  let r := length rotation in
  let m_i_minus_1 := fst (nth ((i + r - 1) mod r) rotation (O, O)) in      (* (i - 1) % r *)
  let w_i := snd (nth i rotation (O, O)) in
  let '(res, m2, el) := gen_all_scan (rev (nthl (g_pl2 st) w_i)) w_i m_i_minus_1 current_rotation (g_m2 st) (g_elim st) in
  {| g_pl1 := g_pl1 st; g_pl2 := match res with Some l => upd (g_pl2 st) w_i l | None => g_pl2 st end; g_m2 := m2; g_elim := el; g_next := g_next st; g_ans := g_ans st |}.
(* the body of `for rotation in rotations` *)
Definition gen_all_rotation (st : gen_all_state) (rotation : rot) : gen_all_state :=
  let current_rotation := g_next st in
  let st' := fold_left (gen_all_pair rotation current_rotation) (seq 0 (length rotation)) st in
  {| g_pl1 := g_pl1 st'; g_pl2 := g_pl2 st'; g_m2 := g_m2 st'; g_elim := g_elim st'; g_next := S current_rotation; g_ans := g_ans st' |}.
(* the two `while True` scans of a man's list: drop the entries whose matrix entry is falsy from the front, then, after the first entry, again *)
Fixpoint gen_all_drop (m2 : list ((nat * nat) * nat)) (i : nat) (l : list nat) : list nat :=
  match l with [] => [] | j :: t => if gen_all_truthy (aget m2 (j, i)) then l else gen_all_drop m2 i t end.
Definition gen_all_man (m2 : list ((nat * nat) * nat)) (i : nat) (l : list nat) : list nat :=
  match gen_all_drop m2 i l with [] => [] | x :: rest => x :: gen_all_drop m2 i rest end.
Fixpoint gen_all_loop (fuel : nat) (st : gen_all_state) : option gen_all_state :=
  match fuel with O => None | S f =>
    match find_rotations (g_pl1 st) (g_pl2 st) with None => None | Some rotations =>
    if (length rotations =? 0)%nat then Some st (* break *) else
    let st := {| g_pl1 := g_pl1 st; g_pl2 := g_pl2 st; g_m2 := g_m2 st; g_elim := g_elim st; g_next := g_next st; g_ans := g_ans st ++ rotations |} in
    let st := fold_left gen_all_rotation rotations st in
    let pl1 := map (fun il => gen_all_man (g_m2 st) (fst il) (snd il)) (combine (seq 0 (length (g_pl1 st))) (g_pl1 st)) in
    gen_all_loop f {| g_pl1 := pl1; g_pl2 := g_pl2 st; g_m2 := g_m2 st; g_elim := g_elim st; g_next := g_next st; g_ans := g_ans st |} end
  end.
Definition gen_find_all (fuel : nat) (preference_lists_1 preference_lists_2 : list (list nat)) : option (list rot * list ((nat * nat) * nat)) :=
  let n := length preference_lists_1 in
  if negb (n =? length preference_lists_2)%nat then None else
  let preference_matrix_2 := fold_left (fun m jl => fold_left (fun m i => aset m (fst jl, i) 1) (snd jl) m) (combine (seq 0 n) preference_lists_2) [] in
  match gen_all_loop fuel {| g_pl1 := preference_lists_1; g_pl2 := preference_lists_2; g_m2 := preference_matrix_2; g_elim := []; g_next := 0; g_ans := [] |} with
  | Some st => Some (g_ans st, g_elim st) | None => None end.
End GenAll.
"""

def translate_irvall(repo):
    src = open(os.path.join(repo, "socialchoicekit", "deterministic_matching.py")).read()
    cls = _find(ast.parse(src).body, ast.ClassDef, "Irving")
    f = _method(cls, "find_all_rotations_and_eliminations", False)
    a = [x.arg for x in f.args.args]
    if a != ["self", "preference_lists_1", "preference_lists_2"] or f.args.defaults or f.args.vararg or f.args.kwarg or f.args.kwonlyargs: _fail(f, "find_all_rotations_and_eliminations(self, preference_lists_1, preference_lists_2) expected")
    got = [re.sub(r"for \((\w+), (\w+)\) in", r"for \1, \2 in", x) for x in _structure(_body(f))]; want = ALL_SHAPE.split("\n")
    for k in range(max(len(got), len(want))):
        g_ = got[k] if k < len(got) else "<end>"; w_ = want[k] if k < len(want) else "<end>"
        if g_ != w_: _fail(f, "find_all_rotations_and_eliminations, statement %d: %r expected, got %r" % (k + 1, w_.strip(), g_.strip()))
    for node in ast.walk(f):      # preference_matrix_1 must be a dead store
        if isinstance(node, ast.Name) and node.id == "preference_matrix_1" and isinstance(node.ctx, ast.Load):
            par = [p for p in ast.walk(f) if isinstance(p, ast.Subscript) and p.value is node and isinstance(p.ctx, ast.Store)]
            if not par: _fail(node, "preference_matrix_1 is read somewhere")
    return "\n".join(["(* GENERATED by harness/translate.py from Irving.find_all_rotations_and_eliminations (deterministic_matching.py:%d), whose statements were matched one by one. Do not edit. *)" % f.lineno,
                      "From Coq Require Import Arith ZArith List Bool.", "Import ListNotations.", "From SCK Require Import FlowModel Mwcs Irving.", "", ALL_GALLINA])

# ---------------------------------------------------------------------------------------------------------------
# profile_utils.profile_with_ties_to_strict_profile (statements matched one by one; the reordering of a tied group is a parameter)
STRICT_SHAPE = """check_tie_breaker(tie_breaker, include_accept=False)
check_profile(profile, is_complete=False, is_strict=False)
n = profile.shape[0]
m = profile.shape[1]
strict_profile = np.array(profile)
ranked_profile = np.argsort(profile, axis=1)
for i in range(n):
  r = 0
  while r < m:
    k = 1
    while k < m - r and profile[i, ranked_profile[i, r + k]] == profile[i, ranked_profile[i, r]]:
      k += 1
    num_tied = k
    if np.isnan(profile[i, ranked_profile[i, r]]):
      break
    tied_indices = np.array([ranked_profile[i, r + j] for j in range(num_tied)])
    if num_tied > 1:
      if tie_breaker == 'random':
        np.random.shuffle(tied_indices)
      if tie_breaker == 'first':
        tied_indices = np.sort(tied_indices)
    strict_profile[i, tied_indices] = np.arange(r + 1, r + num_tied + 1)
    r += num_tied
if isinstance(profile, CompleteProfile):
  return StrictCompleteProfile.of(strict_profile)
return StrictIncompleteProfile.of(strict_profile)"""

STRICT_GALLINA = r"""(* One agent (row i). A rank that may be NaN is an option Q; `==` on floats is Qeq_bool and False on NaN. ranked_row = np.argsort(profile_row) is an input
   (numpy's sort). The reordering of a group of tied alternatives - np.random.shuffle for 'random', np.sort for 'first', nothing for a single alternative - is the
   parameter reorder (what is assumed of it is stated in the proof file). fuel bounds the passes of the two while loops (m + 1 suffice). *)
Definition gen_strict_eq (a b : option Q) : bool := match a, b with Some x, Some y => Qeq_bool x y | _, _ => false end.
(* k = 1; while k < m - r and profile[i, ranked[r + k]] == profile[i, ranked[r]]: k += 1 *)
Fixpoint gen_strict_run (profile_row : list (option Q)) (ranked_row : list nat) (m r : nat) (fuel k : nat) : nat :=
  match fuel with O => k | S f =>
    if (k <? m - r)%nat && gen_strict_eq (nth (nth (r + k) ranked_row O) profile_row None) (nth (nth r ranked_row O) profile_row None)
    then gen_strict_run profile_row ranked_row m r f (S k) else k end.
(* strict_profile[i, tied_indices] = np.arange(r + 1, r + num_tied + 1) *)
Definition gen_strict_assign (strict_row : list (option Q)) (tied_indices : list nat) (r : nat) : list (option Q) :=
  fold_left (fun s xj => upd s (fst xj) (Some (inject_Z (Z.of_nat (snd xj))))) (combine tied_indices (seq (r + 1) (length tied_indices))) strict_row.
Fixpoint gen_strict_loop (reorder : list nat -> list nat) (profile_row : list (option Q)) (ranked_row : list nat) (m : nat) (fuel r : nat) (strict_row : list (option Q)) : option (list (option Q)) :=
  match fuel with O => None | S f =>
    if negb (r <? m)%nat then Some strict_row else
    let k := gen_strict_run profile_row ranked_row m r (S m) 1 in
    let num_tied := k in
    match nth (nth r ranked_row O) profile_row None with None => Some strict_row (* break *) | Some _ =>
    let tied_indices := map (fun j => nth (r + j) ranked_row O) (seq 0 num_tied) in
    let tied_indices := if (1 <? num_tied)%nat then reorder tied_indices else tied_indices in
    gen_strict_loop reorder profile_row ranked_row m f (r + num_tied) (gen_strict_assign strict_row tied_indices r) end
  end.
(* strict_profile = np.array(profile): the row starts as a copy of the profile row *)
Definition gen_strict_row (reorder : list nat -> list nat) (profile_row : list (option Q)) (ranked_row : list nat) : option (list (option Q)) :=
  let m := length profile_row in gen_strict_loop reorder profile_row ranked_row m (S m) 0 profile_row.
"""

def translate_strictify(repo):
    src = open(os.path.join(repo, "socialchoicekit", "profile_utils.py")).read()
    f = _find(ast.parse(src).body, ast.FunctionDef, "profile_with_ties_to_strict_profile")
    a = [x.arg for x in f.args.args]
    if a != ["profile", "tie_breaker"] or [U(d) for d in f.args.defaults] != ["'random'"] or f.args.vararg or f.args.kwarg or f.args.kwonlyargs: _fail(f, "profile_with_ties_to_strict_profile(profile, tie_breaker='random') expected")
    got = _structure(_body(f)); want = STRICT_SHAPE.split("\n")
    for k in range(max(len(got), len(want))):
        g_ = got[k] if k < len(got) else "<end>"; w_ = want[k] if k < len(want) else "<end>"
        if g_ != w_: _fail(f, "profile_with_ties_to_strict_profile, statement %d: %r expected, got %r" % (k + 1, w_.strip(), g_.strip()))
    return "\n".join(["(* GENERATED by harness/translate.py from profile_with_ties_to_strict_profile (profile_utils.py:%d), whose statements were matched one by one. Do not edit. *)" % f.lineno,
                      "From Coq Require Import Arith ZArith QArith List Bool.", "Import ListNotations.", "From SCK Require Import Eat3.", "", STRICT_GALLINA])

# ---------------------------------------------------------------------------------------------------------------
# the rest of elicitation_utils.py: elicit_multiple, IntegerElicitor, the answering subclasses (statements matched one by one)
MULTI = """if agents.shape != alternatives.shape:
  raise ValueError('The two input arrays must have the same shape.')
if not (np.issubdtype(agents.dtype, np.integer) and np.issubdtype(alternatives.dtype, np.integer)):
  raise ValueError('The input arrays must contain only integers.')
ans = []
for agent, alternative in zip(agents, alternatives):
  ans.append(self.elicit(agent, alternative))
return np.array(ans%s)"""
INT_ELICIT = """elicited_value: Union[int, float] = super().elicit(agent, alternative)
if isinstance(elicited_value, float) and (not elicited_value.is_integer()):
  raise ValueError('The elicited value must be an integer.')
return int(elicited_value)"""
STDIN_IMPL = """agent_name = agent
alternative_name = alternative
if self.preflib_instance is not None:
  alternative_name = self.preflib_instance.alternatives_name[alternative]
print(f'Agent {agent_name}, what is your preference for alternative {alternative_name}?')
return float(input())"""

def _shape(fn, want, what):
    got = [re.sub(r"for \((\w+), (\w+)\) in", r"for \1, \2 in", x) for x in _structure(_body(fn))]; want = want.split("\n")
    for k in range(max(len(got), len(want))):
        g_ = got[k] if k < len(got) else "<end>"; w_ = want[k] if k < len(want) else "<end>"
        if g_ != w_: _fail(fn, "%s, statement %d: %r expected, got %r" % (what, k + 1, w_.strip(), g_.strip()))

def _sig(fn, args, defaults, what):
    if [a.arg for a in fn.args.args] != args or [U(d) for d in fn.args.defaults] != defaults or fn.args.vararg or fn.args.kwarg or fn.args.kwonlyargs:
        _fail(fn, "%s: signature %r with defaults %r expected" % (what, args, defaults))

def translate_elicitclasses(repo):
    src = open(os.path.join(repo, "socialchoicekit", "elicitation_utils.py")).read()
    mod = ast.parse(src)
    classes = [c.name for c in mod.body if isinstance(c, ast.ClassDef)]
    want_classes = ["Elicitor", "IntegerElicitor", "ValuationProfileElicitor", "IntegerValuationProfileElicitor", "SynchronousStdInElicitor", "IntegerSynchronousStdInElicitor", "LambdaElicitor", "IntegerLambdaElicitor"]
    if classes != want_classes: _fail(mod, "classes of elicitation_utils.py: %r expected, got %r" % (want_classes, classes))
    C = {c.name: c for c in mod.body if isinstance(c, ast.ClassDef)}
    bases = {"Elicitor": [], "IntegerElicitor": ["Elicitor"], "ValuationProfileElicitor": ["Elicitor"], "IntegerValuationProfileElicitor": ["IntegerElicitor"],
             "SynchronousStdInElicitor": ["Elicitor"], "IntegerSynchronousStdInElicitor": ["IntegerElicitor"], "LambdaElicitor": ["Elicitor"], "IntegerLambdaElicitor": ["IntegerElicitor"]}
    meths = {"Elicitor": ["__init__", "elicit", "elicit_multiple", "_elicit_impl"], "IntegerElicitor": ["__init__", "elicit", "elicit_multiple", "_elicit_impl"]}
    for n, c in C.items():
        if [U(b) for b in c.bases] != bases[n]: _fail(c, "bases of %s" % n)
        got = [f.name for f in c.body if isinstance(f, ast.FunctionDef)]
        if got != meths.get(n, ["__init__", "_elicit_impl"]): _fail(c, "methods of %s: %r" % (n, got))
        if any(isinstance(x, (ast.Assign, ast.AnnAssign)) for x in c.body): _fail(c, "class attributes in %s" % n)
    m = lambda cn, fn: _find(C[cn].body, ast.FunctionDef, fn)
    f = m("Elicitor", "elicit_multiple"); _sig(f, ["self", "agents", "alternatives"], [], "Elicitor.elicit_multiple"); _shape(f, MULTI % "", "Elicitor.elicit_multiple")
    _shape(m("Elicitor", "_elicit_impl"), "raise NotImplementedError", "Elicitor._elicit_impl")
    f = m("IntegerElicitor", "__init__"); _sig(f, ["self", "memoize", "zero_indexed"], ["True", "False"], "IntegerElicitor.__init__"); _shape(f, "super().__init__(memoize=memoize, zero_indexed=zero_indexed)", "IntegerElicitor.__init__")
    f = m("IntegerElicitor", "elicit"); _sig(f, ["self", "agent", "alternative"], [], "IntegerElicitor.elicit"); _shape(f, INT_ELICIT, "IntegerElicitor.elicit")
    f = m("IntegerElicitor", "elicit_multiple"); _sig(f, ["self", "agents", "alternatives"], [], "IntegerElicitor.elicit_multiple"); _shape(f, MULTI % ", dtype=int", "IntegerElicitor.elicit_multiple")
    _shape(m("IntegerElicitor", "_elicit_impl"), "raise NotImplementedError", "IntegerElicitor._elicit_impl")
    defaults = {}
    for cn, arg, zi, impl in [("ValuationProfileElicitor", "valuation_profile", "True", "return self.valuation_profile[agent, alternative]"),
                              ("IntegerValuationProfileElicitor", "valuation_profile", "True", "return float(self.valuation_profile[agent, alternative])"),
                              ("LambdaElicitor", "elicitation_function", None, "return self.elicitation_function(agent, alternative)"),
                              ("IntegerLambdaElicitor", "elicitation_function", None, "return self.elicitation_function(agent, alternative)"),
                              ("SynchronousStdInElicitor", "preflib_instance", None, STDIN_IMPL), ("IntegerSynchronousStdInElicitor", "preflib_instance", None, STDIN_IMPL)]:
        f = m(cn, "__init__")
        if zi is not None:
            _sig(f, ["self", arg, "memoize"], ["True"], cn + ".__init__"); _shape(f, "self.%s = %s\nsuper().__init__(memoize=memoize, zero_indexed=%s)" % (arg, arg, zi), cn + ".__init__"); defaults[cn] = "true"
        else:
            d = [U(x) for x in f.args.defaults]
            want_d = ["None", "True", "False"] if "StdIn" in cn else ["True", "True"]
            _sig(f, ["self", arg, "memoize", "zero_indexed"], want_d, cn + ".__init__"); _shape(f, "self.%s = %s\nsuper().__init__(memoize=memoize, zero_indexed=zero_indexed)" % (arg, arg), cn + ".__init__")
            defaults[cn] = "true" if d[-1] == "True" else "false"
        f = m(cn, "_elicit_impl"); _sig(f, ["self", "agent", "alternative"], [], cn + "._elicit_impl"); _shape(f, impl, cn + "._elicit_impl")
    return "\n".join([
        "(* GENERATED by harness/translate.py from elicitation_utils.py (elicit_multiple of both base classes, IntegerElicitor, the six answering subclasses), whose statements were matched one by one. Do not edit. *)",
        "From Coq Require Import ZArith QArith Qround List Bool.", "Import ListNotations.", "From SCK Require Import ElicitM ElicitRun.", "Local Open Scope Z_scope.", "",
        "(* Elicitor.elicit_multiple: after the two guards (same shape, integer dtypes), the i-th agent is asked about the i-th alternative through self.elicit, in order *)",
        "Definition gen_elicit_multiple (agents alternatives : list Z) : prog (list Q) := mapP (fun k : key => Ask k (fun v => Ret v)) (combine agents alternatives).", "",
        "(* IntegerElicitor.elicit: the answer of Elicitor.elicit; a float that is not whole raises ValueError (None), anything else is converted with int(..) *)",
        "Definition gen_int_answer (v : Q) : option Z := if Qeq_bool v (inject_Z (Qfloor v)) then Some (Qfloor v) else None.",
        "Definition gen_int_elicit (k : key) : prog (option Z) := Ask k (fun v => Ret (gen_int_answer v)).",
        "(* IntegerElicitor.elicit_multiple: the same loop through self.elicit; the first ValueError ends the batch (the later questions are not asked) *)",
        "Fixpoint gen_int_elicit_multiple_keys (ks : list key) : prog (option (list Z)) :=",
        "  match ks with [] => Ret (Some []) | k :: t => Ask k (fun v => match gen_int_answer v with None => Ret None | Some z => bind (gen_int_elicit_multiple_keys t) (fun r => Ret (option_map (cons z) r)) end) end.",
        "Definition gen_int_elicit_multiple (agents alternatives : list Z) : prog (option (list Z)) := gen_int_elicit_multiple_keys (combine agents alternatives).", "",
        "(* the answering subclasses: the index convention their constructors pass on (zero_indexed, or its default) and the value they return for (agent, alternative) *)",
        "Definition gen_profile_answer (valuation_profile : list (list Q)) (agent alternative : nat) : Q := nth alternative (nth agent valuation_profile []) 0%Q.",
        "Definition gen_lambda_answer (elicitation_function : Z -> Z -> Q) (agent alternative : Z) : Q := elicitation_function agent alternative."] +
        ["Definition gen_zero_indexed_%s : bool := %s.%s" % (cn, v, "      (* fixed by the constructor *)" if "ValuationProfile" in cn else "      (* default of the zero_indexed argument *)") for cn, v in defaults.items()] +
        ["Definition gen_zero_indexed_IntegerElicitor : bool := false.      (* default of the zero_indexed argument *)", ""])

# ---------------------------------------------------------------------------------------------------------------
# the wrapper classes of profile_utils.py
WRAP_PROFILE = [("Profile", ["np.ndarray"], False, False), ("StrictProfile", ["Profile"], False, True), ("ProfileWithTies", ["Profile"], False, False), ("CompleteProfile", ["Profile"], True, False),
                ("IncompleteProfile", ["Profile"], False, False), ("StrictCompleteProfile", ["StrictProfile", "CompleteProfile"], True, True), ("StrictIncompleteProfile", ["StrictProfile", "IncompleteProfile"], False, True),
                ("CompleteProfileWithTies", ["ProfileWithTies", "CompleteProfile"], True, False), ("IncompleteProfileWithTies", ["ProfileWithTies", "IncompleteProfile"], False, False)]
WRAP_VAL = [("ValuationProfile", ["np.ndarray"], False), ("CompleteValuationProfile", ["ValuationProfile"], True), ("IncompleteValuationProfile", ["ValuationProfile"], False), ("IntegerValuationProfile", ["CompleteValuationProfile"], False)]

def translate_wrappers(repo):
    """every wrapper class: bases, the only methods (__init__ raising RuntimeError on the two roots, the static `of`), and `of` = the validator with the flags read
    off the source, followed by a VIEW of the caller's array (no copy: the wrapper shares the caller's memory)"""
    src = open(os.path.join(repo, "socialchoicekit", "profile_utils.py")).read()
    mod = ast.parse(src)
    classes = [c for c in mod.body if isinstance(c, ast.ClassDef)]
    names = [c.name for c in classes]
    want = [w[0] for w in WRAP_PROFILE] + [w[0] for w in WRAP_VAL]
    if names != want: _fail(mod, "wrapper classes of profile_utils.py: %r expected, got %r" % (want, names))
    rows = []
    for c in classes:
        spec = next(w for w in WRAP_PROFILE + WRAP_VAL if w[0] == c.name)
        if [U(b) for b in c.bases] != spec[1]: _fail(c, "bases of %s: %r" % (c.name, [U(b) for b in c.bases]))
        meths = [f for f in c.body if isinstance(f, ast.FunctionDef)]
        root = spec[1] == ["np.ndarray"]
        if [f.name for f in meths] != (["__init__", "of"] if root else ["of"]): _fail(c, "methods of %s" % c.name)
        if any(isinstance(x, (ast.Assign, ast.AnnAssign)) for x in c.body): _fail(c, "class attributes in %s" % c.name)
        if root:
            i0 = meths[0]
            if i0.decorator_list or _structure(_body(i0)) != ["raise RuntimeError(\"Call the 'of' method\")"]: _fail(i0, "%s.__init__ must refuse direct construction" % c.name)
        of = meths[-1]
        if [U(d) for d in of.decorator_list] != ["staticmethod"] or [a.arg for a in of.args.args] != ["arr"] or of.args.defaults: _fail(of, "%s.of: @staticmethod of(arr) expected" % c.name)
        st = _structure(_body(of))
        if c.name in [w[0] for w in WRAP_PROFILE]:
            g = re.fullmatch(r"check_profile\(arr, is_complete=(True|False), is_strict=(True|False)\)", st[0]) if len(st) == 2 else None
            if not g or st[1] != "return arr.view(%s)" % c.name: _fail(of, "%s.of: check_profile(arr, ..) then arr.view(%s) expected, got %r" % (c.name, c.name, st))
            rows.append((c.name, "P", g.group(1) == "True", g.group(2) == "True", False))
        else:
            intg = c.name == "IntegerValuationProfile"
            wantn = 4 if intg else 2
            g = re.fullmatch(r"check_valuation_profile\(arr, is_complete=(True|False)\)", st[0]) if len(st) == wantn else None
            ok = g and st[-1] == "return arr.view(%s)" % c.name and (not intg or st[1:3] == ["if not np.issubdtype(arr.dtype, np.integer):", "  raise ValueError('The input array must have integer values')"])
            if not ok: _fail(of, "%s.of shape: %r" % (c.name, st))
            rows.append((c.name, "V", g.group(1) == "True", False, intg))
    b = lambda x: "true" if x else "false"
    out = ["(* GENERATED by harness/translate.py from the wrapper classes of profile_utils.py (13 classes; every `of` is a validator call followed by arr.view(cls): the wrapper SHARES the caller's memory). Do not edit. *)",
           "From Coq Require Import List Bool String.", "Import ListNotations.", "Local Open Scope string_scope.", "",
           "(* (class, is_complete, is_strict) handed to check_profile by <class>.of *)",
           "Definition gen_profile_wrappers : list (string * (bool * bool)) :=", "  [" + "; ".join('("%s", (%s, %s))' % (n, b(c_), b(s_)) for n, k, c_, s_, _ in rows if k == "P") + "].",
           "(* (class, is_complete, integer dtype required) for the valuation wrappers *)",
           "Definition gen_valuation_wrappers : list (string * (bool * bool)) :=", "  [" + "; ".join('("%s", (%s, %s))' % (n, b(c_), b(i_)) for n, k, c_, s_, i_ in rows if k == "V") + "].", ""]
    return "\n".join(out)

# ---------------------------------------------------------------------------------------------------------------
# flow.flow_across_network, flow.capacity_across_cut
FAN = """ans = 0
for i, j), f in flow.items():      
  if i == s:
    ans += f
  if j == s:
    raise ValueError('The source vertex should not have any incoming flow.')
return ans"""
CAC = """ans = 0
for i in G.keys():
  for j, c in G[i]:
    if i in cut and j not in cut:
      ans += c
    if j in cut and i not in cut:
      ans -= c
return ans"""

def translate_flowhelpers(repo):
    src = open(os.path.join(repo, "socialchoicekit", "flow.py")).read()
    mod = ast.parse(src)
    for name, args, shape in (("flow_across_network", ["flow", "s"], FAN), ("capacity_across_cut", ["G", "cut"], CAC)):
        f = _find(mod.body, ast.FunctionDef, name)
        if [a.arg for a in f.args.args] != args or f.args.defaults or f.args.vararg or f.args.kwarg or f.args.kwonlyargs: _fail(f, "%s%r expected" % (name, tuple(args)))
        got = _structure(_body(f)); want = [w.rstrip() for w in shape.split("\n")]      # (the listing strips the outer parentheses of a loop target: ((i, j), f) reads "i, j), f")
        for k in range(max(len(got), len(want))):
            g_ = got[k] if k < len(got) else "<end>"; w_ = want[k] if k < len(want) else "<end>"
            if g_ != w_: _fail(f, "%s, statement %d: %r expected, got %r" % (name, k + 1, w_.strip(), g_.strip()))
    return "\n".join(["(* GENERATED by harness/translate.py from flow_across_network and capacity_across_cut (flow.py), whose statements were matched one by one. Do not edit. *)",
        "From Coq Require Import ZArith List Bool.", "Import ListNotations.", "From SCK Require Import FlowModel.", "Local Open Scope Z_scope.", "",
        "(* flow: the dictionary {(i, j): f} as a list of entries; None = ValueError (an entry into the source) *)",
        "Definition gen_flow_across_network (flow : list ((Z * Z) * Z)) (s : Z) : option Z :=",
        "  fold_left (fun ans e => match ans with None => None | Some a => let '((i, j), f) := e in let a := if i =? s then a + f else a in if j =? s then None else Some a end) flow (Some 0).", "",
        "(* capacity leaving the cut minus capacity entering it; G[i] for i in G.keys() never raises *)",
        "Definition gen_capacity_across_cut (G : graph) (cut : list Z) : Z :=",
        "  fold_left (fun ans ia => fold_left (fun ans jc => let ans := if memZ (fst ia) cut && negb (memZ (fst jc) cut) then ans + snd jc else ans in",
        "                                                    if memZ (fst jc) cut && negb (memZ (fst ia) cut) then ans - snd jc else ans) (snd ia) ans) G 0.", ""])
