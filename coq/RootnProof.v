(* root_n_serial_dictatorship on a square strict profile always hands every agent an item (never the -1 of an agent left out):
   discharges the hypothesis 0 <= A < m of the Match-TwoQueries theorems of C14. *)
From Coq Require Import Arith ZArith List Bool Lia.
Import ListNotations.
From SCK Require Import Argsort ElicitM ElicitRules ElicitSpecProof ElicitFinal.
Local Open Scope Z_scope.

Lemma list_sum_updz (l : list nat) i : (i < length l)%nat -> list_sum (updz l i (S (nth i l O))) = S (list_sum l).
Proof. revert i. induction l as [|y r IH]; intros [|i] H; simpl in *; try lia. rewrite IH by lia. lia. Qed.
Lemma sum_ge_length (l : list nat) : (forall j, (j < length l)%nat -> (1 <= nth j l O)%nat) -> (length l <= list_sum l)%nat.
Proof.
  induction l as [|y r IH]; intros H; simpl; [lia|]. pose proof (H O ltac:(simpl; lia)) as H0. simpl in H0.
  assert (length r <= list_sum r)%nat by (apply IH; intros j Hj; apply (H (S j)); simpl; lia). lia.
Qed.

(* a duplicate-free list of m numbers in [0, m) contains every one of them *)
Lemma nodup_range_complete (l : list Z) m : NoDup l -> length l = m -> (forall e, In e l -> 0 <= e < Z.of_nat m) ->
  forall j, (j < m)%nat -> In (Z.of_nat j) l.
Proof.
  intros Hnd Hlen Hr j Hj.
  assert (Hincl : incl l (map Z.of_nat (seq 0 m))).
  { intros e He. specialize (Hr e He). apply in_map_iff. exists (Z.to_nat e). split; [lia|apply in_seq; lia]. }
  assert (Hnd2 : NoDup (map Z.of_nat (seq 0 m))) by (apply FinFun.Injective_map_NoDup; [intros a b H; lia|apply seq_NoDup]).
  assert (Hl2 : (length (map Z.of_nat (seq 0 m)) <= length l)%nat) by (rewrite map_length, seq_length; lia).
  pose proof (NoDup_length_incl Hnd Hl2 Hincl) as Hback. apply Hback. apply in_map_iff. exists j. split; [reflexivity|apply in_seq; lia].
Qed.

Section Rootn.
Variable P : list (list Z).
Let n := length P.
Let m := length (nth 0 P []).
Hypothesis Hsq : m = n.
Hypothesis Hn : (1 <= n)%nat.
Hypothesis Hrows : forall row, In row P -> length row = m.
Let ranked := map rank_list P.

Definition rstep (st : list Z * list nat) (i : nat) : list Z * list nat :=
  let '(alloc, cnt) := st in
  match find (fun j => (nth (Z.to_nat j) cnt O * nth (Z.to_nat j) cnt O <? n)%nat) (nth i ranked []) with
  | Some j => (alloc ++ [j], updz cnt (Z.to_nat j) (S (nth (Z.to_nat j) cnt O)))
  | None => (alloc ++ [-1], cnt)
  end.
Lemma rootn_unfold : rootn_sd P = fst (fold_left rstep (seq 0 n) ([], repeat O m)).
Proof. reflexivity. Qed.

Definition RInv (t : nat) (st : list Z * list nat) : Prop :=
  length (fst st) = t /\ length (snd st) = m /\ (list_sum (snd st) <= t)%nat /\ forall idx, (idx < t)%nat -> 0 <= nth idx (fst st) 0 < Z.of_nat m.

Lemma rstep_inv t st : (t < n)%nat -> RInv t st -> RInv (S t) (rstep st t).
Proof.
  intros Ht [Hl [Hc [Hs Ha]]]. destruct st as [alloc cnt]. cbn [fst snd] in *. unfold rstep.
  assert (Hrow : In (nth t P []) P) by (apply nth_In; fold n; exact Ht). pose proof (Hrows _ Hrow) as Hlen.
  assert (Hrk : nth t ranked [] = rank_list (nth t P [])).
  { unfold ranked. change (@nil Z) with (rank_list []). rewrite map_nth. reflexivity. }
  rewrite Hrk. set (rk := rank_list (nth t P [])).
  assert (Hrl : length rk = m) by (unfold rk; rewrite rank_list_length; exact Hlen).
  assert (Hrr : forall e, In e rk -> 0 <= e < Z.of_nat m) by (intros e He; apply rank_list_range in He; rewrite Hlen in He; exact He).
  destruct (find (fun j => (nth (Z.to_nat j) cnt O * nth (Z.to_nat j) cnt O <? n)%nat) rk) as [j|] eqn:Ef.
  - apply find_some in Ef as [Hj _]. specialize (Hrr j Hj). unfold RInv. cbn [fst snd]. split; [|split; [|split]].
    + rewrite app_length; simpl; lia.
    + rewrite updz_length. exact Hc.
    + rewrite list_sum_updz by lia. lia.
    + intros idx Hidx. destruct (Nat.eq_dec idx t) as [->|Hne]; [rewrite app_nth2 by lia; rewrite Hl, Nat.sub_diag; simpl; lia|rewrite app_nth1 by lia; apply Ha; lia].
  - (* impossible: some item still has room *)
    exfalso. assert (Hall : forall jj, (jj < length cnt)%nat -> (1 <= nth jj cnt O)%nat).
    { intros jj Hjj. rewrite Hc in Hjj.
      pose proof (nodup_range_complete rk m (rank_list_nodup _) Hrl Hrr jj Hjj) as Hin.
      pose proof (find_none _ _ Ef _ Hin) as Hf. cbv beta in Hf. rewrite Nat2Z.id in Hf. apply Nat.ltb_ge in Hf.
      destruct (nth jj cnt O); [simpl in Hf; lia|lia]. }
    pose proof (sum_ge_length cnt Hall). lia.
Qed.

Lemma fold_inv : forall k st, (k <= n)%nat -> RInv 0 st -> RInv k (fold_left rstep (seq 0 k) st).
Proof.
  induction k as [|k IH]; intros st Hk H0; [exact H0|]. rewrite seq_S, fold_left_app. cbn [fold_left plus].
  apply rstep_inv; [lia|]. apply IH; [lia|exact H0].
Qed.

Theorem rootn_sd_item i : (i < n)%nat -> 0 <= nth i (rootn_sd P) 0 < Z.of_nat m.
Proof.
  intros Hi. rewrite rootn_unfold.
  assert (H0 : RInv 0 ([], repeat O m)).
  { unfold RInv. cbn [fst snd]. split; [reflexivity|split; [apply repeat_length|split; [|intros idx H; lia]]].
    clear. induction m; simpl; lia. }
  destruct (fold_inv n _ (le_n n) H0) as [_ [_ [_ Ha]]]. apply Ha. exact Hi.
Qed.
(* ... no item is handed out once its count has reached sqrt n: an item given c >= 1 times had (c-1)^2 < n when it was
   last given; the counters are the multiplicities of the allocation; and every agent gets the first item of its own
   ranking that still had room *)
Definition occ (alloc : list Z) (j : nat) : nat := count_occ Z.eq_dec alloc (Z.of_nat j).
Definition RInv2 (st : list Z * list nat) : Prop :=
  length (snd st) = m /\ forall j, (j < m)%nat -> nth j (snd st) O = occ (fst st) j /\ (nth j (snd st) O = O \/ (pred (nth j (snd st) O) * pred (nth j (snd st) O) < n)%nat).

Lemma occ_app alloc x j : occ (alloc ++ [x]) j = (occ alloc j + (if Z.eq_dec x (Z.of_nat j) then 1 else 0))%nat.
Proof. unfold occ. rewrite count_occ_app. simpl. destruct (Z.eq_dec x (Z.of_nat j)); reflexivity. Qed.

Lemma rstep_inv2 t st : (t < n)%nat -> RInv t st -> RInv2 st -> RInv2 (rstep st t).
Proof.
  intros Ht Hinv [Hc H2]. pose proof (rstep_inv t st Ht Hinv) as Hnext. destruct st as [alloc cnt]. cbn [fst snd] in *. unfold rstep in *.
  destruct (find (fun j => (nth (Z.to_nat j) cnt O * nth (Z.to_nat j) cnt O <? n)%nat) (nth t ranked [])) as [j|] eqn:Ef.
  - destruct Hnext as [Hl [_ [_ Ha]]]. cbn [fst snd] in *. destruct Hinv as [Hl0 _]. cbn [fst] in Hl0.
    specialize (Ha t (Nat.lt_succ_diag_r t)). rewrite app_nth2 in Ha by lia. rewrite Hl0, Nat.sub_diag in Ha. simpl in Ha.
    apply find_some in Ef as [_ Hroom]. apply Nat.ltb_lt in Hroom.
    unfold RInv2; cbn [fst snd]. split; [rewrite updz_length; exact Hc|]. intros jj Hjj. destruct (H2 jj Hjj) as [Hocc Hb]. rewrite occ_app.
    destruct (Z.eq_dec j (Z.of_nat jj)) as [->|Hne].
    + rewrite Nat2Z.id in *. rewrite updz_nth_same by lia. split; [lia|right; simpl; exact Hroom].
    + rewrite updz_nth_other by lia. split; [lia|exact Hb].
  - unfold RInv2; cbn [fst snd]. split; [exact Hc|]. intros jj Hjj. destruct (H2 jj Hjj) as [Hocc Hb]. rewrite occ_app.
    destruct (Z.eq_dec (-1) (Z.of_nat jj)); [lia|]. split; [lia|exact Hb].
Qed.

Lemma fold_inv2 : forall k st, (k <= n)%nat -> RInv 0 st -> RInv2 st -> RInv2 (fold_left rstep (seq 0 k) st).
Proof.
  induction k as [|k IH]; intros st Hk H0 H2; [exact H2|]. rewrite seq_S, fold_left_app. cbn [fold_left plus].
  apply (rstep_inv2 k); [lia|apply fold_inv; [lia|exact H0]|apply IH; [lia|exact H0|exact H2]].
Qed.

Lemma repeat_nth_O k j : nth j (repeat O k) O = O.
Proof. revert j. induction k; intros [|j]; simpl; auto. Qed.

(* item j is given to c agents  ==>  c = 0 or (c-1)^2 < n, i.e. c <= ceil(sqrt n) *)
Theorem rootn_sd_load j : (j < m)%nat -> let c := occ (rootn_sd P) j in c = O \/ (pred c * pred c < n)%nat.
Proof.
  intros Hj. rewrite rootn_unfold.
  assert (H0 : RInv 0 ([], repeat O m)).
  { unfold RInv. cbn [fst snd]. split; [reflexivity|split; [apply repeat_length|split; [|intros idx H; lia]]]. clear. induction m; simpl; lia. }
  assert (H2 : RInv2 ([], repeat O m)).
  { unfold RInv2; cbn [fst snd]. split; [apply repeat_length|]. intros jj _. rewrite repeat_nth_O. split; [reflexivity|left; reflexivity]. }
  destruct (fold_inv2 n _ (le_n n) H0 H2) as [_ H]. destruct (H j Hj) as [Hocc Hb]. cbv zeta. rewrite <- Hocc. exact Hb.
Qed.
End Rootn.

(* the two Match-TwoQueries theorems of ElicitM2Q.v with their hypothesis "the agent got an item" discharged for square profiles *)
From Coq Require Import QArith.
From SCK Require Import ElicitM2Q.
Local Open Scope Z_scope.
Theorem m2q_row_spec_square fixer V (P : list (list Z)) eps :
  length (nth 0 P []) = length P -> (1 <= length P)%nat ->
  (forall row, In row P -> length row = length (nth 0 P []) /\ strict_rowb row = true) ->
  forall i, (i < length P)%nat -> forall q, 0 <= q < Z.of_nat (length (nth 0 P [])) ->
  nth (ix P i q) (m2q_row fixer V P eps i) 0%Q =
  if (q =? 0) then Vz fixer V i (rkat (rank_list (nth i P [])) 0)
  else if (q <=? nth (Z.to_nat (nth i (rootn_sd P) 0)) (nth i P []) 0 - 1) then Vz fixer V i (nth i (rootn_sd P) 0) else eps.
Proof.
  intros Hsq Hn Hrows i Hi q Hq. apply m2q_row_spec; [lia|exact Hrows|exact Hi| |exact Hq].
  apply rootn_sd_item; [exact Hsq|exact Hn|intros row Hr; apply Hrows; exact Hr|exact Hi].
Qed.
Theorem m2q_copy_is_lower_bound_square fixer V (P : list (list Z)) :
  length (nth 0 P []) = length P -> (1 <= length P)%nat ->
  (forall row, In row P -> length row = length (nth 0 P []) /\ strict_rowb row = true) ->
  forall i, (i < length P)%nat ->
  (forall j j', (j < length (nth 0 P []))%nat -> (j' < length (nth 0 P []))%nat -> nth j (nth i P []) 0 <= nth j' (nth i P []) 0 ->
     (Vz fixer V i (Z.of_nat j') <= Vz fixer V i (Z.of_nat j))%Q) ->
  forall q, 0 <= q <= nth (Z.to_nat (nth i (rootn_sd P) 0)) (nth i P []) 0 - 1 ->
  (Vz fixer V i (nth i (rootn_sd P) 0%Z) <= Vz fixer V i (rkat (rank_list (nth i P [])) q))%Q.
Proof.
  intros Hsq Hn Hrows i Hi Hcons q Hq. apply m2q_copy_is_lower_bound; [lia|exact Hrows|exact Hi| |exact Hcons|exact Hq].
  apply rootn_sd_item; [exact Hsq|exact Hn|intros row Hr; apply Hrows; exact Hr|exact Hi].
Qed.
