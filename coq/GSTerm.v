From Coq Require Import Arith List Bool Lia.
Import ListNotations.
Require Import GS2.

Section Term.
Variables (n m : nat).
Variable prefR : nat -> nat -> option nat.
Variable rkH : nat -> nat -> option nat.
Variable unrank : nat -> nat -> nat.
Variable cap : nat -> nat.
Variable pl : nat -> list nat.
Hypothesis pl_spec : forall p k, prefR p k = nth_error (pl p) k.
Hypothesis pl_len : forall p, length (pl p) <= m.

Definition rstep := res_step prefR rkH unrank cap.

Lemma fupd_eq {A} (f : nat -> A) i x : fupd f i x i = x.
Proof. unfold fupd. rewrite Nat.eqb_refl. reflexivity. Qed.
Lemma fupd_neq {A} (f : nat -> A) i x j : j <> i -> fupd f i x j = f j.
Proof. unfold fupd. intros H. apply Nat.eqb_neq in H. rewrite H. reflexivity. Qed.

(* effect of one step on the application counters *)
Lemma rstep_apps cur st q p :
  apps (rstep cur st q) p =
  if Nat.eqb p q && Nat.eqb (cur q) 1 && (match prefR q (apps st q) with Some _ => true | None => false end)
  then S (apps st p) else apps st p.
Proof.
  assert (Hap : (fupd (apps st) q (S (apps st q)) p) = if Nat.eqb p q then S (apps st p) else apps st p).
  { unfold fupd. destruct (Nat.eqb p q) eqn:E; [apply Nat.eqb_eq in E; subst; reflexivity|reflexivity]. }
  unfold rstep, res_step. destruct (Nat.eqb (cur q) 1) eqn:Ec; cbn [negb].
  2:{ rewrite andb_false_r. reflexivity. }
  destruct (prefR q (apps st q)) as [h|] eqn:Ep.
  2:{ rewrite andb_false_r. reflexivity. }
  rewrite !andb_true_r.
  destruct (rkH h q) as [hr|]; [destruct (length (hr :: wl st h) <=? cap h)|]; cbn [apps]; exact Hap.
Qed.
Lemma rstep_apps_le cur st q p : apps st p <= apps (rstep cur st q) p.
Proof. rewrite rstep_apps. destruct (_ && _ && _); lia. Qed.

(* an exhausted step only sets the flag of q to 2 *)
Lemma rstep_exh cur st q : cur q = 1 -> prefR q (apps st q) = None ->
  rstep cur st q = {| apps := apps st; wl := wl st; flag := fupd (flag st) q 2 |}.
Proof. intros Hc Hp. unfold rstep, res_step. rewrite Hc. cbn [Nat.eqb negb]. rewrite Hp. reflexivity. Qed.
Lemma rstep_skip' cur st q : cur q <> 1 -> rstep cur st q = st.
Proof. intros H. unfold rstep, res_step. apply Nat.eqb_neq in H. rewrite H. reflexivity. Qed.

Lemma fold_apps_le cur ps : forall st p, apps st p <= apps (fold_left (rstep cur) ps st) p.
Proof. induction ps as [|q t IH]; intros st p; simpl; [lia|]. eapply Nat.le_trans; [apply rstep_apps_le|apply IH]. Qed.

Lemma fold_apps_other cur ps : forall st p, ~ In p ps -> apps (fold_left (rstep cur) ps st) p = apps st p.
Proof.
  induction ps as [|q t IH]; intros st p Hn; simpl; [reflexivity|]. rewrite IH by (intros Hin; apply Hn; now right).
  rewrite rstep_apps. assert (E : Nat.eqb p q = false) by (apply Nat.eqb_neq; intros ->; apply Hn; now left). rewrite E. reflexivity.
Qed.

Lemma fold_apps_strict cur ps : NoDup ps -> forall st q, In q ps -> cur q = 1 -> prefR q (apps st q) <> None ->
  apps st q < apps (fold_left (rstep cur) ps st) q.
Proof.
  induction 1 as [|q0 t Hn Hnd IH]; intros st q Hin Hc Hp; [destruct Hin|]. simpl. destruct Hin as [->|Hin].
  - eapply Nat.lt_le_trans; [|apply fold_apps_le]. rewrite rstep_apps, Nat.eqb_refl, Hc. simpl.
    destruct (prefR q (apps st q)); [lia|congruence].
  - assert (Hne : q <> q0) by (intros ->; contradiction).
    assert (E : apps (rstep cur st q0) q = apps st q).
    { rewrite rstep_apps. assert (E : Nat.eqb q q0 = false) by (apply Nat.eqb_neq; exact Hne). rewrite E. reflexivity. }
    rewrite <- E. apply IH; [exact Hin|exact Hc|rewrite E; exact Hp].
Qed.

Lemma fold_stepless cur ps : forall st, (forall q, In q ps -> cur q = 1 -> prefR q (apps st q) = None) ->
  (forall p, apps (fold_left (rstep cur) ps st) p = apps st p) /\
  (forall p, flag (fold_left (rstep cur) ps st) p = 1 -> flag st p = 1 /\ ~ (In p ps /\ cur p = 1)).
Proof.
  induction ps as [|q t IH]; intros st Hex; simpl; [split; [reflexivity|tauto]|].
  destruct (Nat.eq_dec (cur q) 1) as [Hc|Hc].
  - rewrite (rstep_exh cur st q Hc (Hex q (or_introl eq_refl) Hc)).
    destruct (IH {| apps := apps st; wl := wl st; flag := fupd (flag st) q 2 |}) as [A B].
    { intros q' Hq' Hc'. simpl. apply Hex; [now right|exact Hc']. }
    split; [intros p; rewrite A; reflexivity|].
    intros p Hp. destruct (B p Hp) as [B1 B2]. simpl in B1.
    destruct (Nat.eq_dec p q) as [->|Hne]; [rewrite fupd_eq in B1; discriminate|].
    rewrite fupd_neq in B1 by exact Hne. split; [exact B1|]. intros [[E|Hin] Hcp]; [congruence|tauto].
  - rewrite (rstep_skip' cur st q Hc). destruct (IH st) as [A B]; [intros q' Hq' Hc'; apply Hex; [now right|exact Hc']|].
    split; [exact A|]. intros p Hp. destruct (B p Hp) as [B1 B2]. split; [exact B1|]. intros [[E|Hin] Hcp]; [congruence|tauto].
Qed.

(* sums of counters over the residents *)
Fixpoint sumn (f : nat -> nat) (l : list nat) : nat := match l with [] => 0 | x :: t => f x + sumn f t end.
Lemma sumn_le f g l : (forall x, In x l -> f x <= g x) -> sumn f l <= sumn g l.
Proof. induction l as [|a t IH]; simpl; intros H; [lia|]. pose proof (H a (or_introl eq_refl)). assert (sumn f t <= sumn g t) by (apply IH; intros; apply H; now right). lia. Qed.
Lemma sumn_lt f g l a : (forall x, In x l -> f x <= g x) -> In a l -> f a < g a -> sumn f l < sumn g l.
Proof.
  induction l as [|b t IH]; intros Hle Hin Hlt; [destruct Hin|]. simpl. destruct Hin as [->|Hin].
  - assert (sumn f t <= sumn g t) by (apply sumn_le; intros; apply Hle; now right). lia.
  - pose proof (Hle b (or_introl eq_refl)). assert (sumn f t < sumn g t) by (apply IH; [intros; apply Hle; now right|exact Hin|exact Hlt]). lia.
Qed.
Lemma sumn_bound f l c : (forall x, In x l -> f x <= c) -> sumn f l <= length l * c.
Proof. induction l as [|a t IH]; simpl; intros H; [lia|]. pose proof (H a (or_introl eq_refl)). assert (sumn f t <= length t * c) by (apply IH; intros; apply H; now right). lia. Qed.

Definition A (st : rst) : nat := sumn (apps st) (seq 0 n).
Definition bounded (st : rst) : Prop := forall p, apps st p <= length (pl p).

Lemma rstep_bounded cur st q : bounded st -> bounded (rstep cur st q).
Proof.
  intros Hb p. rewrite rstep_apps. destruct (Nat.eqb p q) eqn:E; simpl; [|apply Hb].
  apply Nat.eqb_eq in E. subst p. destruct (Nat.eqb (cur q) 1); simpl; [|apply Hb].
  destruct (prefR q (apps st q)) eqn:Ep; [|apply Hb]. rewrite pl_spec in Ep.
  assert (apps st q < length (pl q)) by (apply nth_error_Some; congruence). lia.
Qed.
Lemma fold_bounded cur ps : forall st, bounded st -> bounded (fold_left (rstep cur) ps st).
Proof. induction ps as [|q t IH]; intros st H; simpl; [exact H|]. apply IH, rstep_bounded, H. Qed.

(* C01 termination: n*m + 2 rounds always suffice *)
Theorem res_loop_total : forall fuel st, bounded st -> n * m + 2 <= A st + fuel ->
  res_loop n prefR rkH unrank cap fuel st <> None.
Proof.
  induction fuel as [|f IH]; intros st Hb Hf.
  - exfalso. assert (A st <= n * m).
    { unfold A. eapply Nat.le_trans; [apply (sumn_bound _ _ m)|rewrite seq_length; lia]. intros p _. eapply Nat.le_trans; [apply Hb|apply pl_len]. }
    lia.
  - cbn [res_loop]. destruct (forallb (fun p => negb (Nat.eqb (flag st p) 1)) (seq 0 n)) eqn:E; [discriminate|].
    set (st' := fold_left (res_step prefR rkH unrank cap (flag st)) (seq 0 n) st).
    assert (Hb' : bounded st') by (apply (fold_bounded (flag st) (seq 0 n) st Hb)).
    destruct (existsb (fun q => Nat.eqb (flag st q) 1 && match prefR q (apps st q) with Some _ => true | None => false end) (seq 0 n)) eqn:Ex.
    + (* some resident applies: the total strictly increases *)
      apply existsb_exists in Ex. destruct Ex as [q [Hq Hc]]. apply andb_true_iff in Hc. destruct Hc as [Hc Hp]. apply Nat.eqb_eq in Hc.
      assert (Hlt : A st < A st').
      { unfold A. apply (sumn_lt _ _ _ q); [intros p _; apply (fold_apps_le (flag st) (seq 0 n) st p)|exact Hq|].
        apply (fold_apps_strict (flag st) (seq 0 n) (seq_NoDup n 0) st q Hq Hc). destruct (prefR q (apps st q)); [discriminate|discriminate Hp]. }
      apply IH; [exact Hb'|lia].
    + (* nobody can apply: after this round no flag is 1, so the next test exits *)
      assert (Hex : forall q, In q (seq 0 n) -> flag st q = 1 -> prefR q (apps st q) = None).
      { intros q Hq Hc. destruct (prefR q (apps st q)) eqn:Ep; [|reflexivity]. exfalso.
        assert (existsb (fun q => Nat.eqb (flag st q) 1 && match prefR q (apps st q) with Some _ => true | None => false end) (seq 0 n) = true).
        { apply existsb_exists. exists q. split; [exact Hq|]. rewrite Hc, Ep. reflexivity. }
        congruence. }
      destruct (fold_stepless (flag st) (seq 0 n) st Hex) as [_ Hfl]. fold st' in Hfl.
      destruct f as [|f']; [exfalso|].
      * assert (A st <= n * m).
        { unfold A. eapply Nat.le_trans; [apply (sumn_bound _ _ m)|rewrite seq_length; lia]. intros p _. eapply Nat.le_trans; [apply Hb|apply pl_len]. }
        lia.
      * cbn [res_loop].
        assert (E' : forallb (fun p => negb (Nat.eqb (flag st' p) 1)) (seq 0 n) = true).
        { apply forallb_forall. intros p Hp. apply negb_true_iff, Nat.eqb_neq. intros H1. destruct (Hfl p H1) as [B1 B2]. apply B2. split; assumption. }
        rewrite E'. discriminate.
Qed.
End Term.
Print Assumptions res_loop_total.
