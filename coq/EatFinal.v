(* C05 at profile level: the exact eating model run on a profile (items ordered by the proved stable
   argsort) returns a matrix whose rows and columns all sum to exactly 1. *)
From Coq Require Import Arith ZArith QArith List Bool Lia Permutation.
Import ListNotations.
From SCK Require Import Argsort GSInst Eat3 Eat3Proof.
Local Open Scope Q_scope.

Definition eat_item (P : list (list okey)) : nat -> nat -> nat :=
  let ranked := map argsort P in fun i p => nth p (nth i ranked []) O.
Definition eat_speed (speeds : list Q) : nat -> Q := fun i => nth i speeds 1.
Definition eating_run (P : list (list okey)) (speeds : list Q) : option (list (list Q)) :=
  let n := length P in
  match eloop n (eat_item P) (eat_speed speeds) (2 * n + 2) (einit n) with
  | Some st => Some (X st) | None => None end.

Lemma eat_item_lt P : (1 <= length P)%nat -> (forall row, In row P -> length row = length P) ->
  forall i p, (eat_item P i p < length P)%nat.
Proof.
  intros Hn Hrows i p. unfold eat_item.
  change (@nil nat) with (argsort []). rewrite map_nth.
  destruct (nth_in_or_default p (argsort (nth i P [])) O) as [Hin|E]; [|rewrite E; lia].
  apply argsort_lt in Hin.
  destruct (nth_in_or_default i P []) as [Hi|E]; [rewrite (Hrows _ Hi) in Hin; exact Hin|rewrite E in Hin; simpl in Hin; lia].
Qed.

Lemma eat_speed_pos speeds : (forall s, In s speeds -> 0 < s) -> forall i, 0 < eat_speed speeds i.
Proof.
  intros H i. unfold eat_speed. destruct (nth_in_or_default i speeds 1) as [Hin|E]; [apply H; exact Hin|rewrite E; reflexivity].
Qed.

Theorem C05_run_bistochastic P speeds Xm : let n := length P in
  (1 <= n)%nat -> (forall row, In row P -> length row = n) -> (forall s, In s speeds -> 0 < s) ->
  eating_run P speeds = Some Xm ->
  (forall j, (j < n)%nat -> sumQ (fun i => nth j (nth i Xm []) 0) (seq 0 n) == 1) /\
  (forall i, (i < n)%nat -> sumQ (fun j => nth j (nth i Xm []) 0) (seq 0 n) == 1).
Proof.
  intros n Hn Hrows Hsp Hrun. unfold eating_run in Hrun. fold n in Hrun.
  destruct (eloop n (eat_item P) (eat_speed speeds) (2 * n + 2) (einit n)) as [st|] eqn:El; [|discriminate].
  injection Hrun as <-.
  exact (eating_bistochastic n (eat_item P) (eat_speed speeds) (eat_item_lt P Hn Hrows) (eat_speed_pos speeds Hsp) _ st El).
Qed.

(* ---------- termination, eating in order, SD-envy-freeness at profile level ---------- *)
From SCK Require Import Eat3Term Eat3Envy.
Lemma eat_item_row P i p : (i < length P)%nat -> eat_item P i p = nth p (argsort (nth i P [])) O.
Proof. intros Hi. unfold eat_item. change (@nil nat) with (argsort []). rewrite map_nth. reflexivity. Qed.
Lemma eat_item_surj P : (forall row, In row P -> length row = length P) ->
  forall i j, (i < length P)%nat -> (j < length P)%nat -> exists p, (p < length P)%nat /\ eat_item P i p = j.
Proof.
  intros Hrows i j Hi Hj. assert (Hl : length (nth i P []) = length P) by (apply Hrows, nth_In; exact Hi).
  pose proof (argsort_perm (nth i P [])) as Hp. rewrite Hl in Hp.
  assert (Hin : In j (argsort (nth i P []))) by (eapply Permutation_in; [symmetry; exact Hp|apply in_seq; lia]).
  destruct (In_nth _ _ O Hin) as [p [Hp1 Hp2]]. exists p. rewrite (Permutation_length Hp), seq_length in Hp1.
  split; [exact Hp1|]. rewrite eat_item_row by exact Hi. exact Hp2.
Qed.
Lemma eat_item_inj P : (forall row, In row P -> length row = length P) ->
  forall i p p', (i < length P)%nat -> (p < length P)%nat -> (p' < length P)%nat -> eat_item P i p = eat_item P i p' -> p = p'.
Proof.
  intros Hrows i p p' Hi Hp Hp' E. rewrite !eat_item_row in E by exact Hi.
  assert (Hl : length (nth i P []) = length P) by (apply Hrows, nth_In; exact Hi).
  pose proof (argsort_perm (nth i P [])) as Hperm. rewrite Hl in Hperm.
  assert (Hnd : NoDup (argsort (nth i P []))) by (eapply Permutation_NoDup; [symmetry; exact Hperm|apply seq_NoDup]).
  assert (Hlen : length (argsort (nth i P [])) = length P) by (rewrite (Permutation_length Hperm); apply seq_length).
  rewrite (NoDup_nth _ O) in Hnd. apply Hnd; [lia|lia|exact E].
Qed.

Theorem C05_run_terminates P speeds : let n := length P in
  (1 <= n)%nat -> (forall row, In row P -> length row = n) -> (forall s, In s speeds -> 0 < s) ->
  exists Xm, eating_run P speeds = Some Xm.
Proof.
  intros n Hn Hrows Hsp. unfold eating_run. fold n.
  destruct (eating_terminates n (eat_item P) (eat_speed speeds) (eat_item_lt P Hn Hrows) (eat_speed_pos speeds Hsp) (eat_item_surj P Hrows)) as [st H].
  rewrite H. eauto.
Qed.

(* every state the process passes through: an agent that is not full sits on its best non-exhausted item, and the
   step adds t * speed to exactly that entry of its row *)
Theorem C05_run_eats_in_order P speeds st i e : let n := length P in
  (1 <= n)%nat -> (forall row, In row P -> length row = n) -> (forall s, In s speeds -> 0 < s) ->
  reach n (eat_item P) (eat_speed speeds) st -> finished n st = false -> (i < n)%nat -> nth i (eaten st) None = Some e ->
  exists p, nth i (pos st) None = Some p /\ (p < n)%nat /\ nth (eat_item P i p) (rem st) None <> None /\
            (forall q, (q < p)%nat -> nth (eat_item P i q) (rem st) None = None) /\
            forall t j, (j < n)%nat -> step_time n (eat_item P) (eat_speed speeds) st = Some t ->
              E (nextst n (eat_item P) (eat_speed speeds) st t) i j == E st i j + (if (eat_item P i p =? j)%nat then t * eat_speed speeds i else 0).
Proof.
  intros n Hn Hrows Hsp. exact (eating_in_order n (eat_item P) (eat_speed speeds) (eat_item_lt P Hn Hrows) (eat_speed_pos speeds Hsp) (eat_item_surj P Hrows) st i e).
Qed.

(* equal speeds: agent i holds at least as much of its q best items as any other agent k does *)
Theorem C05_run_sd_envy_free P speeds s Xm : let n := length P in
  (1 <= n)%nat -> (forall row, In row P -> length row = n) -> (forall x, In x speeds -> 0 < x) ->
  (forall i, (i < n)%nat -> eat_speed speeds i = s) ->
  eating_run P speeds = Some Xm ->
  forall i k q, (i < n)%nat -> (k < n)%nat -> (q <= n)%nat ->
    sumQ (fun p => nth (eat_item P i p) (nth k Xm []) 0) (seq 0 q) <= sumQ (fun p => nth (eat_item P i p) (nth i Xm []) 0) (seq 0 q).
Proof.
  intros n Hn Hrows Hsp Heq Hrun. unfold eating_run in Hrun. fold n in Hrun.
  destruct (eloop n (eat_item P) (eat_speed speeds) (2 * n + 2) (einit n)) as [st|] eqn:El; [|discriminate]. injection Hrun as <-.
  exact (eating_sd_envy_free n (eat_item P) (eat_speed speeds) s (eat_item_lt P Hn Hrows) (eat_speed_pos speeds Hsp)
           (eat_item_surj P Hrows) (eat_item_inj P Hrows) Heq _ st El).
Qed.
