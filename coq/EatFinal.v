(* C05 at profile level: the exact eating model run on a profile (items ordered by the proved stable
   argsort) returns a matrix whose rows and columns all sum to exactly 1. *)
From Coq Require Import Arith ZArith QArith List Bool Lia Permutation.
Import ListNotations.
From SCK Require Import Argsort GSInst Eat3 Eat3Proof.
Local Open Scope Q_scope.

Definition eat_item (P : list (list okey)) : nat -> nat -> nat :=
  let ranked := map argsort P in fun i p => nth p (nth i ranked []) O.
Definition eat_speed (speeds : list Q) : nat -> Q := fun i => nth i speeds 1.
Definition eating_run (P : list (list okey)) (speeds : list Q) : option (list (list Q)) :=
  let n := length P in
  match eloop n (eat_item P) (eat_speed speeds) (2 * n + 2) (einit n) with
  | Some st => Some (X st) | None => None end.

Lemma eat_item_lt P : (1 <= length P)%nat -> (forall row, In row P -> length row = length P) ->
  forall i p, (eat_item P i p < length P)%nat.
Proof.
  intros Hn Hrows i p. unfold eat_item.
  change (@nil nat) with (argsort []). rewrite map_nth.
  destruct (nth_in_or_default p (argsort (nth i P [])) O) as [Hin|E]; [|rewrite E; lia].
  apply argsort_lt in Hin.
  destruct (nth_in_or_default i P []) as [Hi|E]; [rewrite (Hrows _ Hi) in Hin; exact Hin|rewrite E in Hin; simpl in Hin; lia].
Qed.

Lemma eat_speed_pos speeds : (forall s, In s speeds -> 0 < s) -> forall i, 0 < eat_speed speeds i.
Proof.
  intros H i. unfold eat_speed. destruct (nth_in_or_default i speeds 1) as [Hin|E]; [apply H; exact Hin|rewrite E; reflexivity].
Qed.

Theorem C05_run_bistochastic P speeds Xm : let n := length P in
  (1 <= n)%nat -> (forall row, In row P -> length row = n) -> (forall s, In s speeds -> 0 < s) ->
  eating_run P speeds = Some Xm ->
  (forall j, (j < n)%nat -> sumQ (fun i => nth j (nth i Xm []) 0) (seq 0 n) == 1) /\
  (forall i, (i < n)%nat -> sumQ (fun j => nth j (nth i Xm []) 0) (seq 0 n) == 1).
Proof.
  intros n Hn Hrows Hsp Hrun. unfold eating_run in Hrun. fold n in Hrun.
  destruct (eloop n (eat_item P) (eat_speed speeds) (2 * n + 2) (einit n)) as [st|] eqn:El; [|discriminate].
  injection Hrun as <-.
  exact (eating_bistochastic n (eat_item P) (eat_speed speeds) (eat_item_lt P Hn Hrows) (eat_speed_pos speeds Hsp) _ st El).
Qed.
