(* Library for models GENERATED from the Python source by harness/translate.py: Gallina counterparts of the numpy
   idioms the translator recognises, and the lemmas that connect generated definitions to the hand-written model
   (Voting.v). The generated file itself (work/gen/ScoringGen.v) is rebuilt from /repo on every run. *)
From Coq Require Import ZArith QArith List Bool Lia Lqa String.
Import ListNotations.
From SCK Require Import Voting ScoreProof.
Local Open Scope Z_scope.

Definition ncols (P : list (list Z)) : Z := Z.of_nat (List.length (nth 0 P [])).          (* P.shape[1] *)
Definition mmapZ (f : Z -> Z) (M : list (list Z)) : list (list Z) := map (map f) M.         (* elementwise expression *)
Fixpoint sumZ (l : list Z) : Z := match l with [] => 0 | x :: t => x + sumZ t end.
Definition colsumZ (m : Z) (M : list (list Z)) : list Z :=                                   (* np.sum(M, axis=0) *)
  map (fun j => sumZ (map (fun row => nth j row 0) M)) (seq 0 (Z.to_nat m)).
Definition colsumQ (m : Z) (M : list (list Q)) : list Q :=
  map (fun j => sumL (map (fun row => nth j row 0%Q) M)) (seq 0 (Z.to_nat m)).
Definition zrange (a b : Z) : list Z := map (fun i => a + Z.of_nat i) (seq 0 (Z.to_nat (b - a))).   (* range(a, b), np.arange(a, b) *)
(* M / column_vector: row t of M divided by the t-th entry of d *)
Definition divrows (M : list (list Z)) (d : list Z) : list (list Q) :=
  map (fun p => map (fun c => (inject_Z c / inject_Z (snd p))%Q) (fst p)) (combine M d).
Definition amaxQ (l : list Q) : Q := match l with x :: t => maxQ t x | [] => 0%Q end.       (* np.amax *)
Definition argwhere (b : list bool) : list nat := map snd (filter fst (combine b (seq 0 (List.length b)))).   (* np.argwhere(b).flatten() *)
Definition rect (P : list (list Z)) (m : nat) : Prop := (forall row, In row P -> List.length row = m) /\ List.length (nth 0 P []) = m.

Lemma ncols_rect P m : rect P m -> ncols P = Z.of_nat m.
Proof. intros [_ H]. unfold ncols. rewrite H. reflexivity. Qed.
Lemma nth_map_seq0 {A} (f : nat -> A) n i d : (i < n)%nat -> nth i (map f (seq 0 n)) d = f i.
Proof. intros H. rewrite (nth_indep _ d (f O)) by (rewrite map_length, seq_length; exact H). rewrite map_nth, seq_nth by exact H. reflexivity. Qed.
Lemma nth_map_lt {A B} (f : A -> B) l j d d' : (j < List.length l)%nat -> nth j (map f l) d' = f (nth j l d).
Proof. revert j. induction l as [|a t IH]; intros [|j] H; simpl in *; try lia; [reflexivity|apply IH; lia]. Qed.
Lemma nth_colsumZ m M j : (j < m)%nat -> nth j (colsumZ (Z.of_nat m) M) 0 = sumZ (map (fun row => nth j row 0) M).
Proof.
  intros Hj. unfold colsumZ. rewrite Nat2Z.id. exact (nth_map_seq0 (fun j => sumZ (map (fun row => nth j row 0) M)) m j 0 Hj).
Qed.
Lemma nth_colsumQ m M j : (j < m)%nat -> nth j (colsumQ (Z.of_nat m) M) 0%Q = sumL (map (fun row => nth j row 0%Q) M).
Proof.
  intros Hj. unfold colsumQ. rewrite Nat2Z.id. exact (nth_map_seq0 (fun j => sumL (map (fun row => nth j row 0%Q) M)) m j 0%Q Hj).
Qed.
Lemma inject_sumZ l : (inject_Z (sumZ l) == sumL (map inject_Z l))%Q.
Proof. induction l as [|x t IH]; simpl; [reflexivity|]. rewrite inject_Z_plus, IH. reflexivity. Qed.
Lemma sumL_ext {A} (f g : A -> Q) l : (forall x, In x l -> (f x == g x)%Q) -> (sumL (map f l) == sumL (map g l))%Q.
Proof. induction l as [|x t IH]; intros H; simpl; [reflexivity|]. rewrite (H x (or_introl eq_refl)), IH; [reflexivity|]. intros y Hy. apply H. now right. Qed.

(* ---------- elementwise rules: score = column sums of an elementwise integer expression of the ranks ---------- *)
Definition complete (P : list (list Z)) (m : nat) : Prop := forall row x, In row P -> In x row -> 1 <= x <= Z.of_nat m.
Theorem gen_elementwise_score (f : Z -> Z) r k P m : rect P m -> complete P m ->
  (forall x, 1 <= x <= Z.of_nat m -> (inject_Z (f x) == weight r (Z.of_nat m) k x)%Q) ->
  forall j, (j < m)%nat -> (nth j (map inject_Z (colsumZ (ncols P) (mmapZ f P))) 0 == nth j (score r k P) 0)%Q.
Proof.
  intros HR Hc Hw j Hj. rewrite (ncols_rect P m HR). destruct HR as [Hrows Hm].
  rewrite (score_is_sum r k P m Hrows Hm j Hj).
  change 0%Q with (inject_Z 0) at 1. rewrite map_nth. rewrite nth_colsumZ by exact Hj. rewrite inject_sumZ. unfold mmapZ. rewrite !map_map.
  apply sumL_ext. intros row Hrow.
  rewrite (nth_map_lt f row j 0) by (rewrite (Hrows row Hrow); exact Hj). apply Hw.
  apply (Hc row _ Hrow). apply nth_In. rewrite (Hrows row Hrow). exact Hj.
Qed.

(* ---------- rank-count form (Harmonic after the repair of its float ties): for every rank r of a range, count how often
   each alternative has rank r, divide row r by r, sum the rows ---------- *)
Definition eqcount (P : list (list Z)) (m : Z) (r : Z) : list Z := colsumZ m (mmapZ (fun x => if x =? r then 1 else 0) P).
Definition bycount (P : list (list Z)) (m lo hi lo' hi' : Z) : list Q :=
  colsumQ m (divrows (map (fun r => eqcount P m r) (zrange lo hi)) (zrange lo' hi')).

Lemma sumL_app a b : (sumL (a ++ b) == sumL a + sumL b)%Q.
Proof. induction a as [|x t IH]; simpl; [lra|]. rewrite IH. lra. Qed.
Lemma sumL_zero {A} (f : A -> Q) l : (forall x, In x l -> (f x == 0)%Q) -> (sumL (map f l) == 0)%Q.
Proof. induction l as [|x t IH]; intros H; simpl; [reflexivity|]. rewrite (H x (or_introl eq_refl)), IH; [lra|]. intros y Hy. apply H. now right. Qed.
Lemma sumL_swap {A B} (f : A -> B -> Q) la lb :
  (sumL (map (fun a => sumL (map (fun b => f a b) lb)) la) == sumL (map (fun b => sumL (map (fun a => f a b) la)) lb))%Q.
Proof.
  induction la as [|a t IH]; simpl.
  - symmetry. apply (sumL_zero (fun _ : B => 0%Q)). reflexivity.
  - rewrite IH. clear IH. induction lb as [|b u IHu]; simpl; [lra|]. rewrite <- IHu. lra.
Qed.
Lemma sumL_scale c l : (sumL (map (fun x => x * c) l) == sumL l * c)%Q.
Proof. induction l as [|x t IH]; simpl; [lra|]. rewrite IH. lra. Qed.
(* exactly one r of the range equals x *)
Lemma sum_indicator_range (g : Z -> Q) lo hi x : lo <= x < hi ->
  (sumL (map (fun r => if x =? r then g r else 0%Q) (zrange lo hi)) == g x)%Q.
Proof.
  intros Hx. unfold zrange. rewrite map_map.
  set (n := Z.to_nat (hi - lo)). assert (Hn : (Z.to_nat (x - lo) < n)%nat) by (unfold n; lia).
  assert (E : seq 0 n = seq 0 (Z.to_nat (x - lo)) ++ [Z.to_nat (x - lo)] ++ seq (S (Z.to_nat (x - lo))) (n - S (Z.to_nat (x - lo)))).
  { replace n with (Z.to_nat (x - lo) + (1 + (n - S (Z.to_nat (x - lo)))))%nat at 1 by lia. rewrite seq_app, seq_app. cbn [seq plus]. rewrite Nat.add_1_r. reflexivity. }
  rewrite E, !map_app, !sumL_app. cbn [map sumL].
  rewrite (sumL_zero _ (seq 0 (Z.to_nat (x - lo)))).
  2:{ intros i Hi. apply in_seq in Hi. destruct (Z.eqb_spec x (lo + Z.of_nat i)); [lia|reflexivity]. }
  rewrite (sumL_zero _ (seq (S (Z.to_nat (x - lo))) _)).
  2:{ intros i Hi. apply in_seq in Hi. destruct (Z.eqb_spec x (lo + Z.of_nat i)); [lia|reflexivity]. }
  replace (lo + Z.of_nat (Z.to_nat (x - lo))) with x by lia. rewrite Z.eqb_refl. lra.
Qed.

Theorem gen_bycount_score P m k : rect P m -> complete P m ->
  forall j, (j < m)%nat ->
  (nth j (bycount P (ncols P) 1 (ncols P + 1) 1 (ncols P + 1)) 0 == nth j (score Harmonic k P) 0)%Q.
Proof.
  intros HR Hc j Hj. rewrite (ncols_rect P m HR). pose proof HR as [Hrows Hm].
  rewrite (score_is_sum Harmonic k P m Hrows Hm j Hj). unfold bycount. rewrite nth_colsumQ by exact Hj.
  unfold divrows. rewrite map_map.
  (* rows of the quotient matrix are indexed by the ranks of the range *)
  assert (Ecomb : combine (map (fun r => eqcount P (Z.of_nat m) r) (zrange 1 (Z.of_nat m + 1))) (zrange 1 (Z.of_nat m + 1)) =
                  map (fun r => (eqcount P (Z.of_nat m) r, r)) (zrange 1 (Z.of_nat m + 1))).
  { generalize (zrange 1 (Z.of_nat m + 1)). intros l. induction l as [|a t IH]; simpl; [reflexivity|]. rewrite IH. reflexivity. }
  rewrite Ecomb, map_map. cbn [fst snd].
  rewrite (sumL_ext _ (fun r => sumL (map (fun row => if (nth j row 0 =? r)%Z then (1 # Z.to_pos r)%Q else 0%Q) P))).
  2:{ intros r Hr. unfold zrange in Hr. apply in_map_iff in Hr as [i [<- Hi]]. apply in_seq in Hi. set (r := 1 + Z.of_nat i).
      rewrite (nth_map_lt _ _ j 0) by (unfold eqcount, colsumZ; rewrite map_length, seq_length; lia).
      unfold eqcount. rewrite nth_colsumZ by exact Hj. unfold mmapZ. rewrite map_map.
      unfold Qdiv. rewrite inject_sumZ. rewrite map_map, <- sumL_scale, map_map. apply sumL_ext. intros row Hrow.
      rewrite (nth_map_lt _ row j 0) by (rewrite (Hrows row Hrow); exact Hj).
      destruct (nth j row 0 =? r).
      - assert (Hr : 0 < r) by (unfold r; lia). destruct r as [|p|p]; try lia. unfold Qinv, inject_Z, Qmult, Qeq. simpl. lia.
      - unfold inject_Z, Qmult, Qeq. simpl. lia. }
  rewrite (sumL_swap (fun r row => if (nth j row 0 =? r)%Z then (1 # Z.to_pos r)%Q else 0%Q)).
  apply sumL_ext. intros row Hrow. unfold weight.
  apply (sum_indicator_range (fun r => 1 # Z.to_pos r) 1 (Z.of_nat m + 1) (nth j row 0)).
  assert (Hin : In (nth j row 0) row) by (apply nth_In; rewrite (Hrows row Hrow); exact Hj). specialize (Hc row _ Hrow Hin). lia.
Qed.

(* ---------- winners: np.argwhere(score == np.amax(score)).flatten() + index_fixer ---------- *)
Theorem gen_winners_is_model (s : list Q) (fixer : Z) :
  map (fun i => Z.of_nat i + fixer) (argwhere (map (fun x => Qeq_bool x (amaxQ s)) s)) = winners s fixer.
Proof.
  unfold winners, argwhere, amaxQ. destruct s as [|x t]; [reflexivity|]. set (mx := maxQ t x). set (s := x :: t).
  rewrite map_length. rewrite map_map. generalize 0%nat. generalize s. clear. intros s. induction s as [|a u IH]; intros n; [reflexivity|].
  cbn [map combine seq List.length filter fst snd]. destruct (Qeq_bool a mx); cbn [map snd fst]; rewrite IH; reflexivity.
Qed.

(* ---------- break_tie over strings ---------- *)
Definition tb_name (t : tb) : string := match t with TRandom => "random" | TFirst => "first" | TAccept => "accept" end.
Definition pick_choice (alts : list Z) (oracle : nat) : outcome := match nth_error alts oracle with Some a => OOne a | None => OErr end.   (* np.random.choice *)
Definition pick_first (alts : list Z) : outcome := match alts with a :: _ => OOne a | [] => OErr end.                                   (* alternatives[0] *)
