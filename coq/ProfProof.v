(* C18: theorems about the specification-level models of the profile conversions. *)
From Coq Require Import Arith ZArith QArith Qround Qabs List Bool Lia Lqa Permutation.
Import ListNotations.
From SCK Require Import ProfModel.
Local Open Scope nat_scope.

(* ---------- counting ---------- *)
Lemma countb_le_length {A} (f : A -> bool) l : countb f l <= length l.
Proof. unfold countb. induction l as [|x t IH]; simpl; [lia|]. destruct (f x); simpl; lia. Qed.
Lemma countb_app {A} (f : A -> bool) a b : countb f (a ++ b) = countb f a + countb f b.
Proof. unfold countb. rewrite filter_app, app_length. reflexivity. Qed.
Lemma countb_impl {A} (f g : A -> bool) l : (forall x, In x l -> f x = true -> g x = true) -> countb f l <= countb g l.
Proof.
  unfold countb. induction l as [|x t IH]; intros H; simpl; [lia|].
  assert (IH' : length (filter f t) <= length (filter g t)) by (apply IH; intros y Hy; apply H; now right).
  destruct (f x) eqn:E; [rewrite (H x (or_introl eq_refl) E); simpl; lia|destruct (g x); simpl; lia].
Qed.
Lemma countb_disj_sum {A} (f g h : A -> bool) l :
  (forall x, In x l -> f x = true -> h x = true) -> (forall x, In x l -> g x = true -> h x = true) ->
  (forall x, In x l -> f x = true -> g x = false) -> countb f l + countb g l <= countb h l.
Proof.
  unfold countb. induction l as [|x t IH]; intros H1 H2 H3; simpl; [lia|].
  assert (IH' : length (filter f t) + length (filter g t) <= length (filter h t))
    by (apply IH; intros y Hy; [apply H1|apply H2|apply H3]; now right).
  destruct (f x) eqn:Ef.
  - rewrite (H3 x (or_introl eq_refl) Ef), (H1 x (or_introl eq_refl) Ef). simpl. lia.
  - destruct (g x) eqn:Eg; [rewrite (H2 x (or_introl eq_refl) Eg); simpl; lia|destruct (h x); simpl; lia].
Qed.
Lemma countb_firstn_le {A} (f : A -> bool) l j : countb f (firstn j l) <= countb f l.
Proof. rewrite <- (firstn_skipn j l) at 2. rewrite countb_app. lia. Qed.
(* an element satisfying f at position j is not counted in the first j elements *)
Lemma countb_firstn_lt {A} (f : A -> bool) l j x : nth_error l j = Some x -> f x = true -> countb f (firstn j l) < countb f l.
Proof.
  intros Hn Hf. rewrite <- (firstn_skipn j l) at 2. rewrite countb_app.
  assert (1 <= countb f (skipn j l)); [|lia].
  revert j Hn. induction l as [|y t IH]; intros j Hn; [destruct j; discriminate|]. destruct j; simpl in *.
  - injection Hn as ->. unfold countb. simpl. rewrite Hf. simpl. lia.
  - apply IH. exact Hn.
Qed.
Lemma nth_error_firstn_lt {A} (l : list A) k j : j < k -> nth_error (firstn k l) j = nth_error l j.
Proof. revert k j; induction l as [|x t IH]; intros k j H; destruct k, j; simpl; try reflexivity; try lia. apply IH. lia. Qed.
Lemma countb_firstn_mono {A} (f : A -> bool) l a b x : a < b -> nth_error l a = Some x -> f x = true -> countb f (firstn a l) < countb f (firstn b l).
Proof.
  intros Hab Hn Hf. assert (E : firstn a l = firstn a (firstn b l)) by (rewrite firstn_firstn; f_equal; lia).
  rewrite E. apply (countb_firstn_lt f (firstn b l) a x); [|exact Hf].
  rewrite nth_error_firstn_lt by exact Hab. exact Hn.
Qed.

(* ---------- a strict weak order on Q given by two boolean tests ---------- *)
Section Rank.
Variables (lt eq : Q -> Q -> bool).
Hypothesis lt_irrefl_eq : forall x y, eq x y = true -> lt x y = false.
Hypothesis lt_asym : forall x y, lt x y = true -> lt y x = false.
Hypothesis lt_trans : forall x y z, lt x y = true -> lt y z = true -> lt x z = true.
Hypothesis eq_refl' : forall x, eq x x = true.
Hypothesis eq_sym : forall x y, eq x y = true -> eq y x = true.
Hypothesis lt_eq_l : forall x y z, eq x y = true -> lt y z = true -> lt x z = true.
Hypothesis lt_eq_r : forall x y z, lt x y = true -> eq y z = true -> lt x z = true.
Hypothesis eq_trans' : forall x y z, eq x y = true -> eq y z = true -> eq x z = true.
Hypothesis total : forall x y, lt x y = true \/ eq x y = true \/ lt y x = true.

Variable row : list oq.
Definition R (j : nat) (x : Q) : nat := rank_by lt eq row j x.
Definition ltc (x : Q) (o : oq) : bool := match o with Some y => lt y x | None => false end.
Definition eqc (x : Q) (o : oq) : bool := match o with Some y => eq y x | None => false end.

(* strictly before in the order => strictly smaller rank *)
Lemma rank_lt a b x y : nth_error row a = Some (Some x) -> nth_error row b = Some (Some y) -> lt x y = true -> R a x < R b y.
Proof.
  intros Ha Hb Hl. unfold R, rank_by. fold (ltc x) (eqc x) (ltc y) (eqc y).
  assert (H1 : countb (ltc x) row + countb (eqc x) row <= countb (ltc y) row).
  { apply countb_disj_sum.
    - intros o _ H. destruct o as [z|]; [|discriminate]. cbn in *. eapply lt_trans; eauto.
    - intros o _ H. destruct o as [z|]; [|discriminate]. cbn in *. eapply lt_eq_l; eauto.
    - intros o _ H. destruct o as [z|]; [|reflexivity]. cbn in *. destruct (eq z x) eqn:E; [|reflexivity]. rewrite (lt_irrefl_eq _ _ E) in H. discriminate. }
  assert (H2 : countb (eqc x) (firstn a row) < countb (eqc x) row) by (apply (countb_firstn_lt _ row a (Some x) Ha); cbn; apply eq_refl').
  unfold ltc, eqc, oq in *. lia.
Qed.
(* equal keys: the earlier index gets the smaller rank *)
Lemma rank_tie a b x y : nth_error row a = Some (Some x) -> nth_error row b = Some (Some y) -> eq x y = true -> a < b -> R a x < R b y.
Proof.
  intros Ha Hb He Hab. unfold R, rank_by. fold (ltc x) (eqc x) (ltc y) (eqc y).
  assert (E1 : countb (ltc x) row = countb (ltc y) row).
  { unfold countb. f_equal. apply filter_ext. intros [z|]; [|reflexivity]. cbn.
    destruct (lt z x) eqn:A, (lt z y) eqn:B; try reflexivity.
    - rewrite (lt_eq_r z x y A He) in B. discriminate.
    - rewrite (lt_eq_r z y x B (eq_sym _ _ He)) in A. discriminate. }
  assert (E2 : forall l, countb (eqc x) l = countb (eqc y) l).
  { intros l. unfold countb. f_equal. apply filter_ext. intros [z|]; [|reflexivity]. cbn.
    destruct (eq z x) eqn:A, (eq z y) eqn:B; try reflexivity.
    - rewrite (eq_trans' z x y A He) in B. discriminate.
    - rewrite (eq_trans' z y x B (eq_sym _ _ He)) in A. discriminate. }
  assert (H3 : countb (eqc y) (firstn a row) < countb (eqc y) (firstn b row)).
  { apply (countb_firstn_mono _ row a b (Some x) Hab Ha). cbn. exact He. }
  pose proof (E2 (firstn a row)) as E3. pose proof (E2 (firstn b row)) as E4. unfold ltc, eqc, oq in *. lia.
Qed.
(* ranks of distinct ranked entries differ *)
Lemma rank_inj a b x y : nth_error row a = Some (Some x) -> nth_error row b = Some (Some y) -> a <> b -> R a x <> R b y.
Proof.
  intros Ha Hb Hne. destruct (total x y) as [H|[H|H]].
  - pose proof (rank_lt a b x y Ha Hb H). lia.
  - destruct (Nat.lt_ge_cases a b) as [L|L]; [pose proof (rank_tie a b x y Ha Hb H L); lia|].
    assert (b < a) by lia. pose proof (rank_tie b a y x Hb Ha (eq_sym _ _ H) H0). lia.
  - pose proof (rank_lt b a y x Hb Ha H). lia.
Qed.
(* every rank is below the number of ranked entries *)
Lemma rank_bound a x : nth_error row a = Some (Some x) -> R a x < somes row.
Proof.
  intros Ha. unfold R, rank_by, somes. fold (ltc x) (eqc x).
  assert (H1 : countb (ltc x) row + countb (eqc x) row <= countb (fun o => match o with Some _ => true | None => false end) row).
  { apply countb_disj_sum.
    - intros [z|] _ H; [reflexivity|discriminate].
    - intros [z|] _ H; [reflexivity|discriminate].
    - intros [z|] _ H; [|reflexivity]. cbn in *. destruct (eq z x) eqn:E; [|reflexivity]. rewrite (lt_irrefl_eq _ _ E) in H. discriminate. }
  assert (H2 : countb (eqc x) (firstn a row) < countb (eqc x) row) by (apply (countb_firstn_lt _ row a (Some x) Ha); cbn; apply eq_refl').
  unfold ltc, eqc, oq in *. lia.
Qed.
End Rank.

(* ---------- the two concrete orders ---------- *)
Lemma qlt_iff a b : qlt a b = true <-> (a < b)%Q.
Proof. unfold qlt. rewrite negb_true_iff. split; intros H; [apply Qnot_le_lt; intros L; apply Qle_bool_iff in L; congruence|destruct (Qle_bool b a) eqn:E; [apply Qle_bool_iff in E; lra|reflexivity]]. Qed.
Lemma qeq_iff a b : Qeq_bool a b = true <-> (a == b)%Q.
Proof. apply Qeq_bool_iff. Qed.
Ltac qorder := repeat match goal with
  | H : qlt _ _ = true |- _ => apply qlt_iff in H
  | H : Qeq_bool _ _ = true |- _ => apply qeq_iff in H
  | |- qlt _ _ = true => apply qlt_iff
  | |- Qeq_bool _ _ = true => apply qeq_iff
  | |- qlt ?a ?b = false => destruct (qlt a b) eqn:?E; [|reflexivity]
  end; try lra.

Lemma nth_error_map_combine {A B} (f : nat * A -> B) (l : list A) j :
  nth_error (map f (combine (seq 0 (length l)) l)) j = option_map (fun o => f (j, o)) (nth_error l j).
Proof.
  assert (G : forall s, nth_error (map f (combine (seq s (length l)) l)) j = option_map (fun o => f (s + j, o)) (nth_error l j)).
  { revert j. induction l as [|x t IH]; intros j s; [destruct j; reflexivity|]. destruct j; simpl; [rewrite Nat.add_0_r; reflexivity|].
    rewrite IH. replace (S s + j) with (s + S j) by lia. reflexivity. }
  apply (G 0).
Qed.

Section Ordinal.
Variable row : list oq.
Definition gtq (y x : Q) : bool := qlt x y.
Definition ordR (j : nat) (x : Q) : nat := rank_by gtq Qeq_bool row j x.
Lemma ordinal_nth j : nth_error (ordinal_row row) j =
  option_map (fun o => match o with Some x => Some (inject_Z (Z.of_nat (S (ordR j x)))) | None => None end) (nth_error row j).
Proof. unfold ordinal_row. rewrite nth_error_map_combine. unfold oq in *. destruct (nth_error row j) as [[x|]|]; cbn [option_map fst snd]; reflexivity. Qed.

(* NaN entries stay NaN, ranked entries stay ranked *)
Theorem ordinal_nan_pattern j : nth_error (ordinal_row row) j = Some None <-> nth_error row j = Some None.
Proof. rewrite ordinal_nth. unfold oq in *. destruct (nth_error row j) as [[x|]|]; cbn [option_map]; split; intros H; try discriminate; reflexivity. Qed.
(* a strictly higher value gets a strictly better (smaller) rank *)
Theorem ordinal_order a b x y : nth_error row a = Some (Some x) -> nth_error row b = Some (Some y) -> (y < x)%Q ->
  exists ra rb, nth_error (ordinal_row row) a = Some (Some (inject_Z (Z.of_nat ra))) /\ nth_error (ordinal_row row) b = Some (Some (inject_Z (Z.of_nat rb))) /\ ra < rb.
Proof.
  intros Ha Hb Hl. exists (S (ordR a x)), (S (ordR b y)). rewrite !ordinal_nth, Ha, Hb. cbn. split; [reflexivity|]. split; [reflexivity|].
  apply -> Nat.succ_lt_mono. unfold ordR.
  apply (rank_lt gtq Qeq_bool); unfold gtq; try assumption; intros; qorder.
Qed.
(* ranks lie in 1..k (k = number of non-NaN entries) and are pairwise different: they are exactly 1..k *)
Theorem ordinal_ranks a x : nth_error row a = Some (Some x) ->
  exists r, nth_error (ordinal_row row) a = Some (Some (inject_Z (Z.of_nat r))) /\ 1 <= r <= somes row /\
  forall b y, nth_error row b = Some (Some y) -> a <> b -> nth_error (ordinal_row row) b <> Some (Some (inject_Z (Z.of_nat r))).
Proof.
  intros Ha. exists (S (ordR a x)). rewrite ordinal_nth, Ha. cbn. split; [reflexivity|]. split.
  - assert (ordR a x < somes row); [|lia]. unfold ordR. apply (rank_bound gtq Qeq_bool); unfold gtq; try assumption; intros; qorder.
  - intros b y Hb Hne. rewrite ordinal_nth, Hb. cbn. intros E. injection E as E.
    assert (ordR b y = ordR a x) by lia.
    assert (R gtq Qeq_bool row a x <> R gtq Qeq_bool row b y).
    { apply rank_inj; unfold gtq; try assumption; intros; qorder.
      destruct (Qlt_le_dec x0 y0) as [L|L]; [right; right; qorder|]. destruct (Qlt_le_dec y0 x0) as [L2|L2]; [left; qorder|right; left; qorder]. }
    unfold R, ordR in *. congruence.
Qed.
End Ordinal.

Section Strictify.
Variable row : list oq.
Definition strR (j : nat) (x : Q) : nat := rank_by qlt Qeq_bool row j x.
Lemma strict_nth j : nth_error (strict_row row) j =
  option_map (fun o => match o with Some x => Some (inject_Z (Z.of_nat (S (strR j x)))) | None => None end) (nth_error row j).
Proof. unfold strict_row. rewrite nth_error_map_combine. unfold oq in *. destruct (nth_error row j) as [[x|]|]; cbn [option_map fst snd]; reflexivity. Qed.

Theorem strict_nan_pattern j : nth_error (strict_row row) j = Some None <-> nth_error row j = Some None.
Proof. rewrite strict_nth. unfold oq in *. destruct (nth_error row j) as [[x|]|]; cbn [option_map]; split; intros H; try discriminate; reflexivity. Qed.
(* every strict comparison of the input is preserved; tied alternatives are ordered by their number *)
Theorem strict_preserves a b x y : nth_error row a = Some (Some x) -> nth_error row b = Some (Some y) ->
  ((x < y)%Q \/ ((x == y)%Q /\ a < b)) ->
  exists ra rb, nth_error (strict_row row) a = Some (Some (inject_Z (Z.of_nat ra))) /\ nth_error (strict_row row) b = Some (Some (inject_Z (Z.of_nat rb))) /\ ra < rb.
Proof.
  intros Ha Hb H. exists (S (strR a x)), (S (strR b y)). rewrite !strict_nth, Ha, Hb. cbn. split; [reflexivity|]. split; [reflexivity|].
  apply -> Nat.succ_lt_mono. unfold strR. destruct H as [H|[H1 H2]].
  - apply (rank_lt qlt Qeq_bool); try assumption; intros; qorder.
  - apply (rank_tie qlt Qeq_bool); try assumption; intros; qorder.
Qed.
(* the result is strict: the ranks of the k ranked alternatives are pairwise different and lie in 1..k *)
Theorem strict_is_strict a x : nth_error row a = Some (Some x) ->
  exists r, nth_error (strict_row row) a = Some (Some (inject_Z (Z.of_nat r))) /\ 1 <= r <= somes row /\
  forall b y, nth_error row b = Some (Some y) -> a <> b -> nth_error (strict_row row) b <> Some (Some (inject_Z (Z.of_nat r))).
Proof.
  intros Ha. exists (S (strR a x)). rewrite strict_nth, Ha. cbn. split; [reflexivity|]. split.
  - assert (strR a x < somes row); [|lia]. unfold strR. apply (rank_bound qlt Qeq_bool); try assumption; intros; qorder.
  - intros b y Hb Hne. rewrite strict_nth, Hb. cbn. intros E. injection E as E.
    assert (strR b y = strR a x) by lia.
    assert (R qlt Qeq_bool row a x <> R qlt Qeq_bool row b y).
    { apply rank_inj; try assumption; intros; qorder.
      destruct (Qlt_le_dec x0 y0) as [L|L]; [left; qorder|]. destruct (Qlt_le_dec y0 x0) as [L2|L2]; [right; right; qorder|right; left; qorder]. }
    unfold R, strR in *. congruence.
Qed.
End Strictify.

(* ---------- completion ---------- *)
Section Complete.
Variables (accept : bool) (row : list oq).
Let m := length row.
Let k := m - somes row.
Lemma complete_nth j : nth_error (complete_row accept row) j =
  option_map (fun o => match o with Some x => Some x
                                  | None => Some (inject_Z (Z.of_nat (m - k + 1 + (if accept then 0 else (j - somes (firstn j row)))))) end) (nth_error row j).
Proof. unfold complete_row. rewrite nth_error_map_combine. unfold oq in *. destruct (nth_error row j) as [[x|]|]; cbn [option_map fst snd]; reflexivity. Qed.
(* existing ranks are kept *)
Theorem complete_keeps j x : nth_error row j = Some (Some x) -> nth_error (complete_row accept row) j = Some (Some x).
Proof. intros H. rewrite complete_nth, H. reflexivity. Qed.
(* no NaN is left, and missing alternatives are ranked after the existing ones: m-k+1 for all ('accept'),
   m-k+1, m-k+2, ... in the order of their numbers ('first') *)
Theorem complete_fills j : nth_error row j = Some None ->
  exists r, nth_error (complete_row accept row) j = Some (Some (inject_Z (Z.of_nat r))) /\ m - k + 1 <= r /\
  (accept = true -> r = m - k + 1) /\
  (accept = false -> r = m - k + 1 + (j - somes (firstn j row)) /\ r <= m).
Proof.
  intros H. rewrite complete_nth, H. cbn. eexists. split; [reflexivity|]. split; [destruct accept; lia|]. split; [intros ->; lia|].
  intros ->. split; [reflexivity|].
  (* number of NaN entries before j is below the total number k of NaN entries *)
  assert (Hj : j < m) by (apply nth_error_Some; congruence).
  assert (G : j - somes (firstn j row) + 1 <= k).
  { unfold k, m, somes. rewrite <- (firstn_skipn j row) at 2 3. rewrite app_length, countb_app.
    pose proof (countb_le_length (fun o : oq => match o with Some _ => true | None => false end) (firstn j row)).
    rewrite firstn_length_le in * by lia.
    assert (countb (fun o : oq => match o with Some _ => true | None => false end) (skipn j row) < length (skipn j row)).
    { assert (E : exists t, skipn j row = None :: t).
      { clear -H. revert j H. induction row as [|y t IH]; intros j H; [destruct j; discriminate|]. destruct j; simpl in *; [injection H as ->; eexists; reflexivity|apply IH; exact H]. }
      destruct E as [t E]. rewrite E. unfold countb. simpl. pose proof (countb_le_length (fun o : oq => match o with Some _ => true | None => false end) t). unfold countb in *. lia. }
    unfold oq in *. lia. }
  unfold k in *. lia.
Qed.
End Complete.

(* ---------- generators and the consistency predicate ---------- *)
From Coq Require Import Sorted.
Lemma insq_desc_perm x l : Permutation (insq_desc x l) (x :: l).
Proof. induction l as [|y r IH]; simpl; [reflexivity|]. destruct (Qle_bool y x); [reflexivity|]. rewrite IH. apply perm_swap. Qed.
Lemma sort_desc_perm l : Permutation (sort_desc l) l.
Proof. induction l as [|x t IH]; simpl; [constructor|]. rewrite insq_desc_perm. constructor. exact IH. Qed.
Definition geq (a b : Q) : Prop := (b <= a)%Q.
Lemma insq_desc_sorted x l : StronglySorted geq l -> StronglySorted geq (insq_desc x l).
Proof.
  induction l as [|y r IH]; intros H; simpl; [constructor; [constructor|constructor]|].
  inversion H as [|? ? Hs Hf]; subst. destruct (Qle_bool y x) eqn:E.
  - apply Qle_bool_iff in E. constructor; [exact H|]. constructor; [exact E|]. rewrite Forall_forall in *. intros z Hz. specialize (Hf z Hz). unfold geq in *. lra.
  - assert (x < y)%Q by (apply Qnot_le_lt; intros L; apply Qle_bool_iff in L; congruence).
    constructor; [apply IH; exact Hs|]. rewrite Forall_forall in *. intros z Hz.
    apply (Permutation_in _ (insq_desc_perm x r)) in Hz. destruct Hz as [<-|Hz]; [unfold geq; lra|apply Hf; exact Hz].
Qed.
Lemma sort_desc_sorted l : StronglySorted geq (sort_desc l).
Proof. induction l as [|x t IH]; simpl; [constructor|]. apply insq_desc_sorted. exact IH. Qed.
Lemma sorted_nth l p q : StronglySorted geq l -> p <= q -> q < length l -> (nth q l 0 <= nth p l 0)%Q.
Proof.
  intros H. revert p q. induction H as [|a t Hs IH Hf]; intros p q Hpq Hq; [simpl in Hq; lia|].
  destruct p, q; simpl in *; try lia; [lra| |apply IH; lia].
  rewrite Forall_forall in Hf. apply Hf. apply nth_In. lia.
Qed.
Lemma sort_desc_length l : length (sort_desc l) = length l.
Proof. apply Permutation_length, sort_desc_perm. Qed.

(* a generated row: the alternative of rank r carries the r-th largest normalised draw, so valuations are weakly
   decreasing along the ranking; they are non-negative when the (clipped) draws are and their sum is positive *)
Definition gen_vals (clip : bool) (draws : list Q) : list Q :=
  let u := if clip then clip0 draws else draws in map (fun x => Qred (x / sumq u)) (sort_desc u).
Lemma gen_row_entry clip row draws j r : nth_error row j = Some (Some r) ->
  nth_error (gen_row clip row draws) j = Some (Some (nth (Z.to_nat (Qfloor r) - 1) (gen_vals clip draws) 0%Q)).
Proof. intros H. unfold gen_row, gen_vals. rewrite nth_error_map, H. reflexivity. Qed.
Theorem gen_nan_pattern clip row draws j : nth_error (gen_row clip row draws) j = Some None <-> nth_error row j = Some None.
Proof. unfold gen_row. rewrite nth_error_map. unfold oq in *. destruct (nth_error row j) as [[r|]|]; cbn [option_map]; split; intros H; try discriminate; reflexivity. Qed.
Lemma sumq_nonneg l : (forall x, In x l -> (0 <= x)%Q) -> (0 <= sumq l)%Q.
Proof. induction l as [|x t IH]; intros H; cbn [sumq fold_right]; [lra|]. rewrite Qred_correct. assert (0 <= x)%Q by (apply H; now left). assert (0 <= sumq t)%Q by (apply IH; intros; apply H; now right). unfold sumq in *. lra. Qed.
Lemma nth_map_dflt {A B} (f : A -> B) (l : list A) (d : B) (d' : A) j : j < length l -> nth j (map f l) d = f (nth j l d').
Proof. revert j; induction l as [|x t IH]; intros j H; simpl in *; [lia|]. destruct j; [reflexivity|apply IH; lia]. Qed.
Theorem gen_monotone (clip : bool) draws p q : (0 < sumq (if clip then clip0 draws else draws))%Q ->
  p <= q -> q < length draws -> (nth q (gen_vals clip draws) 0 <= nth p (gen_vals clip draws) 0)%Q.
Proof.
  intros Hs Hpq Hq. unfold gen_vals. set (u := if clip then clip0 draws else draws) in *.
  assert (Hlen : length (sort_desc u) = length draws) by (rewrite sort_desc_length; unfold u, clip0; destruct clip; [apply map_length|reflexivity]).
  rewrite (nth_map_dflt (fun x => Qred (x / sumq u)) (sort_desc u) 0%Q 0%Q q) by lia.
  rewrite (nth_map_dflt (fun x => Qred (x / sumq u)) (sort_desc u) 0%Q 0%Q p) by lia.
  rewrite !Qred_correct.
  pose proof (sorted_nth (sort_desc u) p q (sort_desc_sorted u) Hpq ltac:(lia)) as H.
  unfold Qdiv. assert (0 < / sumq u)%Q by (apply Qinv_lt_0_compat; exact Hs). nra.
Qed.
Theorem gen_nonneg (clip : bool) draws p : (forall x, In x (if clip then clip0 draws else draws) -> (0 <= x)%Q) -> (0 < sumq (if clip then clip0 draws else draws))%Q ->
  (0 <= nth p (gen_vals clip draws) 0)%Q.
Proof.
  intros Hnn Hs. unfold gen_vals. set (u := if clip then clip0 draws else draws) in *.
  destruct (nth_in_or_default p (map (fun x => Qred (x / sumq u)) (sort_desc u)) 0%Q) as [Hin|E]; [|rewrite E; lra].
  apply in_map_iff in Hin as [x [<- Hx]]. rewrite Qred_correct. apply (Permutation_in _ (sort_desc_perm u)) in Hx. specialize (Hnn x Hx).
  unfold Qdiv. assert (0 < / sumq u)%Q by (apply Qinv_lt_0_compat; exact Hs). nra.
Qed.
(* clipping makes every draw non-negative (normal generator) *)
Lemma clip0_nonneg draws x : In x (clip0 draws) -> (0 <= x)%Q.
Proof. unfold clip0. intros H. apply in_map_iff in H as [y [<- _]]. destruct (Qle_bool 0 y) eqn:E; [apply Qle_bool_iff; exact E|lra]. Qed.

(* the consistency predicate, on a NaN-free row: if it accepts, then no alternative ranked later exceeds an
   earlier one by more than the two np.allclose bands involved (so it rejects every clear inversion) *)
Definition band (b : Q) : Q := ((1 # 100000000) + (1 # 100000) * Qabs b)%Q.
Lemma allclose_iff a b : allclose a b = true <-> (Qabs (a - b) <= band b)%Q.
Proof. unfold allclose, band. apply Qle_bool_iff. Qed.
Theorem consistent_rejects_inversions prow vrow p q : consistent_row prow vrow = true ->
  length (by_rank prow vrow) = length vrow -> p <= q -> q < length vrow ->
  let x := by_rank prow vrow in let s := sort_desc vrow in
  (nth q x 0 - nth p x 0 <= band (nth p s 0) + band (nth q s 0))%Q.
Proof.
  intros H Hlen Hpq Hq x s. unfold consistent_row in H. rewrite forallb_forall in H.
  assert (Hs : length s = length vrow) by apply sort_desc_length.
  assert (Hc : forall i, i < length vrow -> (Qabs (nth i x 0 - nth i s 0) <= band (nth i s 0))%Q).
  { intros i Hi. apply allclose_iff. apply (H (nth i x 0%Q, nth i s 0%Q)). fold x s.
    rewrite <- (combine_nth x s i 0%Q 0%Q) by (unfold x; rewrite Hlen, Hs; reflexivity). apply nth_In. rewrite combine_length. unfold x. rewrite Hlen, Hs. lia. }
  pose proof (Hc p ltac:(lia)) as Cp. pose proof (Hc q Hq) as Cq.
  pose proof (sorted_nth s p q (sort_desc_sorted vrow) Hpq ltac:(lia)) as Hd.
  apply Qabs_Qle_condition in Cp. apply Qabs_Qle_condition in Cq. lra.
Qed.
