From Coq Require Import ZArith QArith List Bool Lia.
Import ListNotations.
Local Open Scope Z_scope.

(* ---------- elicitation programs: the only access to values is Ask ---------- *)
Definition key := (Z * Z)%type.
Definition keqb (a b : key) : bool := (fst a =? fst b) && (snd a =? snd b).
Inductive prog (A : Type) : Type :=
| Ret (a : A)
| Ask (k : key) (cont : Q -> prog A).
Arguments Ret {A} a.
Arguments Ask {A} k cont.
Fixpoint bind {A B} (p : prog A) (f : A -> prog B) : prog B :=
  match p with Ret a => f a | Ask k c => Ask k (fun q => bind (c q) f) end.
Notation "x <- p ;; q" := (bind p (fun x => q)) (at level 61, p at next level, right associativity).

(* the elicitor: memo table, counter, forwarded queries *)
Record estate := { memo : list (key * Q); cnt : nat; trace : list key }.
Definition einit : estate := {| memo := []; cnt := 0; trace := [] |}.
Fixpoint mget (l : list (key * Q)) (k : key) : option Q :=
  match l with [] => None | (k', v) :: r => if keqb k k' then Some v else mget r k end.
Section Run.
Variable memoize : bool.
Variable fixer : Z.
Variable V : key -> Q.
Definition elicit (st : estate) (k0 : key) : estate * Q :=
  let k := (fst k0 + fixer, snd k0 + fixer) in
  match (if memoize then mget (memo st) k else None) with
  | Some v => (st, v)
  | None => let v := V k in
            ({| memo := if memoize then (k, v) :: memo st else memo st; cnt := S (cnt st); trace := trace st ++ [k] |}, v)
  end.
Fixpoint run {A} (p : prog A) (st : estate) : A * estate :=
  match p with
  | Ret a => (a, st)
  | Ask k c => let '(st', v) := elicit st k in run (c v) st'
  end.
End Run.

(* ---------- k-ARV as a program ---------- *)
Fixpoint bsearchP (fuel : nat) (rk : list Z) (i : Z) (a b : Z) (tau : Q) : prog Z :=
  match fuel with O => Ret a | S f =>
    if b - a <=? 1 then Ret a else
    let mid := (a + b) / 2 in
    Ask (i, nth (Z.to_nat mid) rk 0) (fun u => if Qle_bool tau u then bsearchP f rk i mid b tau else bsearchP f rk i a mid tau)
  end.
Fixpoint mapP {A B} (f : A -> prog B) (l : list A) : prog (list B) :=
  match l with [] => Ret [] | x :: t => y <- f x ;; ys <- mapP f t ;; Ret (y :: ys) end.
Fixpoint foldP {A S} (f : S -> A -> prog S) (l : list A) (s : S) : prog S :=
  match l with [] => Ret s | x :: t => s' <- f s x ;; foldP f t s' end.

Fixpoint insz (k : Z) (i : Z) (l : list (Z * Z)) := match l with [] => [(k, i)] | (k', i') :: r => if k' <=? k then (k', i') :: insz k i r else (k, i) :: l end.
Definition argsortz (row : list Z) : list Z :=
  map snd (fold_left (fun acc ki => insz (fst ki) (snd ki) acc) (combine row (map Z.of_nat (seq 0 (length row)))) []).
Fixpoint updz {A} (l : list A) (i : nat) (x : A) : list A :=
  match l, i with [], _ => [] | _ :: r, O => x :: r | y :: r, S j => y :: updz r j x end.

Definition karvP (profile : list (list Z)) (k : nat) (tau : list (list Q)) : prog (list (list Q)) :=
  let n := length profile in
  let m := Z.of_nat (length (nth 0 profile [])) in
  let ranked := map argsortz profile in
  vfav <- mapP (fun i => Ask (Z.of_nat i, nth 0 (nth i ranked []) 0) (fun v => Ret v)) (seq 0 n) ;;
  let vt0 := map (fun i => updz (repeat 0%Q (Z.to_nat m)) (Z.to_nat (nth 0 (nth i ranked []) 0)) (nth i vfav 0%Q)) (seq 0 n) in
  r <- foldP (fun (acc : list (list Q) * list Z) l =>
         let '(vt, sprev) := acc in
         pstar <- mapP (fun i => bsearchP (S (Z.to_nat m)) (nth i ranked []) (Z.of_nat i) 0 m (nth (l - 1) (nth i tau []) 0%Q)) (seq 0 n) ;;
         let vt := map (fun i =>
                     let row := nth i vt [] in
                     let lo := Z.to_nat (nth i sprev 0) in let hi := Z.to_nat (nth i pstar 0) in
                     fold_left (fun row p => updz row (Z.to_nat (nth p (nth i ranked []) 0)) (nth (l - 1) (nth i tau []) 0%Q))
                               (seq (S lo) (hi - lo)) row) (seq 0 n) in
         Ret (vt, pstar)) (seq 1 k) (vt0, repeat 0 n) ;;
  Ret (fst r).

(* ---------- generic theorems about runs ---------- *)
Lemma elicit_trace_incl memoize fixer V st k : incl (trace st) (trace (fst (elicit memoize fixer V st k))).
Proof.
  unfold elicit. destruct (if memoize then mget (memo st) (fst k + fixer, snd k + fixer) else None); simpl; [apply incl_refl|apply incl_appl, incl_refl].
Qed.
Lemma run_trace_incl {A} memoize fixer V (p : prog A) : forall st, incl (trace st) (trace (snd (run memoize fixer V p st))).
Proof.
  induction p as [a|k c IH]; intros st; simpl; [apply incl_refl|].
  destruct (elicit memoize fixer V st k) as [st' v] eqn:E.
  eapply incl_tran; [|apply IH]. pose proof (elicit_trace_incl memoize fixer V st k) as H. rewrite E in H. exact H.
Qed.

(* C15: a run depends only on the answers to the questions it forwarded *)
Theorem run_agree {A} memoize fixer (V V' : key -> Q) (p : prog A) : forall st,
  (forall k, In k (trace (snd (run memoize fixer V p st))) -> V k = V' k) ->
  run memoize fixer V' p st = run memoize fixer V p st.
Proof.
  induction p as [a|k0 c IH]; intros st Hag; simpl; [reflexivity|].
  simpl in Hag. unfold elicit in *.
  set (k := (fst k0 + fixer, snd k0 + fixer)) in *.
  destruct (if memoize then mget (memo st) k else None) as [v|] eqn:Em.
  - apply IH. exact Hag.
  - assert (Hk : V k = V' k).
    { apply Hag. apply (run_trace_incl memoize fixer V (c (V k))). simpl. apply in_or_app. right. now left. }
    rewrite <- Hk. apply IH. exact Hag.
Qed.

(* the memoising elicitor: no question is forwarded twice, the counter counts forwards, answers are stable *)
Definition memo_inv (V : key -> Q) (st : estate) : Prop :=
  NoDup (trace st) /\ cnt st = length (trace st) /\
  (forall k, In k (trace st) <-> mget (memo st) k <> None) /\
  (forall k v, mget (memo st) k = Some v -> v = V k).
Lemma keqb_eq a b : keqb a b = true <-> a = b.
Proof. destruct a, b; unfold keqb; simpl. rewrite andb_true_iff, !Z.eqb_eq. split; [intros [-> ->]; reflexivity|intros E; injection E; auto]. Qed.
Lemma elicit_memo_inv fixer V st k : memo_inv V st -> memo_inv V (fst (elicit true fixer V st k)) /\ snd (elicit true fixer V st k) = V (fst k + fixer, snd k + fixer).
Proof.
  intros [Hnd [Hc [Hm Hv]]]. unfold elicit. set (k' := (fst k + fixer, snd k + fixer)).
  destruct (mget (memo st) k') as [v|] eqn:E; simpl.
  - split; [repeat split; try assumption; apply Hm|apply Hv; exact E].
  - split; [|reflexivity]. assert (Hnin : ~ In k' (trace st)) by (intros Hin; apply Hm in Hin; congruence).
    unfold memo_inv. cbn [fst memo cnt trace].
    split; [|split; [|split]].
    + clear -Hnd Hnin. induction Hnd as [|x t Hx Hn IH]; simpl; [constructor; [tauto|constructor]|].
      constructor; [rewrite in_app_iff; simpl; intros [H|[H|[]]]; [contradiction|subst; apply Hnin; now left]|apply IH; intros H; apply Hnin; now right].
    + rewrite Hc. rewrite last_length. reflexivity.
    + intros k2. rewrite in_app_iff. cbn [mget In]. destruct (keqb k2 k') eqn:Ek.
      * apply keqb_eq in Ek. subst. split; [intros _; discriminate|intros _; right; now left].
      * rewrite <- Hm. split; [intros [H|[H|[]]]; [exact H|exfalso; rewrite <- H in Ek; assert (keqb k' k' = true) by (apply keqb_eq; reflexivity); congruence]|tauto].
    + intros k2 v. cbn [mget]. destruct (keqb k2 k') eqn:Ek; [apply keqb_eq in Ek; subst k2; intros H; injection H as <-; reflexivity|apply Hv].
Qed.
Theorem run_memo_inv {A} fixer V (p : prog A) : forall st, memo_inv V st -> memo_inv V (snd (run true fixer V p st)).
Proof.
  induction p as [a|k c IH]; intros st H; simpl; [exact H|].
  destruct (elicit true fixer V st k) as [st' v] eqn:E. apply IH.
  pose proof (elicit_memo_inv fixer V st k H) as [H1 _]. rewrite E in H1. exact H1.
Qed.
Print Assumptions run_agree.
Print Assumptions run_memo_inv.

Definition qeqb_ll (A B : list (list Q)) : bool :=
  (length A =? length B)%nat && forallb (fun rr => (length (fst rr) =? length (snd rr))%nat && forallb (fun ab => Qeq_bool (fst ab) (snd ab)) (combine (fst rr) (snd rr))) (combine A B).
Definition keys_eqb (a b : list key) : bool := (length a =? length b)%nat && forallb (fun p => keqb (fst p) (snd p)) (combine a b).
Definition vfun (M : list (list Q)) (k : key) : Q := nth (Z.to_nat (snd k)) (nth (Z.to_nat (fst k)) M []) 0%Q.
Definition kcheck (c : list (list Z) * nat * list (list Q) * list (list Q) * list (list Q) * list key * nat) : nat :=
  let '(P, k, Vm, tau, evt, etrace, ecnt) := c in
  let '(vt, st) := run true 0 (vfun Vm) (karvP P k tau) einit in
  if negb (qeqb_ll vt evt) then 1%nat else if negb (keys_eqb (trace st) etrace) then 2%nat else if negb (cnt st =? ecnt)%nat then 3%nat else 0%nat.
Fixpoint kmism (i : nat) (cs : list _) : list (nat * nat) :=
  match cs with [] => [] | c :: r => match kcheck c with O => kmism (S i) r | e => (i, e) :: kmism (S i) r end end.
