From Coq Require Import ZArith List Bool Lia.
Import ListNotations.
Require Import FlowModel.
Local Open Scope Z_scope.

(* maximum_cardinality_matching_bipartite, repaired read-off (vertices without neighbours are skipped) *)
Definition bgraph := list (Z * list Z).
Fixpoint glook (G : bgraph) (k : Z) : option (list Z) :=
  match G with [] => None | (k', l) :: r => if k' =? k then Some l else glook r k end.
Definition adj (G : bgraph) (x : Z) : list Z := match glook G x with Some l => l | None => [] end.
Definition net (G : bgraph) (X Y : list Z) : graph :=
  map (fun x => (x, map (fun y => (y, 1)) (adj G x))) X ++ [(-1, map (fun x => (x, 1)) X); (-2, [])] ++ map (fun y => (y, [(-2, 1)])) Y.
(* np.argmax: index of the first maximum *)
Fixpoint argmax_from (l : list Z) (i : nat) (best : Z) (bi : nat) : nat :=
  match l with [] => bi | x :: t => if x >? best then argmax_from t (S i) x i else argmax_from t (S i) best bi end.
Definition argmax_first (l : list Z) : nat := match l with [] => O | x :: t => argmax_from t 1 x 0 end.
Definition pick (fl : flowmap) (x : Z) (l : list Z) : list (Z * Z) :=
  match l with [] => [] | _ => let y := nth (argmax_first (map (fun y => fget fl (x, y)) l)) l 0 in
                               if fget fl (x, y) =? 1 then [(x, y)] else [] end.
Definition read_off (G : bgraph) (X : list Z) (fl : flowmap) : list (Z * Z) := flat_map (fun x => pick fl x (adj G x)) X.
Definition max_matching (fuel : nat) (G : bgraph) (X Y : list Z) : option (list (Z * Z)) :=
  match ff_loop fuel (init (net G X Y)) (-1) (-2) with
  | None => None
  | Some (_, fl) => Some (read_off G X fl)
  end.
