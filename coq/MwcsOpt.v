From Coq Require Import ZArith List Bool Lia.
Import ListNotations.
Require Import FlowModel FlowProof FlowInit FlowFinal Mwcs MwcsProof.
Local Open Scope Z_scope.

Section Opt.
Variables (P : list (list nat)) (ws : list Z).
Let R := length P.
Let ids := seq 0 R.
Let N := cnet P ws.
Hypothesis PW : forall pi, (pi < R)%nat -> NoDup (nthl P pi) /\ forall rho, In rho (nthl P pi) -> (rho < R)%nat /\ rho <> pi.
Hypothesis Hsmall : sumN (negp ws) ids < maxsize.

Definition W (c : nat -> bool) : Z := sumN (wt ws) (filter c ids).
Definition pred_closed (c : nat -> bool) : Prop := forall u v, (u < R)%nat -> In v (nthl P u) -> c v = true -> c u = true.

Lemma wt_split pi : wt ws pi = posp ws pi - negp ws pi.
Proof. unfold posp, negp. destruct (Z.gtb_spec (wt ws pi) 0); destruct (Z.ltb_spec (wt ws pi) 0); lia. Qed.
Lemma sumN_sub f g l : sumN (fun x => f x - g x) l = sumN f l - sumN g l.
Proof. induction l as [|a t IH]; simpl; [lia|]. rewrite IH. lia. Qed.

(* weight of the complement of a successor-closed cut *)
Lemma W_of_cut inR : inR (-1) = true -> inR (-2) = false ->
  (forall u v, (u < R)%nat -> inR (Z.of_nat u) = true -> In v (nthl P u) -> inR (Z.of_nat v) = true) ->
  W (fun pi => negb (inR (Z.of_nat pi))) = sumN (posp ws) ids - cutcap (cf N) (keys N) inR.
Proof.
  intros Hs Ht Hcl. unfold N. rewrite (closed_cut_cap P ws inR Hs Ht Hcl). unfold W, Apart, Bpart.
  rewrite (sumN_ext (wt ws) (fun x => posp ws x - negp ws x)) by (intros; apply wt_split). rewrite sumN_sub.
  rewrite (sumN_split (posp ws) (fun pi => inR (Z.of_nat pi)) ids). fold R ids. lia.
Qed.

(* the cut returned by the max-flow computation yields a maximum-weight predecessor-closed set *)
Theorem mincut_gives_max_closed fuel out cut : ford_fulkerson fuel N (-1) (-2) = Some (out, cut) ->
  let T0 := fun pi => negb (memZ (Z.of_nat pi) cut) in
  pred_closed T0 /\ forall c, pred_closed c -> W c <= W T0.
Proof.
  intros Hff T0. pose proof (N_wf P ws PW) as Hwf. fold N in Hwf.
  assert (Hs : In (-1) (keys N)) by (unfold N; rewrite (keys_N P ws); now left).
  destruct (C08_ff_correct N (-1) (-2) fuel out cut Hwf Hs ltac:(lia) Hff) as [fl [_ [Fskew [Fcap [Fcons [Hcs [Hct [Hval Hmax]]]]]]]].
  set (inR0 := fun x => memZ x cut).
  assert (H0s : inR0 (-1) = true) by (apply memZ_In; exact Hcs).
  assert (H0t : inR0 (-2) = false) by (unfold inR0; destruct (memZ (-2) cut) eqn:E; [apply memZ_In in E; contradiction|reflexivity]).
  pose proof Hwf as [HKn _].
  (* the flow value is below every cut *)
  assert (Hweak : forall inR, inR (-1) = true -> inR (-2) = false -> cutcap (cf N) (keys N) inR0 <= cutcap (cf N) (keys N) inR).
  { intros inR A B. unfold inR0. rewrite <- Hval. unfold cutcap.
    apply (weak_duality (keys N) (-1) (-2) (fun x y => fget fl (x, y)) inR HKn Hs A B Fskew Fcons (cf N) Fcap). }
  (* the trivial cut is cheap *)
  set (inR1 := fun z => z =? -1).
  assert (Hcheap : cutcap (cf N) (keys N) inR1 < maxsize).
  { unfold N. rewrite (cutcap_formula P ws inR1 eq_refl eq_refl).
    assert (Ek : forall pi, inR1 (Z.of_nat pi) = false) by (intros pi; unfold inR1; apply Z.eqb_neq; lia).
    assert (EIn : filter (fun pi => inR1 (Z.of_nat pi)) (seq 0 (length P)) = []).
    { clear -Ek. induction (seq 0 (length P)) as [|a t IH]; simpl; [reflexivity|]. rewrite Ek. exact IH. }
    assert (EOut : filter (fun pi => negb (inR1 (Z.of_nat pi))) (seq 0 (length P)) = seq 0 (length P)).
    { clear -Ek. induction (seq 0 (length P)) as [|a t IH]; simpl; [reflexivity|]. rewrite Ek. simpl. f_equal. exact IH. }
    unfold Apart, Bpart, Cpart. rewrite EIn, EOut. simpl. fold R ids. lia. }
  assert (Hcl0 : forall u v, (u < R)%nat -> inR0 (Z.of_nat u) = true -> In v (nthl P u) -> inR0 (Z.of_nat v) = true).
  { apply (cheap_cut_closed P ws PW inR0 H0s H0t). pose proof (Hweak inR1 eq_refl eq_refl). fold N. lia. }
  split.
  - intros u v Hu Hv Hc. unfold T0 in *. destruct (memZ (Z.of_nat u) cut) eqn:E; [|reflexivity].
    pose proof (Hcl0 u v Hu E Hv) as Hk. unfold inR0 in Hk. rewrite Hk in Hc. discriminate.
  - intros c Hc.
    set (inRc := fun z => if z =? -1 then true else if z =? -2 then false else negb (c (Z.to_nat z))).
    assert (Ec : forall pi, inRc (Z.of_nat pi) = negb (c pi)).
    { intros pi. unfold inRc. assert (E1 : (Z.of_nat pi =? -1) = false) by (apply Z.eqb_neq; lia).
      assert (E2 : (Z.of_nat pi =? -2) = false) by (apply Z.eqb_neq; lia). rewrite E1, E2, Nat2Z.id. reflexivity. }
    assert (Hclc : forall u v, (u < R)%nat -> inRc (Z.of_nat u) = true -> In v (nthl P u) -> inRc (Z.of_nat v) = true).
    { intros u v Hu Hk Hv. rewrite Ec in *. destruct (c v) eqn:Ev; [|reflexivity]. rewrite (Hc u v Hu Hv Ev) in Hk. discriminate. }
    pose proof (W_of_cut inRc eq_refl eq_refl Hclc) as Wc.
    pose proof (W_of_cut inR0 H0s H0t Hcl0) as W0.
    assert (EWc : W (fun pi => negb (inRc (Z.of_nat pi))) = W c).
    { unfold W. f_equal. apply filter_ext. intros pi. rewrite Ec. apply negb_involutive. }
    rewrite EWc in Wc. unfold T0. fold inR0. change (fun pi => negb (memZ (Z.of_nat pi) cut)) with (fun pi => negb (inR0 (Z.of_nat pi))).
    pose proof (Hweak inRc eq_refl eq_refl). lia.
Qed.
End Opt.
Print Assumptions mincut_gives_max_closed.
