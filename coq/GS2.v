From Coq Require Import ZArith List Bool Lia Arith.
Import ListNotations.
Require GS.

(* Function-state version of the resident-oriented loop, written against three accessors. *)
Definition fupd {A} (f : nat -> A) (i : nat) (x : A) : nat -> A := fun j => if Nat.eqb j i then x else f j.

Section ResLoop.
Variables (n m : nat).
Variable prefR : nat -> nat -> option nat.   (* resident p's k-th choice if it exists and is acceptable to p *)
Variable rkH : nat -> nat -> option nat.     (* hospital h's 0-based rank of resident p, None = unacceptable *)
Variable unrank : nat -> nat -> nat.         (* hospital h's resident at 0-based rank r *)
Variable cap : nat -> nat.

Record rst := { apps : nat -> nat; wl : nat -> list nat; flag : nat -> nat }.

Fixpoint maxl (l : list nat) (w : nat) : nat := match l with [] => w | x :: t => maxl t (Nat.max w x) end.
Fixpoint rem1 (x : nat) (l : list nat) : list nat :=
  match l with [] => [] | y :: t => if Nat.eqb x y then t else y :: rem1 x t end.

Definition res_step (cur : nat -> nat) (st : rst) (p : nat) : rst :=
  if negb (Nat.eqb (cur p) 1) then st else
  let k := apps st p in
  match prefR p k with
  | None => {| apps := apps st; wl := wl st; flag := fupd (flag st) p 2 |}
  | Some h =>
    let apps' := fupd (apps st) p (S k) in
    match rkH h p with
    | None => {| apps := apps'; wl := wl st; flag := flag st |}
    | Some hr =>
      let w := hr :: wl st h in
      let flag1 := fupd (flag st) p 0 in
      if length w <=? cap h then {| apps := apps'; wl := fupd (wl st) h w; flag := flag1 |}
      else let worst := maxl w 0 in
           {| apps := apps'; wl := fupd (wl st) h (rem1 worst w); flag := fupd flag1 (unrank h worst) 1 |}
    end
  end.

Fixpoint res_loop (fuel : nat) (st : rst) : option rst :=
  match fuel with O => None | S f =>
    if forallb (fun p => negb (Nat.eqb (flag st p) 1)) (seq 0 n) then Some st
    else res_loop f (fold_left (res_step (flag st)) (seq 0 n) st)
  end.
Definition res_init : rst := {| apps := fun _ => 0; wl := fun _ => []; flag := fun _ => 1 |}.
Definition res_out (st : rst) : list (nat * nat) :=
  flat_map (fun h => map (fun r => (unrank h r, h)) (wl st h)) (seq 0 m).
End ResLoop.

(* instantiate the accessors from concrete profiles and compare with the list-state model *)
Definition mk_prefR (R : list (list GS.oz)) (m : nat) (p k : nat) : option nat :=
  if (m <=? k)%nat then None else
  let h := GS.nthd O (GS.nthd [] (map GS.argsort R) p) k in
  match GS.rank0 R p h with Some _ => Some h | None => None end.
Definition mk_rkH (H : list (list GS.oz)) (h p : nat) : option nat := option_map Z.to_nat (GS.rank0 H h p).
Definition mk_unrank (H : list (list GS.oz)) (h r : nat) : nat := GS.nthd O (GS.nthd [] (map GS.argsort H) h) r.
Definition gs2 (R H : list (list GS.oz)) (c : list Z) : option (list (Z * Z)) :=
  let n := length R in let m := length H in
  match res_loop n (mk_prefR R m) (mk_rkH H) (mk_unrank H) (fun h => Z.to_nat (GS.nthd 0%Z c h)) (n * m + n + 1) res_init with
  | Some st => Some (map (fun pr => (Z.of_nat (fst pr), Z.of_nat (snd pr))) (res_out m (mk_unrank H) st))
  | None => None end.
Definition check2 (x : GS.case) : bool :=
  let '(R, H, c, ro, fixed, e) := x in
  if ro then match gs2 R H c with Some o => GS.peqb (GS.psort o) (GS.psort e) | None => false end else true.
Fixpoint mism2 (i : nat) (cs : list GS.case) : list nat :=
  match cs with [] => [] | x :: r => if check2 x then mism2 (S i) r else i :: mism2 (S i) r end.
