From Coq Require Import Arith ZArith List Bool Lia Permutation.
Import ListNotations.
Require Import Argsort DA GS2 GS3 HRefine GSInst.

(* hospital-oriented accessors from profiles, and the profile-level stability statement *)
Section HInstS.
Variables (R H : list (list okey)).           (* R : n x m, H : m x n, 0-based ranks, None = NaN *)
Let n := length R.
Let m := length H.
Definition hrow (h : nat) : list okey := nth h H [].
Definition rrow (r : nat) : list okey := nth r R [].
Definition kH (h : nat) : nat := length (filter (fun k => match k with Some _ => true | None => false end) (hrow h)).
Definition j_prefH (h k : nat) : option nat :=
  match nth_error (argsort (hrow h)) k with
  | Some r => match nth r (hrow h) None with Some _ => Some r | None => None end
  | None => None end.
Definition j_rkR (r h : nat) : option nat := nth h (rrow r) None.
Definition j_pl (h : nat) : list nat := firstn (kH h) (argsort (hrow h)).

Hypothesis HH_dense : forall h, dense (hrow h) (kH h).
Hypothesis HH_len : forall h, h < m -> length (hrow h) = n.
Hypothesis HR_dense : forall r, exists k, dense (rrow r) k.

Lemma hrow_out h : m <= h -> hrow h = [].
Proof. intros Hh. unfold hrow. apply nth_overflow. exact Hh. Qed.

Lemma jinst_pl_spec h k : j_prefH h k = nth_error (j_pl h) k.
Proof.
  unfold j_prefH, j_pl. destruct (argsort_dense (hrow h) (kH h) (HH_dense h)) as [Hlow Hhigh].
  destruct (Nat.lt_ge_cases k (kH h)) as [Hk|Hk].
  - destruct (Hlow k Hk) as [j [Hn Hj]]. rewrite Hn. rewrite (nth_error_nth (hrow h) j None Hj).
    symmetry. rewrite nth_error_firstn' by exact Hk. exact Hn.
  - assert (E : nth_error (firstn (kH h) (argsort (hrow h))) k = None) by (apply nth_error_None; rewrite firstn_length; lia).
    rewrite E. destruct (nth_error (argsort (hrow h)) k) as [j|] eqn:En; [|reflexivity].
    pose proof (Hhigh k j Hk En) as Hj. rewrite (nth_error_nth (hrow h) j None Hj). reflexivity.
Qed.
Lemma jinst_pl_nodup h : NoDup (j_pl h).
Proof. unfold j_pl. apply nodup_firstn, argsort_nodup. Qed.
Lemma jinst_pl_lt h r : In r (j_pl h) -> r < n.
Proof.
  unfold j_pl. intros Hin. apply in_firstn_in in Hin. pose proof (argsort_lt _ _ Hin) as Hl.
  destruct (Nat.lt_ge_cases h m) as [Hh|Hh]; [rewrite (HH_len h Hh) in Hl; exact Hl|].
  rewrite (hrow_out h Hh) in Hl. simpl in Hl. lia.
Qed.
Lemma jinst_pl_out h : m <= h -> j_pl h = [].
Proof.
  intros Hh. unfold j_pl. rewrite (hrow_out h Hh). assert (E : argsort [] = []) by reflexivity. rewrite E. destruct (kH h); reflexivity.
Qed.
Lemma jinst_rk_inj r h h' k : j_rkR r h = Some k -> j_rkR r h' = Some k -> h = h'.
Proof.
  unfold j_rkR. intros H1 H2. destruct (HR_dense r) as [kk [_ [_ Huniq]]].
  assert (G : forall x, nth x (rrow r) None = Some k -> nth_error (rrow r) x = Some (Some k)).
  { intros x Hx. destruct (nth_error (rrow r) x) as [y|] eqn:E.
    - pose proof (nth_error_nth (rrow r) x None E) as Hy. rewrite Hy in Hx. rewrite Hx. reflexivity.
    - apply nth_error_None in E. rewrite (nth_overflow (rrow r) None E) in Hx. discriminate. }
  exact (Huniq _ _ _ (G h H1) (G h' H2)).
Qed.

Theorem C01_hosp_stable cap fuel st' :
  hosp_loop m j_prefH j_rkR cap fuel hosp_init = Some st' ->
  exists s, HInv n j_pl st' s /\ HGood n j_rkR cap j_pl s /\
            terminal j_pl cap (seq 0 n) s /\
            (forall p r, ~ blocking j_pl j_rkR cap (fun _ => 1) (seq 0 n) s p r).
Proof.
  apply (gs_hosp_correct n m j_prefH j_rkR cap j_pl jinst_pl_spec jinst_pl_nodup jinst_pl_lt jinst_pl_out jinst_rk_inj).
Qed.
End HInstS.
Print Assumptions C01_hosp_stable.
