(* If the bipartite graph satisfies Hall's condition for the left side, the matching read off the maximum flow
   saturates the left side (via the proved max-flow = min-cut: every s-t cut of the unit network has capacity
   >= |X| - |A| + |N(A) u B| >= |X|). Used for C06: every permutation found by Birkhoff-von Neumann is perfect. *)
From Coq Require Import ZArith List Bool Lia.
Import ListNotations.
From SCK Require Import FlowModel FlowProof FlowInit FlowFinal BipModel BipProof BipFinal.
Local Open Scope Z_scope.

Lemma sumZ_const1 l : sumZ (fun _ => 1) l = Z.of_nat (length l).
Proof. induction l as [|a t IH]; [reflexivity|]. cbn [sumZ fold_right length]. rewrite Nat2Z.inj_succ. unfold sumZ in IH. lia. Qed.
Lemma sumZ_nonneg' f l : (forall x, In x l -> 0 <= f x) -> 0 <= sumZ f l.
Proof. induction l as [|a t IH]; simpl; intros H; [lia|]. pose proof (H a (or_introl eq_refl)). assert (0 <= sumZ f t) by (apply IH; intros; apply H; now right). lia. Qed.
Lemma filter_partition_length {A} (p : A -> bool) l : length l = (length (filter p l) + length (filter (fun x => negb (p x)) l))%nat.
Proof. induction l as [|x t IH]; simpl; [reflexivity|]. destruct (p x); simpl; lia. Qed.
Lemma sumZ_filter_ind (p : Z -> bool) l : sumZ (fun z => if p z then 1 else 0) l = Z.of_nat (length (filter p l)).
Proof. induction l as [|a t IH]; [reflexivity|]. cbn [sumZ fold_right filter]. unfold sumZ in IH. destruct (p a); cbn [length]; rewrite ?Nat2Z.inj_succ; lia. Qed.

Section Hall.
Variables (G : bgraph) (X Y : list Z).
Hypothesis HX : NoDup X.
Hypothesis HY : NoDup Y.
Hypothesis Hdisj : forall x, In x X -> ~ In x Y.
Hypothesis Hs1 : ~ In (-1) X /\ ~ In (-1) Y.
Hypothesis Hs2 : ~ In (-2) X /\ ~ In (-2) Y.
Hypothesis Hadj : forall x, In x X -> NoDup (adj G x) /\ incl (adj G x) Y.
(* Hall's condition for the left side *)
Hypothesis Hhall : forall A C, NoDup A -> incl A X -> NoDup C -> incl C Y ->
  (forall x y, In x A -> In y (adj G x) -> In y C) -> (length A <= length C)%nat.
Let N := net G X Y.

Section Cut.
Variable inR : Z -> bool.
Hypothesis Hin_s : inR (-1) = true.
Hypothesis Hin_t : inR (-2) = false.
Let A := filter inR X.
Let XA := filter (fun x => negb (inR x)) X.
Let B := filter inR Y.
Let YB := filter (fun x => negb (inR x)) Y.
Let adjb (x z : Z) : bool := memZ z (adj G x).
Let NB := filter (fun z => existsb (fun x => adjb x z) A) YB.

Lemma ins_eq : filter inR (keys N) = A ++ [-1] ++ B.
Proof. unfold N. rewrite keys_N, !filter_app. cbn [filter]. rewrite Hin_s, Hin_t. reflexivity. Qed.
Lemma outs_eq : filter (fun x => negb (inR x)) (keys N) = XA ++ [-2] ++ YB.
Proof. unfold N. rewrite keys_N, !filter_app. cbn [filter]. rewrite Hin_s, Hin_t. reflexivity. Qed.

Lemma cf_ind x z : In x X -> cf N x z = if adjb x z then 1 else 0.
Proof.
  intros Hx. unfold N. rewrite (cf_X G X Y x z Hx). unfold adjb.
  destruct (in_dec Z.eq_dec z (adj G x)) as [H|H]; destruct (memZ z (adj G x)) eqn:E; try reflexivity.
  - exfalso. apply (proj2 (memZ_In z (adj G x))) in H. congruence.
  - exfalso. apply H. apply memZ_In. exact E.
Qed.

Lemma cut_ge : Z.of_nat (length XA) + Z.of_nat (length NB) + Z.of_nat (length B) <= cutcap (cf N) (keys N) inR.
Proof.
  unfold cutcap. rewrite ins_eq, outs_eq. rewrite !sumZ_app. cbn [sumZ fold_right].
  set (T := fun u => sumZ (cf N u) XA + (sumZ (cf N u) [-2] + sumZ (cf N u) YB)).
  assert (ET : forall l, sumZ (fun u => sumZ (cf N u) (XA ++ [-2] ++ YB)) l = sumZ T l).
  { intros l. apply sumZ_ext. intros u _. unfold T. rewrite !sumZ_app. reflexivity. }
  rewrite !ET.
  (* source term *)
  assert (Ts : Z.of_nat (length XA) <= T (-1)).
  { unfold T. assert (E1 : sumZ (cf N (-1)) XA = Z.of_nat (length XA)).
    { rewrite <- sumZ_const1. apply sumZ_ext. intros z Hz. unfold XA in Hz. apply filter_In in Hz as [Hz _]. unfold N. rewrite (cf_s G X Y Hs1 z).
      destruct (in_dec Z.eq_dec z X); [reflexivity|contradiction]. }
    rewrite E1. assert (0 <= sumZ (cf N (-1)) [-2] + sumZ (cf N (-1)) YB).
    { assert (H0 : forall l, 0 <= sumZ (cf N (-1)) l) by (intros l; apply sumZ_nonneg'; intros z _; unfold N; rewrite (cf_s G X Y Hs1 z); destruct (in_dec Z.eq_dec z X); lia).
      pose proof (H0 [-2]). pose proof (H0 YB). lia. }
    lia. }
  (* left vertices inside the cut *)
  assert (TA : Z.of_nat (length NB) <= sumZ T A).
  { assert (L1 : sumZ (fun x => sumZ (fun z => if adjb x z then 1 else 0) YB) A <= sumZ T A).
    { apply sumZ_le. intros x Hx. unfold A in Hx. apply filter_In in Hx as [Hx _]. unfold T.
      assert (E : sumZ (cf N x) YB = sumZ (fun z => if adjb x z then 1 else 0) YB) by (apply sumZ_ext; intros z _; apply cf_ind; exact Hx). rewrite E.
      assert (H0 : forall l, 0 <= sumZ (cf N x) l) by (intros l; apply sumZ_nonneg'; intros z _; rewrite (cf_ind x z Hx); destruct (adjb x z); lia).
      pose proof (H0 XA). pose proof (H0 [-2]). lia. }
    rewrite sumZ_swap in L1.
    assert (L2 : Z.of_nat (length NB) <= sumZ (fun v => sumZ (fun u => if adjb u v then 1 else 0) A) YB).
    { unfold NB. rewrite <- sumZ_filter_ind. apply sumZ_le. intros z _.
      destruct (existsb (fun x => adjb x z) A) eqn:E.
      - apply existsb_exists in E as [x [Hx Hb]]. clear -Hx Hb. induction A as [|a t IH]; [destruct Hx|].
        assert (H0 : 0 <= sumZ (fun u => if adjb u z then 1 else 0) t) by (apply sumZ_nonneg'; intros u _; destruct (adjb u z); lia).
        unfold sumZ in *. cbn [fold_right].
        destruct Hx as [->|Hx]; [rewrite Hb; lia|]. specialize (IH Hx). destruct (adjb a z); lia.
      - apply sumZ_nonneg'. intros u _. destruct (adjb u z); lia. }
    lia. }
  (* right vertices inside the cut *)
  assert (TB : Z.of_nat (length B) <= sumZ T B).
  { rewrite <- sumZ_const1. apply sumZ_le. intros y Hy. unfold B in Hy. apply filter_In in Hy as [Hy _]. unfold T.
    assert (H0 : forall l, 0 <= sumZ (cf N y) l) by (intros l; apply sumZ_nonneg'; intros z _; unfold N; rewrite (cf_Y G X Y Hdisj Hs1 Hs2 y z Hy); destruct (z =? -2); lia).
    assert (E : sumZ (cf N y) [-2] = 1) by (cbn [sumZ fold_right]; unfold N; rewrite (cf_Y G X Y Hdisj Hs1 Hs2 y (-2) Hy); reflexivity).
    pose proof (H0 XA). pose proof (H0 YB). lia. }
  assert (Es : sumZ (cf N (-1)) (XA ++ [-2] ++ YB) = T (-1)) by (unfold T; rewrite !sumZ_app; reflexivity).
  lia.
Qed.

Lemma cut_ge_X : Z.of_nat (length X) <= cutcap (cf N) (keys N) inR.
Proof.
  pose proof cut_ge as H.
  assert (HA : (length A <= length (B ++ NB))%nat).
  { apply Hhall.
    - apply NoDup_filter. exact HX.
    - intros x Hx. apply filter_In in Hx. tauto.
    - apply nodup_app; [apply NoDup_filter; exact HY|apply NoDup_filter, NoDup_filter; exact HY|].
      intros y Hy1 Hy2. apply filter_In in Hy1 as [_ H1]. apply filter_In in Hy2 as [Hy2 _]. apply filter_In in Hy2 as [_ H2]. rewrite H1 in H2. discriminate.
    - intros y Hy. apply in_app_or in Hy as [Hy|Hy]; [apply filter_In in Hy; tauto|apply filter_In in Hy as [Hy _]; apply filter_In in Hy; tauto].
    - intros x y Hx Hy. pose proof Hx as Hx'. apply filter_In in Hx' as [HxX _]. destruct (Hadj x HxX) as [_ Hinc].
      apply in_or_app. destruct (inR y) eqn:E; [left; apply filter_In; split; [apply Hinc; exact Hy|exact E]|right].
      apply filter_In. split; [apply filter_In; split; [apply Hinc; exact Hy|rewrite E; reflexivity]|].
      apply existsb_exists. exists x. split; [exact Hx|]. unfold adjb. apply memZ_In. exact Hy. }
  rewrite app_length in HA. pose proof (filter_partition_length inR X) as HP. fold A XA in HP. lia.
Qed.
End Cut.

(* the matching found saturates X *)
Theorem hall_saturates fuel M : max_matching fuel G X Y = Some M -> length M = length X.
Proof.
  intros Hm. unfold max_matching in Hm. fold N in Hm.
  pose proof (N_wf G X Y HX HY Hdisj Hs1 Hs2 Hadj) as Hwf. fold N in Hwf.
  destruct (ff_loop fuel (init N) (-1) (-2)) as [[Gf fl]|] eqn:El; [|discriminate]. injection Hm as <-.
  pose proof (init_FInv N (-1) (-2) Hwf) as F0. destruct (init N) as [Gf0 fl0] eqn:Ei. cbn [fst snd] in F0.
  pose proof Hwf as [HKn _].
  destruct (ff_loop_inv N (-1) (-2) HKn ltac:(lia) fuel Gf0 fl0 Gf fl F0 El) as [F [_ [vis' Hdfs]]].
  assert (Hs : In (-1) (keys N)) by (unfold N; rewrite (in_keys_N G X Y); tauto).
  destruct (final_dfs_cut N (-1) (-2) Gf fl vis' _ HKn Hs F Hdfs) as [R1 [R2 [Hval _]]].
  pose proof (f_p _ _ _ _ _ F) as PI.
  set (phi := fun a b => fget fl (a, b)).
  assert (Pskew : forall a b, phi a b = - phi b a) by (intros; apply (p_skew _ _ _ PI)).
  assert (Pcap : forall a b, phi a b <= cf N a b) by (intros a b; unfold phi; pose proof (p_cf _ _ _ PI a b); pose proof (p_nn _ _ _ PI a b); lia).
  assert (Pcons : forall a, In a (keys N) -> a <> -1 -> a <> -2 -> sumZ (phi a) (keys N) = 0) by (intros a Hk A1 A2; apply (f_cons _ _ _ _ _ F a Hk A1 A2)).
  change (read_off G X fl) with (readP G X phi).
  pose proof (cut_ge_X (fun x => memZ x (-1 :: vis')) R1 R2) as Hge.
  assert (Hv1 : value N fl (-1) = sumZ (phi (-1)) X).
  { unfold value, excess. change (sumZ (fun y => fget fl (-1, y)) (keys N)) with (sumZ (phi (-1)) (keys N)). apply (value_is_sX G X Y Hdisj Hs1 Hs2 phi Pskew Pcap). }
  pose proof (readP_len G X Y HY Hdisj Hs1 Hs2 Hadj phi Pskew Pcap Pcons) as Hlen.
  assert (Hle : (length (readP G X phi) <= length X)%nat).
  { pose proof (readP_fst_nodup G X Y HX HY Hdisj Hs1 Hs2 Hadj phi Pskew Pcap Pcons) as Hnd.
    rewrite <- (map_length fst). apply NoDup_incl_length; [exact Hnd|].
    intros x Hx. apply in_map_iff in Hx as [p [<- Hp]]. apply (readP_in G X Y HY Hdisj Hs1 Hs2 Hadj phi Pskew Pcap Pcons p Hp). }
  lia.
Qed.
End Hall.
