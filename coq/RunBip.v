(* Correspondence checker for maximum_cardinality_matching_bipartite (C09). *)
From Coq Require Import ZArith List Bool.
Import ListNotations.
From SCK Require Import FlowModel BipModel BipWf.
Local Open Scope Z_scope.

Definition bip_case : Type := (bgraph * list Z * list Z * nat * list (Z * Z))%type.
Definition pairs_eqb (a b : list (Z * Z)) : bool :=
  (length a =? length b)%nat && forallb (fun p => pair_eqb (fst p) (snd p)) (combine a b).
Definition chk_bip (c : bip_case) : bool :=
  let '(G, X, Y, fuel, e) := c in
  wfbb G X Y && match max_matching fuel G X Y with Some m => pairs_eqb m e | None => false end.
