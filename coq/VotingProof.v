From Coq Require Import ZArith QArith List Bool Lia.
Import ListNotations.
Require Import Voting.
Local Open Scope Z_scope.

Lemma fold_add_acc l a : fold_left Z.add l a = a + fold_left Z.add l 0.
Proof. revert a; induction l as [|x t IH]; intros a; simpl; [lia|]. rewrite IH, (IH x). lia. Qed.
Lemma sumZl_cons x t : sumZl (x :: t) = x + sumZl t.
Proof. unfold sumZl. simpl. rewrite fold_add_acc. lia. Qed.
Lemma sumZl_nil : sumZl [] = 0. Proof. reflexivity. Qed.

(* number of voters ranking a above b *)
Definition prefers (P : list (list Z)) (a b : nat) : Z :=
  sumZl (map (fun row => if nth a row 0 <? nth b row 0 then 1 else 0) P).
Definition net (P : list (list Z)) (i j : nat) : Z := sumZl (map (fun row => sgn (nth j row 0 - nth i row 0)) P).
Lemma sgn_diff a b : sgn (b - a) = (if a <? b then 1 else 0) - (if b <? a then 1 else 0).
Proof.
  unfold sgn. destruct (Z.gtb_spec (b - a) 0); destruct (Z.ltb_spec (b - a) 0); destruct (Z.ltb_spec a b); destruct (Z.ltb_spec b a); lia.
Qed.
Lemma net_prefers P i j : net P i j = prefers P i j - prefers P j i.
Proof.
  unfold net, prefers. induction P as [|row t IH]; [reflexivity|]. simpl map. rewrite !sumZl_cons, IH, sgn_diff. lia.
Qed.
Definition beats (P : list (list Z)) (a b : nat) : bool := prefers P b a <? prefers P a b.
Definition countb (f : nat -> bool) (l : list nat) : Z := sumZl (map (fun j => if f j then 1 else 0) l).

(* C12: Copeland's score is (number beaten) - (number beating) under strict pairwise majority *)
Theorem copeland_spec P i : let m := length (nth 0 P []) in (i < m)%nat ->
  nth i (copeland P) 0 = countb (beats P i) (seq 0 m) - countb (fun j => beats P j i) (seq 0 m).
Proof.
  intros m Hi. unfold copeland. fold m.
  rewrite (nth_indep _ 0 (sumZl (map (fun j => sgn (sumZl (map (fun row => sgn (nth j row 0 - nth 0%nat row 0)) P))) (seq 0 m)))) by (rewrite map_length, seq_length; exact Hi).
  rewrite (map_nth (fun i0 => sumZl (map (fun j => sgn (sumZl (map (fun row => sgn (nth j row 0 - nth i0 row 0)) P))) (seq 0 m))) (seq 0 m) 0%nat i).
  rewrite seq_nth by exact Hi. simpl (0 + i)%nat.
  unfold countb. generalize (seq 0 m) as js. induction js as [|j t IH]; [reflexivity|].
  simpl map. rewrite !sumZl_cons, IH.
  change (sumZl (map (fun row => sgn (nth j row 0 - nth i row 0)) P)) with (net P i j). rewrite net_prefers.
  replace (prefers P i j - prefers P j i) with (prefers P i j - prefers P j i - 0) by lia.
  unfold beats. pose proof (sgn_diff (prefers P j i) (prefers P i j)) as Hs.
  replace (prefers P i j - prefers P j i - 0) with (prefers P i j - prefers P j i) by lia. rewrite Hs. lia.
Qed.
Print Assumptions copeland_spec.
