(* C12: the coded STV loop (delete the chosen column, decrement the ranks above it) is STV on the original ballots
   restricted to the remaining alternatives: the plurality count of an alternative is the number of voters whose best
   REMAINING alternative it is, for every sequence of tie-break answers. *)
From Coq Require Import Arith ZArith List Bool Lia Permutation.
Import ListNotations.
From SCK Require Import Voting VotingProof STVProof.
Local Open Scope Z_scope.

Definition val (row0 : list Z) (rem : list nat) (a : nat) : Z := nth (nth a rem 0%nat) row0 0.
Definition smaller (row0 : list Z) (rem : list nat) (a : nat) : list nat :=
  filter (fun b => val row0 rem b <? val row0 rem a) (seq 0 (length rem)).
(* rank of the alternative at position a of rem among the remaining ones *)
Definition rr (row0 : list Z) (rem : list nat) (a : nat) : Z := 1 + Z.of_nat (length (smaller row0 rem a)).
Definition restrict (P0 : list (list Z)) (rem : list nat) : list (list Z) :=
  map (fun row0 => map (rr row0 rem) (seq 0 (length rem))) P0.
Definition distinct_on (row0 : list Z) (rem : list nat) : Prop :=
  forall a b, (a < length rem)%nat -> (b < length rem)%nat -> a <> b -> val row0 rem a <> val row0 rem b.

(* ---------- counting ---------- *)
Lemma filter_len_impl {A} (p q : A -> bool) l : (forall x, In x l -> p x = true -> q x = true) -> (length (filter p l) <= length (filter q l))%nat.
Proof.
  induction l as [|x t IH]; intros H; simpl; [lia|]. assert (length (filter p t) <= length (filter q t))%nat by (apply IH; intros; apply H; [now right|assumption]).
  destruct (p x) eqn:E; [rewrite (H x (or_introl eq_refl) E); simpl; lia|destruct (q x); simpl; lia].
Qed.
Lemma filter_len_strict {A} (p q : A -> bool) l x0 : (forall x, In x l -> p x = true -> q x = true) -> In x0 l -> p x0 = false -> q x0 = true ->
  (length (filter p l) < length (filter q l))%nat.
Proof.
  induction l as [|x t IH]; intros H Hin H1 H2; [destruct Hin|]. simpl.
  assert (Hle : (length (filter p t) <= length (filter q t))%nat) by (apply filter_len_impl; intros; apply H; [now right|assumption]).
  destruct Hin as [->|Hin].
  - rewrite H1, H2. simpl. lia.
  - assert (length (filter p t) < length (filter q t))%nat by (apply IH; try assumption; intros; apply H; [now right|assumption]).
    destruct (p x) eqn:E; [rewrite (H x (or_introl eq_refl) E); simpl; lia|destruct (q x); simpl; lia].
Qed.

Section Row.
Variables (row0 : list Z) (rem : list nat).
Hypothesis Hd : distinct_on row0 rem.
Notation v := (val row0 rem).
Let k := length rem.

Lemma rr_lt a b : (a < k)%nat -> (b < k)%nat -> v a < v b -> rr row0 rem a < rr row0 rem b.
Proof.
  intros Ha Hb Hlt. unfold rr, smaller. fold k.
  assert ((length (filter (fun c => Z.ltb (v c) (v a)) (seq 0 k)) < length (filter (fun c => Z.ltb (v c) (v b)) (seq 0 k)))%nat); [|lia].
  apply (filter_len_strict _ _ _ a).
  - intros c _ Hc. apply Z.ltb_lt in Hc. apply Z.ltb_lt. lia.
  - apply in_seq. lia.
  - apply Z.ltb_irrefl.
  - apply Z.ltb_lt. exact Hlt.
Qed.
Lemma rr_gtb a d : (a < k)%nat -> (d < k)%nat -> a <> d -> (rr row0 rem a >? rr row0 rem d) = (v d <? v a).
Proof.
  intros Ha Hdk Hne. pose proof (Hd a d Ha Hdk Hne) as Hv.
  destruct (Z.ltb_spec (v d) (v a)) as [L|L].
  - pose proof (rr_lt d a Hdk Ha L). apply Z.gtb_lt. lia.
  - assert (v a < v d) by lia. pose proof (rr_lt a d Ha Hdk H). destruct (Z.gtb_spec (rr row0 rem a) (rr row0 rem d)); [lia|reflexivity].
Qed.
(* first place among the remaining ones <=> strictly better than every other remaining alternative *)
Lemma rr_one a : (a < k)%nat -> (rr row0 rem a =? 1) = forallb (fun b => (b =? a)%nat || (v a <? v b)) (seq 0 k).
Proof.
  intros Ha. unfold rr, smaller. fold k.
  destruct (forallb (fun b => (b =? a)%nat || (v a <? v b)) (seq 0 k)) eqn:E.
  - rewrite forallb_forall in E. assert (filter (fun c => v c <? v a) (seq 0 k) = []).
    { destruct (filter _ _) as [|c t] eqn:F; [reflexivity|]. assert (Hc : In c (filter (fun c => v c <? v a) (seq 0 k))) by (rewrite F; now left).
      apply filter_In in Hc as [Hc1 Hc2]. specialize (E c Hc1). apply Z.ltb_lt in Hc2. apply orb_true_iff in E as [E|E]; [apply Nat.eqb_eq in E; subst; lia|apply Z.ltb_lt in E; lia]. }
    rewrite H. reflexivity.
  - apply Z.eqb_neq. assert (exists b, In b (seq 0 k) /\ b <> a /\ ~ (v a < v b)).
    { clear -E. induction (seq 0 k) as [|x t IH]; [discriminate|]. simpl in E. destruct ((x =? a)%nat || (v a <? v x)) eqn:F.
      - destruct (IH E) as [b [H1 H2]]. exists b. split; [now right|exact H2].
      - apply orb_false_iff in F as [F1 F2]. exists x. split; [now left|]. split; [apply Nat.eqb_neq; exact F1|apply Z.ltb_ge in F2; lia]. }
    destruct H as [b [Hb [Hne Hnl]]]. apply in_seq in Hb. pose proof (Hd a b Ha ltac:(lia) ltac:(congruence)).
    assert (In b (filter (fun c => v c <? v a) (seq 0 k))) by (apply filter_In; split; [apply in_seq; lia|apply Z.ltb_lt; lia]).
    destruct (filter (fun c => v c <? v a) (seq 0 k)); [destruct H0|]. cbn [length]. rewrite Nat2Z.inj_succ. lia.
Qed.
End Row.

(* ---------- deleting position d ---------- *)
Definition shift (d a : nat) : nat := if (a <? d)%nat then a else S a.
Lemma val_remove row0 rem d a : val row0 (remove_nth rem d) a = val row0 rem (shift d a).
Proof. unfold val, shift. rewrite remove_nth_nth. reflexivity. Qed.
Lemma seq_split_at k d : (d < k)%nat -> seq 0 k = seq 0 d ++ [d] ++ seq (S d) (k - S d).
Proof. intros H. replace k with (d + (1 + (k - S d)))%nat at 1 by lia. rewrite seq_app, seq_app. cbn [plus seq]. replace (d + 1)%nat with (S d) by lia. reflexivity. Qed.
Lemma map_shift_seq k d : (d < k)%nat -> map (shift d) (seq 0 (pred k)) = seq 0 d ++ seq (S d) (k - S d).
Proof.
  intros H. replace (pred k) with (d + (k - S d))%nat by lia. rewrite seq_app, map_app. f_equal.
  - rewrite <- (map_id (seq 0 d)) at 2. apply map_ext_in. intros a Ha. apply in_seq in Ha. unfold shift.
    destruct (Nat.ltb_spec a d); lia.
  - cbn [plus]. rewrite <- seq_shift. apply map_ext_in. intros a Ha. apply in_seq in Ha. unfold shift. destruct (Nat.ltb_spec a d); lia.
Qed.

Lemma smaller_remove row0 rem d a' : (d < length rem)%nat -> (a' < pred (length rem))%nat ->
  length (smaller row0 (remove_nth rem d) a') =
  (length (smaller row0 rem (shift d a')) - (if Z.ltb (val row0 rem d) (val row0 rem (shift d a')) then 1 else 0))%nat.
Proof.
  intros Hdk Ha. unfold smaller. rewrite remove_nth_length by exact Hdk. set (k := length rem) in *.
  set (p := fun b => val row0 rem b <? val row0 rem (shift d a')).
  assert (E1 : filter (fun b => val row0 (remove_nth rem d) b <? val row0 (remove_nth rem d) a') (seq 0 (pred k)) =
               filter (fun b => p (shift d b)) (seq 0 (pred k))).
  { apply filter_ext. intros b. unfold p. rewrite !val_remove. reflexivity. }
  rewrite E1.
  assert (E2 : length (filter (fun b => p (shift d b)) (seq 0 (pred k))) = length (filter p (map (shift d) (seq 0 (pred k))))).
  { generalize (seq 0 (pred k)). induction l as [|x t IH]; simpl; [reflexivity|]. destruct (p (shift d x)); simpl; rewrite IH; reflexivity. }
  rewrite E2, (map_shift_seq k d Hdk), (seq_split_at k d Hdk), !filter_app, !app_length. cbn [filter]. fold (p d). destruct (p d); cbn [length]; lia.
Qed.

Lemma drop_row_restrict row0 rem d : distinct_on row0 rem -> (d < length rem)%nat ->
  drop_row (map (rr row0 rem) (seq 0 (length rem))) d = map (rr row0 (remove_nth rem d)) (seq 0 (length (remove_nth rem d))).
Proof.
  intros Hdist Hdk. set (k := length rem) in *. rewrite remove_nth_length by exact Hdk. fold k.
  apply nth_ext with (d := 0) (d' := 0).
  - rewrite drop_row_length by (rewrite map_length, seq_length; exact Hdk). rewrite !map_length, !seq_length. reflexivity.
  - intros a' Ha'. rewrite drop_row_length in Ha' by (rewrite map_length, seq_length; exact Hdk). rewrite map_length, seq_length in Ha'.
    unfold drop_row.
    assert (Hrow_d : nth d (map (rr row0 rem) (seq 0 k)) 0 = rr row0 rem d).
    { rewrite (nth_indep _ 0 (rr row0 rem 0%nat)) by (rewrite map_length, seq_length; exact Hdk). rewrite map_nth, seq_nth by exact Hdk. reflexivity. }
    rewrite Hrow_d.
    rewrite (nth_indep _ 0 (renum (rr row0 rem d) 0)) by (rewrite map_length, remove_nth_length by (rewrite map_length, seq_length; exact Hdk); rewrite map_length, seq_length; exact Ha').
    rewrite map_nth, remove_nth_nth. fold (shift d a').
    assert (Hs : (shift d a' < k)%nat) by (unfold shift; destruct (Nat.ltb_spec a' d); lia).
    assert (Hsne : shift d a' <> d) by (unfold shift; destruct (Nat.ltb_spec a' d); lia).
    rewrite (nth_indep _ 0 (rr row0 rem 0%nat)) by (rewrite map_length, seq_length; exact Hs). rewrite map_nth, seq_nth by exact Hs. cbn [plus].
    rewrite (nth_indep _ 0 (rr row0 (remove_nth rem d) 0%nat)) by (rewrite map_length, seq_length; exact Ha'). rewrite map_nth, seq_nth by exact Ha'. cbn [plus].
    unfold renum. rewrite (rr_gtb row0 rem Hdist (shift d a') d Hs Hdk Hsne).
    unfold rr. rewrite (smaller_remove row0 rem d a' Hdk Ha'). fold k.
    destruct (val row0 rem d <? val row0 rem (shift d a')) eqn:E; [|lia].
    assert (In d (smaller row0 rem (shift d a'))) by (unfold smaller; apply filter_In; split; [apply in_seq; lia|exact E]).
    destruct (smaller row0 rem (shift d a')); [destruct H|]. cbn [length]. lia.
Qed.

Lemma distinct_remove row0 rem d : distinct_on row0 rem -> (d < length rem)%nat -> distinct_on row0 (remove_nth rem d).
Proof.
  intros H Hd a b Ha Hb Hne. rewrite remove_nth_length in Ha, Hb by exact Hd. rewrite !val_remove.
  apply H; unfold shift; destruct (Nat.ltb_spec a d); destruct (Nat.ltb_spec b d); lia.
Qed.

Theorem drop_restrict P0 rem d : (forall row0, In row0 P0 -> distinct_on row0 rem) -> (d < length rem)%nat ->
  drop_alt (restrict P0 rem) d = restrict P0 (remove_nth rem d).
Proof.
  intros H Hd. rewrite drop_alt_rows. unfold restrict. rewrite map_map. apply map_ext_in. intros row0 Hr.
  apply drop_row_restrict; [apply H; exact Hr|exact Hd].
Qed.

(* ---------- STV on restricted ballots ---------- *)
(* number of voters whose best remaining alternative is the one at position a of rem *)
Definition first_count (P0 : list (list Z)) (rem : list nat) (a : nat) : Z :=
  sumZl (map (fun row0 => if forallb (fun b => (b =? a)%nat || (val row0 rem a <? val row0 rem b)) (seq 0 (length rem)) then 1 else 0) P0).
Fixpoint stv_spec (fuel : nat) (P0 : list (list Z)) (rem : list nat) (alts : list Z) (oracle : list nat) : option Z :=
  match fuel with O => None | S f =>
    match alts with
    | [a] => Some a
    | _ =>
      let sc := map (first_count P0 rem) (seq 0 (length alts)) in
      let mn := match sc with x :: t => minZ t x | [] => 0 end in
      let cands := map snd (filter (fun p => fst p =? mn) (combine sc (seq 0 (length sc)))) in
      match oracle with
      | [] => None
      | o :: os => match nth_error cands o with
                   | Some d => stv_spec f P0 (remove_nth rem d) (remove_nth alts d) os
                   | None => None end
      end
    end
  end.

Lemma counts_restrict P0 rem : (forall row0, In row0 P0 -> distinct_on row0 rem) ->
  plurality_counts (restrict P0 rem) (length rem) = map (first_count P0 rem) (seq 0 (length rem)).
Proof.
  intros Hd. unfold plurality_counts, first_count, restrict. apply map_ext_in. intros a Ha. apply in_seq in Ha. rewrite map_map. f_equal.
  apply map_ext_in. intros row0 Hr.
  rewrite (nth_indep _ 0 (rr row0 rem 0%nat)) by (rewrite map_length, seq_length; lia). rewrite map_nth, seq_nth by lia. cbn [plus].
  rewrite (rr_one row0 rem (Hd row0 Hr) a ltac:(lia)). reflexivity.
Qed.

Theorem stv_refines fuel : forall P0 rem alts oracle, length alts = length rem ->
  (forall row0, In row0 P0 -> distinct_on row0 rem) ->
  stv_loop fuel (restrict P0 rem) alts oracle = stv_spec fuel P0 rem alts oracle.
Proof.
  induction fuel as [|f IH]; intros P0 rem alts oracle Hlen Hd; [reflexivity|]. cbn [stv_loop stv_spec].
  destruct alts as [|a0 [|a1 r]] eqn:Ea; [| reflexivity |].
  - rewrite <- Ea in *. rewrite Hlen, (counts_restrict P0 rem Hd). rewrite <- Hlen.
    destruct oracle as [|o os]; [reflexivity|]. subst alts. cbn. destruct o; reflexivity.
  - rewrite <- Ea in *. rewrite Hlen, (counts_restrict P0 rem Hd). rewrite <- Hlen.
    destruct oracle as [|o os]; [reflexivity|].
    set (sc := map (first_count P0 rem) (seq 0 (length alts))).
    destruct (nth_error (map snd (filter (fun p => fst p =? match sc with x :: t => minZ t x | [] => 0 end) (combine sc (seq 0 (length sc))))) o) as [d|] eqn:En; [|reflexivity].
    assert (Hdk : (d < length rem)%nat).
    { apply nth_error_In in En. apply in_map_iff in En as [[x i] [Ei Hin]]. cbn in Ei. subst i. apply filter_In in Hin as [Hc _].
      apply in_combine_r in Hc. apply in_seq in Hc. unfold sc in Hc. rewrite map_length, seq_length in Hc. lia. }
    rewrite (drop_restrict P0 rem d Hd Hdk). apply IH.
    + rewrite !remove_nth_length by lia. lia.
    + intros row0 Hr. apply distinct_remove; [apply Hd; exact Hr|exact Hdk].
Qed.

(* ---------- the initial profile is its own restriction to all alternatives ---------- *)
Lemma count_lt_perm (l : list Z) m vv : Permutation l (map Z.of_nat (seq 1 m)) -> 1 <= vv <= Z.of_nat m ->
  Z.of_nat (length (filter (fun x => x <? vv) l)) = vv - 1.
Proof.
  intros Hp Hv.
  assert (E : length (filter (fun x => x <? vv) l) = length (filter (fun x => x <? vv) (map Z.of_nat (seq 1 m)))).
  { clear Hv. induction Hp; simpl; try (destruct (x <? vv)); try (destruct (y <? vv)); simpl; try lia. }
  rewrite E. clear E Hp l.
  assert (G : forall s len, 1 <= Z.of_nat s -> Z.of_nat (length (filter (fun x => x <? vv) (map Z.of_nat (seq s len)))) = Z.max 0 (Z.min (Z.of_nat len) (vv - Z.of_nat s))).
  { intros s len. revert s. induction len as [|len IH]; intros s Hs; [simpl; lia|]. cbn [seq map filter].
    destruct (Z.ltb_spec (Z.of_nat s) vv); cbn [length]; rewrite ?Nat2Z.inj_succ, IH by lia; lia. }
  rewrite G by lia. lia.
Qed.

Theorem restrict_all row0 m : Permutation row0 (map Z.of_nat (seq 1 m)) ->
  map (rr row0 (seq 0 m)) (seq 0 (length (seq 0 m))) = row0.
Proof.
  intros Hp. assert (Hl : length row0 = m) by (rewrite (Permutation_length Hp), map_length, seq_length; reflexivity).
  rewrite seq_length. apply nth_ext with (d := 0) (d' := 0); [rewrite map_length, seq_length; lia|].
  intros a Ha. rewrite map_length, seq_length in Ha.
  rewrite (nth_indep _ 0 (rr row0 (seq 0 m) 0%nat)) by (rewrite map_length, seq_length; exact Ha). rewrite map_nth, seq_nth by exact Ha. cbn [plus].
  unfold rr, smaller. rewrite seq_length.
  assert (Hv : forall b, (b < m)%nat -> val row0 (seq 0 m) b = nth b row0 0) by (intros b Hb; unfold val; rewrite seq_nth by exact Hb; reflexivity).
  assert (E : length (filter (fun b => val row0 (seq 0 m) b <? val row0 (seq 0 m) a) (seq 0 m)) = length (filter (fun x => x <? nth a row0 0) row0)).
  { rewrite (filter_ext_in _ (fun b => nth b row0 0 <? nth a row0 0)) by (intros b Hb; apply in_seq in Hb; rewrite !Hv by lia; reflexivity).
    rewrite <- Hl. clear. generalize (nth a row0 0) as vv. intros vv.
    assert (G : forall (l : list Z) s, length (filter (fun b => nth (b - s) l 0 <? vv) (seq s (length l))) = length (filter (fun x => x <? vv) l)).
    { induction l as [|x t IH]; intros s; [reflexivity|]. cbn [length seq filter]. rewrite Nat.sub_diag. cbn [nth].
      rewrite (filter_ext_in _ (fun b => nth (b - S s) t 0 <? vv)).
      - destruct (x <? vv); cbn [length]; rewrite IH; reflexivity.
      - intros b Hb. apply in_seq in Hb. replace (b - s)%nat with (S (b - S s)) by lia. reflexivity. }
    specialize (G row0 0%nat). rewrite (filter_ext_in _ (fun b => nth b row0 0 <? vv)) in G by (intros b _; rewrite Nat.sub_0_r; reflexivity). exact G. }
  rewrite E. assert (Hin : In (nth a row0 0) row0) by (apply nth_In; lia).
  apply (Permutation_in _ Hp) in Hin. apply in_map_iff in Hin as [x [Ex Hx]]. apply in_seq in Hx.
  rewrite (count_lt_perm row0 m (nth a row0 0) Hp ltac:(lia)). lia.
Qed.

(* C12: on complete strict ballots (every row a permutation of 1..m) the coded loop IS STV on restricted ballots,
   for every sequence of tie-break answers *)
Theorem stv_is_restricted_stv fuel P0 m alts oracle :
  (forall row0, In row0 P0 -> Permutation row0 (map Z.of_nat (seq 1 m))) -> length alts = m ->
  stv_loop fuel P0 alts oracle = stv_spec fuel P0 (seq 0 m) alts oracle.
Proof.
  intros Hp Hl.
  assert (E : restrict P0 (seq 0 m) = P0).
  { unfold restrict. rewrite <- (map_id P0) at 2. apply map_ext_in. intros row0 Hr. apply restrict_all. apply Hp. exact Hr. }
  rewrite <- E at 1. apply stv_refines; [rewrite seq_length; exact Hl|].
  intros row0 Hr a b Ha Hb Hne. rewrite seq_length in Ha, Hb. unfold val. rewrite !seq_nth by assumption. cbn [plus].
  assert (Hnd : NoDup row0).
  { apply (Permutation_NoDup (Permutation_sym (Hp row0 Hr))). apply FinFun.Injective_map_NoDup; [intros x y H; lia|apply seq_NoDup]. }
  assert (Hlen : length row0 = m) by (rewrite (Permutation_length (Hp row0 Hr)), map_length, seq_length; reflexivity).
  intros Eq. apply Hne. apply (proj1 (NoDup_nth row0 0) Hnd); [lia|lia|exact Eq].
Qed.
