From Coq Require Import Arith List Bool Lia.
Import ListNotations.

(* Abstract deferred acceptance with quotas on both sides. *)
Section DA.
Variable pl : nat -> list nat.            (* proposer's preference list over receivers, best first *)
Variable rk : nat -> nat -> option nat.   (* rk r p : receiver r's rank of proposer p (smaller = better), None = unacceptable *)
Variable qP qR : nat -> nat.
Variable Rs : list nat.                   (* universe of receivers *)

Hypothesis pl_nodup : forall p, NoDup (pl p).
Hypothesis pl_univ : forall p r, In r (pl p) -> In r Rs.
Hypothesis Rs_nodup : NoDup Rs.
Hypothesis rk_inj : forall r p p' k, rk r p = Some k -> rk r p' = Some k -> p = p'.

Record state := { nxt : nat -> nat; held : nat -> list nat }.

Definition prefix (s : state) (p : nat) : list nat := firstn (nxt s p) (pl p).
Definition memb (x : nat) (l : list nat) : bool := existsb (Nat.eqb x) l.
Definition engs (s : state) (p : nat) : list nat := filter (fun r => memb p (held s r)) Rs.
Definition better (r a b : nat) : Prop :=
  match rk r a, rk r b with Some x, Some y => x < y | _, _ => False end.

Definition invF (s : state) : Prop :=
  forall r, NoDup (held s r) /\ length (held s r) <= qR r /\
            forall p, In p (held s r) -> rk r p <> None /\ In r (prefix s p).
Definition invR (s : state) : Prop :=
  forall p r, In r (prefix s p) ->
     In p (held s r) \/ rk r p = None \/
     (length (held s r) = qR r /\ forall p', In p' (held s r) -> better r p' p).

Definition terminal (s : state) : Prop :=
  forall p, qP p <= length (engs s p) \/ length (pl p) <= nxt s p.

Definition before (l : list nat) (a b : nat) : Prop :=
  exists i j, i < j /\ nth_error l i = Some a /\ nth_error l j = Some b.

Definition blocking (s : state) (p r : nat) : Prop :=
  In r (pl p) /\ rk r p <> None /\ ~ In p (held s r) /\
  (length (engs s p) < qP p \/ exists r', In p (held s r') /\ before (pl p) r r') /\
  (length (held s r) < qR r \/ exists p', In p' (held s r) /\ better r p p').

Lemma firstn_all_ge {A} (l : list A) n : length l <= n -> firstn n l = l.
Proof. intros; apply firstn_all2; lia. Qed.

Lemma in_firstn_nth {A} (l : list A) n x : In x (firstn n l) -> exists i, i < n /\ nth_error l i = Some x.
Proof.
  revert n; induction l as [|y l IH]; intros n Hin; destruct n; simpl in *; try contradiction.
  destruct Hin as [->|Hin]. - exists 0; split; [lia|reflexivity].
  - destruct (IH _ Hin) as [i [Hi Hn]]. exists (S i); split; [lia|exact Hn].
Qed.
Lemma nth_in_firstn {A} (l : list A) n i x : i < n -> nth_error l i = Some x -> In x (firstn n l).
Proof.
  revert n i; induction l as [|y l IH]; intros n i Hi Hn; destruct i; simpl in *; try discriminate.
  - destruct n; [lia|]. injection Hn as ->. now left.
  - destruct n; [lia|]. right. eapply IH; [|exact Hn]. lia.
Qed.
Lemma nodup_nth_inj {A} (l : list A) i j x : NoDup l -> nth_error l i = Some x -> nth_error l j = Some x -> i = j.
Proof.
  intros Hnd Hi Hj. rewrite NoDup_nth_error in Hnd. apply Hnd; [|congruence].
  apply nth_error_Some. congruence.
Qed.

Lemma better_asym r a b : better r a b -> better r b a -> False.
Proof. unfold better; destruct (rk r a), (rk r b); lia. Qed.

Theorem terminal_stable (s : state) :
  invF s -> invR s -> terminal s -> forall p r, ~ blocking s p r.
Proof.
  intros HF HR HT p r [Hacc [Hrk [Hnot [Hp Hr]]]].
  assert (Hpre : In r (prefix s p)).
  { destruct Hp as [Hfree | [r' [Hheld [i [j [Hij [Hi Hj]]]]]]].
    - destruct (HT p) as [Hq | Hex]; [lia|]. unfold prefix. rewrite firstn_all_ge by exact Hex. exact Hacc.
    - destruct (HF r') as [_ [_ Hm]]. destruct (Hm p Hheld) as [_ Hin'].
      unfold prefix in *. destruct (in_firstn_nth _ _ _ Hin') as [j' [Hj' Hn']].
      assert (j' = j) by (eapply nodup_nth_inj; [apply pl_nodup|exact Hn'|exact Hj]). subst j'.
      eapply nth_in_firstn; [|exact Hi]. lia. }
  destruct (HR p r Hpre) as [Hin | [Hnone | [Hfull Hall]]]; [contradiction|contradiction|].
  destruct Hr as [Hfree | [p' [Hin' Hb]]]; [lia|].
  eapply better_asym; [exact Hb | apply Hall; exact Hin'].
Qed.

(* ---- the step ---- *)
Definition rankv (r p : nat) : nat := match rk r p with Some k => k | None => 0 end.
Fixpoint worst (r : nat) (l : list nat) (w : nat) : nat :=
  match l with [] => w | x :: t => if rankv r w <? rankv r x then worst r t x else worst r t w end.
Fixpoint rem1 (x : nat) (l : list nat) : list nat :=
  match l with [] => [] | y :: t => if x =? y then t else y :: rem1 x t end.

Definition step (s : state) (p : nat) : state :=
  let r := nth (nxt s p) (pl p) 0 in
  let nxt' := fun p' => if p' =? p then S (nxt s p) else nxt s p' in
  match rk r p with
  | None => {| nxt := nxt'; held := held s |}
  | Some _ =>
    let h := p :: held s r in
    let h' := if qR r <? length h then rem1 (worst r h p) h else h in
    {| nxt := nxt'; held := fun r' => if r' =? r then h' else held s r' |}
  end.
Definition enabled (s : state) (p : nat) : Prop :=
  length (engs s p) < qP p /\ nxt s p < length (pl p).

Lemma worst_in r l w : In (worst r l w) (w :: l).
Proof.
  revert w; induction l as [|x t IH]; intros w; simpl; [now left|].
  destruct (rankv r w <? rankv r x).
  - destruct (IH x) as [H|H]; [right; left; exact H | right; right; exact H].
  - destruct (IH w) as [H|H]; [left; exact H | right; right; exact H].
Qed.
Lemma worst_ge r l w : forall x, In x (w :: l) -> rankv r x <= rankv r (worst r l w).
Proof.
  revert w; induction l as [|y t IH]; intros w x Hin; simpl in *.
  - destruct Hin as [->|[]]. lia.
  - destruct (rankv r w <? rankv r y) eqn:E.
    + apply Nat.ltb_lt in E. destruct Hin as [->|[->|Hin]].
      * specialize (IH y y (or_introl eq_refl)). lia.
      * apply IH; now left.
      * apply IH; now right.
    + apply Nat.ltb_ge in E. destruct Hin as [->|[->|Hin]].
      * apply IH; now left.
      * specialize (IH w w (or_introl eq_refl)). lia.
      * apply IH; now right.
Qed.
Lemma rem1_in x y l : In y (rem1 x l) -> In y l.
Proof. induction l as [|z t IH]; simpl; [tauto|]. destruct (x =? z); simpl; tauto. Qed.
Lemma rem1_in_neq x y l : In y l -> y <> x -> In y (rem1 x l).
Proof.
  induction l as [|z t IH]; simpl; [tauto|]. intros [->|H] Hne.
  - destruct (x =? y) eqn:E; [apply Nat.eqb_eq in E; congruence|now left].
  - destruct (x =? z); [exact H|right; auto].
Qed.
Lemma rem1_nodup x l : NoDup l -> NoDup (rem1 x l).
Proof.
  induction 1 as [|z t Hn Hnd IH]; simpl; [constructor|]. destruct (x =? z); [exact Hnd|].
  constructor; [intro H; apply Hn; eapply rem1_in; exact H|exact IH].
Qed.
Lemma rem1_notin x l : NoDup l -> ~ In x (rem1 x l).
Proof.
  induction 1 as [|z t Hn Hnd IH]; simpl; [tauto|]. destruct (x =? z) eqn:E.
  - apply Nat.eqb_eq in E; subst; exact Hn.
  - apply Nat.eqb_neq in E. intros [H|H]; [congruence|tauto].
Qed.
Lemma rem1_length x l : In x l -> length (rem1 x l) = pred (length l).
Proof.
  induction l as [|z t IH]; simpl; [tauto|]. intros H. destruct (x =? z) eqn:E; [reflexivity|].
  apply Nat.eqb_neq in E. destruct H as [->|H]; [congruence|]. simpl. rewrite IH by exact H.
  destruct t; [destruct H|reflexivity].
Qed.

Lemma better_rankv r a b : rk r a <> None -> rk r b <> None -> a <> b -> rankv r a <= rankv r b -> better r a b.
Proof.
  unfold better, rankv. intros Ha Hb Hne Hle. destruct (rk r a) as [x|] eqn:Ea; [|congruence].
  destruct (rk r b) as [y|] eqn:Eb; [|congruence]. destruct (Nat.eq_dec x y) as [->|]; [|lia].
  exfalso; apply Hne; eapply rk_inj; eauto.
Qed.
Lemma better_trans r a b c : better r a b -> better r b c -> better r a c.
Proof. unfold better; destruct (rk r a), (rk r b), (rk r c); try tauto; lia. Qed.


Lemma firstn_snoc {A} (l : list A) n d : n < length l -> firstn (S n) l = firstn n l ++ [nth n l d].
Proof.
  revert n; induction l as [|x t IH]; intros n H; simpl in *; [lia|].
  destruct n; [reflexivity|]. simpl. f_equal. rewrite <- IH by lia. reflexivity.
Qed.

Section Step.
Variables (s : state) (p0 : nat).
Hypothesis HF : invF s.
Hypothesis HR : invR s.
Hypothesis Hen : enabled s p0.
Let r0 := nth (nxt s p0) (pl p0) 0.
Variable s' : state.
Hypothesis Hnxt' : forall p, nxt s' p = nxt (step s p0) p.
Hypothesis Hheld' : forall r, held s' r = held (step s p0) r.

Lemma prefix_same : prefix s' p0 = prefix s p0 ++ [r0].
Proof.
  destruct Hen as [_ Hlt]. unfold prefix. rewrite Hnxt'. unfold step. fold r0.
  destruct (rk r0 p0); simpl; rewrite Nat.eqb_refl; apply firstn_snoc; exact Hlt.
Qed.
Lemma prefix_other p : p <> p0 -> prefix s' p = prefix s p.
Proof.
  intros Hne. unfold prefix. rewrite Hnxt'. unfold step. fold r0. apply Nat.eqb_neq in Hne.
  destruct (rk r0 p0); simpl; rewrite Hne; reflexivity.
Qed.
Lemma prefix_mono p r : In r (prefix s p) -> In r (prefix s' p).
Proof.
  destruct (Nat.eq_dec p p0) as [->|Hne]; [rewrite prefix_same, in_app_iff; tauto|rewrite prefix_other by exact Hne; tauto].
Qed.
Lemma r0_fresh : ~ In r0 (prefix s p0).
Proof.
  destruct Hen as [_ Hlt]. intros Hin. destruct (in_firstn_nth _ _ _ Hin) as [i [Hi Hn]].
  assert (nth_error (pl p0) (nxt s p0) = Some r0) by (unfold r0; apply nth_error_nth'; exact Hlt).
  assert (i = nxt s p0) by (eapply nodup_nth_inj; [apply pl_nodup|exact Hn|exact H]). lia.
Qed.
Lemma p0_not_held : ~ In p0 (held s r0).
Proof. intros H. destruct (HF r0) as [_ [_ Hm]]. destruct (Hm _ H) as [_ Hin]. exact (r0_fresh Hin). Qed.
Lemma prefix_inv p r : In r (prefix s' p) -> In r (prefix s p) \/ (p = p0 /\ r = r0).
Proof.
  destruct (Nat.eq_dec p p0) as [->|Hne].
  - rewrite prefix_same, in_app_iff. simpl. intros [H|[H|[]]]; [now left|right; split; congruence].
  - rewrite prefix_other by exact Hne. tauto.
Qed.

Lemma held_other r : r <> r0 -> held s' r = held s r.
Proof.
  intros Hne. rewrite Hheld'. unfold step. fold r0. destruct (rk r0 p0); simpl; [|reflexivity].
  apply Nat.eqb_neq in Hne. rewrite Hne. reflexivity.
Qed.

Definition h0 := p0 :: held s r0.
Definition h0' := if qR r0 <? length h0 then rem1 (worst r0 h0 p0) h0 else h0.
Lemma held_r0_some k : rk r0 p0 = Some k -> held s' r0 = h0'.
Proof. intros E. rewrite Hheld'. unfold step. fold r0. rewrite E. simpl. rewrite Nat.eqb_refl. reflexivity. Qed.
Lemma held_none : rk r0 p0 = None -> forall r, held s' r = held s r.
Proof. intros E r. rewrite Hheld'. unfold step. fold r0. rewrite E. reflexivity. Qed.

Lemma h0_nodup : NoDup h0.
Proof. constructor; [exact p0_not_held|apply HF]. Qed.
Lemma worst_in_h0 : In (worst r0 h0 p0) h0.
Proof. destruct (worst_in r0 h0 p0) as [H|H]; [rewrite <- H; now left|exact H]. Qed.
Lemma h0'_sub p : In p h0' -> In p h0.
Proof. unfold h0'. destruct (qR r0 <? length h0); [apply rem1_in|tauto]. Qed.
Lemma h0_rk p : rk r0 p0 <> None -> In p h0 -> rk r0 p <> None.
Proof. intros E [<-|H]; [exact E|]. destruct (HF r0) as [_ [_ Hm]]. apply Hm; exact H. Qed.
Lemma dropped_facts p : rk r0 p0 <> None -> In p h0 -> ~ In p h0' ->
  length h0' = qR r0 /\ forall p', In p' h0' -> better r0 p' p.
Proof.
  intros E Hin Hnot. unfold h0' in *. destruct (qR r0 <? length h0) eqn:Eo; [|contradiction].
  apply Nat.ltb_lt in Eo. set (w := worst r0 h0 p0) in *.
  assert (p = w). { destruct (Nat.eq_dec p w); [assumption|]. exfalso; apply Hnot; apply rem1_in_neq; assumption. }
  subst p. split.
  - rewrite rem1_length by exact worst_in_h0. destruct (HF r0) as [_ [Hl _]]. unfold h0 in *; simpl in *. lia.
  - intros p' Hp'. assert (In p' h0) by (eapply rem1_in; exact Hp').
    apply better_rankv; [apply h0_rk; assumption | apply h0_rk; [assumption|exact worst_in_h0] | |].
    + intros ->. exact (rem1_notin _ _ h0_nodup Hp').
    + apply worst_ge. right; assumption.
Qed.

Theorem step_invF : invF s'.
Proof.
  intros r. destruct (Nat.eq_dec r r0) as [->|Hne].
  2:{ rewrite held_other by exact Hne. destruct (HF r) as [A [B C]]. repeat split; auto.
      - apply C; assumption. - apply prefix_mono. apply C; assumption. }
  destruct (rk r0 p0) as [k|] eqn:E.
  2:{ rewrite held_none by exact E. destruct (HF r0) as [A [B C]]. repeat split; auto.
      - apply C; assumption. - apply prefix_mono. apply C; assumption. }
  rewrite (held_r0_some _ E). assert (Ek : rk r0 p0 <> None) by congruence.
  split; [|split].
  - unfold h0'. destruct (qR r0 <? length h0); [apply rem1_nodup|]; exact h0_nodup.
  - unfold h0'. destruct (qR r0 <? length h0) eqn:Eo.
    + apply Nat.ltb_lt in Eo. rewrite rem1_length by exact worst_in_h0.
      destruct (HF r0) as [_ [Hl _]]. unfold h0 in *; simpl in *. lia.
    + apply Nat.ltb_ge in Eo. exact Eo.
  - intros p Hp. apply h0'_sub in Hp. split; [apply h0_rk; assumption|].
    destruct Hp as [<-|Hp]; [rewrite prefix_same, in_app_iff; right; now left|].
    apply prefix_mono. destruct (HF r0) as [_ [_ C]]. apply C; exact Hp.
Qed.

Theorem step_invR : invR s'.
Proof.
  intros p r Hpre. destruct (Nat.eq_dec r r0) as [->|Hne].
  2:{ rewrite held_other by exact Hne. destruct (prefix_inv _ _ Hpre) as [H|[_ H]]; [apply HR; exact H|contradiction]. }
  destruct (rk r0 p0) as [k|] eqn:E.
  2:{ rewrite held_none by exact E. destruct (prefix_inv _ _ Hpre) as [H|[-> _]]; [apply HR; exact H|right; left; exact E]. }
  rewrite (held_r0_some _ E). assert (Ek : rk r0 p0 <> None) by congruence.
  destruct (in_dec Nat.eq_dec p h0') as [Hin|Hnin]; [now left|]. right.
  destruct (prefix_inv _ _ Hpre) as [Hold|[-> _]].
  2:{ right. apply dropped_facts; [exact Ek|now left|exact Hnin]. }
  destruct (HR p r0 Hold) as [Hh | [Hn | [Hfull Hall]]].
  - right. apply dropped_facts; [exact Ek|right; exact Hh|exact Hnin].
  - now left.
  - right. assert (Eo : qR r0 <? length h0 = true) by (apply Nat.ltb_lt; unfold h0; simpl; lia).
    split.
    + unfold h0'. rewrite Eo. rewrite rem1_length by exact worst_in_h0. unfold h0; simpl; lia.
    + intros p' Hp'. pose proof (h0'_sub _ Hp') as Hp0. destruct Hp0 as [<-|Hp0]; [|apply Hall; exact Hp0].
      (* p0 survived, so the dropped one is an old member w, better than p; p0 is better than w *)
      unfold h0' in Hp'. rewrite Eo in Hp'. set (w := worst r0 h0 p0) in *.
      assert (Hw : In w h0) by exact worst_in_h0.
      assert (Hne : p0 <> w). { intros Heq. rewrite <- Heq in Hp'. exact (rem1_notin _ _ h0_nodup Hp'). }
      destruct Hw as [Hw|Hw]; [congruence|].
      eapply better_trans; [|apply Hall; exact Hw].
      apply better_rankv; [exact Ek|apply h0_rk; [exact Ek|right; exact Hw]|exact Hne|].
      apply worst_ge. now left.
Qed.

(* ---- proposer quota ---- *)
Definition invQ (st : state) : Prop := forall p, length (engs st p) <= qP p.
Hypothesis HQ : invQ s.

Lemma memb_In x l : memb x l = true <-> In x l.
Proof.
  unfold memb. rewrite existsb_exists. split.
  - intros [y [Hy E]]. apply Nat.eqb_eq in E. subst. exact Hy.
  - intros H. exists x. split; [exact H|apply Nat.eqb_refl].
Qed.
Lemma engs_In st p r : In r (engs st p) <-> In r Rs /\ In p (held st r).
Proof. unfold engs. rewrite filter_In, memb_In. tauto. Qed.
Lemma engs_nodup st p : NoDup (engs st p).
Proof. apply NoDup_filter. exact Rs_nodup. Qed.

Lemma held_s'_sub p r : In p (held s' r) -> In p (held s r) \/ (p = p0 /\ r = r0).
Proof.
  destruct (Nat.eq_dec r r0) as [->|Hne]; [|rewrite held_other by exact Hne; tauto].
  destruct (rk r0 p0) as [k|] eqn:E; [|rewrite held_none by exact E; tauto].
  rewrite (held_r0_some _ E). intros H. apply h0'_sub in H. destruct H as [<-|H]; [right; split; reflexivity|now left].
Qed.

Theorem step_invQ : invQ s'.
Proof.
  intros p. destruct (Nat.eq_dec p p0) as [->|Hne].
  - (* p0 gains at most r0 *)
    destruct Hen as [Hlt _].
    assert (Hincl : incl (engs s' p0) (r0 :: engs s p0)).
    { intros r Hr. apply engs_In in Hr. destruct Hr as [HRs Hh].
      destruct (held_s'_sub _ _ Hh) as [Ho|[_ ->]]; [right; apply engs_In; tauto|now left]. }
    pose proof (NoDup_incl_length (engs_nodup s' p0) Hincl). simpl in *. lia.
  - assert (Hincl : incl (engs s' p) (engs s p)).
    { intros r Hr. apply engs_In in Hr. destruct Hr as [HRs Hh]. apply engs_In. split; [exact HRs|].
      destruct (held_s'_sub _ _ Hh) as [Ho|[E _]]; [exact Ho|congruence]. }
    pose proof (NoDup_incl_length (engs_nodup s' p) Hincl). specialize (HQ p). lia.
Qed.

(* ---- optimality: no achievable pair is ever rejected ---- *)
Definition matching := nat -> list nat.
Definition engsM (mu : matching) (p : nat) : list nat := filter (fun r => memb p (mu r)) Rs.
Definition feasibleM (mu : matching) : Prop :=
  (forall r, NoDup (mu r) /\ length (mu r) <= qR r /\ forall p, In p (mu r) -> rk r p <> None /\ In r (pl p)) /\
  (forall p, length (engsM mu p) <= qP p).
Definition blockingM (mu : matching) (p r : nat) : Prop :=
  In r (pl p) /\ rk r p <> None /\ ~ In p (mu r) /\
  (length (engsM mu p) < qP p \/ exists r', In p (mu r') /\ before (pl p) r r') /\
  (length (mu r) < qR r \/ exists p', In p' (mu r) /\ better r p p').
Definition stableM (mu : matching) : Prop := feasibleM mu /\ forall p r, ~ blockingM mu p r.
Definition invA (st : state) : Prop :=
  forall mu, stableM mu -> forall p r, In r (prefix st p) -> In p (mu r) -> In p (held st r).
Hypothesis HA : invA s.

Lemma engsM_In mu p r : In r (engsM mu p) <-> In r Rs /\ In p (mu r).
Proof. unfold engsM. rewrite filter_In, memb_In. tauto. Qed.

Lemma pigeon (Hs M : list nat) q x : NoDup Hs -> length Hs = q -> length M <= q -> In x M -> ~ In x Hs ->
  exists y, In y Hs /\ ~ In y M.
Proof.
  intros Hnd Hlen HM Hx Hnx.
  destruct (Forall_Exists_dec (fun y => In y M) (fun y => in_dec Nat.eq_dec y M) Hs) as [Hall|Hex].
  - exfalso. rewrite Forall_forall in Hall.
    assert (incl (x :: Hs) M) by (intros y [<-|Hy]; [exact Hx|apply Hall; exact Hy]).
    assert (NoDup (x :: Hs)) by (constructor; assumption).
    pose proof (NoDup_incl_length H0 H). simpl in *. lia.
  - apply Exists_exists in Hex. exact Hex.
Qed.

Lemma prefix_in_pl st p r : In r (prefix st p) -> In r (pl p).
Proof. unfold prefix. intros H. apply in_firstn_nth in H. destruct H as [i [_ H]]. eapply nth_error_In; eauto. Qed.

Lemma in_pl_not_prefix_after st p a b : In a (prefix st p) -> In b (pl p) -> ~ In b (prefix st p) -> before (pl p) a b.
Proof.
  unfold prefix. intros Ha Hb Hnb. destruct (in_firstn_nth _ _ _ Ha) as [i [Hi Hia]].
  destruct (In_nth_error _ _ Hb) as [j Hj]. exists i, j. split; [|split; assumption].
  destruct (Nat.lt_ge_cases j (nxt st p)) as [Hlt|Hge]; [|lia].
  exfalso. apply Hnb. eapply nth_in_firstn; eauto.
Qed.

(* the heart: a proposer x that was in h0 (old member or the new proposer) and is not in the new bag
   cannot be matched to r0 in any stable matching *)
Lemma rejected_not_achievable mu x : stableM mu -> rk r0 p0 <> None -> In x h0 -> ~ In x h0' -> ~ In x (mu r0).
Proof.
  intros [[HfR HfP] Hnb] Ek Hx Hnx Hmu.
  destruct (dropped_facts x Ek Hx Hnx) as [Hlen Hall].
  assert (Hnd' : NoDup h0') by (unfold h0'; destruct (qR r0 <? length h0); [apply rem1_nodup|]; exact h0_nodup).
  destruct (HfR r0) as [_ [HlenM _]].
  destruct (pigeon h0' (mu r0) (qR r0) x Hnd' Hlen HlenM Hmu Hnx) as [p' [Hp' Hnp']].
  apply (Hnb p' r0).
  assert (Hhp' : In p' (held s' r0)).
  { destruct (rk r0 p0) as [k|] eqn:E; [|congruence]. rewrite (held_r0_some _ E). exact Hp'. }
  pose proof step_invF as HF'. destruct (HF' r0) as [_ [_ Hm']]. destruct (Hm' p' Hhp') as [Hrk' Hpre'].
  split; [eapply prefix_in_pl; exact Hpre'|]. split; [exact Hrk'|]. split; [exact Hnp'|]. split.
  - (* p' wants r0 under mu *)
    destruct (Forall_Exists_dec (fun r => In r (prefix s' p')) (fun r => in_dec Nat.eq_dec r (prefix s' p')) (engsM mu p')) as [Hall'|Hex].
    + left. rewrite Forall_forall in Hall'.
      assert (Hincl : incl (r0 :: engsM mu p') (engs s' p')).
      { intros r [<-|Hr].
        - apply engs_In. split; [eapply pl_univ, prefix_in_pl; exact Hpre'|exact Hhp'].
        - pose proof (Hall' r Hr) as Hrp. apply engsM_In in Hr. destruct Hr as [HRs Hmr].
          apply engs_In. split; [exact HRs|].
          assert (r <> r0) by (intros ->; contradiction).
          rewrite held_other by assumption.
          apply (HA mu (conj (conj HfR HfP) Hnb)); [|exact Hmr].
          destruct (prefix_inv _ _ Hrp) as [Ho|[_ E]]; [exact Ho|congruence]. }
      assert (Hnd : NoDup (r0 :: engsM mu p')).
      { constructor; [intros H; apply engsM_In in H; tauto|apply NoDup_filter; exact Rs_nodup]. }
      pose proof (NoDup_incl_length Hnd Hincl). pose proof (step_invQ p'). simpl in *. lia.
    + right. apply Exists_exists in Hex. destruct Hex as [r' [Hr' Hnpre]].
      apply engsM_In in Hr'. destruct Hr' as [_ Hmr']. exists r'. split; [exact Hmr'|].
      destruct (HfR r') as [_ [_ Hacc]]. destruct (Hacc p' Hmr') as [_ Hin'].
      eapply in_pl_not_prefix_after; eauto.
  - right. exists x. split; [exact Hmu|apply Hall; exact Hp'].
Qed.

Theorem step_invA : invA s'.
Proof.
  intros mu Hst p r Hpre Hmu.
  destruct (Nat.eq_dec r r0) as [->|Hne].
  2:{ rewrite held_other by exact Hne. apply (HA mu Hst); [|exact Hmu].
      destruct (prefix_inv _ _ Hpre) as [H|[_ H]]; [exact H|contradiction]. }
  assert (Ek : rk r0 p0 <> None \/ rk r0 p0 = None) by (destruct (rk r0 p0); [left; discriminate|now right]).
  destruct Ek as [Ek|En].
  2:{ rewrite held_none by exact En. destruct (prefix_inv _ _ Hpre) as [H|[-> _]]; [apply (HA mu Hst); assumption|].
      exfalso. destruct Hst as [[HfR _] _]. destruct (HfR r0) as [_ [_ Hacc]]. destruct (Hacc _ Hmu) as [Hrk _]. contradiction. }
  destruct (rk r0 p0) as [k|] eqn:E; [|congruence]. rewrite (held_r0_some _ E).
  destruct (in_dec Nat.eq_dec p h0') as [Hin|Hnin]; [exact Hin|exfalso].
  assert (Hx : In p h0).
  { destruct (prefix_inv _ _ Hpre) as [H|[-> _]]; [right; apply (HA mu Hst); assumption|now left]. }
  assert (Ek' : rk r0 p0 <> None) by congruence.
  exact (rejected_not_achievable mu p Hst Ek' Hx Hnin Hmu).
Qed.
End Step.
End DA.
Print Assumptions step_invA.
Print Assumptions step_invQ.
