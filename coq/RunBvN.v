(* Correspondence checker for birkhoff_von_neumann / positivity_graph (C06). *)
From Coq Require Import ZArith QArith List Bool.
Import ListNotations.
From SCK Require Import FlowModel BipModel BvN2 BvNSnap.
Local Open Scope Z_scope.

(* input matrix (exact rationals), matching fuel, observed decomposition: coefficient and, per row i, the
   matched vertex j+n (rows in order) *)
Definition bvn_case : Type := (list (list Q) * nat * list (Q * list (Z * Z)))%type.
Definition term_eqb (a b : Q * list (Z * Z)) : bool :=
  Qeq_bool (fst a) (fst b) && (length (snd a) =? length (snd b))%nat &&
  forallb (fun p => pair_eqb (fst p) (snd p)) (combine (snd a) (snd b)).
Definition nonnegb (X : list (list Q)) : bool := forallb (forallb (fun x => Qle_bool 0 x)) X.
Definition squareb (X : list (list Q)) : bool := forallb (fun row => (length row =? length X)%nat) X.
(* all rows and all columns have the sum of the first row (the hypothesis Bal of the C06 theorems) *)
Definition qsum (l : list Q) : Q := fold_right (fun x a => Qred (x + a)) 0%Q l.
Definition balb (X : list (list Q)) : bool :=
  let n := length X in let s := qsum (nth 0 X []) in
  forallb (fun row => Qeq_bool (qsum row) s) X && forallb (fun j => Qeq_bool (qsum (map (fun row => nth j row 0%Q) X)) s) (seq 0 n).
Definition chk_bvn (c : bvn_case) : bool :=
  let '(X, ffuel, e) := c in
  squareb X && nonnegb X && balb X && (length X <? ffuel)%nat &&
  match bvn ffuel X with
  | Some r => (length r =? length e)%nat && forallb (fun p => term_eqb (fst p) (snd p)) (combine r e)
  | None => false
  end.

(* positivity_graph: observed dict (in insertion order) against the model's edge relation *)
Definition pg_case : Type := (list (list Q) * list (Z * list Z))%type.
Definition lz_eqb (a b : list Z) : bool := (length a =? length b)%nat && forallb (fun p => fst p =? snd p) (combine a b).
Definition chk_pg (c : pg_case) : bool :=
  let '(X, g) := c in
  let n := length X in
  (* every left vertex i: its adjacency list is exactly the model's; vertices without positive entry are absent *)
  forallb (fun i => match glook g (Z.of_nat i) with
                    | Some l => lz_eqb l (adjP X n i) && negb (match l with [] => true | _ => false end)
                    | None => match adjP X n i with [] => true | _ => false end end) (seq 0 n).
(* informational: does the exact run avoid the "almost zero" window and lines without a positive entry (the hypothesis of gen/BvnGenProof.gen_bvn_is_model)? *)
Definition chk_bvn_ok (c : bvn_case) : bool := let '(X, ffuel, _) := c in bvn_ok ffuel X.
