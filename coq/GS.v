From Coq Require Import ZArith List Bool Lia.
Import ListNotations.
Open Scope Z_scope.

Definition oz := option Z.
Definition nthd {A} (d : A) (l : list A) (i : nat) : A := nth i l d.
Fixpoint upd {A} (l : list A) (i : nat) (x : A) : list A :=
  match l, i with [], _ => [] | _ :: r, O => x :: r | y :: r, S j => y :: upd r j x end.

(* stable argsort of option keys, None (NaN) last *)
Definition ole (a b : oz) : bool :=
  match a, b with Some x, Some y => x <=? y | Some _, None => true | None, Some _ => false | None, None => true end.
Fixpoint ins (k : oz) (i : nat) (l : list (oz * nat)) : list (oz * nat) :=
  match l with [] => [(k, i)]
  | (k', i') :: r => if ole k' k then (k', i') :: ins k i r else (k, i) :: l end.
Definition argsort (row : list oz) : list nat :=
  map snd (fold_left (fun acc ki => ins (fst ki) (snd ki) acc) (combine row (seq 0 (length row))) []).

Definition rank0 (P : list (list oz)) (i j : nat) : oz :=
  match nthd None (nthd [] P i) j with Some r => Some (r - 1) | None => None end.

Record rstate := { apps : list nat; wl : list (list Z); nca : list Z }.

Definition maxl (l : list Z) : Z := fold_left Z.max l (-1).
Fixpoint remove1 (x : Z) (l : list Z) : list Z :=
  match l with [] => [] | y :: r => if x =? y then r else y :: remove1 x r end.

Section GS.
Variables (R H : list (list oz)) (c : list Z).
Let n := length R.
Let m := length H.
Let rankedR := map argsort R.
Let rankedH := map argsort H.

Definition res_step (cur : list Z) (st : rstate) (res : nat) : rstate :=
  let f := nthd 0 cur res in
  if (f =? 0) || (f =? 2) then st else
  let k := nthd O (apps st) res in            (* number of applications made so far *)
  if (m <=? k)%nat then {| apps := apps st; wl := wl st; nca := upd (nca st) res 2 |} else
  let h := nthd O (nthd [] rankedR res) k in
  match rank0 R res h with
  | None => {| apps := apps st; wl := wl st; nca := upd (nca st) res 2 |}
  | Some _ =>
    let st1 := {| apps := upd (apps st) res (S k); wl := wl st; nca := nca st |} in
    match rank0 H h res with
    | None => st1
    | Some hr =>
      let w := hr :: nthd [] (wl st1) h in
      let nca1 := upd (nca st1) res 0 in
      if Z.of_nat (length w) <=? nthd 0 c h then {| apps := apps st1; wl := upd (wl st1) h w; nca := nca1 |}
      else
        let worst := maxl w in
        let dropped := nthd O (nthd [] rankedH h) (Z.to_nat worst) in
        {| apps := apps st1; wl := upd (wl st1) h (remove1 worst w); nca := upd nca1 dropped 1 |}
    end
  end.

Fixpoint res_loop (fuel : nat) (st : rstate) : option rstate :=
  match fuel with O => None | S f =>
    if forallb (fun x => negb (x =? 1)) (nca st) then Some st
    else res_loop f (fold_left (res_step (nca st)) (seq 0 n) st)
  end.

Definition res_out (st : rstate) : list (Z * Z) :=
  flat_map (fun h => map (fun r => (Z.of_nat (nthd O (nthd [] rankedH h) (Z.to_nat r)), Z.of_nat h)) (nthd [] (wl st) h)) (seq 0 m).

Record hstate := { offers : list nat; rwl : list Z; acc : list Z; cur : list Z }.

Definition hosp_step (fixed : bool) (st : hstate) (h : nat) : hstate :=
  let f := nthd 0 (cur st) h in
  if (f =? 0) || (f =? 2) then st else
  let k := nthd O (offers st) h in
  if (n <=? k)%nat then {| offers := offers st; rwl := rwl st; acc := acc st; cur := upd (cur st) h 2 |} else
  let r := nthd O (nthd [] rankedH h) k in
  let isnan := match rank0 H h r with None => true | Some _ => false end in
  let st0 := if isnan then {| offers := offers st; rwl := rwl st; acc := acc st; cur := upd (cur st) h 2 |} else st in
  if isnan && fixed then st0 else
  let st1 := {| offers := upd (offers st0) h (S k); rwl := rwl st0; acc := acc st0; cur := cur st0 |} in
  match rank0 R r h with
  | None => st1
  | Some rr =>
    let cah := nthd (-1) (rwl st1) r in
    let better := if cah =? -1 then true else
                    match rank0 R r (Z.to_nat cah) with Some rc => rr <? rc | None => false end in
    if better then
      let acc1 := upd (acc st1) h (nthd 0 (acc st1) h + 1) in
      let idx := if cah =? -1 then (m - 1)%nat else Z.to_nat cah in
      let acc2 := if (cah =? -1) && fixed then acc1 else upd acc1 idx (nthd 0 acc1 idx - 1) in
      {| offers := offers st1; rwl := upd (rwl st1) r (Z.of_nat h); acc := acc2; cur := cur st1 |}
    else st1
  end.

Fixpoint hosp_loop (fixed : bool) (fuel : nat) (st : hstate) : option hstate :=
  match fuel with O => None | S f =>
    let cur' := map (fun fca => let '(fl, (ci, ai)) := fca in if fl =? 2 then 2 else if ci =? ai then 0 else 1)
                    (combine (cur st) (combine c (acc st))) in
    if forallb (fun x => negb (x =? 1)) cur' then Some st
    else hosp_loop fixed f (fold_left (hosp_step fixed) (seq 0 m)
           {| offers := offers st; rwl := rwl st; acc := acc st; cur := cur' |})
  end.

Definition hosp_out (st : hstate) : list (Z * Z) :=
  flat_map (fun r => let h := nthd (-1) (rwl st) r in if h =? -1 then [] else [(Z.of_nat r, h)]) (seq 0 n).

Definition gs (ro fixed : bool) (fuel : nat) : option (list (Z * Z)) :=
  if ro then
    match res_loop fuel {| apps := repeat O n; wl := repeat [] m; nca := repeat 1 n |} with
    | Some st => Some (res_out st) | None => None end
  else
    match hosp_loop fixed fuel {| offers := repeat O m; rwl := repeat (-1) n; acc := repeat 0 m; cur := repeat 1 m |} with
    | Some st => Some (hosp_out st) | None => None end.
End GS.

(* canonical sort of pairs *)
Definition ple (a b : Z * Z) : bool := (fst a <? fst b) || ((fst a =? fst b) && (snd a <=? snd b)).
Fixpoint pins (x : Z * Z) (l : list (Z * Z)) := match l with [] => [x] | y :: r => if ple x y then x :: l else y :: pins x r end.
Definition psort (l : list (Z * Z)) := fold_right pins [] l.
Definition peqb (a b : list (Z * Z)) : bool :=
  (length a =? length b)%nat && forallb (fun p => (fst (fst p) =? fst (snd p)) && (snd (fst p) =? snd (snd p))) (combine a b).
Definition case := (list (list oz) * list (list oz) * list Z * bool * bool * list (Z * Z))%type.
Definition check (x : case) : bool :=
  let '(R, H, c, ro, fixed, e) := x in
  match gs R H c ro fixed (length R * length H + length R + length H + 2) with
  | Some o => peqb (psort o) (psort e) | None => false end.
Fixpoint mism (i : nat) (cs : list case) : list nat :=
  match cs with [] => [] | x :: r => if check x then mism (S i) r else i :: mism (S i) r end.
