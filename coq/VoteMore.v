(* Further theorems on the voting models: neutrality of the scoring rules, utilitarian shares,
   Condorcet winners under Copeland. *)
From Coq Require Import ZArith QArith List Bool Lia Lqa Permutation.
Import ListNotations.
From SCK Require Import Voting VotingProof ScoreProof VoteExt VoteExtProof.
Local Open Scope Z_scope.

(* ---------- neutrality: renaming alternatives permutes the scores ---------- *)
Definition rename (sigma : nat -> nat) (m : nat) (P : list (list Z)) : list (list Z) :=
  map (fun row => map (fun j => nth (sigma j) row 0) (seq 0 m)) P.

Theorem score_neutral r k P m sigma :
  (forall row, In row P -> length row = m) -> length (nth 0 P []) = m ->
  forall j, (j < m)%nat -> (sigma j < m)%nat ->
  (nth j (score r k (rename sigma m P)) 0 == nth (sigma j) (score r k P) 0)%Q.
Proof.
  intros Hlen Hm j Hj Hs.
  assert (Hlen' : forall row, In row (rename sigma m P) -> length row = m).
  { intros row H. unfold rename in H. apply in_map_iff in H as [r0 [<- _]]. rewrite map_length, seq_length. reflexivity. }
  assert (Hm' : length (nth 0 (rename sigma m P) []) = m).
  { destruct P as [|r0 t]; [simpl in *; exact Hm|]. simpl. rewrite map_length, seq_length. reflexivity. }
  rewrite (score_is_sum r k (rename sigma m P) m Hlen' Hm' j Hj), (score_is_sum r k P m Hlen Hm (sigma j) Hs).
  unfold rename. rewrite map_map.
  assert (E : map (fun x => weight r (Z.of_nat m) k (nth j (map (fun j0 => nth (sigma j0) x 0) (seq 0 m)) 0)) P =
              map (fun row => weight r (Z.of_nat m) k (nth (sigma j) row 0)) P).
  { apply map_ext. intros row. f_equal.
    rewrite (nth_indep _ 0 (nth (sigma 0%nat) row 0)) by (rewrite map_length, seq_length; exact Hj).
    rewrite (map_nth (fun j0 => nth (sigma j0) row 0) (seq 0 m) 0%nat j). rewrite seq_nth by exact Hj. reflexivity. }
  rewrite E. reflexivity.
Qed.

(* ---------- utilitarian score = share of the total utility ---------- *)
Lemma nth_map_default {A B} (f : A -> B) (l : list A) (d : B) (d' : A) j : (j < length l)%nat -> nth j (map f l) d = f (nth j l d').
Proof. revert j; induction l as [|x t IH]; intros j H; simpl in *; [lia|]. destruct j; [reflexivity|apply IH; lia]. Qed.
Theorem util_score_spec V j : (j < length (nth 0 V []))%nat ->
  (nth j (util_score V) 0 == colsum V j / sumQl (map (colsum V) (seq 0 (length (nth 0 V [])))))%Q.
Proof.
  intros Hj. unfold util_score. set (m := length (nth 0 V [])) in *. set (cols := map (colsum V) (seq 0 m)).
  rewrite (nth_map_default (fun c => Qred (c / sumQl cols)) cols 0%Q 0%Q j) by (unfold cols; rewrite map_length, seq_length; exact Hj).
  rewrite Qred_correct. unfold cols at 1.
  rewrite (nth_map_default (colsum V) (seq 0 m) 0%Q 0%nat j) by (rewrite seq_length; exact Hj).
  rewrite seq_nth by exact Hj. reflexivity.
Qed.
(* colsum is the sum of the non-NaN entries of the column *)
Theorem colsum_spec V j : (colsum V j == sumQl (map (fun row => nz (nth j row None)) V))%Q.
Proof.
  unfold colsum. assert (H : forall a, (fold_left (fun acc row => Qred (acc + nz (nth j row None))) V a == a + sumQl (map (fun row => nz (nth j row None)) V))%Q).
  { induction V as [|row t IH]; intros a; cbn [fold_left map]; [unfold sumQl; cbn [fold_left]; lra|].
    rewrite IH, sumQl_cons, Qred_correct. lra. }
  rewrite H. lra.
Qed.

(* ---------- Condorcet winner = unique Copeland winner ---------- *)
Lemma countb_le f l : 0 <= countb f l <= Z.of_nat (length l).
Proof.
  unfold countb. induction l as [|x t IH]; [unfold sumZl; simpl; lia|]. simpl map. rewrite sumZl_cons. simpl length. destruct (f x); lia.
Qed.
Lemma countb_all f l : (forall x, In x l -> f x = true) -> countb f l = Z.of_nat (length l).
Proof.
  unfold countb. induction l as [|x t IH]; intros H; [reflexivity|]. simpl map. rewrite sumZl_cons, IH by (intros y Hy; apply H; now right).
  rewrite H by now left. simpl length. lia.
Qed.
Lemma countb_none f l : (forall x, In x l -> f x = false) -> countb f l = 0.
Proof.
  unfold countb. induction l as [|x t IH]; intros H; [reflexivity|]. simpl map. rewrite sumZl_cons, IH by (intros y Hy; apply H; now right).
  rewrite H by now left. lia.
Qed.
Lemma countb_split f l x : NoDup l -> In x l -> countb f l = (if f x then 1 else 0) + countb f (remove Nat.eq_dec x l).
Proof.
  unfold countb. induction l as [|y t IH]; intros Hnd Hin; [destruct Hin|]. inversion Hnd as [|? ? Hy Ht]; subst.
  simpl remove. destruct (Nat.eq_dec x y) as [->|Hne].
  - simpl map. rewrite sumZl_cons. rewrite notin_remove by exact Hy. reflexivity.
  - destruct Hin as [->|Hin]; [congruence|]. simpl map. rewrite !sumZl_cons, IH by assumption. lia.
Qed.
Lemma remove_length_nodup (l : list nat) x : NoDup l -> In x l -> length l = S (length (remove Nat.eq_dec x l)).
Proof.
  induction l as [|y t IH]; intros Hnd Hin; [destruct Hin|]. inversion Hnd as [|? ? Hy Ht]; subst. simpl.
  destruct (Nat.eq_dec x y) as [->|Hne]; [rewrite notin_remove by exact Hy; reflexivity|].
  destruct Hin as [->|Hin]; [congruence|]. simpl. rewrite <- IH by assumption. reflexivity.
Qed.
Lemma beats_irrefl P i : beats P i i = false.
Proof. unfold beats. apply Z.ltb_irrefl. Qed.
Lemma beats_asym P i j : beats P i j = true -> beats P j i = false.
Proof. unfold beats. intros H. apply Z.ltb_lt in H. apply Z.ltb_ge. lia. Qed.

Theorem condorcet_copeland P i : let m := length (nth 0 P []) in (i < m)%nat ->
  (forall j, (j < m)%nat -> j <> i -> beats P i j = true) ->
  nth i (copeland P) 0 = Z.of_nat m - 1 /\
  forall j, (j < m)%nat -> j <> i -> nth j (copeland P) 0 < Z.of_nat m - 1.
Proof.
  intros m Hi Hb.
  assert (Hnd : NoDup (seq 0 m)) by apply seq_NoDup.
  assert (Hin : forall x, (x < m)%nat -> In x (seq 0 m)) by (intros x Hx; apply in_seq; lia).
  assert (Hlen : length (seq 0 m) = m) by apply seq_length.
  split.
  - rewrite (copeland_spec P i Hi). fold m.
    rewrite (countb_split (beats P i) (seq 0 m) i Hnd (Hin i Hi)), beats_irrefl.
    rewrite countb_all.
    + rewrite (countb_none (fun j => beats P j i)).
      * pose proof (remove_length_nodup (seq 0 m) i Hnd (Hin i Hi)). lia.
      * intros x Hx. apply in_seq in Hx. destruct (Nat.eq_dec x i) as [->|Hne]; [apply beats_irrefl|apply beats_asym, Hb; lia].
    + intros x Hx. apply in_remove in Hx as [Hx Hne]. apply in_seq in Hx. apply Hb; lia.
  - intros j Hj Hne. rewrite (copeland_spec P j Hj). fold m.
    rewrite (countb_split (beats P j) (seq 0 m) i Hnd (Hin i Hi)). rewrite (beats_asym P i j (Hb j Hj Hne)).
    rewrite (countb_split (fun x => beats P x j) (seq 0 m) i Hnd (Hin i Hi)). rewrite (Hb j Hj Hne).
    pose proof (countb_le (beats P j) (remove Nat.eq_dec i (seq 0 m))).
    pose proof (countb_le (fun x => beats P x j) (remove Nat.eq_dec i (seq 0 m))).
    pose proof (remove_length_nodup (seq 0 m) i Hnd (Hin i Hi)). lia.
Qed.

(* ---------- the model's positional weights are the textbook ones ---------- *)
Theorem weights_textbook m k r : 1 <= r ->
  weight Plurality m k r = (if r =? 1 then 1 else 0)%Q /\
  weight Borda m k r = inject_Z (m - r) /\
  weight Veto m k r = (if r <? m then 1 else 0)%Q /\
  weight KApproval m k r = (if r <=? k then 1 else 0)%Q /\
  (weight Harmonic m k r == 1 / inject_Z r)%Q.
Proof.
  intros Hr. split; [reflexivity|]. split; [reflexivity|]. split; [reflexivity|]. split; [reflexivity|].
  cbn [weight]. destruct r as [|p|p]; try lia. unfold Qeq, Qdiv, Qinv, Qmult, inject_Z. simpl. lia.
Qed.
