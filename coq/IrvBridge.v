(* pair-list stability (IrvStable.pstable) implies the property's statement of stability (StableCheck.stable) for the list of wives *)
From Coq Require Import Arith ZArith List Bool Lia Permutation.
Import ListNotations.
From SCK Require Import Irving IrvRot StableCheck.
From SCK Require Import IrvStable.

Lemma nth_map_seq0' {A} (f : nat -> A) n i d : i < n -> nth i (map f (seq 0 n)) d = f i.
Proof. intros H. rewrite (nth_indep _ d (f 0)) by (rewrite map_length, seq_length; exact H). rewrite map_nth, seq_nth by exact H. reflexivity. Qed.

Section Bridge.
Variables (P1 P2 : list (list nat)) (n : nat) (M : list (nat * nat)).
Hypothesis Hmen : Permutation (map fst M) (seq 0 n).
Hypothesis Hwomen : Permutation (map snd M) (seq 0 n).
Hypothesis HS : pstable P1 P2 M.

Lemma find_wife m : m < n -> exists w, find (fun p => Nat.eqb (fst p) m) M = Some (m, w) /\ In (m, w) M.
Proof.
  intros Hm. assert (Hin : In m (map fst M)) by (eapply Permutation_in; [symmetry; exact Hmen|apply in_seq; lia]).
  destruct (find (fun p => Nat.eqb (fst p) m) M) as [[a w]|] eqn:E.
  - apply find_some in E as [Hi E]. cbn [fst] in E. apply Nat.eqb_eq in E. subst a. exists w. auto.
  - exfalso. apply in_map_iff in Hin as [p [<- Hp]]. pose proof (find_none _ _ E p Hp) as H. cbn in H. rewrite Nat.eqb_refl in H. discriminate.
Qed.
Lemma nth_wives m : m < n -> In (m, nth m (wives n M) 0) M.
Proof.
  intros Hm. unfold wives. rewrite (nth_map_seq0' (fun m => match find (fun p => Nat.eqb (fst p) m) M with Some p => snd p | None => n end) n m 0 Hm). destruct (find_wife m Hm) as [w [E Hw]]. rewrite E. exact Hw.
Qed.
Lemma wives_perm : Permutation (wives n M) (seq 0 n).
Proof.
  destruct HS as [[HndM HndW] _].
  apply NoDup_Permutation_bis.
  - (* injective: two men with the same wife coincide *)
    unfold wives. apply NoDup_map_in; [apply seq_NoDup|]. intros a b Ha Hb E. apply in_seq in Ha, Hb.
    destruct (find_wife a ltac:(lia)) as [wa [Ea Hwa]]. destruct (find_wife b ltac:(lia)) as [wb [Eb Hwb]]. rewrite Ea, Eb in E. cbn [snd] in E. subst wb.
    exact (snd_unique M a b wa HndW Hwa Hwb).
  - unfold wives. rewrite map_length, !seq_length. lia.
  - intros w Hw. unfold wives in Hw. apply in_map_iff in Hw as [m [E Hm]]. apply in_seq in Hm. destruct (find_wife m ltac:(lia)) as [w' [E' Hw']].
    rewrite E' in E. cbn [snd] in E. subst w'. eapply Permutation_in; [exact Hwomen|]. apply in_map_iff. exists (m, w). auto.
Qed.

Theorem pstable_is_stable : stable P1 P2 n (wives n M).
Proof.
  split; [exact wives_perm|]. intros m w [Hm [Hw [B1 B2]]]. destruct HS as [[HndM HndW] Hnb].
  pose proof (nth_wives m Hm) as Hmw.
  (* the husband found for w *)
  assert (Hin : In w (wives n M)) by (eapply Permutation_in; [symmetry; exact wives_perm|apply in_seq; lia]).
  unfold husband in B2.
  destruct (find (fun m0 => Nat.eqb (nth m0 (wives n M) 0) w) (seq 0 n)) as [m'|] eqn:E.
  - apply find_some in E as [Hm' E]. apply Nat.eqb_eq in E. apply in_seq in Hm'. pose proof (nth_wives m' ltac:(lia)) as Hm'w. rewrite E in Hm'w.
    apply (Hnb m w (nth m (wives n M) 0) m' Hmw Hm'w). split; assumption.
  - exfalso. apply (In_nth _ _ 0) in Hin as [k [Hk Ek]]. assert (Hk' : k < n) by (rewrite (Permutation_length wives_perm), seq_length in Hk; exact Hk).
    pose proof (find_none _ _ E k ltac:(apply in_seq; lia)) as H. cbn in H. rewrite Ek, Nat.eqb_refl in H. discriminate.
Qed.
End Bridge.

Lemma exposed_full_all_weak P1 P2 rts : forall M, exposed_full_all P1 P2 M rts -> exposed_all M rts.
Proof.
  induction rts as [|rt rest IH]; intros M H; [exact I|]. destruct H as [[H1 [H2 _]] H3]. split; [exact H1|]. split; [exact H2|apply IH; exact H3].
Qed.

(* the final matching of a run whose hypotheses were evaluated is stable in the sense of the property's statement *)
Theorem irving_final_stable_wives P1 P2 V1 V2 ff t : let n := length P1 in
  irving P1 P2 V1 V2 ff = Some t ->
  perfect_b n (map fst (t_M0 t)) = true -> perfect_b n (map snd (t_M0 t)) = true ->
  pstableb P1 P2 (t_M0 t) = true -> strict_onb P1 (t_M0 t) = true ->
  exposed_full_allb P1 P2 (t_M0 t) (map (fun i => nth i (t_rots t) []) (t_S t)) = true ->
  exists M', t_out t = Some M' /\ stable P1 P2 n (wives n M').
Proof.
  intros n Hr Hpm Hpw H1 H2 H3. apply perfect_b_iff in Hpm, Hpw.
  destruct (irving_final_stable P1 P2 V1 V2 ff t Hr H1 H2 H3) as [M' [E HS]]. exists M'. split; [exact E|].
  (* men and women of M' are those of M0 *)
  apply pstableb_sound in H1. apply exposed_full_allb_sound in H3. destruct H1 as [[HndM HndW] _].
  assert (Hout : t_out t = eliminate (t_M0 t) (map (fun i => nth i (t_rots t) []) (t_S t))).
  { unfold irving in Hr. cbv zeta in Hr.
    repeat match type of Hr with match ?x with _ => _ end = _ => destruct x as [?v|]; [|discriminate] end.
    match type of Hr with (let (_, _) := ?v in _) = _ => destruct v as [rots el] end.
    repeat match type of Hr with match ?x with _ => _ end = _ => destruct x as [?v|]; [|discriminate] end.
    injection Hr as <-. reflexivity. }
  destruct (eliminate_spec V1 V2 _ _ HndM HndW (exposed_full_all_weak P1 P2 _ _ H3)) as [M'' [E' [Hf [Hs _]]]].
  rewrite Hout in E. rewrite E in E'. injection E' as <-.
  apply pstable_is_stable; [rewrite Hf; exact Hpm|rewrite Hs; exact Hpw|exact HS].
Qed.
