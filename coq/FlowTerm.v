From Coq Require Import ZArith List Bool Lia.
Import ListNotations.
Require Import FlowModel FlowProof FlowInit.
Local Open Scope Z_scope.

(* ---------- the search never runs out of fuel ---------- *)
Definition unvis (K vis : list Z) : nat := length (filter (fun k => negb (memZ k vis)) K).

Lemma unvis_mono K vis vis' : incl vis vis' -> (unvis K vis' <= unvis K vis)%nat.
Proof.
  intros H. unfold unvis. induction K as [|k t IH]; simpl; [lia|].
  destruct (memZ k vis) eqn:E1.
  - apply memZ_In in E1. apply H in E1. apply memZ_In in E1. rewrite E1. simpl. exact IH.
  - destruct (memZ k vis'); simpl; lia.
Qed.
Lemma filter_len_addZ (f g : Z -> bool) l r : NoDup l -> In r l -> f r = false -> g r = true ->
  (forall x, x <> r -> f x = g x) -> length (filter g l) = S (length (filter f l)).
Proof.
  induction 1 as [|x t Hn Hnd IH]; intros Hin Hf Hg Hext; [destruct Hin|].
  destruct Hin as [->|Hin]; simpl.
  - rewrite Hf, Hg. simpl. f_equal. f_equal. apply filter_ext_in. intros y Hy. symmetry. apply Hext. intros ->. contradiction.
  - assert (x <> r) by (intros ->; contradiction). rewrite (Hext x H). destruct (g x); simpl; rewrite IH; auto.
Qed.
Lemma memZ_cons k v vis : memZ k (v :: vis) = (k =? v) || memZ k vis.
Proof. reflexivity. Qed.
Lemma unvis_cons K vis v : NoDup K -> In v K -> ~ In v vis -> (S (unvis K (v :: vis)) <= unvis K vis)%nat.
Proof.
  intros Hnd Hin Hn. unfold unvis.
  rewrite (filter_len_addZ (fun k => negb (memZ k (v :: vis))) (fun k => negb (memZ k vis)) K v Hnd Hin); [lia| | |].
  - rewrite memZ_cons, Z.eqb_refl. reflexivity.
  - destruct (memZ v vis) eqn:E; [apply memZ_In in E; contradiction|reflexivity].
  - intros x Hx. rewrite memZ_cons. apply Z.eqb_neq in Hx. rewrite Hx. reflexivity.
Qed.

Section Fuel.
Variables (G : graph) (sink : Z).
Hypothesis HnT : nodupT G.
Hypothesis HK : NoDup (keys G).
Hypothesis Htk : forall u v c, In (v, c) (lookup G u) -> In v (keys G).

Lemma loop_total (f : nat) (cur : Z) (vis0 : list Z) :
  (forall v vs, (unvis (keys G) vs < f)%nat -> dfs f G sink v vs <> None) ->
  (unvis (keys G) vis0 <= f)%nat ->
  forall cands vis best, incl cands (lookup G cur) -> incl vis0 vis ->
  dfs_loop (dfs f G sink) cur cands vis best <> None.
Proof.
  intros Hrec Hf. induction cands as [|[v c] r IH]; intros vis best Hsub Hinc; simpl; [discriminate|].
  assert (Hsub' : incl r (lookup G cur)) by (intros x Hx; apply Hsub; now right).
  destruct (memZ v vis) eqn:Em; [apply IH; assumption|].
  destruct (c >? 0); [|apply IH; assumption].
  assert (Hv : ~ In v vis) by (intros Hin; apply memZ_In in Hin; congruence).
  assert (HvK : In v (keys G)) by (eapply Htk; apply Hsub; now left).
  assert (Hlt : (unvis (keys G) (v :: vis) < f)%nat).
  { pose proof (unvis_cons (keys G) vis v HK HvK Hv). pose proof (unvis_mono (keys G) vis0 vis Hinc). lia. }
  destruct (dfs f G sink v (v :: vis)) as [[vis1 res]|] eqn:Er; [|exfalso; exact (Hrec v (v :: vis) Hlt Er)].
  assert (Hinc1 : incl vis0 vis1).
  { destruct (dfs_succ f G sink HnT v (v :: vis) vis1 res Er) as [Hm _].
    intros x Hx. apply Hm; [intros ->; apply Hv; apply Hinc; exact Hx|right; apply Hinc; exact Hx]. }
  destruct res as [[path cap]|]; [|apply IH; assumption].
  destruct (Z.min cap c >? match best with Some (_, b) => b | None => 0 end); apply IH; assumption.
Qed.

Theorem dfs_total : forall f cur vis, (unvis (keys G) vis < f)%nat -> dfs f G sink cur vis <> None.
Proof.
  induction f as [|f IH]; intros cur vis Hlt; [lia|]. simpl.
  destruct (cur =? sink); [discriminate|].
  pose proof (loop_total f cur vis IH ltac:(lia) (lookup G cur) vis None (incl_refl _) (incl_refl _)) as Hl.
  destruct (dfs_loop (dfs f G sink) cur (lookup G cur) vis None) as [[vis1 [b|]]|]; [discriminate|discriminate|congruence].
Qed.
End Fuel.

Lemma filter_len_le' {A} (p : A -> bool) l : (length (filter p l) <= length l)%nat.
Proof. induction l as [|x t IH]; simpl; [lia|]. destruct (p x); simpl; lia. Qed.

(* ---------- the main loop terminates: each augmentation adds at least 1 to a bounded value ---------- *)
Lemma value_bound G s t Gf fl : FInv G s t Gf fl -> value G fl s <= sumZ (cf G s) (keys G).
Proof.
  intros F. unfold value, excess. apply sumZ_le. intros y _.
  pose proof (p_cf _ _ _ (f_p _ _ _ _ _ F) s y). pose proof (p_nn _ _ _ (f_p _ _ _ _ _ F) s y). lia.
Qed.

Theorem ff_loop_total G s t : NoDup (keys G) -> s <> t -> forall fuel Gf fl,
  FInv G s t Gf fl -> sumZ (cf G s) (keys G) - value G fl s < Z.of_nat fuel ->
  ff_loop fuel (Gf, fl) s t <> None.
Proof.
  intros HV Hst. induction fuel as [|f IH]; intros Gf fl F Hlt.
  - pose proof (value_bound G s t Gf fl F). lia.
  - cbn [ff_loop fst].
    pose proof (f_p _ _ _ _ _ F) as P. pose proof (p_wf _ _ _ P) as [HKn Hstruct].
    assert (Hd : dfs (length Gf + 2) Gf t s [s] <> None).
    { apply dfs_total; [apply F|exact HKn| |].
      - intros u v c Hin. assert (Hv : In v (targets Gf u)) by (unfold targets; apply (in_map fst) in Hin; exact Hin).
        destruct (Hstruct u v Hv) as [_ [Hk _]]. exact Hk.
      - unfold unvis. pose proof (filter_len_le' (fun k => negb (memZ k [s])) (keys Gf)). unfold keys in *. rewrite map_length in *. lia. }
    destruct (dfs (length Gf + 2) Gf t s [s]) as [[vis' [[path c]|]]|] eqn:Ed; [|discriminate|congruence].
    destruct (dfs_succ _ Gf t (f_nt _ _ _ _ _ F) s [s] vis' _ Ed) as [_ [tail [Hp [Hl [Hnd [_ [Hch Hpos]]]]]]].
    cbn [fst snd] in *. subst path.
    destruct (augment_spec G (keys G) c HV ltac:(lia) (s :: tail) Gf fl P eq_refl Hch Hnd ltac:(discriminate)) as [P2 [Ht2 Hex]].
    destruct (augment (s :: tail) c (Gf, fl)) as [Gf1 fl1] eqn:Ea. cbn [fst snd] in *.
    assert (F1 : FInv G s t Gf1 fl1).
    { constructor; [exact P2| |].
      - intros x. rewrite Ht2. apply (f_nt _ _ _ _ _ F).
      - intros x Hx Hs Ht. rewrite Hex. unfold hdZ. simpl hd. rewrite Hl.
        assert (E1 : (x =? s) = false) by (apply Z.eqb_neq; exact Hs).
        assert (E2 : (x =? t) = false) by (apply Z.eqb_neq; exact Ht).
        rewrite E1, E2. rewrite (f_cons _ _ _ _ _ F x Hx Hs Ht). lia. }
    apply IH; [exact F1|]. unfold value in *. rewrite Hex. unfold hdZ. simpl hd. rewrite Hl, Z.eqb_refl.
    assert (E : (s =? t) = false) by (apply Z.eqb_neq; exact Hst). rewrite E. lia.
Qed.

Theorem C08_ff_terminates G s t : wf_in G -> s <> t ->
  forall fuel, sumZ (cf G s) (keys G) < Z.of_nat fuel -> ford_fulkerson fuel G s t <> None.
Proof.
  intros Hwf Hst fuel Hlt. pose proof Hwf as [HV _]. unfold ford_fulkerson.
  pose proof (init_FInv G s t Hwf) as F0. pose proof (init_fl_zero G Hwf) as Hz.
  destruct (init G) as [Gf0 fl0] eqn:Ei. cbn [fst snd] in F0, Hz.
  assert (Hv0 : value G fl0 s = 0).
  { unfold value, excess. rewrite (sumZ_ext _ (fun _ => 0)); [apply sumZ_zero|]. intros y _. apply Hz. }
  pose proof (ff_loop_total G s t HV Hst fuel Gf0 fl0 F0 ltac:(lia)) as Hn.
  destruct (ff_loop fuel (Gf0, fl0) s t) as [[Gf fl]|]; [discriminate|congruence].
Qed.
Print Assumptions C08_ff_terminates.
