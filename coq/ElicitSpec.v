(* C14: the threshold rules (k-ARV, lambda-TSF, two-sided lambda-TSF) as pure per-agent functions, and the
   refinement "pure evaluation of the level-major query program = per-agent function, agent by agent". *)
From Coq Require Import Arith ZArith QArith List Bool Lia.
Import ListNotations.
From SCK Require Import Argsort ElicitM ElicitRun ElicitEval ElicitRules.
Local Open Scope Z_scope.

Section Agent.
Variables (fixer : Z) (V : key -> Q) (rk : list Z) (i : nat) (m : Z) (tauf : nat -> Q) (byq : bool).
Definition valp (p : Z) : Q := V (Z.of_nat i + fixer, rkat rk p + fixer).
Definition ps (l : nat) : Z := bs_pure fixer V (S (Z.to_nat m)) rk (Z.of_nat i) 0 m (tauf l).
Definition vlev (l : nat) : Q := if byq then valp (ps l) else tauf l.
Definition agent_step (rs : list Q * Z) (l : nat) : list Q * Z := (fill (fst rs) rk (snd rs) (ps l) (vlev l), ps l).
Definition agent_init (init : Q) : list Q * Z := (updz (repeat init (Z.to_nat m)) (Z.to_nat (rkat rk 0)) (valp 0), 0).
Definition agent_final (init : Q) (k : nat) : list Q := fst (fold_left agent_step (seq 1 k) (agent_init init)).
End Agent.

(* ---------- generic: a fold of "map over agents" is a map of per-agent folds ---------- *)
Lemma nth_map_seq {A} (f : nat -> A) n i d : (i < n)%nat -> nth i (map f (seq 0 n)) d = f i.
Proof.
  intros H. rewrite (nth_indep _ d (f 0%nat)) by (rewrite map_length, seq_length; exact H).
  rewrite (map_nth f (seq 0 n) 0%nat i). rewrite seq_nth by exact H. reflexivity.
Qed.
Lemma map_seq_nth {A} (l : list A) d : map (fun i => nth i l d) (seq 0 (length l)) = l.
Proof.
  apply nth_ext with (d := d) (d' := d); [rewrite map_length, seq_length; reflexivity|].
  intros j Hj. rewrite map_length, seq_length in Hj. rewrite nth_map_seq by exact Hj. reflexivity.
Qed.
Lemma fold_map_seq {S L} (g : nat -> S -> L -> S) (d : S) n (ls : list L) : forall st0, length st0 = n ->
  fold_left (fun st l => map (fun i => g i (nth i st d) l) (seq 0 n)) ls st0 =
  map (fun i => fold_left (g i) ls (nth i st0 d)) (seq 0 n).
Proof.
  induction ls as [|l t IH]; intros st0 Hlen; cbn [fold_left].
  - subst n. symmetry. apply map_seq_nth.
  - rewrite IH by (rewrite map_length, seq_length; reflexivity).
    apply map_ext_in. intros i Hi. apply in_seq in Hi. rewrite nth_map_seq by lia. reflexivity.
Qed.

Lemma fold_left_ext' {A B} (f g : A -> B -> A) l : (forall a b, f a b = g a b) -> forall a, fold_left f l a = fold_left g l a.
Proof. intros H. induction l as [|x t IH]; intros a; cbn [fold_left]; [reflexivity|]. rewrite H. apply IH. Qed.

(* ---------- the refinement ---------- *)
Theorem thr_rule_pure fixer V ranked tau byq n m k init :
  eval fixer V (thrP ranked tau byq n m k init) =
  map (fun i => agent_final fixer V (nth i ranked []) i m (tauof tau i) byq init k) (seq 0 n).
Proof.
  unfold thrP. rewrite eval_bind, eval_mapP. rewrite eval_bind, eval_foldP. cbn [eval].
  set (vfav := map (fun x => eval fixer V (askfav ranked x)) (seq 0 n)).
  set (st0 := map (fun i => (updz (repeat init (Z.to_nat m)) (Z.to_nat (rkat (nth i ranked []) 0)) (nth i vfav 0%Q), 0)) (seq 0 n)).
  (* one level, evaluated *)
  assert (Hlev : forall st l, eval fixer V (levelP ranked tau byq n m st l) =
            map (fun i => agent_step fixer V (nth i ranked []) i m (tauof tau i) byq (nth i st ([], 0)) l) (seq 0 n)).
  { intros st l. unfold levelP. rewrite eval_bind, eval_mapP.
    set (pstar := map (fun x => eval fixer V (bsearchP (S (Z.to_nat m)) (nth x ranked []) (Z.of_nat x) 0 m (tauof tau x l))) (seq 0 n)).
    assert (Hps : forall i, (i < n)%nat -> nth i pstar 0 = ps fixer V (nth i ranked []) i m (tauof tau i) l).
    { intros i Hi. unfold pstar. rewrite nth_map_seq by exact Hi. rewrite eval_bsearch. reflexivity. }
    destruct byq.
    - rewrite eval_bind, eval_mapP. cbn [eval]. apply map_ext_in. intros i Hi. apply in_seq in Hi.
      unfold agent_step. cbn [fst snd]. rewrite Hps by lia. f_equal. f_equal.
      rewrite nth_map_seq by lia. cbn [eval]. unfold vlev, valp. rewrite Hps by lia. reflexivity.
    - rewrite eval_bind. cbn [eval]. apply map_ext_in. intros i Hi. apply in_seq in Hi.
      unfold agent_step. cbn [fst snd]. rewrite Hps by lia. f_equal. f_equal.
      rewrite nth_map_seq by lia. reflexivity. }
  rewrite (fold_left_ext' _ _ (seq 1 k) Hlev).
  rewrite (fold_map_seq (fun i rs l => agent_step fixer V (nth i ranked []) i m (tauof tau i) byq rs l) ([], 0) n (seq 1 k) st0)
    by (unfold st0; rewrite map_length, seq_length; reflexivity).
  rewrite map_map. apply map_ext_in. intros i Hi. apply in_seq in Hi.
  unfold agent_final, agent_init. f_equal. f_equal. unfold st0. rewrite nth_map_seq by lia.
  f_equal. f_equal. unfold vfav. rewrite nth_map_seq by lia. reflexivity.
Qed.
