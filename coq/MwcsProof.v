From Coq Require Import ZArith List Bool Lia.
Import ListNotations.
Require Import FlowModel FlowProof FlowInit Mwcs.
Local Open Scope Z_scope.

Definition negp (ws : list Z) (pi : nat) : Z := if wt ws pi <? 0 then - wt ws pi else 0.
Definition posp (ws : list Z) (pi : nat) : Z := if wt ws pi >? 0 then wt ws pi else 0.

Lemma aget_app a b v : aget (a ++ b) v = if in_dec Z.eq_dec v (map fst a) then aget a v else aget b v.
Proof.
  induction a as [|[x c] r IH]; simpl; [reflexivity|]. destruct (x =? v) eqn:E.
  - apply Z.eqb_eq in E. subst. destruct (Z.eq_dec v v); [|congruence]. reflexivity.
  - apply Z.eqb_neq in E. rewrite IH. destruct (Z.eq_dec x v); [congruence|]. destruct (in_dec Z.eq_dec v (map fst r)); reflexivity.
Qed.
Lemma aget_const_map (l : list nat) c v : aget (map (fun rho => (Z.of_nat rho, c)) l) v =
  if in_dec Z.eq_dec v (map Z.of_nat l) then c else 0.
Proof.
  induction l as [|x t IH]; simpl; [reflexivity|]. destruct (Z.of_nat x =? v) eqn:E.
  - apply Z.eqb_eq in E. destruct (Z.eq_dec (Z.of_nat x) v); [reflexivity|congruence].
  - apply Z.eqb_neq in E. rewrite IH. destruct (Z.eq_dec (Z.of_nat x) v); [congruence|]. destruct (in_dec Z.eq_dec v (map Z.of_nat t)); reflexivity.
Qed.
Lemma in_map_ofnat x l : In (Z.of_nat x) (map Z.of_nat l) <-> In x l.
Proof. rewrite in_map_iff. split; [intros [y [E H]]; apply Nat2Z.inj in E; subst; exact H|intros H; exists x; auto]. Qed.
Lemma neg_not_ofnat (z : Z) l : z < 0 -> ~ In z (map Z.of_nat l).
Proof. intros Hz H. apply in_map_iff in H. destruct H as [y [E _]]. lia. Qed.

Lemma aget_single k c v : aget [(k, c)] v = if k =? v then c else 0.
Proof. reflexivity. Qed.

Lemma nodup_app {A} (a b : list A) : NoDup a -> NoDup b -> (forall x, In x a -> ~ In x b) -> NoDup (a ++ b).
Proof.
  induction 1 as [|x t Hx Hn IH]; intros Hb Hd; simpl; [exact Hb|].
  constructor; [rewrite in_app_iff; intros [H|H]; [contradiction|exact (Hd x (or_introl eq_refl) H)]|].
  apply IH; [exact Hb|intros y Hy; apply Hd; now right].
Qed.

Fixpoint sumN (f : nat -> Z) (l : list nat) : Z := match l with [] => 0 | x :: t => f x + sumN f t end.
Lemma sumZ_map_ofnat (h : Z -> Z) l : sumZ h (map Z.of_nat l) = sumN (fun x => h (Z.of_nat x)) l.
Proof. induction l as [|x t IH]; simpl; [reflexivity|]. rewrite IH. reflexivity. Qed.
Lemma filter_map_ofnat (f : Z -> bool) l : filter f (map Z.of_nat l) = map Z.of_nat (filter (fun x => f (Z.of_nat x)) l).
Proof. induction l as [|x t IH]; simpl; [reflexivity|]. destruct (f (Z.of_nat x)); simpl; [f_equal|]; exact IH. Qed.
Lemma sumN_ext f g l : (forall x, In x l -> f x = g x) -> sumN f l = sumN g l.
Proof. induction l as [|a t IH]; simpl; intros H; [reflexivity|]. rewrite (H a (or_introl eq_refl)), IH; [reflexivity|]. intros; apply H; now right. Qed.
Lemma sumN_add f g l : sumN (fun x => f x + g x) l = sumN f l + sumN g l.
Proof. induction l as [|a t IH]; simpl; [reflexivity|]. rewrite IH. lia. Qed.
Lemma sumN_nonneg f l : (forall x, In x l -> 0 <= f x) -> 0 <= sumN f l.
Proof. induction l as [|a t IH]; simpl; intros H; [lia|]. pose proof (H a (or_introl eq_refl)). assert (0 <= sumN f t) by (apply IH; intros; apply H; now right). lia. Qed.
Lemma sumN_split f (p : nat -> bool) l : sumN f l = sumN f (filter p l) + sumN f (filter (fun x => negb (p x)) l).
Proof. induction l as [|a t IH]; simpl; [reflexivity|]. destruct (p a); simpl; lia. Qed.
Lemma sumN_zero_all f l : (forall x, In x l -> 0 <= f x) -> sumN f l = 0 -> forall x, In x l -> f x = 0.
Proof.
  induction l as [|a t IH]; intros Hnn Hs x Hin; [destruct Hin|]. simpl in Hs.
  pose proof (Hnn a (or_introl eq_refl)). assert (0 <= sumN f t) by (apply sumN_nonneg; intros; apply Hnn; now right).
  destruct Hin as [<-|Hin]; [lia|]. apply IH; [intros; apply Hnn; now right|lia|exact Hin].
Qed.
Lemma sumN_ge_term f l a : (forall x, In x l -> 0 <= f x) -> In a l -> f a <= sumN f l.
Proof.
  induction l as [|b t IH]; intros Hnn Hin; [destruct Hin|]. simpl. pose proof (Hnn b (or_introl eq_refl)).
  assert (0 <= sumN f t) by (apply sumN_nonneg; intros; apply Hnn; now right).
  destruct Hin as [<-|Hin]; [lia|]. assert (f a <= sumN f t) by (apply IH; [intros; apply Hnn; now right|exact Hin]). lia.
Qed.

Section M.
Variables (P : list (list nat)) (ws : list Z).
Let R := length P.
Let ids := seq 0 R.
Let N := cnet P ws.
Hypothesis PW : forall pi, (pi < R)%nat -> NoDup (nthl P pi) /\ forall rho, In rho (nthl P pi) -> (rho < R)%nat /\ rho <> pi.

Lemma aget_src l v : NoDup l -> aget (src_adj ws l) v =
  match (if in_dec Z.eq_dec v (map Z.of_nat l) then Some (Z.to_nat v) else None) with Some pi => negp ws pi | None => 0 end.
Proof.
  induction 1 as [|x t Hx Hnd IH]; simpl; [reflexivity|]. unfold src_adj in *. simpl flat_map.
  rewrite aget_app. destruct (wt ws x <? 0) eqn:Ew; simpl.
  - destruct (Z.eq_dec (Z.of_nat x) v) as [E|E].
    + subst v. destruct (Z.eq_dec (Z.of_nat x) (Z.of_nat x)); [|congruence]. rewrite Z.eqb_refl. rewrite Nat2Z.id. unfold negp. rewrite Ew. reflexivity.
    + destruct (Z.eq_dec (Z.of_nat x) v); [congruence|]. rewrite IH. destruct (in_dec Z.eq_dec v (map Z.of_nat t)); reflexivity.
  - rewrite IH. destruct (Z.eq_dec (Z.of_nat x) v) as [E|E].
    + subst v. destruct (in_dec Z.eq_dec (Z.of_nat x) (map Z.of_nat t)) as [Hin|_]; [apply in_map_ofnat in Hin; contradiction|].
      rewrite Nat2Z.id. unfold negp. rewrite Ew. reflexivity.
    + destruct (in_dec Z.eq_dec v (map Z.of_nat t)); reflexivity.
Qed.

Lemma keys_N : keys N = -1 :: -2 :: map Z.of_nat ids.
Proof. unfold N, cnet, keys. simpl. f_equal. f_equal. rewrite map_map. reflexivity. Qed.
Lemma look_s : lookup N (-1) = src_adj ws ids. Proof. reflexivity. Qed.
Lemma look_t : lookup N (-2) = []. Proof. reflexivity. Qed.
Lemma look_node pi : (pi < R)%nat -> lookup N (Z.of_nat pi) = node_adj P ws pi.
Proof.
  intros H. unfold N, cnet. fold R. fold ids.
  change (lookup ((-1, src_adj ws ids) :: (-2, []) :: map (fun pi0 => (Z.of_nat pi0, node_adj P ws pi0)) ids) (Z.of_nat pi))
    with (if -1 =? Z.of_nat pi then src_adj ws ids else if -2 =? Z.of_nat pi then [] else lookup (map (fun pi0 => (Z.of_nat pi0, node_adj P ws pi0)) ids) (Z.of_nat pi)).
  assert (E1 : (-1 =? Z.of_nat pi) = false) by (apply Z.eqb_neq; lia).
  assert (E2 : (-2 =? Z.of_nat pi) = false) by (apply Z.eqb_neq; lia). rewrite E1, E2.
  assert (G : forall s k, (s <= pi < s + k)%nat -> lookup (map (fun pi0 => (Z.of_nat pi0, node_adj P ws pi0)) (seq s k)) (Z.of_nat pi) = node_adj P ws pi).
  { intros s k. revert s. induction k as [|k IH]; intros s Hr; [lia|]. simpl. destruct (Z.of_nat s =? Z.of_nat pi) eqn:E.
    - apply Z.eqb_eq, Nat2Z.inj in E. subst. reflexivity.
    - apply Z.eqb_neq in E. apply IH. assert (s <> pi) by (intros ->; apply E; reflexivity). lia. }
  apply G. unfold ids. lia.
Qed.

Lemma cf_s_node pi : (pi < R)%nat -> cf N (-1) (Z.of_nat pi) = negp ws pi.
Proof.
  intros H. unfold cf. rewrite look_s. rewrite (aget_src ids (Z.of_nat pi) (seq_NoDup R 0)).
  destruct (in_dec Z.eq_dec (Z.of_nat pi) (map Z.of_nat ids)) as [_|Hn]; [rewrite Nat2Z.id; reflexivity|].
  exfalso. apply Hn. apply in_map_ofnat. apply in_seq. lia.
Qed.
Lemma cf_s_neg v : v < 0 -> cf N (-1) v = 0.
Proof.
  intros H. unfold cf. rewrite look_s. rewrite (aget_src ids v (seq_NoDup R 0)).
  destruct (in_dec Z.eq_dec v (map Z.of_nat ids)) as [Hin|_]; [exfalso; exact (neg_not_ofnat v ids H Hin)|reflexivity].
Qed.
Lemma cf_t v : cf N (-2) v = 0. Proof. reflexivity. Qed.
Lemma cf_node_node pi rho : (pi < R)%nat -> cf N (Z.of_nat pi) (Z.of_nat rho) = if in_dec Nat.eq_dec rho (nthl P pi) then maxsize else 0.
Proof.
  intros H. unfold cf. rewrite look_node by exact H. unfold node_adj. rewrite aget_app, map_map. simpl.
  rewrite aget_const_map.
  destruct (in_dec Z.eq_dec (Z.of_nat rho) (map Z.of_nat (nthl P pi))) as [Hin|Hn].
  - apply in_map_ofnat in Hin. destruct (in_dec Nat.eq_dec rho (nthl P pi)); [reflexivity|contradiction].
  - destruct (in_dec Nat.eq_dec rho (nthl P pi)) as [Hin|_]; [exfalso; apply Hn, in_map_ofnat, Hin|].
    destruct (wt ws pi >? 0); [|reflexivity]. rewrite aget_single. assert (E : (-2 =? Z.of_nat rho) = false) by (apply Z.eqb_neq; lia). rewrite E. reflexivity.
Qed.
Lemma cf_node_t pi : (pi < R)%nat -> cf N (Z.of_nat pi) (-2) = posp ws pi.
Proof.
  intros H. unfold cf. rewrite look_node by exact H. unfold node_adj. rewrite aget_app, map_map. simpl.
  destruct (in_dec Z.eq_dec (-2) (map Z.of_nat (nthl P pi))) as [Hin|_]; [exfalso; exact (neg_not_ofnat (-2) _ ltac:(lia) Hin)|].
  unfold posp. destruct (wt ws pi >? 0); [rewrite aget_single, Z.eqb_refl; reflexivity|reflexivity].
Qed.
Lemma cf_node_s pi : (pi < R)%nat -> cf N (Z.of_nat pi) (-1) = 0.
Proof.
  intros H. unfold cf. rewrite look_node by exact H. unfold node_adj. rewrite aget_app, map_map. simpl.
  destruct (in_dec Z.eq_dec (-1) (map Z.of_nat (nthl P pi))) as [Hin|_]; [exfalso; exact (neg_not_ofnat (-1) _ ltac:(lia) Hin)|].
  destruct (wt ws pi >? 0); [rewrite aget_single; reflexivity|reflexivity].
Qed.

Lemma key_cases u : In u (keys N) <-> u = -1 \/ u = -2 \/ exists pi, (pi < R)%nat /\ u = Z.of_nat pi.
Proof.
  rewrite keys_N. simpl. rewrite in_map_iff. split.
  - intros [H|[H|[pi [E Hin]]]]; [left; lia|right; left; lia|]. right. right. exists pi. apply in_seq in Hin. split; [lia|congruence].
  - intros [->|[->|[pi [H ->]]]]; [now left|right; now left|]. right. right. exists pi. split; [reflexivity|apply in_seq; lia].
Qed.
Lemma lookup_nonkey u : ~ In u (keys N) -> lookup N u = [].
Proof.
  intros H. destruct (lookup N u) eqn:E; [reflexivity|]. exfalso. apply H. apply lookup_in_keys. rewrite E. discriminate.
Qed.
Lemma src_targets l : map fst (src_adj ws l) = map Z.of_nat (filter (fun pi => wt ws pi <? 0) l).
Proof. induction l as [|x t IH]; simpl; [reflexivity|]. unfold src_adj in *. simpl. destruct (wt ws x <? 0); simpl; [f_equal|]; exact IH. Qed.
Lemma node_targets pi : map fst (node_adj P ws pi) = map Z.of_nat (nthl P pi) ++ (if wt ws pi >? 0 then [-2] else []).
Proof. unfold node_adj. rewrite map_app, map_map. simpl. destruct (wt ws pi >? 0); reflexivity. Qed.
Lemma nodup_ofnat l : NoDup l -> NoDup (map Z.of_nat l).
Proof. induction 1 as [|x t Hx Hn IH]; simpl; constructor; [rewrite in_map_ofnat; exact Hx|exact IH]. Qed.
Lemma maxsize_pos : 0 < maxsize. Proof. unfold maxsize. lia. Qed.
Lemma negp_nonneg pi : 0 <= negp ws pi. Proof. unfold negp. destruct (Z.ltb_spec (wt ws pi) 0); lia. Qed.
Lemma posp_nonneg pi : 0 <= posp ws pi. Proof. unfold posp. destruct (Z.gtb_spec (wt ws pi) 0); lia. Qed.

Lemma N_wf : wf_in N.
Proof.
  split; [|split; [|split]].
  - rewrite keys_N. constructor; [simpl; intros [H|H]; [lia|exact (neg_not_ofnat (-1) ids ltac:(lia) H)]|].
    constructor; [exact (neg_not_ofnat (-2) ids ltac:(lia))|apply nodup_ofnat, seq_NoDup].
  - intros u. unfold targets. destruct (in_dec Z.eq_dec u (keys N)) as [Hk|Hk]; [|rewrite lookup_nonkey by exact Hk; constructor].
    apply key_cases in Hk. destruct Hk as [->|[->|[pi [Hpi ->]]]].
    + rewrite look_s, src_targets. apply nodup_ofnat, NoDup_filter, seq_NoDup.
    + rewrite look_t. constructor.
    + rewrite look_node by exact Hpi. rewrite node_targets. destruct (PW pi Hpi) as [Hnd _].
      destruct (wt ws pi >? 0); [|rewrite app_nil_r; apply nodup_ofnat, Hnd].
      apply nodup_app; [apply nodup_ofnat, Hnd|constructor; [intros []|constructor]|].
      intros x Hx [<-|[]]. exact (neg_not_ofnat (-2) _ ltac:(lia) Hx).
  - intros u v Hv. unfold targets in Hv. destruct (in_dec Z.eq_dec u (keys N)) as [Hk|Hk]; [|rewrite lookup_nonkey in Hv by exact Hk; destruct Hv].
    apply key_cases in Hk. destruct Hk as [->|[->|[pi [Hpi ->]]]].
    + rewrite look_s, src_targets in Hv. apply in_map_iff in Hv. destruct Hv as [x [<- Hx]]. apply filter_In in Hx. destruct Hx as [Hx _]. apply in_seq in Hx.
      split; [apply key_cases; right; right; exists x; split; [lia|reflexivity]|lia].
    + rewrite look_t in Hv. destruct Hv.
    + rewrite look_node in Hv by exact Hpi. rewrite node_targets in Hv. apply in_app_or in Hv. destruct (PW pi Hpi) as [_ Hin]. destruct Hv as [Hv|Hv].
      * apply in_map_iff in Hv. destruct Hv as [rho [<- Hr]]. destruct (Hin rho Hr) as [Hlt Hne].
        split; [apply key_cases; right; right; exists rho; split; [exact Hlt|reflexivity]|intros E; apply Nat2Z.inj in E; congruence].
      * destruct (wt ws pi >? 0); [|destruct Hv]. destruct Hv as [<-|[]]. split; [apply key_cases; right; now left|lia].
  - intros u v. unfold cf. destruct (in_dec Z.eq_dec u (keys N)) as [Hk|Hk]; [|rewrite lookup_nonkey by exact Hk; simpl; lia].
    apply key_cases in Hk. destruct Hk as [->|[->|[pi [Hpi ->]]]].
    + rewrite look_s, (aget_src ids v (seq_NoDup R 0)). destruct (in_dec Z.eq_dec v (map Z.of_nat ids)); [apply negp_nonneg|lia].
    + rewrite look_t. simpl. lia.
    + rewrite look_node by exact Hpi. unfold node_adj. rewrite aget_app, map_map. simpl. rewrite aget_const_map.
      destruct (in_dec Z.eq_dec v (map Z.of_nat (nthl P pi))); [pose proof maxsize_pos; lia|].
      destruct (Z.gtb_spec (wt ws pi) 0); [rewrite aget_single; destruct (-2 =? v); lia|simpl; lia].
Qed.

(* ---------- the capacity of a cut of the closure network ---------- *)
Section Cut.
Variable inR : Z -> bool.
Hypothesis Hs : inR (-1) = true.
Hypothesis Ht : inR (-2) = false.
Let keep (pi : nat) : bool := inR (Z.of_nat pi).
Let In_ := filter keep ids.
Let Out := filter (fun pi => negb (keep pi)) ids.
Definition edgecap (u v : nat) : Z := if in_dec Nat.eq_dec v (nthl P u) then maxsize else 0.
Definition Apart : Z := sumN (negp ws) Out.
Definition Bpart : Z := sumN (posp ws) In_.
Definition Cpart : Z := sumN (fun u => sumN (edgecap u) Out) In_.

Lemma in_ids pi : In pi ids <-> (pi < R)%nat.
Proof. unfold ids. rewrite in_seq. lia. Qed.

Lemma filt_in : filter inR (keys N) = -1 :: map Z.of_nat In_.
Proof.
  rewrite keys_N. rewrite (filter_map_ofnat inR ids) || idtac.
  change (filter inR (-1 :: -2 :: map Z.of_nat ids)) with
    (if inR (-1) then -1 :: (if inR (-2) then -2 :: filter inR (map Z.of_nat ids) else filter inR (map Z.of_nat ids))
     else (if inR (-2) then -2 :: filter inR (map Z.of_nat ids) else filter inR (map Z.of_nat ids))).
  rewrite Hs, Ht. rewrite filter_map_ofnat. reflexivity.
Qed.
Lemma filt_out : filter (fun x => negb (inR x)) (keys N) = -2 :: map Z.of_nat Out.
Proof.
  rewrite keys_N.
  change (filter (fun x => negb (inR x)) (-1 :: -2 :: map Z.of_nat ids)) with
    (if negb (inR (-1)) then -1 :: (if negb (inR (-2)) then -2 :: filter (fun x => negb (inR x)) (map Z.of_nat ids) else filter (fun x => negb (inR x)) (map Z.of_nat ids))
     else (if negb (inR (-2)) then -2 :: filter (fun x => negb (inR x)) (map Z.of_nat ids) else filter (fun x => negb (inR x)) (map Z.of_nat ids))).
  rewrite Hs, Ht. cbn [negb]. rewrite filter_map_ofnat. reflexivity.
Qed.
Lemma cutcap_formula : cutcap (cf N) (keys N) inR = Apart + Bpart + Cpart.
Proof.
  unfold cutcap. rewrite filt_in, filt_out.
  change (sumZ (fun u => sumZ (cf N u) (-2 :: map Z.of_nat Out)) (-1 :: map Z.of_nat In_))
    with (sumZ (cf N (-1)) (-2 :: map Z.of_nat Out) + sumZ (fun u => sumZ (cf N u) (-2 :: map Z.of_nat Out)) (map Z.of_nat In_)).
  change (sumZ (cf N (-1)) (-2 :: map Z.of_nat Out)) with (cf N (-1) (-2) + sumZ (cf N (-1)) (map Z.of_nat Out)).
  rewrite cf_s_neg by lia. rewrite !sumZ_map_ofnat.
  assert (EA : sumN (fun x => cf N (-1) (Z.of_nat x)) Out = Apart).
  { unfold Apart. apply sumN_ext. intros x Hx. apply filter_In in Hx. destruct Hx as [Hx _]. apply in_ids in Hx. apply cf_s_node; exact Hx. }
  rewrite EA.
  assert (EB : sumN (fun x => sumZ (cf N (Z.of_nat x)) (-2 :: map Z.of_nat Out)) In_ = Bpart + Cpart).
  { unfold Bpart, Cpart. rewrite <- sumN_add. apply sumN_ext. intros u Hu. apply filter_In in Hu. destruct Hu as [Hu _]. apply in_ids in Hu.
    change (sumZ (cf N (Z.of_nat u)) (-2 :: map Z.of_nat Out)) with (cf N (Z.of_nat u) (-2) + sumZ (cf N (Z.of_nat u)) (map Z.of_nat Out)).
    rewrite (cf_node_t u Hu). f_equal. rewrite sumZ_map_ofnat. apply sumN_ext. intros v _. apply (cf_node_node u v Hu). }
  rewrite EB. lia.
Qed.

Lemma Cpart_nonneg : 0 <= Cpart.
Proof.
  unfold Cpart. apply sumN_nonneg. intros u _. apply sumN_nonneg. intros v _. unfold edgecap. pose proof maxsize_pos. destruct (in_dec Nat.eq_dec v (nthl P u)); lia.
Qed.
Lemma Apart_nonneg : 0 <= Apart. Proof. unfold Apart. apply sumN_nonneg. intros; apply negp_nonneg. Qed.
Lemma Bpart_nonneg : 0 <= Bpart. Proof. unfold Bpart. apply sumN_nonneg. intros; apply posp_nonneg. Qed.

(* a cut cheaper than one "infinite" arc is closed under successors *)
Lemma cheap_cut_closed : cutcap (cf N) (keys N) inR < maxsize ->
  forall u v, (u < R)%nat -> keep u = true -> In v (nthl P u) -> keep v = true.
Proof.
  intros Hc u v Hu Hk Hv. rewrite cutcap_formula in Hc. pose proof Apart_nonneg. pose proof Bpart_nonneg.
  destruct (keep v) eqn:Ev; [reflexivity|exfalso].
  destruct (PW u Hu) as [_ Hin]. destruct (Hin v Hv) as [HvR _].
  assert (HuIn : In u In_) by (apply filter_In; split; [apply in_ids; exact Hu|exact Hk]).
  assert (HvOut : In v Out) by (apply filter_In; split; [apply in_ids; exact HvR|rewrite Ev; reflexivity]).
  assert (H1 : edgecap u v <= sumN (edgecap u) Out).
  { apply sumN_ge_term; [|exact HvOut]. intros x _. unfold edgecap. pose proof maxsize_pos. destruct (in_dec Nat.eq_dec x (nthl P u)); lia. }
  assert (H2 : sumN (edgecap u) Out <= Cpart).
  { unfold Cpart. apply (sumN_ge_term (fun u0 => sumN (edgecap u0) Out) In_ u); [|exact HuIn].
    intros x _. apply sumN_nonneg. intros y _. unfold edgecap. pose proof maxsize_pos. destruct (in_dec Nat.eq_dec y (nthl P x)); lia. }
  assert (E : edgecap u v = maxsize) by (unfold edgecap; destruct (in_dec Nat.eq_dec v (nthl P u)); [reflexivity|contradiction]).
  lia.
Qed.

(* for a successor-closed cut the capacity is (negative weight outside) + (positive weight inside) *)
Lemma closed_cut_cap : (forall u v, (u < R)%nat -> keep u = true -> In v (nthl P u) -> keep v = true) ->
  cutcap (cf N) (keys N) inR = Apart + Bpart.
Proof.
  intros Hcl. rewrite cutcap_formula. assert (Cpart = 0); [|lia].
  unfold Cpart. rewrite (sumN_ext _ (fun _ => 0)); [clear; induction In_; simpl; lia|].
  intros u Hu. apply filter_In in Hu. destruct Hu as [Hu Hk]. apply in_ids in Hu.
  rewrite (sumN_ext _ (fun _ => 0)); [clear; induction Out; simpl; lia|].
  intros v Hv. apply filter_In in Hv. destruct Hv as [_ Hkv]. unfold edgecap.
  destruct (in_dec Nat.eq_dec v (nthl P u)) as [Hin|_]; [|reflexivity]. rewrite (Hcl u v Hu Hk Hin) in Hkv. discriminate.
Qed.
End Cut.
End M.
Print Assumptions cheap_cut_closed.
Print Assumptions closed_cut_cap.
