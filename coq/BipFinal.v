From Coq Require Import ZArith List Bool Lia.
Import ListNotations.
Require Import FlowModel FlowProof FlowInit BipModel BipProof.
Local Open Scope Z_scope.

Definition wfb (G : bgraph) (X Y : list Z) : Prop :=
  NoDup X /\ NoDup Y /\ (forall x, In x X -> ~ In x Y) /\ (~ In (-1) X /\ ~ In (-1) Y) /\ (~ In (-2) X /\ ~ In (-2) Y) /\
  (forall x, In x X -> NoDup (adj G x) /\ incl (adj G x) Y).
Definition matching (G : bgraph) (X : list Z) (M : list (Z * Z)) : Prop :=
  (forall p, In p M -> In (fst p) X /\ In (snd p) (adj G (fst p))) /\ NoDup (map fst M) /\ NoDup (map snd M).

(* C09 for the model: the set read off the maximum flow is a matching of maximum size *)
Theorem C09_max_matching G X Y fuel M : wfb G X Y -> max_matching fuel G X Y = Some M ->
  matching G X M /\ forall M', matching G X M' -> (length M' <= length M)%nat.
Proof.
  intros [HX [HY [Hd [H1 [H2 Ha]]]]] Hm. unfold max_matching in Hm.
  set (N := net G X Y) in *.
  pose proof (N_wf G X Y HX HY Hd H1 H2 Ha) as Hwf. fold N in Hwf.
  destruct (ff_loop fuel (init N) (-1) (-2)) as [[Gf fl]|] eqn:El; [|discriminate]. injection Hm as <-.
  pose proof (init_FInv N (-1) (-2) Hwf) as F0. destruct (init N) as [Gf0 fl0] eqn:Ei. cbn [fst snd] in F0.
  pose proof Hwf as [HKn _].
  destruct (ff_loop_inv N (-1) (-2) HKn ltac:(lia) fuel Gf0 fl0 Gf fl F0 El) as [F [_ [vis' Hdfs]]].
  assert (Hs : In (-1) (keys N)) by (unfold N; rewrite (in_keys_N G X Y); tauto).
  destruct (final_dfs_cut N (-1) (-2) Gf fl vis' _ HKn Hs F Hdfs) as [_ [_ [_ Hmax]]].
  pose proof (f_p _ _ _ _ _ F) as P.
  set (phi := fun a b => fget fl (a, b)).
  assert (Pskew : forall a b, phi a b = - phi b a) by (intros; apply (p_skew _ _ _ P)).
  assert (Pcap : forall a b, phi a b <= cf N a b) by (intros a b; unfold phi; pose proof (p_cf _ _ _ P a b); pose proof (p_nn _ _ _ P a b); lia).
  assert (Pcons : forall a, In a (keys N) -> a <> -1 -> a <> -2 -> sumZ (phi a) (keys N) = 0) by (intros a Hk A1 A2; apply (f_cons _ _ _ _ _ F a Hk A1 A2)).
  assert (Eread : read_off G X fl = readP G X phi) by reflexivity.
  rewrite Eread. subst N. split.
  - split; [|split].
    + intros p Hp. assert (Hq : In (fst p) X /\ In (snd p) (adj G (fst p)) /\ phi (fst p) (snd p) = 1) by (apply (readP_in G X Y HY Hd H1 H2 Ha phi Pskew Pcap Pcons p Hp)). tauto.
    + apply (readP_fst_nodup G X Y HX HY Hd H1 H2 Ha phi Pskew Pcap Pcons).
    + apply (readP_snd_nodup G X Y HX HY Hd H1 H2 Ha phi Pskew Pcap Pcons).
  - intros M' [Me [Mf Ms]].
    assert (Hg : feasible (net G X Y) (-1) (-2) (gM M')) by (apply (gM_feasible G X Y HX HY Hd H1 H2 Ha M' Me Mf Ms)).
    assert (Hv : sumZ (gM M' (-1)) (keys (net G X Y)) = Z.of_nat (length M')) by (apply (gM_value G X Y HX HY Hd H1 H2 Ha M' Me Mf Ms)).
    pose proof (Hmax _ Hg) as Hle. rewrite Hv in Hle.
    assert (Hval : sumZ (phi (-1)) (keys (net G X Y)) = sumZ (phi (-1)) X) by (apply (value_is_sX G X Y Hd H1 H2 phi Pskew Pcap)).
    assert (Hlen : Z.of_nat (length (readP G X phi)) = sumZ (phi (-1)) X) by (apply (readP_len G X Y HY Hd H1 H2 Ha phi Pskew Pcap Pcons)).
    unfold value, excess in Hle.
    change (sumZ (fun y => fget fl (-1, y)) (keys (net G X Y))) with (sumZ (phi (-1)) (keys (net G X Y))) in Hle. lia.
Qed.
Print Assumptions C09_max_matching.
