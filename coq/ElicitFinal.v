(* C14 at rule level: simulated profile computed by running the threshold rules (k-ARV, lambda-TSF, two-sided
   lambda-TSF) against a truthful memoising elicitor. *)
From Coq Require Import Arith ZArith QArith List Bool Lia Lqa Permutation.
Import ListNotations.
From SCK Require Import Argsort StrictB GSInst ElicitM ElicitRun ElicitEval ElicitBS ElicitRules ElicitSpec ElicitSpecProof.
Local Open Scope Z_scope.

Definition keys_of (row : list Z) : list okey := map (fun r => Some (Z.to_nat (r - 1))) row.
(* a strict complete row of 1-based ranks: every entry >= 1 and the 0-based keys are exactly 0..m-1, each once *)
Definition strict_rowb (row : list Z) : bool :=
  forallb (fun r => 1 <=? r) row && denseb (keys_of row) && (kcount (keys_of row) =? length row)%nat.

Section Row.
Variable row : list Z.
Hypothesis Hrow : strict_rowb row = true.
Let m := length row.

Lemma row_facts : (forall r, In r row -> 1 <= r) /\ dense (keys_of row) m.
Proof.
  unfold strict_rowb in Hrow. apply andb_prop in Hrow as [H H3]. apply andb_prop in H as [H1 H2].
  split; [intros r Hr; rewrite forallb_forall in H1; specialize (H1 r Hr); apply Z.leb_le in H1; exact H1|].
  apply Nat.eqb_eq in H3. unfold m. rewrite <- H3. apply denseb_sound. exact H2.
Qed.

Lemma rank_list_length : length (rank_list row) = m.
Proof. unfold rank_list. rewrite map_length, argsort_length. unfold m. apply map_length. Qed.
Lemma rank_list_nodup : NoDup (rank_list row).
Proof.
  unfold rank_list. apply FinFun.Injective_map_NoDup; [intros a b H; lia|]. apply argsort_nodup.
Qed.
Lemma rank_list_range e : In e (rank_list row) -> 0 <= e < Z.of_nat m.
Proof.
  unfold rank_list. intros H. apply in_map_iff in H as [x [<- Hx]]. apply argsort_lt in Hx. unfold m. rewrite map_length in Hx. lia.
Qed.
(* position q of the ranking holds the alternative whose rank is q+1 *)
Lemma rank_list_spec q : (q < m)%nat ->
  exists j, rkat (rank_list row) (Z.of_nat q) = Z.of_nat j /\ (j < m)%nat /\ nth j row 0 = Z.of_nat q + 1.
Proof.
  intros Hq. destruct row_facts as [Hpos Hd]. destruct (argsort_dense _ _ Hd) as [Hlow _].
  destruct (Hlow q Hq) as [j [Hn Hj]]. exists j. unfold rkat, rank_list. rewrite Nat2Z.id.
  assert (Hjm : (j < m)%nat).
  { assert (nth_error (keys_of row) j <> None) by congruence. apply nth_error_Some in H. unfold keys_of in H. rewrite map_length in H. exact H. }
  split.
  - rewrite (nth_indep _ 0 (Z.of_nat 0)) by (rewrite map_length, argsort_length; unfold keys_of; rewrite map_length; exact Hq).
    rewrite map_nth. f_equal. apply nth_error_nth. exact Hn.
  - split; [exact Hjm|]. unfold keys_of in Hj. rewrite nth_error_map in Hj.
    destruct (nth_error row j) as [r|] eqn:Er; [|discriminate]. cbn in Hj. injection Hj as Hj.
    rewrite (nth_error_nth row j 0 Er). assert (1 <= r) by (apply Hpos; eapply nth_error_In; exact Er). lia.
Qed.
End Row.

(* ---------- the rule ---------- *)
Section Rule.
Variables (fixer : Z) (V : key -> Q) (P : list (list Z)) (k : nat) (tau : list (list Q)) (byq : bool) (init : Q).
Let n := length P.
Let m := length (nth 0 P []).
Definition Vat (i j : nat) : Q := V (Z.of_nat i + fixer, Z.of_nat j + fixer).

Hypothesis Hm : (1 <= m)%nat.
Hypothesis Hrows : forall row, In row P -> length row = m /\ strict_rowb row = true.
(* the valuation is consistent with the profile: a better rank never has a smaller value *)
Hypothesis Hcons : forall i j j', (i < n)%nat -> (j < m)%nat -> (j' < m)%nat ->
  nth j (nth i P []) 0 <= nth j' (nth i P []) 0 -> (Vat i j' <= Vat i j)%Q.
Hypothesis Htau : forall i l, (i < n)%nat -> (1 <= l)%nat -> (l < k)%nat -> (tauof tau i (S l) <= tauof tau i l)%Q.

Definition sim : list (list Q) := fst (run true fixer V (thr_rule P k tau byq init) einit).

Lemma sim_is_pure : sim = map (fun i => agent_final fixer V (rank_list (nth i P [])) i (Z.of_nat m) (tauof tau i) byq init k) (seq 0 n).
Proof.
  unfold sim. pose proof (run_eval fixer V (thr_rule P k tau byq init) einit (memo_inv_init V)) as [He _]. rewrite He.
  unfold thr_rule. fold n. fold m. rewrite thr_rule_pure. apply map_ext_in. intros i Hi. apply in_seq in Hi.
  change (@nil Z) with (rank_list []). rewrite map_nth. reflexivity.
Qed.

Section OneAgent.
Variable i : nat.
Hypothesis Hi : (i < n)%nat.
Let row := nth i P [].
Let rk := rank_list row.
Lemma row_ok : length row = m /\ strict_rowb row = true.
Proof. apply Hrows. apply nth_In. exact Hi. Qed.

Lemma agent_mono p q : 0 <= p -> p <= q -> q < Z.of_nat m -> (valp fixer V rk i q <= valp fixer V rk i p)%Q.
Proof.
  intros Hp Hpq Hq. destruct row_ok as [Hlen Hs].
  destruct (rank_list_spec row Hs (Z.to_nat p) ltac:(rewrite Hlen; lia)) as [a [Ea [Ha Ra]]].
  destruct (rank_list_spec row Hs (Z.to_nat q) ltac:(rewrite Hlen; lia)) as [b [Eb [Hb Rb]]].
  rewrite Z2Nat.id in Ea, Ra by lia. rewrite Z2Nat.id in Eb, Rb by lia.
  unfold valp. fold rk in Ea, Eb. rewrite Ea, Eb. rewrite Hlen in Ha, Hb.
  apply (Hcons i a b Hi Ha Hb). fold row. lia.
Qed.

(* simulated row of agent i *)
Definition srow : list Q := nth i sim [].
Lemma srow_eq : srow = agent_final fixer V rk i (Z.of_nat m) (tauof tau i) byq init k.
Proof. unfold srow. rewrite sim_is_pure. rewrite (nth_map_seq _ n i []) by exact Hi. reflexivity. Qed.

Let HmZ : 1 <= Z.of_nat m. Proof. lia. Qed.
Let Hlen : length rk = Z.to_nat (Z.of_nat m). Proof. unfold rk. rewrite rank_list_length, Nat2Z.id. apply row_ok. Qed.
Let Hnd : NoDup rk. Proof. apply rank_list_nodup. Qed.
Let Hrg : forall e, In e rk -> 0 <= e < Z.of_nat m.
Proof. intros e He. apply rank_list_range in He. destruct row_ok as [L _]. rewrite L in He. exact He. Qed.
Let Htaui : forall l, (1 <= l)%nat -> (l < k)%nat -> (tauof tau i (S l) <= tauof tau i l)%Q.
Proof. intros l. apply Htau. exact Hi. Qed.

(* the favourite (rank 1) gets its true value *)
Theorem C14_favourite_exact j : (j < m)%nat -> nth j row 0 = 1 -> nth j srow 0%Q = Vat i j.
Proof.
  intros Hj Hr. destruct row_ok as [Hl Hs].
  destruct (rank_list_spec row Hs 0%nat ltac:(rewrite Hl; lia)) as [a [Ea [Ha Ra]]]. cbn in Ea, Ra.
  assert (a = j).
  { destruct (row_facts row Hs) as [_ [_ [_ Huniq]]]. apply (Huniq a j 0%nat); unfold keys_of; rewrite nth_error_map.
    - rewrite (nth_error_nth' row 0) by exact Ha. cbn. rewrite Ra. reflexivity.
    - rewrite (nth_error_nth' row 0) by (rewrite Hl; exact Hj). cbn. rewrite Hr. reflexivity. }
  subst a. rewrite srow_eq.
  pose proof (sim_favourite fixer V rk i (Z.of_nat m) (tauof tau i) byq init k HmZ Hlen Hnd Hrg agent_mono Htaui) as F.
  unfold idx in F. fold rk in Ea. rewrite Ea, Nat2Z.id in F. rewrite F. unfold valp. rewrite Ea. reflexivity.
Qed.

(* every other alternative j (rank r >= 2, i.e. position q = r-1 >= 1 of the ranking) *)
Theorem C14_sets j : (j < m)%nat -> (1 <= k)%nat -> let q := nth j row 0 - 1 in 1 <= q ->
  let pst := ps fixer V rk i (Z.of_nat m) (tauof tau i) in
  (exists l, (1 <= l)%nat /\ (l <= k)%nat /\ q <= pst l /\ (forall l', (1 <= l')%nat -> (l' < l)%nat -> pst l' < q) /\
             (tauof tau i l <= Vat i j)%Q /\ (nth j srow 0%Q <= Vat i j)%Q /\
             (byq = false -> nth j srow 0%Q = tauof tau i l) /\
             (byq = true -> nth j srow 0%Q = valp fixer V rk i (pst l) /\ forall q', 1 <= q' -> q' <= pst l -> (valp fixer V rk i (pst l) <= valp fixer V rk i q')%Q) /\
             (forall l', (1 <= l')%nat -> (l' < l)%nat -> (Vat i j < tauof tau i l')%Q)) \/
  (pst k < q /\ nth j srow 0%Q = init /\ (Vat i j < tauof tau i k)%Q).
Proof.
  intros Hj Hk q Hq pst. destruct row_ok as [Hl Hs].
  assert (Hqm : q < Z.of_nat m).
  { destruct (row_facts row Hs) as [_ [Hlt _]]. assert (E : nth_error (keys_of row) j = Some (Some (Z.to_nat (nth j row 0 - 1)))).
    { unfold keys_of. rewrite nth_error_map, (nth_error_nth' row 0) by (rewrite Hl; exact Hj). reflexivity. }
    specialize (Hlt _ _ E). rewrite Hl in Hlt. unfold q. lia. }
  destruct (rank_list_spec row Hs (Z.to_nat q) ltac:(rewrite Hl; lia)) as [a [Ea [Ha Ra]]]. rewrite Z2Nat.id in Ea, Ra by lia.
  assert (a = j).
  { destruct (row_facts row Hs) as [_ [_ [_ Huniq]]]. apply (Huniq a j (Z.to_nat q)); unfold keys_of; rewrite nth_error_map.
    - rewrite (nth_error_nth' row 0) by exact Ha. cbn. rewrite Ra. f_equal. f_equal. lia.
    - rewrite (nth_error_nth' row 0) by (rewrite Hl; exact Hj). cbn. reflexivity. }
  subst a. fold rk in Ea.
  assert (Eidx : idx rk q = j) by (unfold idx; rewrite Ea; apply Nat2Z.id).
  assert (Eval : valp fixer V rk i q = Vat i j) by (unfold valp, Vat; rewrite Ea; reflexivity).
  rewrite srow_eq.
  destruct (sim_sets fixer V rk i (Z.of_nat m) (tauof tau i) byq init k HmZ Hlen Hnd Hrg agent_mono Htaui q Hq Hqm Hk) as [[l [A [B [C [D [E [F [G [H H']]]]]]]]]|[A [B C]]].
  - left. exists l. rewrite Eidx in E. rewrite Eval in F, G. split; [exact A|]. split; [exact B|]. split; [exact C|]. split; [exact D|].
    split; [exact F|]. split; [rewrite E; exact G|]. split; [|split].
    + intros Hb. rewrite E. unfold vlev. rewrite Hb. reflexivity.
    + intros Hb. rewrite E. exact (H Hb).
    + intros l' L1 L2. rewrite <- Eval. exact (H' l' L1 L2).
  - right. rewrite Eidx in B. rewrite Eval in C. split; [exact A|]. split; [exact B|exact C].
Qed.
End OneAgent.
End Rule.
