(* Two-sided lambda-TSF (elicitation_matching.py): simulated integer profiles of both sides handed to the
   optimal-stable-matching rule together with the true ordinal profiles. *)
From Coq Require Import Arith ZArith QArith Qround List Bool.
Import ListNotations.
From SCK Require Import ElicitM ElicitRun ElicitEval ElicitRules Irving IrvProof StrictB StableCheck.

Definition toZm (M : list (list Q)) : list (list Z) := map (map Qfloor) M.     (* v_tilde.astype(int) *)
Definition to1 (P : list (list nat)) : list (list Z) := map (map (fun r => Z.of_nat (S r))) P.   (* 0-based ranks -> the 1-based profile *)

(* the simulated profile of one side: pure evaluation of the query program (C14_run_is_pure_evaluation) *)
Definition sim_side (fixer : Z) (V : key -> Q) (P : list (list nat)) (k : nat) (tau : list (list Q)) : list (list Z) :=
  toZm (eval fixer V (thr_rule (to1 P) k tau true 0%Q)).

Definition double_tsf (fixer : Z) (Va Vb : key -> Q) (P1 P2 : list (list nat)) (k1 k2 : nat) (tau1 tau2 : list (list Q)) (ff : nat) : option trace :=
  irving P1 P2 (sim_side fixer Va P1 k1 tau1) (sim_side fixer Vb P2 k2 tau2) ff.

(* every C03 statement about the Irving model applies with the simulated valuations *)
Theorem double_tsf_is_irving_on_sim fixer Va Vb P1 P2 k1 k2 tau1 tau2 ff :
  double_tsf fixer Va Vb P1 P2 k1 k2 tau1 tau2 ff =
  irving P1 P2 (sim_side fixer Va P1 k1 tau1) (sim_side fixer Vb P2 k2 tau2) ff.
Proof. reflexivity. Qed.

From SCK Require Import DA GSInst GSFinal Mwcs MwcsProof MwcsOpt FlowModel.
Theorem C17_start fixer Va Vb P1 P2 k1 k2 tau1 tau2 ff t :
  strictb (tok P1) (length P1) = true -> strictb (tok P2) (length P1) = true -> length P2 = length P1 ->
  double_tsf fixer Va Vb P1 P2 k1 k2 tau1 tau2 ff = Some t ->
  stableM (i_pl (tok P1)) (i_rkH (tok P2)) (fun _ => 1%nat) (fun _ => 1%nat) (seq 0 (length P2)) (mu_of_hospital (t_M0 t)).
Proof. intros H1 H2 H3 H. exact (proj1 (irving_start_stable P1 P2 _ _ ff t H1 H2 H3 H)). Qed.
Theorem C17_closed fixer Va Vb P1 P2 k1 k2 tau1 tau2 ff t :
  double_tsf fixer Va Vb P1 P2 k1 k2 tau1 tau2 ff = Some t ->
  poset_okb (t_P t) = true -> (sumN (negp (t_ws t)) (seq 0 (length (t_P t))) < maxsize)%Z ->
  let c1 := fun pi => Mwcs.memn pi (t_S t) in
  pred_closed (t_P t) c1 /\ forall c, pred_closed (t_P t) c -> (W (t_P t) (t_ws t) c <= W (t_P t) (t_ws t) c1)%Z.
Proof. exact (irving_closed_subset_optimal P1 P2 _ _ ff t). Qed.

From Coq Require Import Permutation.
From SCK Require Import IrvRot.
Theorem C17_final_value fixer Va Vb P1 P2 k1 k2 tau1 tau2 ff t :
  double_tsf fixer Va Vb P1 P2 k1 k2 tau1 tau2 ff = Some t ->
  perfectb (t_M0 t) = true -> exposed_allb (t_M0 t) (map (fun i => nth i (t_rots t) []) (t_S t)) = true ->
  exists M', t_out t = Some M' /\ map fst M' = map fst (t_M0 t) /\ Permutation (map snd M') (map snd (t_M0 t)) /\
    pvalue (sim_side fixer Va P1 k1 tau1) (sim_side fixer Vb P2 k2 tau2) M' =
    (pvalue (sim_side fixer Va P1 k1 tau1) (sim_side fixer Vb P2 k2 tau2) (t_M0 t) + zsum (fun i => nth i (t_ws t) 0%Z) (t_S t))%Z.
Proof. exact (irving_elimination_sound P1 P2 _ _ ff t). Qed.

From SCK Require Import IrvStable IrvBridge.
Theorem C17_final_stable fixer Va Vb P1 P2 k1 k2 tau1 tau2 ff t : let n := length P1 in
  double_tsf fixer Va Vb P1 P2 k1 k2 tau1 tau2 ff = Some t ->
  perfect_b n (map fst (t_M0 t)) = true -> perfect_b n (map snd (t_M0 t)) = true ->
  pstableb P1 P2 (t_M0 t) = true -> strict_onb P1 (t_M0 t) = true ->
  exposed_full_allb P1 P2 (t_M0 t) (map (fun i => nth i (t_rots t) []) (t_S t)) = true ->
  exists M', t_out t = Some M' /\ stable P1 P2 n (wives n M').
Proof. exact (irving_final_stable_wives P1 P2 _ _ ff t). Qed.
