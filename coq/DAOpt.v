From Coq Require Import Arith List Bool Lia.
Import ListNotations.
Require Import DA.

Section Opt.
Variable pl : nat -> list nat.
Variable rk : nat -> nat -> option nat.
Variable qP qR : nat -> nat.
Variable Rs : list nat.
Hypothesis pl_nodup : forall p, NoDup (pl p).
Hypothesis pl_univ : forall p r, In r (pl p) -> In r Rs.
Hypothesis Rs_nodup : NoDup Rs.
Hypothesis rk_inj : forall r p p' k, rk r p = Some k -> rk r p' = Some k -> p = p'.

Variable s : state.
Hypothesis HF : invF pl rk qR s.
Hypothesis HR : invR pl rk qR s.
Hypothesis HQ : invQ qP Rs s.
Hypothesis HA : invA pl rk qP qR Rs s.
Hypothesis HT : terminal pl qP Rs s.

Lemma in_prefix_or_after p a b : In a (prefix pl s p) -> In b (pl p) -> ~ In b (prefix pl s p) -> before (pl p) a b.
Proof.
  unfold prefix. intros Ha Hb Hnb. destruct (in_firstn_nth _ _ _ Ha) as [i [Hi Hia]].
  destruct (In_nth_error _ _ Hb) as [j Hj]. exists i, j. split; [|split; assumption].
  destruct (Nat.lt_ge_cases j (nxt s p)) as [Hlt|Hge]; [|lia].
  exfalso. apply Hnb. eapply nth_in_firstn; eauto.
Qed.

(* proposers with quota 1: every proposer ends with a partner at least as good as in any stable matching *)
Theorem proposer_optimal : (forall p, qP p = 1) ->
  forall mu, stableM pl rk qP qR Rs mu -> forall p r, In p (mu r) ->
  exists r', In p (held s r') /\ (r' = r \/ before (pl p) r' r).
Proof.
  intros Hq1 mu Hst p r Hmu. pose proof Hst as [[HfR _] _].
  destruct (HfR r) as [_ [_ Hacc]]. destruct (Hacc p Hmu) as [Hrk Hin].
  destruct (in_dec Nat.eq_dec r (prefix pl s p)) as [Hpre|Hnpre].
  - exists r. split; [apply (HA mu Hst p r Hpre Hmu)|now left].
  - destruct (HT p) as [Hfull|Hex].
    + rewrite Hq1 in Hfull. destruct (engs Rs s p) as [|r' t] eqn:E; [simpl in Hfull; lia|].
      assert (Hr' : In r' (engs Rs s p)) by (rewrite E; now left).
      unfold engs in Hr'. apply filter_In in Hr'. destruct Hr' as [_ Hm].
      assert (Hheld : In p (held s r')).
      { unfold memb in Hm. apply existsb_exists in Hm. destruct Hm as [y [Hy Ey]]. apply Nat.eqb_eq in Ey. subst. exact Hy. }
      exists r'. split; [exact Hheld|]. right.
      destruct (HF r') as [_ [_ Hm']]. destruct (Hm' p Hheld) as [_ Hpre'].
      apply in_prefix_or_after; assumption.
    + exfalso. apply Hnpre. unfold prefix. rewrite firstn_all2 by lia. exact Hin.
Qed.

Lemma better_dec r a b : {better rk r a b} + {~ better rk r a b}.
Proof. unfold better. destruct (rk r a), (rk r b); try (right; tauto). destruct (lt_dec n n0); [left|right]; assumption. Qed.
Lemma better_total r a b : rk r a <> None -> rk r b <> None -> a <> b -> better rk r a b \/ better rk r b a.
Proof.
  unfold better. intros Ha Hb Hne. destruct (rk r a) as [x|] eqn:Ea; [|congruence]. destruct (rk r b) as [y|] eqn:Eb; [|congruence].
  destruct (Nat.lt_trichotomy x y) as [H|[H|H]]; [now left| |now right]. subst. exfalso. apply Hne. eapply rk_inj; eauto.
Qed.
Lemma memb_In2 x l : memb x l = true <-> In x l.
Proof.
  unfold memb. rewrite existsb_exists. split.
  - intros [y [Hy E]]. apply Nat.eqb_eq in E. subst. exact Hy.
  - intros H. exists x. split; [exact H|apply Nat.eqb_refl].
Qed.

(* receivers with quota 1: every receiver ends with a partner at most as good as in any stable matching
   (and is matched in every stable matching if it is matched at the end) *)
Theorem receiver_pessimal : (forall r, qR r = 1) ->
  forall mu, stableM pl rk qP qR Rs mu -> forall r h, In r Rs -> In h (held s r) ->
  exists h', In h' (mu r) /\ (h' = h \/ better rk r h' h).
Proof.
  intros Hq1 mu Hst r h HrRs Hheld. pose proof Hst as [[HfR HfP] Hnb].
  destruct (Exists_dec (fun h' => h' = h \/ better rk r h' h) (mu r)) as [Hex|Hnex].
  { intros h'. destruct (Nat.eq_dec h' h); [left; now left|]. destruct (better_dec r h' h); [left; now right|right; tauto]. }
  { apply Exists_exists in Hex. exact Hex. }
  exfalso. rewrite Exists_exists in Hnex.
  destruct (HF r) as [_ [_ Hm]]. destruct (Hm h Hheld) as [Hrk Hpre].
  apply (Hnb h r). split; [eapply prefix_in_pl; exact Hpre|]. split; [exact Hrk|]. split.
  { intros Hin. apply Hnex. exists h. split; [exact Hin|now left]. }
  split.
  - (* h wants r under mu *)
    destruct (Forall_Exists_dec (fun r'' => In r'' (prefix pl s h)) (fun r'' => in_dec Nat.eq_dec r'' (prefix pl s h)) (engsM Rs mu h)) as [Hall|Hex].
    + left. rewrite Forall_forall in Hall.
      assert (Hincl : incl (r :: engsM Rs mu h) (engs Rs s h)).
      { intros x [<-|Hx].
        - unfold engs. apply filter_In. split; [exact HrRs|apply memb_In2; exact Hheld].
        - pose proof (Hall x Hx) as Hxp. unfold engsM in Hx. apply filter_In in Hx. destruct Hx as [HxRs Hxm]. apply memb_In2 in Hxm.
          unfold engs. apply filter_In. split; [exact HxRs|]. apply memb_In2. apply (HA mu Hst h x Hxp Hxm). }
      assert (Hnd : NoDup (r :: engsM Rs mu h)).
      { constructor; [|apply NoDup_filter; exact Rs_nodup]. intros Hin. unfold engsM in Hin. apply filter_In in Hin. destruct Hin as [_ Hin]. apply memb_In2 in Hin.
        apply Hnex. exists h. split; [exact Hin|now left]. }
      pose proof (NoDup_incl_length Hnd Hincl). specialize (HQ h). simpl in *. lia.
    + right. apply Exists_exists in Hex. destruct Hex as [r'' [Hr'' Hnpre]].
      unfold engsM in Hr''. apply filter_In in Hr''. destruct Hr'' as [_ Hm'']. apply memb_In2 in Hm''.
      exists r''. split; [exact Hm''|]. destruct (HfR r'') as [_ [_ Hacc]]. destruct (Hacc h Hm'') as [_ Hin''].
      apply in_prefix_or_after; assumption.
  - (* r wants h under mu *)
    destruct (mu r) as [|h' t] eqn:Emu.
    + left. rewrite Hq1. simpl. lia.
    + right. exists h'. split; [now left|].
      destruct (HfR r) as [_ [_ Hacc]]. rewrite Emu in Hacc. destruct (Hacc h' (or_introl eq_refl)) as [Hrk' _].
      assert (Hne : h <> h') by (intros ->; apply Hnex; exists h'; split; [now left|now left]).
      destruct (better_total r h h' Hrk Hrk' Hne) as [B|B]; [exact B|]. exfalso. apply Hnex. exists h'. split; [now left|now right].
Qed.
End Opt.
Print Assumptions proposer_optimal.
Print Assumptions receiver_pessimal.
