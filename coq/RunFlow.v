(* Correspondence checkers for flow.py (C08). *)
From Coq Require Import ZArith List Bool.
Import ListNotations.
From SCK Require Import FlowModel FlowWf.
Local Open Scope Z_scope.

Definition ff_case : Type := (graph * Z * Z * nat * flowmap * list Z)%type.
(* the case is inside the theorems' domain (wf_inb) and the model reproduces the observed flow dict and cut *)
Definition chk_ff (c : ff_case) : bool :=
  let '(G, s, t, fuel, ef, ec) := c in
  wf_inb G && memZ s (keys G) && negb (s =? t) && FlowModel.check c.
