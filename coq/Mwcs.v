From Coq Require Import ZArith List Bool Lia.
Import ListNotations.
Require Import FlowModel.
Local Open Scope Z_scope.

(* find_maximum_weight_closed_subset (deterministic_matching.py:639-677) on the proof-friendly flow model.
   P : successors (pi -> rho means pi must be eliminated before rho); ws : rotation weights *)
Definition nthl {A} (l : list (list A)) (i : nat) : list A := nth i l [].
Definition memn (x : nat) (l : list nat) : bool := existsb (Nat.eqb x) l.
Definition wt (ws : list Z) (pi : nat) : Z := nth pi ws 0.
Definition node_adj (P : list (list nat)) (ws : list Z) (pi : nat) : adjl :=
  map (fun rho => (Z.of_nat rho, maxsize)) (nthl P pi) ++ (if wt ws pi >? 0 then [(-2, wt ws pi)] else []).
Definition src_adj (ws : list Z) (ids : list nat) : adjl :=
  flat_map (fun pi => if wt ws pi <? 0 then [(Z.of_nat pi, - wt ws pi)] else []) ids.
Definition cnet (P : list (list nat)) (ws : list Z) : graph :=
  let ids := seq 0 (length P) in
  (-1, src_adj ws ids) :: (-2, []) :: map (fun pi => (Z.of_nat pi, node_adj P ws pi)) ids.
Definition pass (P : list (list nat)) (ids : list nat) (cs : list nat) : list nat :=
  fold_left (fun cs rho => if memn rho cs then cs else if existsb (fun x => memn x cs) (nthl P rho) then rho :: cs else cs) ids cs.
Fixpoint close (P : list (list nat)) (ids : list nat) (k : nat) (cs : list nat) : list nat :=
  match k with O => cs | S k' => let cs' := pass P ids cs in if (length cs' =? length cs)%nat then cs else close P ids k' cs' end.
Definition mwcs (fuel : nat) (P : list (list nat)) (ws : list Z) : option (list nat) :=
  let ids := seq 0 (length P) in
  match ford_fulkerson fuel (cnet P ws) (-1) (-2) with
  | None => None
  | Some (_, cut) =>
    let seed := filter (fun pi => (wt ws pi >? 0) && negb (memZ (Z.of_nat pi) cut)) ids in
    Some (close P ids (S (length P)) seed)
  end.
