(* C06 (rest of the statement): for a non-negative matrix whose rows and columns all sum to s > 0 the positivity
   graph satisfies Hall's condition, hence every matching found by the Birkhoff-von Neumann loop is perfect. *)
From Coq Require Import Arith ZArith QArith List Bool Lia Lqa Permutation.
Import ListNotations.
From SCK Require Import FlowModel BipModel BipProof BipFinal BipHall BvN2 BvN2Proof Distortion.
Local Open Scope Q_scope.

(* ---------- sums over sub-lists ---------- *)
Lemma sumQ_app f a b : sumQ f (a ++ b) == sumQ f a + sumQ f b.
Proof. induction a as [|x t IH]; simpl; [lra|]. rewrite IH. lra. Qed.
Lemma sumQ_ext f g l : (forall x, In x l -> f x == g x) -> sumQ f l == sumQ g l.
Proof. induction l as [|a t IH]; simpl; intros H; [reflexivity|]. rewrite (H a (or_introl eq_refl)), IH; [reflexivity|]. intros; apply H; now right. Qed.
Lemma sumQ_incl_le f A : forall L, NoDup A -> incl A L -> (forall x, In x L -> 0 <= f x) -> sumQ f A <= sumQ f L.
Proof.
  induction A as [|a t IH]; intros L Hnd Hinc Hnn; simpl; [apply sumQ_nonneg; exact Hnn|].
  inversion Hnd as [|? ? Ha Ht]; subst.
  destruct (in_split a L (Hinc a (or_introl eq_refl))) as [L1 [L2 ->]].
  rewrite sumQ_app. simpl.
  assert (H : sumQ f t <= sumQ f (L1 ++ L2)).
  { apply IH; [exact Ht| |intros x Hx; apply Hnn; apply in_app_or in Hx; apply in_or_app; destruct Hx; [now left|right; now right]].
    intros x Hx. assert (Hin : In x (L1 ++ a :: L2)) by (apply Hinc; now right). apply in_app_or in Hin. apply in_or_app.
    destruct Hin as [H|[H|H]]; [now left|subst; contradiction|now right]. }
  rewrite sumQ_app in H. lra.
Qed.
(* a function vanishing outside C sums over L to at most its sum over C *)
Lemma sumQ_support_le f : forall L C, NoDup L -> NoDup C -> incl C L -> (forall x, In x L -> ~ In x C -> f x == 0) -> sumQ f L <= sumQ f C.
Proof.
  induction L as [|x t IH]; intros C HL HC Hinc Hz; simpl.
  - destruct C as [|c r]; [simpl; lra|exfalso; exact (Hinc c (or_introl eq_refl))].
  - inversion HL as [|? ? Hx Ht]; subst. destruct (in_dec Nat.eq_dec x C) as [Hin|Hnin].
    + destruct (in_split x C Hin) as [C1 [C2 ->]]. rewrite sumQ_app. simpl.
      assert (HC' : NoDup (C1 ++ C2)) by (apply NoDup_remove_1 in HC; exact HC).
      assert (Hxn : ~ In x (C1 ++ C2)) by (apply NoDup_remove_2 in HC; exact HC).
      assert (H : sumQ f t <= sumQ f (C1 ++ C2)).
      { apply IH; [exact Ht|exact HC'| |].
        - intros y Hy. assert (Hy' : In y (C1 ++ x :: C2)) by (apply in_app_or in Hy; apply in_or_app; destruct Hy; [now left|right; now right]).
          destruct (Hinc y Hy') as [<-|H]; [contradiction|exact H].
        - intros y Hy Hny. apply Hz; [now right|]. intros Hc. apply Hny. apply in_app_or in Hc. apply in_or_app. destruct Hc as [H|[H|H]]; [now left|subst; contradiction|now right]. }
      rewrite sumQ_app in H. lra.
    + rewrite (Hz x (or_introl eq_refl) Hnin). assert (H : sumQ f t <= sumQ f C); [|lra].
      apply IH; [exact Ht|exact HC| |intros y Hy Hny; apply Hz; [now right|exact Hny]].
      intros y Hy. destruct (Hinc y Hy) as [<-|H]; [contradiction|exact H].
Qed.

Section HallMatrix.
Variable n : nat.
Variable X : mat.
Variable s : Q.
Hypothesis Hnn : forall i j, (i < n)%nat -> (j < n)%nat -> 0 <= mget X i j.
Hypothesis Hrow : forall i, (i < n)%nat -> sumQ (fun j => mget X i j) (seq 0 n) == s.
Hypothesis Hcol : forall j, (j < n)%nat -> sumQ (fun i => mget X i j) (seq 0 n) == s.
Hypothesis Hs : 0 < s.

Lemma posgraph_hall A C : NoDup A -> incl A (xs n) -> NoDup C -> incl C (ys n) ->
  (forall x y, In x A -> In y (adj (posgraph X n) x) -> In y C) -> (length A <= length C)%nat.
Proof.
  intros HA HAx HC HCy Hnb.
  set (A' := map Z.to_nat A). set (C' := map (fun y => (Z.to_nat y - n)%nat) C).
  assert (HA1 : forall a, In a A' -> (a < n)%nat /\ In (Z.of_nat a) A).
  { intros a Ha. apply in_map_iff in Ha as [x [<- Hx]]. destruct (proj1 (in_xs n x) (HAx x Hx)) as [i [Hi ->]]. rewrite Nat2Z.id. split; [exact Hi|exact Hx]. }
  assert (HC1 : forall c, In c C' -> (c < n)%nat /\ In (Z.of_nat (c + n)) C).
  { intros c Hc. apply in_map_iff in Hc as [y [<- Hy]]. destruct (proj1 (in_ys n y) (HCy y Hy)) as [j [Hj ->]]. rewrite Nat2Z.id.
    replace (j + n - n)%nat with j by lia. split; [exact Hj|exact Hy]. }
  assert (HA'nd : NoDup A').
  { apply nodup_map_inj; [|exact HA]. intros a b Ha Hb E. destruct (proj1 (in_xs n a) (HAx a Ha)) as [i [_ ->]]. destruct (proj1 (in_xs n b) (HAx b Hb)) as [j [_ ->]]. rewrite !Nat2Z.id in E. subst. reflexivity. }
  assert (HC'nd : NoDup C').
  { apply nodup_map_inj; [|exact HC]. intros a b Ha Hb E. destruct (proj1 (in_ys n a) (HCy a Ha)) as [i [_ ->]]. destruct (proj1 (in_ys n b) (HCy b Hb)) as [j [_ ->]].
    rewrite !Nat2Z.id in E. f_equal. lia. }
  assert (HA'in : incl A' (seq 0 n)) by (intros a Ha; apply in_seq; destruct (HA1 a Ha); lia).
  assert (HC'in : incl C' (seq 0 n)) by (intros c Hc; apply in_seq; destruct (HC1 c Hc); lia).
  (* s |A'| <= s |C'| *)
  assert (E1 : sumQ (fun a => sumQ (fun j => mget X a j) (seq 0 n)) A' == inject_Z (Z.of_nat (length A')) * s).
  { rewrite (sumQ_ext _ (fun _ => s)); [apply sumQ_const|]. intros a Ha. apply Hrow. apply (HA1 a Ha). }
  assert (L1 : sumQ (fun a => sumQ (fun j => mget X a j) (seq 0 n)) A' <= sumQ (fun a => sumQ (fun j => mget X a j) C') A').
  { apply sumQ_le. intros a Ha. destruct (HA1 a Ha) as [Han HaA]. apply sumQ_support_le; [apply seq_NoDup|exact HC'nd|exact HC'in|].
    intros j Hj Hnj. apply in_seq in Hj. destruct (Qlt_le_dec 0 (mget X a j)) as [Hp|Hz]; [|pose proof (Hnn a j Han ltac:(lia)); lra].
    exfalso. apply Hnj. assert (Hy : In (Z.of_nat (j + n)) C).
    { apply (Hnb (Z.of_nat a)); [exact HaA|]. rewrite adj_posgraph by exact Han. apply in_adjP. exists j. split; [lia|]. split; [reflexivity|exact Hp]. }
    unfold C'. apply in_map_iff. exists (Z.of_nat (j + n)). split; [rewrite Nat2Z.id; lia|exact Hy]. }
  assert (L2 : sumQ (fun a => sumQ (fun j => mget X a j) C') A' <= inject_Z (Z.of_nat (length C')) * s).
  { rewrite (sumQ_swap (fun a j => mget X a j) A' C').
    assert (L : sumQ (fun v => sumQ (fun u => mget X u v) A') C' <= sumQ (fun _ => s) C').
    { apply sumQ_le. intros j Hj. destruct (HC1 j Hj) as [Hjn _]. rewrite <- (Hcol j Hjn).
      apply sumQ_incl_le; [exact HA'nd|exact HA'in|]. intros i Hi. apply in_seq in Hi. apply Hnn; lia. }
    rewrite sumQ_const in L. exact L. }
  assert (Hq : inject_Z (Z.of_nat (length A')) * s <= inject_Z (Z.of_nat (length C')) * s) by lra.
  assert (Hq2 : inject_Z (Z.of_nat (length A')) <= inject_Z (Z.of_nat (length C'))) by nra.
  rewrite <- Zle_Qle in Hq2. unfold A', C' in Hq2. rewrite !map_length in Hq2. lia.
Qed.

(* every maximum matching of the positivity graph is perfect *)
Theorem posgraph_perfect ffuel M : max_matching ffuel (posgraph X n) (xs n) (ys n) = Some M -> length M = n.
Proof.
  intros H. destruct (posgraph_wfb n X) as [W1 [W2 [W3 [W4 [W5 W6]]]]].
  rewrite (hall_saturates (posgraph X n) (xs n) (ys n) W1 W2 W3 W4 W5 W6 posgraph_hall ffuel M H).
  unfold xs. rewrite map_length, seq_length. reflexivity.
Qed.
End HallMatrix.
