(* The two snapping windows of SimultaneousEating.bistochastic (randomized_allocation.py: `item_fraction_remaining > 1e-9`, `agent_amount_eaten < 1 - 1e-9`), as decidable
   predicates on a run of the exact model: inside a window the code clears a value that the exact process keeps. Hypothesis of gen/EatLoopGenProof.v (gen_eat_is_model);
   evaluated by the kernel on every correspondence case (RunEat.chk_eat_ok) to report how many cases lie in the theorem's domain. *)
From Coq Require Import Arith ZArith QArith List Bool.
Import ListNotations.
From SCK Require Import Argsort GSInst Eat3 EatFinal.
Local Open Scope Q_scope.

(* 1e-9 and 1 - 1e-9 as binary64 values *)
Definition thr_rem : Q := 4835703278458517 # 4835703278458516698824704.
Definition thr_eat : Q := 9007199245733793 # 9007199254740992.
Section G.
Variable n : nat.
Variable item : nat -> nat -> nat.
Variable sp : nat -> Q.
Definition snapfree_b (st : est) (t : Q) : bool :=
  forallb (fun j => match nth j (rem st) None with Some r => let r' := qsub r (qmul (tot n item sp st j) t) in Qle_bool r' 0 || negb (Qle_bool r' thr_rem) | None => true end) (seq 0 n) &&
  forallb (fun i => match nth i (eaten st) None with Some e => let e' := qadd e (qmul (sp i) t) in Qle_bool 1 e' || negb (Qle_bool thr_eat e') | None => true end) (seq 0 n).
Fixpoint run_ok_b (fuel : nat) (st : est) : bool :=
  match fuel with O => true | S f =>
    finished n st || match step_time n item sp st with None => true | Some t =>
      snapfree_b st t && match estep n item sp st with Some st' => run_ok_b f st' | None => true end end end.
End G.
Definition eat_run_ok (P : list (list okey)) (speeds : list Q) : bool :=
  let n := length P in run_ok_b n (eat_item P) (eat_speed speeds) (2 * n + 2) (einit n).
