(* Boolean certificate checkers for C04, proved sound: the kernel evaluates them on every explored output of
   MaximumWeightMatching.scf with certificates computed by the harness in exact rationals. *)
From Coq Require Import Arith QArith List Bool Lia Lqa Permutation.
Import ListNotations.
From SCK Require Import MWMCert Hall.

Definition wmat := list (list (option Q)).
Definition wof (W : wmat) (i j : nat) : option Q := nth j (nth i W []) None.
Definition qof (l : list Q) (i : nat) : Q := nth i l 0%Q.
Fixpoint nodupb (l : list nat) : bool := match l with [] => true | x :: r => negb (existsb (Nat.eqb x) r) && nodupb r end.
Definition permb (n : nat) (l : list nat) : bool := (length l =? n) && forallb (fun x => x <? n) l && nodupb l.

Lemma nodupb_sound l : nodupb l = true -> NoDup l.
Proof.
  induction l as [|x r IH]; simpl; intros H; [constructor|]. apply andb_prop in H as [H1 H2]. constructor; [|apply IH; exact H2].
  intros Hin. assert (E : existsb (Nat.eqb x) r = true) by (apply existsb_exists; exists x; split; [exact Hin|apply Nat.eqb_refl]).
  rewrite E in H1. discriminate.
Qed.
Lemma permb_sound n l : permb n l = true -> Permutation l (seq 0 n).
Proof.
  unfold permb. intros H. apply andb_prop in H as [H H3]. apply andb_prop in H as [H1 H2]. apply Nat.eqb_eq in H1.
  rewrite forallb_forall in H2. apply nodupb_sound in H3.
  apply NoDup_Permutation_bis; [exact H3|rewrite seq_length; lia|].
  intros x Hx. apply in_seq. specialize (H2 x Hx). apply Nat.ltb_lt in H2. lia.
Qed.

Definition cert_okb (W : wmat) (sg : list nat) (u v : list Q) : bool :=
  let n := length W in
  permb n sg &&
  forallb (fun ij => match wof W (fst ij) (snd ij) with Some x => Qeq_bool x (qof u (fst ij) + qof v (snd ij)) | None => false end) (combine (seq 0 n) sg) &&
  forallb (fun i => forallb (fun j => match wof W i j with Some x => Qle_bool x (qof u i + qof v j) | None => true end) (seq 0 n)) (seq 0 n).

Theorem cert_okb_sound W sg u v : cert_okb W sg u v = true ->
  let n := length W in
  MWMCert.assignment n sg /\ MWMCert.acceptable n (wof W) sg /\
  forall tau, MWMCert.assignment n tau -> MWMCert.acceptable n (wof W) tau ->
              (MWMCert.welfare n (wof W) tau <= MWMCert.welfare n (wof W) sg)%Q.
Proof.
  unfold cert_okb. intros H. cbv zeta. set (n := length W) in *.
  apply andb_prop in H as [H H3]. apply andb_prop in H as [H1 H2].
  pose proof (permb_sound n sg H1) as Hperm. rewrite forallb_forall in H2. rewrite forallb_forall in H3.
  assert (Hacc : MWMCert.acceptable n (wof W) sg).
  { intros i j Hin. specialize (H2 (i, j) Hin). cbn [fst snd] in H2. destruct (wof W i j); [discriminate|discriminate H2]. }
  split; [exact Hperm|]. split; [exact Hacc|].
  apply (cert_sound n (wof W) (qof u) (qof v) sg Hperm Hacc).
  - intros i j Hi Hj x Hx. assert (Hii : In i (seq 0 n)) by (apply in_seq; lia). assert (Hjj : In j (seq 0 n)) by (apply in_seq; lia).
    specialize (H3 i Hii). rewrite forallb_forall in H3. specialize (H3 j Hjj). rewrite Hx in H3. apply Qle_bool_iff. exact H3.
  - intros i j Hin x Hx. specialize (H2 (i, j) Hin). cbn [fst snd] in H2. rewrite Hx in H2. apply Qeq_bool_iff. exact H2.
Qed.

(* Hall violator: agents A, items B with |B| < |A| covering everything acceptable to A *)
Definition accb (W : wmat) (i j : nat) : bool := match wof W i j with Some _ => true | None => false end.
Definition hall_okb (W : wmat) (A B : list nat) : bool :=
  let n := length W in
  nodupb A && forallb (fun i => i <? n) A && nodupb B && (length B <? length A) &&
  forallb (fun i => forallb (fun j => negb (accb W i j) || existsb (Nat.eqb j) B) (seq 0 n)) A.

Theorem hall_okb_sound W A B : hall_okb W A B = true ->
  forall tau, Hall.assignment (length W) tau -> ~ Hall.acceptable (length W) (accb W) tau.
Proof.
  unfold hall_okb. intros H. set (n := length W) in *.
  repeat match type of H with (_ && _ = true) => let H2 := fresh "H" in apply andb_prop in H as [H H2] end.
  apply (hall_sound n (accb W) A B). split; [apply nodupb_sound; assumption|]. split.
  { intros i Hi. match goal with K : forallb (fun i => i <? n) A = true |- _ => rewrite forallb_forall in K; specialize (K i Hi); apply Nat.ltb_lt in K; exact K end. }
  split; [apply nodupb_sound; assumption|]. split; [match goal with K : (length B <? length A) = true |- _ => apply Nat.ltb_lt in K; exact K end|].
  intros i j Hi Hj Hacc.
  match goal with K : forallb (fun i => forallb _ (seq 0 n)) A = true |- _ => rewrite forallb_forall in K; specialize (K i Hi); rewrite forallb_forall in K;
     assert (Hjj : In j (seq 0 n)) by (apply in_seq; lia); specialize (K j Hjj); rewrite Hacc in K; simpl in K;
     apply existsb_exists in K as [y [Hy E]]; apply Nat.eqb_eq in E; subst; exact Hy end.
Qed.

(* the glue of MaximumWeightMatching.scf after the repair: an entry is a usable pair iff it is not NaN
   (zeros are ordinary pairs); the solver itself (scipy) is an oracle certified per case *)
Definition mwm_case : Type := (wmat * option (list nat) * list Q * list Q * list nat * list nat)%type.
Definition chk_mwm (c : mwm_case) : bool :=
  let '(W, out, u, v, A, B) := c in
  forallb (fun row => (length row =? length W)) W &&
  match out with
  | Some sg => cert_okb W sg u v          (* returned assignment with an optimality certificate *)
  | None => hall_okb W A B                (* ValueError with an infeasibility certificate *)
  end.
