(* The lottery of SimultaneousEating.scf / ProbabilisticSerial.scf (randomized_allocation.py:164-168):
   eating matrix -> Birkhoff-von Neumann decomposition -> the sampler picks one term. *)
From Coq Require Import ZArith QArith List Bool Lia Lqa.
Import ListNotations.
From SCK Require Import Argsort FlowModel BipModel BvN2 BvN2Proof Eat3 EatFinal.
Local Open Scope Q_scope.

Definition nonnegm (X : list (list Q)) : bool := forallb (forallb (fun x => Qle_bool 0 x)) X.
Definition lottery (ffuel : nat) (P : list (list okey)) (speeds : list Q) (idx : nat) : option (list (Z * Z)) :=
  match eating_run P speeds with
  | None => None
  | Some X0 => if nonnegm X0 then
                 match bvn ffuel X0 with None => None | Some res => option_map snd (nth_error res idx) end
               else None
  end.

Lemma nonnegm_sound X : nonnegm X = true -> forall i j, 0 <= mget X i j.
Proof.
  unfold nonnegm, mget. intros H i j. rewrite forallb_forall in H.
  destruct (nth_in_or_default i X []) as [Hi|E]; [|rewrite E; destruct j; simpl; lra].
  specialize (H _ Hi). rewrite forallb_forall in H.
  destruct (nth_in_or_default j (nth i X []) 0) as [Hj|E]; [apply Qle_bool_iff; apply H; exact Hj|rewrite E; lra].
Qed.

(* whichever term the sampler picks: no agent and no item occurs twice, and agent i receives item j only
   if the eating process gives i a positive amount of j *)
Theorem lottery_support ffuel P speeds idx M :
  lottery ffuel P speeds idx = Some M ->
  exists X0, eating_run P speeds = Some X0 /\
    NoDup (map fst M) /\ NoDup (map snd M) /\
    forall p, In p M -> exists i j, (i < length X0)%nat /\ (j < length X0)%nat /\
                                  p = (Z.of_nat i, Z.of_nat (j + length X0)) /\ 0 < mget X0 i j.
Proof.
  unfold lottery. intros H. destruct (eating_run P speeds) as [X0|]; [|discriminate]. exists X0. split; [reflexivity|].
  destruct (nonnegm X0) eqn:En; [|discriminate].
  destruct (bvn ffuel X0) as [res|] eqn:Eb; [|discriminate].
  destruct (nth_error res idx) as [[z M']|] eqn:Ei; [|discriminate]. injection H as <-.
  destruct (C06_bvn_correct ffuel X0 res (fun i j _ _ => nonnegm_sound X0 En i j) Eb) as [_ Hg].
  destruct (Hg (z, M') (nth_error_In _ _ Ei)) as [_ [A [B C]]]. cbn [fst snd] in *. tauto.
Qed.
