From Coq Require Import Arith List Bool Lia Permutation.
Import ListNotations.
Require Import Argsort DA GS2 GSRefine.

(* accessors computed from profiles of 0-based ranks (None = NaN) with argsort, and the facts the refinement needs *)
Lemma nth_error_firstn' {A} (l : list A) k j : j < k -> nth_error (firstn k l) j = nth_error l j.
Proof.
  revert k j; induction l as [|x t IH]; intros k j H; destruct k, j; simpl; try reflexivity; try lia.
  apply IH. lia.
Qed.

Lemma in_firstn_in {A} (l : list A) k x : In x (firstn k l) -> In x l.
Proof. revert k; induction l as [|y t IH]; intros k H; destruct k; simpl in *; try tauto. destruct H as [H|H]; [now left|right; eapply IH; exact H]. Qed.
Lemma nodup_firstn {A} (l : list A) k : NoDup l -> NoDup (firstn k l).
Proof.
  revert k; induction l as [|y t IH]; intros k H; destruct k; simpl; try constructor.
  - inversion H; subst. intros Hin. apply H2. eapply in_firstn_in; exact Hin.
  - inversion H; subst. apply IH. assumption.
Qed.

Lemma argsort_nodup row : NoDup (argsort row).
Proof. apply (Permutation_NoDup (Permutation_sym (argsort_perm row))). apply seq_NoDup. Qed.
Lemma argsort_lt row x : In x (argsort row) -> x < length row.
Proof. intros H. apply (Permutation_in _ (argsort_perm row)) in H. apply in_seq in H. lia. Qed.

Section Inst.
Variables (R H : list (list okey)).           (* R : n residents x m hospitals, H : m x n *)
Let n := length R.
Let m := length H.
Definition rowR (p : nat) : list okey := nth p R [].
Definition rowH (h : nat) : list okey := nth h H [].
Definition kR (p : nat) : nat := length (filter (fun k => match k with Some _ => true | None => false end) (rowR p)).
Definition i_prefR (p k : nat) : option nat :=
  match nth_error (argsort (rowR p)) k with
  | Some h => match nth h (rowR p) None with Some _ => Some h | None => None end
  | None => None end.
Definition i_rkH (h p : nat) : option nat := nth p (rowH h) None.
Definition i_unrank (h r : nat) : nat := nth r (argsort (rowH h)) 0.
Definition i_pl (p : nat) : list nat := firstn (kR p) (argsort (rowR p)).

(* strict profiles: every row's non-NaN ranks are exactly 0..k-1, each once; rows of R have length m *)
Hypothesis HR_dense : forall p, dense (rowR p) (kR p).
Hypothesis HR_len : forall p, p < n -> length (rowR p) = m.
Hypothesis HH_dense : forall h, exists k, dense (rowH h) k.

Lemma rowR_out p : n <= p -> rowR p = [].
Proof. intros Hp. unfold rowR. apply nth_overflow. exact Hp. Qed.

Lemma kR_le p : kR p <= length (rowR p).
Proof. unfold kR. generalize (rowR p). induction l as [|x t IH]; simpl; [lia|]. destruct x; simpl; lia. Qed.

Lemma argsort_length row : length (argsort row) = length row.
Proof. rewrite (Permutation_length (argsort_perm row)). apply seq_length. Qed.

Lemma inst_pl_spec p k : i_prefR p k = nth_error (i_pl p) k.
Proof.
  unfold i_prefR, i_pl. destruct (argsort_dense (rowR p) (kR p) (HR_dense p)) as [Hlow Hhigh].
  destruct (Nat.lt_ge_cases k (kR p)) as [Hk|Hk].
  - destruct (Hlow k Hk) as [j [Hn Hj]]. rewrite Hn.
    rewrite (nth_error_nth (rowR p) j None Hj).
    symmetry. rewrite nth_error_firstn' by exact Hk. exact Hn.
  - assert (E : nth_error (firstn (kR p) (argsort (rowR p))) k = None).
    { apply nth_error_None. rewrite firstn_length. lia. }
    rewrite E. destruct (nth_error (argsort (rowR p)) k) as [j|] eqn:En; [|reflexivity].
    pose proof (Hhigh k j Hk En) as Hj. rewrite (nth_error_nth (rowR p) j None Hj). reflexivity.
Qed.


Lemma inst_pl_nodup p : NoDup (i_pl p).
Proof. unfold i_pl. apply nodup_firstn, argsort_nodup. Qed.
Lemma inst_pl_lt p r : In r (i_pl p) -> r < m.
Proof.
  unfold i_pl. intros Hin. apply in_firstn_in in Hin. pose proof (argsort_lt _ _ Hin) as Hl.
  destruct (Nat.lt_ge_cases p n) as [Hp|Hp]; [rewrite (HR_len p Hp) in Hl; exact Hl|].
  rewrite (rowR_out p Hp) in Hl. simpl in Hl. lia.
Qed.
Lemma inst_pl_out p : n <= p -> i_pl p = [].
Proof.
  intros Hp. unfold i_pl. rewrite (rowR_out p Hp).
  assert (E : argsort [] = []) by reflexivity. rewrite E. destruct (kR p); reflexivity.
Qed.
Lemma inst_unrank_spec h p r : i_rkH h p = Some r -> i_unrank h r = p.
Proof.
  unfold i_rkH, i_unrank. intros Hr. destruct (HH_dense h) as [k [Hlt [Hex Huniq]]].
  assert (Hp : nth_error (rowH h) p = Some (Some r)).
  { destruct (nth_error (rowH h) p) as [x|] eqn:E.
    - pose proof (nth_error_nth (rowH h) p None E) as Hx. rewrite Hx in Hr. rewrite Hr. reflexivity.
    - apply nth_error_None in E. rewrite (nth_overflow (rowH h) None E) in Hr. discriminate. }
  pose proof (Hlt _ _ Hp) as Hrk.
  destruct (argsort_dense (rowH h) k (conj Hlt (conj Hex Huniq))) as [Hlow _].
  destruct (Hlow r Hrk) as [j [Hn Hj]]. rewrite (nth_error_nth _ _ 0 Hn). exact (Huniq _ _ _ Hj Hp).
Qed.

(* C01, resident-oriented, on profiles: the final state of the coded loop is stable *)
Theorem C01_res_stable cap fuel st' :
  res_loop n i_prefR i_rkH i_unrank cap fuel res_init = Some st' ->
  exists s, Inv m i_rkH i_unrank i_pl st' s /\ Good m i_rkH cap i_pl s /\
            terminal i_pl (fun _ => 1) (seq 0 m) s /\
            (forall p r, ~ blocking i_pl i_rkH (fun _ => 1) cap (seq 0 m) s p r).
Proof.
  apply (gs_res_correct n m i_prefR i_rkH i_unrank cap i_pl inst_pl_spec inst_pl_nodup inst_pl_lt inst_pl_out inst_unrank_spec).
Qed.
End Inst.
Print Assumptions C01_res_stable.
