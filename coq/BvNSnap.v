(* The "almost zero" window of birkhoff_von_neumann (bistochastic.py: `np.all(np.abs(X) < 1e-9)`) and the lines without a positive entry, as a decidable predicate on a
   run of the exact model BvN2.bvn. Hypothesis of gen/BvnGenProof.v (gen_bvn_is_model); evaluated by the kernel on the dyadic correspondence cases (RunBvN.chk_bvn_ok). *)
From Coq Require Import Arith ZArith QArith Qabs List Bool.
Import ListNotations.
From SCK Require Import FlowModel BipModel BvN2.

Definition thr_bvn : Q := 4835703278458517 # 4835703278458516698824704.
(* no entry strictly between 0 and the threshold in absolute value *)
Definition nosmall_b (X : mat) : bool := forallb (forallb (fun x : Q => Qeq_bool x 0 || Qle_bool thr_bvn (Qabs x))) X.
Fixpoint bvn_run_ok (fuel ffuel n : nat) (X : mat) : bool :=
  match fuel with O => true | S f =>
    nosmall_b X && (if forallb (forallb (fun x => Qeq_bool x 0)) X then true else
      keys_ok X n && match max_matching ffuel (posgraph X n) (xs n) (ys n) with None => true | Some M =>
        match zmin X n M with None => true | Some z => bvn_run_ok f ffuel n (sub_step X n M z) end end) end.
Definition bvn_ok (ffuel : nat) (X : mat) : bool := bvn_run_ok (length X * length X + 2) ffuel (length X) X.
