From Coq Require Import ZArith List Bool Lia.
Import ListNotations.
Open Scope Z_scope.

Definition adjl := list (Z * Z).
Definition graph := list (Z * adjl).
Definition flowmap := list ((Z * Z) * Z).
Definition maxsize : Z := 9223372036854775807.

Fixpoint lookup (G : graph) (u : Z) : adjl :=
  match G with [] => [] | (k, a) :: r => if k =? u then a else lookup r u end.
Fixpoint set_adj (G : graph) (u : Z) (a : adjl) : graph :=
  match G with [] => [] | (k, a0) :: r => if k =? u then (k, a) :: r else (k, a0) :: set_adj r u a end.
Definition keys (G : graph) : list Z := map fst G.
Definition memZ (x : Z) (l : list Z) : bool := existsb (Z.eqb x) l.
Fixpoint removeZ (x : Z) (l : list Z) : list Z :=
  match l with [] => [] | y :: r => if x =? y then removeZ x r else y :: removeZ x r end.

Definition pair_eqb (a b : Z * Z) : bool := (fst a =? fst b) && (snd a =? snd b).
Fixpoint fget (f : flowmap) (k : Z * Z) : Z :=
  match f with [] => 0 | (k', v) :: r => if pair_eqb k k' then v else fget r k end.
Fixpoint fset (f : flowmap) (k : Z * Z) (v : Z) : flowmap :=
  match f with [] => [(k, v)] | (k', v') :: r => if pair_eqb k k' then (k', v) :: r else (k', v') :: fset r k v end.

(* residual graph initialisation, flow.py:34-43 *)
Definition init_edge (i : Z) (st : graph * flowmap) (e : Z * Z) : graph * flowmap :=
  let '(Gf, fl) := st in
  let j := fst e in
  let fl := fset (fset fl (i, j) 0) (j, i) 0 in
  let Gf := if forallb (fun vc => negb (fst vc =? i)) (lookup Gf j)
            then set_adj Gf j (lookup Gf j ++ [(i, 0)]) else Gf in
  (Gf, fl).
Definition init (G : graph) : graph * flowmap :=
  fold_left (fun st ka => fold_left (init_edge (fst ka)) (snd ka) st) G (G, []).

(* dfs_path, flow.py:68-117 *)
Fixpoint dfs (fuel : nat) (G : graph) (cur sink : Z) (vis : list Z)
  : option (list Z * option (list Z * Z)) :=
  match fuel with
  | O => None
  | S f =>
    if cur =? sink then Some (removeZ cur vis, Some ([cur], maxsize))
    else
      let loop := fix loop (cands : adjl) (vis : list Z) (best : option (list Z * Z)) {struct cands} :=
        match cands with
        | [] => Some (vis, best)
        | (v, c) :: r =>
          if memZ v vis then loop r vis best
          else if c >? 0 then
            match dfs f G v sink (v :: vis) with
            | None => None
            | Some (vis', None) => loop r vis' best
            | Some (vis', Some (path, cap)) =>
              let bc := match best with Some (_, b) => b | None => 0 end in
              if Z.min cap c >? bc then loop r vis' (Some (cur :: path, Z.min cap c))
              else loop r vis' best
            end
          else loop r vis best
        end in
      match loop (lookup G cur) vis None with
      | None => None
      | Some (vis', Some b) => Some (removeZ cur vis', Some b)
      | Some (vis', None) => Some (vis', None)
      end
  end.

Definition bump (a : adjl) (w d : Z) : adjl := map (fun vc => if fst vc =? w then (fst vc, snd vc + d) else vc) a.
Fixpoint augment (path : list Z) (c : Z) (st : graph * flowmap) : graph * flowmap :=
  match path with
  | u :: ((v :: _) as rest) =>
    let '(Gf, fl) := st in
    let fl := fset fl (u, v) (fget fl (u, v) + c) in
    let fl := fset fl (v, u) (fget fl (v, u) - c) in
    let Gf := set_adj Gf u (bump (lookup Gf u) v (- c)) in
    let Gf := set_adj Gf v (bump (lookup Gf v) u c) in
    augment rest c (Gf, fl)
  | _ => st
  end.

Fixpoint reach_loop (fuel : nat) (G : graph) (frontier ans : list Z) : list Z :=
  match fuel with O => ans | S f =>
    match frontier with [] => ans | x :: fr =>
      if memZ x ans then reach_loop f G fr ans
      else reach_loop f G (map fst (filter (fun vc => snd vc >? 0) (lookup G x)) ++ fr) (x :: ans)
    end end.

Fixpoint ff_loop (fuel : nat) (st : graph * flowmap) (s t : Z) : option (graph * flowmap * nat) :=
  match fuel with O => None | S f =>
    match dfs (length (fst st) + 2) (fst st) s t [] with
    | None => None
    | Some (_, None) => Some (st, f)
    | Some (_, Some (path, c)) => ff_loop f (augment path c st) s t
    end end.

Fixpoint insZ (x : Z) (l : list Z) := match l with [] => [x] | y :: r => if x <=? y then x :: l else y :: insZ x r end.
Definition sortZ (l : list Z) := fold_right insZ [] l.

Definition ford_fulkerson (fuel : nat) (G : graph) (s t : Z) : option (flowmap * list Z) :=
  match ff_loop fuel (init G) s t with
  | None => None
  | Some ((Gf, fl), _) =>
    let out := flat_map (fun ka => map (fun e => ((fst ka, fst e), fget fl (fst ka, fst e))) (snd ka)) G in
    let n := length Gf in
    Some (out, sortZ (reach_loop (n * n + n + 1) Gf [s] []))
  end.

Definition flow_eqb (a b : flowmap) : bool :=
  (length a =? length b)%nat && forallb (fun p => pair_eqb (fst (fst p)) (fst (snd p)) && (snd (fst p) =? snd (snd p))) (combine a b).
Definition listZ_eqb (a b : list Z) : bool := (length a =? length b)%nat && forallb (fun p => fst p =? snd p) (combine a b).
Definition check (c : graph * Z * Z * nat * flowmap * list Z) : bool :=
  let '(G, s, t, fuel, ef, ec) := c in
  match ford_fulkerson fuel G s t with None => false | Some (f, cut) => flow_eqb f ef && listZ_eqb cut ec end.
Fixpoint mism (i : nat) (cs : list (graph * Z * Z * nat * flowmap * list Z)) : list nat :=
  match cs with [] => [] | c :: r => if check c then mism (S i) r else i :: mism (S i) r end.
