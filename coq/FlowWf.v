(* Boolean well-formedness of a network, sound for wf_in (so the domain of the C08 theorems can be
   evaluated by the kernel on every explored case). *)
From Coq Require Import ZArith List Bool Lia.
Import ListNotations.
From SCK Require Import FlowModel FlowProof FlowInit.
Local Open Scope Z_scope.

Fixpoint nodupZ (l : list Z) : bool :=
  match l with [] => true | x :: r => negb (memZ x r) && nodupZ r end.

Definition wf_inb (G : graph) : bool :=
  nodupZ (keys G) &&
  forallb (fun ka => nodupZ (map fst (snd ka)) &&
                     forallb (fun e => memZ (fst e) (keys G) && negb (fst e =? fst ka) && (0 <=? snd e)) (snd ka)) G.

Lemma memZ_In' x l : memZ x l = true <-> In x l.
Proof.
  unfold memZ. rewrite existsb_exists. split.
  - intros [y [Hy E]]. apply Z.eqb_eq in E. subst. exact Hy.
  - intros H. exists x. split; [exact H|apply Z.eqb_refl].
Qed.

Lemma nodupZ_NoDup l : nodupZ l = true -> NoDup l.
Proof.
  induction l as [|x r IH]; simpl; intros H; [constructor|].
  apply andb_prop in H as [H1 H2]. constructor; [|apply IH; exact H2].
  intros Hin. apply memZ_In' in Hin. rewrite Hin in H1. discriminate.
Qed.

Lemma lookup_in G u : lookup G u = [] \/ In (u, lookup G u) G.
Proof.
  induction G as [|[k a] r IH]; simpl; [now left|].
  destruct (k =? u) eqn:E.
  - apply Z.eqb_eq in E. subst. right. now left.
  - destruct IH as [IH|IH]; [now left|right; now right].
Qed.

Lemma aget_in a v : aget a v = 0 \/ In (v, aget a v) a.
Proof.
  induction a as [|[w c] r IH]; simpl; [now left|].
  destruct (w =? v) eqn:E.
  - apply Z.eqb_eq in E. subst. right. now left.
  - destruct IH as [IH|IH]; [now left|right; now right].
Qed.

Theorem wf_inb_sound G : wf_inb G = true -> wf_in G.
Proof.
  unfold wf_inb. intros H. apply andb_prop in H as [HK HA].
  rewrite forallb_forall in HA.
  assert (Hentry : forall u, lookup G u = [] \/
            (nodupZ (map fst (lookup G u)) = true /\
             forall e, In e (lookup G u) -> In (fst e) (keys G) /\ fst e <> u /\ 0 <= snd e)).
  { intros u. destruct (lookup_in G u) as [E|Hin]; [now left|right].
    specialize (HA _ Hin). cbn [fst snd] in HA. apply andb_prop in HA as [H1 H2]. split; [exact H1|].
    rewrite forallb_forall in H2. intros e He. specialize (H2 e He).
    apply andb_prop in H2 as [H2 H3]. apply andb_prop in H2 as [H2 H4].
    split; [apply memZ_In'; exact H2|]. split.
    - intros Eq. rewrite Eq, Z.eqb_refl in H4. discriminate.
    - apply Z.leb_le. exact H3. }
  split; [apply nodupZ_NoDup; exact HK|]. split; [|split].
  - intros u. unfold targets. destruct (Hentry u) as [E|[H1 _]]; [rewrite E; constructor|apply nodupZ_NoDup; exact H1].
  - intros u v Hv. unfold targets in Hv. destruct (Hentry u) as [E|[_ H2]]; [rewrite E in Hv; destruct Hv|].
    apply in_map_iff in Hv as [e [<- He]]. destruct (H2 e He) as [A [B _]]. split; assumption.
  - intros u v. unfold cf. destruct (aget_in (lookup G u) v) as [E|Hin]; [lia|].
    destruct (Hentry u) as [E|[_ H2]]; [rewrite E in Hin; destruct Hin|].
    destruct (H2 _ Hin) as [_ [_ C]]. exact C.
Qed.
