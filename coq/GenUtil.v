(* Library for the generated utilitarian score (deterministic_scoring.py, SocialWelfare.score):
   np.nansum(V, axis=0) / np.nansum(V) *)
From Coq Require Import ZArith QArith List Bool Lia Lqa.
Import ListNotations.
From SCK Require Import Voting VoteExt VoteExtProof VoteMore ScoreProof GenLib.

Definition nancolsum (m : nat) (V : list (list (option Q))) : list Q :=          (* np.nansum(V, axis=0) *)
  map (fun j => sumL (map (fun row => nz (nth j row None)) V)) (seq 0 m).
Definition nansum_all (V : list (list (option Q))) : Q := sumL (map (fun row => sumL (map nz row)) V).   (* np.nansum(V) *)
Definition divvec (v : list Q) (d : Q) : list Q := map (fun c => (c / d)%Q) v.   (* vector / scalar *)
Definition qncols (V : list (list (option Q))) : nat := length (nth 0 V []).
Definition qrect (V : list (list (option Q))) (m : nat) : Prop := (forall row, In row V -> length row = m) /\ length (nth 0 V []) = m.

Lemma sumL_sumQl l : (sumL l == sumQl l)%Q.
Proof. induction l as [|x t IH]; [reflexivity|]. rewrite sumQl_cons. cbn [sumL]. rewrite IH. reflexivity. Qed.
Lemma row_sum_by_index (row : list (option Q)) : (sumL (map nz row) == sumL (map (fun j => nz (nth j row None)) (seq 0 (length row))))%Q.
Proof.
  induction row as [|x t IH]; [reflexivity|]. cbn [length seq map sumL nth]. rewrite <- seq_shift, map_map. cbn [nth]. rewrite IH. reflexivity.
Qed.

Theorem gen_util_is_model V m j : qrect V m -> (j < m)%nat ->
  (nth j (divvec (nancolsum (qncols V) V) (nansum_all V)) 0 == nth j (util_score V) 0)%Q.
Proof.
  intros [Hrows Hm] Hj. unfold qncols. rewrite Hm. rewrite (util_score_spec V j) by (rewrite Hm; exact Hj). rewrite Hm.
  unfold divvec. rewrite (nth_map_lt (fun c => (c / nansum_all V)%Q) (nancolsum m V) j 0%Q) by (unfold nancolsum; rewrite map_length, seq_length; exact Hj).
  unfold nancolsum. rewrite (nth_map_seq0 _ m j 0%Q Hj).
  assert (Hnum : (sumL (map (fun row => nz (nth j row None)) V) == colsum V j)%Q) by (rewrite colsum_spec, sumL_sumQl; reflexivity).
  assert (Hden : (nansum_all V == sumQl (map (colsum V) (seq 0 m)))%Q).
  { unfold nansum_all. rewrite <- sumL_sumQl.
    rewrite (sumL_ext (fun row => sumL (map nz row)) (fun row => sumL (map (fun j0 => nz (nth j0 row None)) (seq 0 m))) V).
    2:{ intros row Hrow. rewrite row_sum_by_index, (Hrows row Hrow). reflexivity. }
    rewrite (sumL_swap (fun row j0 => nz (nth j0 row None)) V (seq 0 m)).
    apply sumL_ext. intros j0 _. rewrite colsum_spec, sumL_sumQl. reflexivity. }
  rewrite Hnum, Hden. reflexivity.
Qed.
