(* C20: store-passing view of the one routine that updates a matrix in place (birkhoff_von_neumann), and
   the rank-encoding round trip. The caller's array is an explicit component of the store; `alias` says
   whether the routine's working matrix IS the caller's array (pinned tree) or a fresh copy (after 761e0fa). *)
From Coq Require Import ZArith QArith Qround List Bool Lia.
Import ListNotations.
From SCK Require Import FlowModel BipModel BvN2.

(* the loop of BvN2.bvn_loop, also returning the final working matrix *)
Fixpoint bvn_loop_res (fuel ffuel n : nat) (X : mat) (acc : list (Q * list (Z * Z))) : option (list (Q * list (Z * Z)) * mat) :=
  match fuel with O => None | S f =>
    if forallb (forallb (fun x => Qeq_bool x 0)) X then Some (acc, X) else
    if negb (keys_ok X n) then None else
    match max_matching ffuel (posgraph X n) (xs n) (ys n) with
    | None => None
    | Some M => match zmin X n M with
                | None => None
                | Some z => bvn_loop_res f ffuel n (sub_step X n M z) (acc ++ [(z, M)])
                end
    end
  end.
(* store = the caller's matrix; result = decomposition *)
Definition bvn_store (alias : bool) (ffuel : nat) (caller : mat) : option (list (Q * list (Z * Z)) * mat) :=
  match bvn_loop_res (length caller * length caller + 2) ffuel (length caller) caller [] with
  | None => None
  | Some (res, work) => Some (res, if alias then work else caller)
  end.

Lemma bvn_loop_res_fst fuel ffuel n : forall X acc,
  option_map fst (bvn_loop_res fuel ffuel n X acc) = bvn_loop fuel ffuel n X acc.
Proof.
  induction fuel as [|f IH]; intros X acc; cbn [bvn_loop_res bvn_loop]; [reflexivity|].
  destruct (forallb (forallb (fun x => Qeq_bool x 0)) X); [reflexivity|].
  destruct (negb (keys_ok X n)); [reflexivity|].
  destruct (max_matching ffuel (posgraph X n) (xs n) (ys n)) as [M|]; [|reflexivity].
  destruct (zmin X n M) as [z|]; [|reflexivity]. apply IH.
Qed.

(* the store-passing routine computes the same decomposition as the model of C06, whatever the aliasing *)
Theorem bvn_store_result alias ffuel X : option_map fst (bvn_store alias ffuel X) = bvn ffuel X.
Proof.
  unfold bvn_store, bvn. rewrite <- bvn_loop_res_fst.
  destruct (bvn_loop_res (length X * length X + 2) ffuel (length X) X []) as [[res work]|]; reflexivity.
Qed.

(* frame: with a fresh working copy the caller's matrix is untouched *)
Theorem bvn_frame_fresh ffuel X res X' : bvn_store false ffuel X = Some (res, X') -> X' = X.
Proof.
  unfold bvn_store. destruct (bvn_loop_res _ _ _ _ _) as [[r w]|]; [|discriminate]. intros H. injection H as _ <-. reflexivity.
Qed.

(* rank encodings: a rank stored as a float (an integral rational) decodes to the same integer *)
Theorem rank_roundtrip (r : Z) : Qfloor (inject_Z r) = r.
Proof. apply Qfloor_Z. Qed.
