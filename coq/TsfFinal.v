(* C16 end to end for lambda-TSF: the hypotheses of the abstract assignment-distortion theorem follow from C14's
   theorems about the simulated profile (initial value eps), for every square strict profile, consistent non-negative
   valuation and thresholds with the stated numeric facts; hence the bound for any one-to-one assignment maximising
   the simulated welfare (what the maximum-weight matching step returns, C04). *)
From Coq Require Import Arith ZArith QArith List Bool Lia Lqa.
Import ListNotations.
From SCK Require Import Argsort StrictB ElicitM ElicitRules ElicitSpec ElicitSpecProof ElicitFinal Distortion.
Local Open Scope Z_scope.

Section TSFFinal.
Variables (fixer : Z) (V : key -> Q) (P : list (list Z)) (k : nat) (tau : list (list Q)) (rho eps : Q).
Let n := length P.
Let m := length (nth 0 P []).
Hypothesis Hsq : m = n.
Hypothesis Hm : (1 <= m)%nat.
Hypothesis Hk : (1 <= k)%nat.
Hypothesis Hrows : forall row, In row P -> length row = m /\ strict_rowb row = true.
Hypothesis Hcons : forall i j j', (i < n)%nat -> (j < m)%nat -> (j' < m)%nat ->
  nth j (nth i P []) 0 <= nth j' (nth i P []) 0 -> (Vat fixer V i j' <= Vat fixer V i j)%Q.
Hypothesis Hnonneg : forall i j, (i < n)%nat -> (j < m)%nat -> (0 <= Vat fixer V i j)%Q.
Hypothesis Heps : (0 <= eps)%Q.
Definition tfav (i : nat) : nat := Z.to_nat (rkat (rank_list (nth i P [])) 0).
Hypothesis Hrho : (1 <= rho)%Q.
Hypothesis Htau_pos : forall i l, (i < n)%nat -> (1 <= l)%nat -> (l <= k)%nat -> (0 <= tauof tau i l)%Q.
Hypothesis Htau_mono : forall i l, (i < n)%nat -> (1 <= l)%nat -> (l < k)%nat -> (tauof tau i (S l) <= tauof tau i l)%Q.
Hypothesis Hratio1 : forall i, (i < n)%nat -> (Vat fixer V i (tfav i) <= rho * tauof tau i 1)%Q.
Hypothesis Hratio : forall i l, (i < n)%nat -> (1 <= l)%nat -> (l < k)%nat -> (tauof tau i l <= rho * tauof tau i (S l))%Q.
Hypothesis Hlast : forall i, (i < n)%nat -> (inject_Z (Z.of_nat n) * tauof tau i k <= rho * Vat fixer V i (tfav i))%Q.

Definition tvt (i j : nat) : Q := if (j <? m)%nat then nth j (srow fixer V P k tau false eps i) 0%Q else 0%Q.
Definition tv (i j : nat) : Q := if (j <? m)%nat then Vat fixer V i j else 0%Q.
(* one-to-one assignments of the n agents to the n items *)
Definition Asg (sg : nat -> nat) : Prop :=
  (forall a, (a < n)%nat -> (sg a < n)%nat) /\ (forall a b, (a < n)%nat -> (b < n)%nat -> sg a = sg b -> a = b).

Lemma tfav_spec i : (i < n)%nat -> (tfav i < m)%nat /\ nth (tfav i) (nth i P []) 0 = 1.
Proof.
  intros Hi. destruct (Hrows (nth i P []) (nth_In P [] Hi)) as [Hl Hs].
  destruct (rank_list_spec (nth i P []) Hs 0%nat ltac:(rewrite Hl; lia)) as [a [Ea [Ha Ra]]]. cbn in Ea, Ra.
  unfold tfav. rewrite Ea, Nat2Z.id. rewrite Hl in Ha. split; [exact Ha|exact Ra].
Qed.
Lemma trank_ge1 i j : (i < n)%nat -> (j < m)%nat -> 1 <= nth j (nth i P []) 0.
Proof.
  intros Hi Hj. destruct (Hrows (nth i P []) (nth_In P [] Hi)) as [Hl Hs]. destruct (row_facts _ Hs) as [Hpos _].
  apply Hpos. apply nth_In. rewrite Hl. exact Hj.
Qed.

Lemma titem_facts i j : (i < n)%nat ->
  (0 <= tvt i j /\ tvt i j <= tv i j + eps)%Q /\ (tv i j <= rho * tvt i j + tauof tau i k)%Q.
Proof.
  intros Hi. pose proof (Htau_pos i k Hi Hk (le_n k)) as Htk. unfold tvt, tv.
  destruct (j <? m)%nat eqn:Ej; [apply Nat.ltb_lt in Ej|split; [split; lra|lra]]. rename Ej into Hj.
  pose proof (trank_ge1 i j Hi Hj) as Hr. pose proof (Hnonneg i j Hi Hj) as Hv.
  destruct (Z.eq_dec (nth j (nth i P []) 0) 1) as [E1|Hne].
  - rewrite (C14_favourite_exact fixer V P k tau false eps Hm Hrows Hcons (fun i0 l H1 H2 H3 => Htau_mono i0 l H1 H2 H3) i Hi j Hj E1).
    split; [split; lra|nra].
  - destruct (C14_sets fixer V P k tau false eps Hm Hrows Hcons (fun i0 l H1 H2 H3 => Htau_mono i0 l H1 H2 H3) i Hi j Hj Hk ltac:(lia))
      as [[l [A [B [C [D [E [F [G [_ Hprev]]]]]]]]]|[A [B C]]].
    + rewrite (G eq_refl). pose proof (Htau_pos i l Hi A B) as Hp. split; [split; [exact Hp|lra]|].
      destruct (Nat.eq_dec l 1) as [->|Hl1].
      * destruct (tfav_spec i Hi) as [Hf1 Hf2]. pose proof (Hcons i (tfav i) j Hi Hf1 Hj ltac:(rewrite Hf2; exact Hr)) as Hle.
        pose proof (Hratio1 i Hi). lra.
      * pose proof (Hprev (l - 1)%nat ltac:(lia) ltac:(lia)) as Hlt. pose proof (Hratio i (l - 1)%nat Hi ltac:(lia) ltac:(lia)) as Hrt.
        replace (S (l - 1)) with l in Hrt by lia. lra.
    + rewrite B. split; [split; lra|]. nra.
Qed.

(* any pair (agent, item) extends to a one-to-one assignment: swap two entries of the identity *)
Lemma swap_asg i f : (i < n)%nat -> (f < n)%nat ->
  Asg (fun a => if (a =? i)%nat then f else if (a =? f)%nat then i else a).
Proof.
  intros Hi Hf. split.
  - intros a Ha. destruct (a =? i)%nat; [exact Hf|]. destruct (a =? f)%nat; [exact Hi|exact Ha].
  - intros a b Ha Hb. destruct (Nat.eqb_spec a i); destruct (Nat.eqb_spec b i); destruct (Nat.eqb_spec a f); destruct (Nat.eqb_spec b f); lia.
Qed.

Theorem tsf_end_to_end X Y : Asg X -> Asg Y ->
  (forall sg, Asg sg -> (sumQ (fun i => tvt i (sg i)) (seq 0 n) <= sumQ (fun i => tvt i (Y i)) (seq 0 n))%Q) ->
  (sumQ (fun i => Vat fixer V i (X i)) (seq 0 n) <=
   2 * rho * (sumQ (fun i => Vat fixer V i (Y i)) (seq 0 n) + inject_Z (Z.of_nat n) * eps))%Q.
Proof.
  intros HX HY Hmax.
  assert (Hn0 : (0 < inject_Z (Z.of_nat (length (seq 0 n))))%Q).
  { rewrite seq_length. change 0%Q with (inject_Z 0). rewrite <- Zlt_Qlt. lia. }
  pose proof (tsf_distortion (seq 0 n) tv tvt tfav (fun i => tauof tau i k) rho eps Asg ltac:(lra) Hn0) as HT.
  assert (Hw : forall Z0, Asg Z0 -> (sumQ (fun i => Vat fixer V i (Z0 i)) (seq 0 n) == W (seq 0 n) tv Z0)%Q).
  { intros Z0 [Hz _]. unfold W. apply Qle_antisym; apply sumQ_le; intros i Hi; apply in_seq in Hi; unfold tv;
    assert (E : (Z0 i <? m)%nat = true) by (apply Nat.ltb_lt; rewrite Hsq; apply Hz; lia); rewrite E; apply Qle_refl. }
  rewrite (Hw X HX), (Hw Y HY). rewrite seq_length in HT. apply HT.
  - intros i j Hi. apply in_seq in Hi. apply titem_facts. lia.
  - intros i j Hi. apply in_seq in Hi. apply titem_facts. lia.
  - intros i Hi. apply in_seq in Hi. destruct (tfav_spec i ltac:(lia)) as [Hf1 Hf2]. unfold tvt.
    assert (E : (tfav i <? m)%nat = true) by (apply Nat.ltb_lt; exact Hf1). rewrite E.
    rewrite (C14_favourite_exact fixer V P k tau false eps Hm Hrows Hcons (fun i0 l H1 H2 H3 => Htau_mono i0 l H1 H2 H3) i ltac:(lia) (tfav i) Hf1 Hf2).
    apply Hlast. lia.
  - intros i Hi. apply in_seq in Hi. destruct (tfav_spec i ltac:(lia)) as [Hf1 _]. exists (fun a => if (a =? i)%nat then tfav i else if (a =? tfav i)%nat then i else a).
    split; [apply swap_asg; lia|]. rewrite Nat.eqb_refl. reflexivity.
  - exact HX.
  - intros sg Hsg. unfold W. apply Hmax. exact Hsg.
Qed.
End TSFFinal.
