(* Correspondence plumbing shared by every generated cases file. *)
From Coq Require Import List.
Import ListNotations.

(* indices of the cases on which the boolean checker (model output = implementation output) fails *)
Fixpoint mism {A : Type} (chk : A -> bool) (i : nat) (cs : list A) : list nat :=
  match cs with
  | [] => []
  | c :: r => if chk c then mism chk (S i) r else i :: mism chk (S i) r
  end.
