From Coq Require Import ZArith List Bool Lia.
Import ListNotations.
Local Open Scope Z_scope.

(* preflib_*_to_profile on an abstract instance: list of (order = list of indifference classes, multiplicity) *)
Inductive kind := SOC | SOI | TOC | TOI | CAT.
Inductive tiepol := Accept | First.
Fixpoint upd {A} (l : list A) (i : nat) (x : A) : list A :=
  match l, i with [], _ => [] | _ :: r, O => x :: r | y :: r, S j => y :: upd r j x end.
Fixpoint insZ (x : Z) (l : list Z) := match l with [] => [x] | y :: r => if x <=? y then x :: l else y :: insZ x r end.
Definition sortZ (l : list Z) := fold_right insZ [] l.
Definition init_row (k : kind) (m : nat) : list (option Z) :=
  match k with SOC | TOC => repeat (Some 0) m | _ => repeat None m end.
(* one class: alternatives are 1-based *)
Definition place_class (pol : tiepol) (row : list (option Z)) (cur : Z) (cls : list Z) : list (option Z) :=
  match pol with
  | Accept => fold_left (fun r a => upd r (Z.to_nat (a - 1)) (Some cur)) cls row
  | First => fst (fold_left (fun st a => let '(r, k) := st in (upd r (Z.to_nat (a - 1)) (Some k), k + 1)) (sortZ cls) (row, cur))
  end.
Definition row_of (k : kind) (pol : tiepol) (m : nat) (order : list (list Z)) : list (option Z) :=
  match k with
  | SOC | SOI => (* flatten_strict: first element of every class, strict positions *)
      fst (fold_left (fun st cls => let '(r, p) := st in
             match cls with a :: _ => (upd r (Z.to_nat (a - 1)) (Some p), p + 1) | [] => st end) order (init_row k m, 1))
  | _ => fst (fold_left (fun st cls => let '(r, cur) := st in
             match cls with [] => st | _ => (place_class pol r cur cls, cur + Z.of_nat (length cls)) end) order (init_row k m, 1))
  end.
Definition convert (k : kind) (pol : tiepol) (m : nat) (votes : list (list (list Z) * nat)) : list (list (option Z)) :=
  flat_map (fun v => repeat (row_of k pol m (fst v)) (snd v)) votes.
Definition oz_eqb (a b : option Z) : bool := match a, b with Some x, Some y => x =? y | None, None => true | _, _ => false end.
Definition row_eqb (a b : list (option Z)) : bool := (length a =? length b)%nat && forallb (fun p => oz_eqb (fst p) (snd p)) (combine a b).
Definition prof_eqb (A B : list (list (option Z))) : bool := (length A =? length B)%nat && forallb (fun p => row_eqb (fst p) (snd p)) (combine A B).
