From Coq Require Import ZArith List Bool Lia.
Import ListNotations.
Local Open Scope Z_scope.

(* preflib_*_to_profile on an abstract instance: list of (order = list of indifference classes, multiplicity) *)
Inductive kind := SOC | SOI | TOC | TOI | CAT.
Inductive tiepol := Accept | First.
Fixpoint upd {A} (l : list A) (i : nat) (x : A) : list A :=
  match l, i with [], _ => [] | _ :: r, O => x :: r | y :: r, S j => y :: upd r j x end.
Fixpoint insZ (x : Z) (l : list Z) := match l with [] => [x] | y :: r => if x <=? y then x :: l else y :: insZ x r end.
Definition sortZ (l : list Z) := fold_right insZ [] l.
Definition init_row (k : kind) (m : nat) : list (option Z) :=
  match k with SOC | TOC => repeat (Some 0) m | _ => repeat None m end.
(* one class: alternatives are 1-based *)
Definition place_class (pol : tiepol) (row : list (option Z)) (cur : Z) (cls : list Z) : list (option Z) :=
  match pol with
  | Accept => fold_left (fun r a => upd r (Z.to_nat (a - 1)) (Some cur)) cls row
  | First => fst (fold_left (fun st a => let '(r, k) := st in (upd r (Z.to_nat (a - 1)) (Some k), k + 1)) (sortZ cls) (row, cur))
  end.
Definition row_of (k : kind) (pol : tiepol) (m : nat) (order : list (list Z)) : list (option Z) :=
  match k with
  | SOC | SOI => (* flatten_strict: first element of every class, strict positions *)
      fst (fold_left (fun st cls => let '(r, p) := st in
             match cls with a :: _ => (upd r (Z.to_nat (a - 1)) (Some p), p + 1) | [] => st end) order (init_row k m, 1))
  | _ => fst (fold_left (fun st cls => let '(r, cur) := st in
             match cls with [] => st | _ => (place_class pol r cur cls, cur + Z.of_nat (length cls)) end) order (init_row k m, 1))
  end.
Definition convert (k : kind) (pol : tiepol) (m : nat) (votes : list (list (list Z) * nat)) : list (list (option Z)) :=
  flat_map (fun v => repeat (row_of k pol m (fst v)) (snd v)) votes.
Definition oz_eqb (a b : option Z) : bool := match a, b with Some x, Some y => x =? y | None, None => true | _, _ => false end.
Definition row_eqb (a b : list (option Z)) : bool := (length a =? length b)%nat && forallb (fun p => oz_eqb (fst p) (snd p)) (combine a b).
Definition prof_eqb (A B : list (list (option Z))) : bool := (length A =? length B)%nat && forallb (fun p => row_eqb (fst p) (snd p)) (combine A B).

(* the data-type guard of the four ordinal converters; categorical instances have their own class *)
Definition kind_eqb (a b : kind) : bool :=
  match a, b with SOC, SOC | SOI, SOI | TOC, TOC | TOI, TOI | CAT, CAT => true | _, _ => false end.
Definition convert_checked (want actual : kind) (pol : tiepol) (m : nat) (votes : list (list (list Z) * nat)) : option (list (list (option Z))) :=
  if kind_eqb want actual then Some (convert actual pol m votes) else None.

(* validity of a row produced under the 'random' policy: same as 'accept' up to a bijection inside each class *)
Definition kind_of (i : nat) : kind := match i with 0%nat => SOC | 1%nat => SOI | 2%nat => TOC | 3%nat => TOI | _ => CAT end.
Definition random_row_ok (k : kind) (m : nat) (order : list (list Z)) (row : list (option Z)) : bool :=
  let acc := row_of k Accept m order in
  (length row =? m)%nat &&
  forallb (fun p => match fst p, snd p with None, None => true | Some _, Some _ => true | _, _ => false end) (combine acc row) &&
  (* inside every class the ranks are exactly cur .. cur+|class|-1, each once *)
  forallb (fun cls => match cls with [] => true | a :: _ =>
            match nth (Z.to_nat (a - 1)) acc None with
            | Some cur => forallb (fun r => (length (filter (fun b => oz_eqb (nth (Z.to_nat (b - 1)) row None) (Some r)) cls) =? 1)%nat)
                                  (map (fun i => cur + Z.of_nat i) (seq 0 (length cls)))
            | None => false end end) order.
(* case: (declared kind, actual kind, policy 0 accept / 1 first / 2 random, m, votes, observed rows or None for "rejected") *)
Definition pl_case : Type := (nat * nat * nat * nat * list (list (list Z) * nat) * option (list (list (option Z))))%type.
Definition chk_pl (c : pl_case) : bool :=
  let '(want, actual, pol, m, votes, e) := c in
  match kind_eqb (kind_of want) (kind_of actual), e with
  | false, None => true
  | true, Some rows =>
    match pol with
    | 2%nat => let exp := flat_map (fun v => repeat (fst v) (snd v)) votes in
               (length exp =? length rows)%nat && forallb (fun p => random_row_ok (kind_of actual) m (fst p) (snd p)) (combine exp rows)
    | _ => prof_eqb (convert (kind_of actual) (if (pol =? 0)%nat then Accept else First) m votes) rows
    end
  | _, _ => false
  end.
