From Coq Require Import QArith List Lia Lqa.
Import ListNotations.
Local Open Scope Q_scope.

(* sums of rationals over index lists, up to Qeq *)
Fixpoint sumQ (f : nat -> Q) (l : list nat) : Q := match l with [] => 0 | x :: t => f x + sumQ f t end.
Lemma sumQ_le f g l : (forall x, In x l -> f x <= g x) -> sumQ f l <= sumQ g l.
Proof. induction l as [|a t IH]; simpl; intros H; [lra|]. pose proof (H a (or_introl eq_refl)). assert (sumQ f t <= sumQ g t) by (apply IH; intros; apply H; now right). lra. Qed.
Lemma sumQ_nonneg f l : (forall x, In x l -> 0 <= f x) -> 0 <= sumQ f l.
Proof. induction l as [|a t IH]; simpl; intros H; [lra|]. pose proof (H a (or_introl eq_refl)). assert (0 <= sumQ f t) by (apply IH; intros; apply H; now right). lra. Qed.
Lemma sumQ_add f g l : sumQ (fun x => f x + g x) l == sumQ f l + sumQ g l.
Proof. induction l as [|a t IH]; simpl; [lra|]. rewrite IH. lra. Qed.
Lemma sumQ_scale c f l : sumQ (fun x => c * f x) l == c * sumQ f l.
Proof. induction l as [|a t IH]; simpl; [lra|]. rewrite IH. lra. Qed.
Lemma sumQ_const c l : sumQ (fun _ => c) l == inject_Z (Z.of_nat (length l)) * c.
Proof.
  induction l as [|a t IH]; simpl sumQ; [simpl; unfold inject_Z; ring|]. rewrite IH.
  change (length (a :: t)) with (S (length t)). rewrite Nat2Z.inj_succ. unfold Z.succ. rewrite inject_Z_plus. ring.
Qed.
Lemma sumQ_swap (f : nat -> nat -> Q) A B : sumQ (fun u => sumQ (f u) B) A == sumQ (fun v => sumQ (fun u => f u v) A) B.
Proof.
  induction A as [|a t IH]; simpl.
  - induction B as [|b s IHB]; simpl; [lra|]. rewrite <- IHB. lra.
  - rewrite IH. rewrite <- sumQ_add. reflexivity.
Qed.
Lemma term_le_sumQ f l a : (forall x, In x l -> 0 <= f x) -> In a l -> f a <= sumQ f l.
Proof.
  induction l as [|b t IH]; intros Hnn Hin0; [destruct Hin0|]. destruct Hin0 as [E|Hin]; simpl.
  - subst. assert (0 <= sumQ f t) by (apply sumQ_nonneg; intros; apply Hnn; now right). lra.
  - pose proof (Hnn b (or_introl eq_refl)). assert (f a <= sumQ f t) by (apply IH; [intros; apply Hnn; now right|exact Hin]). lra.
Qed.

(* C16, the k-ARV argument, over abstract data *)
Section KARV.
Variables (I J : list nat).                 (* agents, alternatives *)
Variables (v vt : nat -> nat -> Q).         (* true and simulated values *)
Variable fav : nat -> nat.
Variable tk : nat -> Q.                     (* last threshold of each agent *)
Variable rho : Q.
Let m : Q := inject_Z (Z.of_nat (length J)).
Hypothesis Hrho : 0 <= rho.
Hypothesis Hm : 0 < m.
Hypothesis H1 : forall i j, In i I -> In j J -> 0 <= vt i j /\ vt i j <= v i j.
Hypothesis H2 : forall i j, In i I -> In j J -> v i j <= rho * vt i j + tk i.
Hypothesis H3 : forall i, In i I -> m * tk i <= rho * vt i (fav i).
Hypothesis H4 : forall i, In i I -> In (fav i) J.
Definition SW (j : nat) : Q := sumQ (fun i => v i j) I.
Definition SWt (j : nat) : Q := sumQ (fun i => vt i j) I.
Variables (x y : nat).
Hypothesis Hx : In x J.
Hypothesis Hy : In y J.
Hypothesis Hmax : forall j, In j J -> SWt j <= SWt y.

Theorem karv_distortion : SW x <= 2 * rho * SW y.
Proof.
  set (T := sumQ tk I).
  assert (A : SW x <= rho * SWt y + T).
  { unfold SW. apply Qle_trans with (sumQ (fun i => rho * vt i x + tk i) I).
    - apply sumQ_le. intros i Hi. apply H2; assumption.
    - rewrite sumQ_add, sumQ_scale. fold (SWt x). fold T. pose proof (Hmax x Hx). nra. }
  assert (B : m * T <= rho * (m * SWt y)).
  { unfold T. rewrite <- sumQ_scale.
    apply Qle_trans with (sumQ (fun i => rho * vt i (fav i)) I); [apply sumQ_le; intros i Hi; apply H3; exact Hi|].
    rewrite sumQ_scale.
    assert (C1 : sumQ (fun i => vt i (fav i)) I <= sumQ (fun i => sumQ (vt i) J) I).
    { apply sumQ_le. intros i Hi. apply (term_le_sumQ (vt i) J (fav i)); [intros j Hj; apply H1; assumption|apply H4; exact Hi]. }
    assert (C2 : sumQ (fun i => sumQ (vt i) J) I == sumQ SWt J) by (rewrite sumQ_swap; reflexivity).
    assert (C3 : sumQ SWt J <= m * SWt y).
    { apply Qle_trans with (sumQ (fun _ => SWt y) J); [apply sumQ_le; exact Hmax|]. rewrite sumQ_const. fold m. lra. }
    rewrite C2 in C1. nra. }
  assert (C : SWt y <= SW y) by (unfold SWt, SW; apply sumQ_le; intros i Hi; apply H1; assumption).
  assert (D : 0 <= SWt y) by (unfold SWt; apply sumQ_nonneg; intros i Hi; apply H1; assumption).
  assert (E : T <= rho * SWt y).
  { apply Qmult_le_l with (z := m); [exact Hm|]. lra. }
  nra.
Qed.
End KARV.
Print Assumptions karv_distortion.

(* the same argument when the winner maximises the simulated welfare only up to a factor (1 + delta): this is what a
   winner selected by FLOATING-POINT column sums satisfies (relative rounding error of a sum of n non-negative doubles) *)
Section KARV_SLACK.
Variables (I J : list nat).
Variables (v vt : nat -> nat -> Q).
Variable fav : nat -> nat.
Variable tk : nat -> Q.
Variables (rho delta : Q).
Let m : Q := inject_Z (Z.of_nat (length J)).
Hypothesis Hrho : 0 <= rho.
Hypothesis Hdelta : 0 <= delta.
Hypothesis Hm : 0 < m.
Hypothesis H1 : forall i j, In i I -> In j J -> 0 <= vt i j /\ vt i j <= v i j.
Hypothesis H2 : forall i j, In i I -> In j J -> v i j <= rho * vt i j + tk i.
Hypothesis H3 : forall i, In i I -> m * tk i <= rho * vt i (fav i).
Hypothesis H4 : forall i, In i I -> In (fav i) J.
Variables (x y : nat).
Hypothesis Hx : In x J.
Hypothesis Hy : In y J.
Hypothesis Hmax : forall j, In j J -> SWt I vt j <= (1 + delta) * SWt I vt y.

Theorem karv_distortion_slack : SW I v x <= 2 * rho * (1 + delta) * SW I v y.
Proof.
  set (T := sumQ tk I). set (S := SWt I vt y).
  assert (D : 0 <= S) by (unfold S, SWt; apply sumQ_nonneg; intros i Hi; apply H1; assumption).
  assert (A : SW I v x <= rho * ((1 + delta) * S) + T).
  { unfold SW. apply Qle_trans with (sumQ (fun i => rho * vt i x + tk i) I).
    - apply sumQ_le. intros i Hi. apply H2; assumption.
    - rewrite sumQ_add, sumQ_scale. fold (SWt I vt x). fold T. pose proof (Hmax x Hx) as Hle. fold S in Hle.
      set (a := SWt I vt x) in *. nra. }
  assert (B : m * T <= rho * (m * ((1 + delta) * S))).
  { unfold T. rewrite <- sumQ_scale.
    apply Qle_trans with (sumQ (fun i => rho * vt i (fav i)) I); [apply sumQ_le; intros i Hi; apply H3; exact Hi|].
    rewrite sumQ_scale.
    assert (C1 : sumQ (fun i => vt i (fav i)) I <= sumQ (fun i => sumQ (vt i) J) I).
    { apply sumQ_le. intros i Hi. apply (term_le_sumQ (vt i) J (fav i)); [intros j Hj; apply H1; assumption|apply H4; exact Hi]. }
    assert (C2 : sumQ (fun i => sumQ (vt i) J) I == sumQ (SWt I vt) J) by (rewrite sumQ_swap; reflexivity).
    assert (C3 : sumQ (SWt I vt) J <= m * ((1 + delta) * S)).
    { apply Qle_trans with (sumQ (fun _ => (1 + delta) * S) J); [apply sumQ_le; exact Hmax|]. rewrite sumQ_const. fold m. lra. }
    rewrite C2 in C1. set (a := sumQ (fun i => vt i (fav i)) I) in *. set (b := sumQ (SWt I vt) J) in *. nra. }
  assert (C : S <= SW I v y) by (unfold S, SWt, SW; apply sumQ_le; intros i Hi; apply H1; assumption).
  assert (E : T <= rho * ((1 + delta) * S)).
  { apply Qmult_le_l with (z := m); [exact Hm|]. lra. }
  set (u := SW I v y) in *. set (w := SW I v x) in *.
  assert (F : 0 <= rho * (1 + delta)) by nra. set (c := rho * (1 + delta)) in *.
  assert (G : rho * ((1 + delta) * S) == c * S) by (unfold c; ring). rewrite G in A, E.
  assert (K : c * S <= c * u) by nra.
  assert (L : 2 * rho * (1 + delta) * u == 2 * (c * u)) by (unfold c; ring). rewrite L. lra.
Qed.
End KARV_SLACK.
Print Assumptions karv_distortion_slack.

(* C16, the lambda-TSF argument: assignments instead of single alternatives, epsilon floor on simulated values *)
Section TSF.
Variable I : list nat.                       (* agents; an assignment maps agents to items *)
Variables (v vt : nat -> nat -> Q).
Variable fav : nat -> nat.
Variable tk : nat -> Q.
Variables (rho eps : Q).
Variable Asg : (nat -> nat) -> Prop.         (* the admissible assignments *)
Let n : Q := inject_Z (Z.of_nat (length I)).
Hypothesis Hrho : 0 <= rho.
Hypothesis Hn : 0 < n.
Hypothesis Heps : 0 <= eps.
Hypothesis H1 : forall i j, In i I -> 0 <= vt i j /\ vt i j <= v i j + eps.
Hypothesis H2 : forall i j, In i I -> v i j <= rho * vt i j + tk i.
Hypothesis H3 : forall i, In i I -> n * tk i <= rho * vt i (fav i).
Hypothesis H5 : forall i, In i I -> exists sg, Asg sg /\ sg i = fav i.
Definition W (w : nat -> nat -> Q) (sg : nat -> nat) : Q := sumQ (fun i => w i (sg i)) I.
Variables (X Y : nat -> nat).
Hypothesis HX : Asg X.
Hypothesis Hmax : forall sg, Asg sg -> W vt sg <= W vt Y.

Theorem tsf_distortion : W v X <= 2 * rho * (W v Y + n * eps).
Proof.
  set (T := sumQ tk I).
  assert (A : W v X <= rho * W vt Y + T).
  { unfold W. apply Qle_trans with (sumQ (fun i => rho * vt i (X i) + tk i) I).
    - apply sumQ_le. intros i Hi. apply H2; assumption.
    - rewrite sumQ_add, sumQ_scale. fold T. pose proof (Hmax X HX) as Hle. unfold W in Hle.
      set (a := sumQ (fun i => vt i (X i)) I) in *. set (b := sumQ (fun i => vt i (Y i)) I) in *. nra. }
  assert (B : n * T <= rho * (n * W vt Y)).
  { unfold T. rewrite <- sumQ_scale.
    apply Qle_trans with (sumQ (fun i => rho * vt i (fav i)) I); [apply sumQ_le; intros i Hi; apply H3; exact Hi|].
    rewrite sumQ_scale.
    assert (C1 : sumQ (fun i => vt i (fav i)) I <= sumQ (fun _ => W vt Y) I).
    { apply sumQ_le. intros i Hi. destruct (H5 i Hi) as [sg [Hsg Hf]].
      apply Qle_trans with (W vt sg); [|apply Hmax; exact Hsg].
      unfold W. rewrite <- Hf. apply (term_le_sumQ (fun i => vt i (sg i)) I i); [intros k Hk; apply H1; exact Hk|exact Hi]. }
    rewrite sumQ_const in C1. fold n in C1. nra. }
  assert (C : W vt Y <= W v Y + n * eps).
  { unfold W. apply Qle_trans with (sumQ (fun i => v i (Y i) + eps) I); [apply sumQ_le; intros i Hi; apply H1; exact Hi|].
    rewrite sumQ_add, sumQ_const. fold n. lra. }
  assert (D : 0 <= W vt Y) by (unfold W; apply sumQ_nonneg; intros i Hi; apply H1; exact Hi).
  assert (E : T <= rho * W vt Y) by (apply Qmult_le_l with (z := n); [exact Hn|lra]).
  nra.
Qed.
End TSF.
Print Assumptions tsf_distortion.
