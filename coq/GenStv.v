(* Library for the generated STV loop (deterministic_multiround.py:54-68): Gallina counterparts of the numpy idioms and
   the driver; lemmas connecting a generated loop body of the recognised shape to the hand-written Voting.stv_loop. *)
From Coq Require Import ZArith QArith List Bool Lia String.
Import ListNotations.
From SCK Require Import Voting VotingProof ScoreProof GenLib.
Local Open Scope Z_scope.

Definition delcol (d : nat) (P : list (list Z)) : list (list Z) := map (fun row => remove_nth row d) P.      (* np.delete(P, d, axis=1) *)
Definition colof (d : nat) (P : list (list Z)) : list Z := map (fun row => nth d row 0) P.                 (* P[:, d] as a column *)
(* elementwise f between a matrix and a column vector (numpy broadcasting of an (n,1) array) *)
Definition rowwise (f : Z -> Z -> Z) (P : list (list Z)) (c : list Z) : list (list Z) :=
  map (fun rc => map (fun x => f x (snd rc)) (fst rc)) (combine P c).
Fixpoint minQl (l : list Q) (d : Q) : Q := match l with [] => d | x :: t => minQl t (if Qle_bool d x then d else x) end.
Definition aminQ (l : list Q) : Q := match l with x :: t => minQl t x | [] => 0%Q end.                      (* np.amin *)
Definition outcome_index (o : outcome) : option nat := match o with OOne z => Some (Z.to_nat z) | _ => None end.

Definition stv_state : Type := (list (list Z) * list Z)%type.
(* driver: `done` is the loop's break test together with the value returned after the loop; `next` is one pass of the body *)
Fixpoint stv_iter (done : stv_state -> option Z) (next : nat -> stv_state -> option stv_state) (fuel : nat) (st : stv_state) (oracle : list nat) : option Z :=
  match fuel with O => None | S f =>
    match done st with
    | Some a => Some a
    | None => match oracle with
              | [] => None
              | o :: os => match next o st with Some st' => stv_iter done next f st' os | None => None end
              end
    end
  end.

(* ---------- lemmas ---------- *)
Lemma minQl_inject l : forall d, (minQl (map inject_Z l) (inject_Z d) == inject_Z (minZ l d))%Q.
Proof.
  induction l as [|x t IH]; intros d; [reflexivity|]. cbn [map minQl minZ].
  destruct (Qle_bool (inject_Z d) (inject_Z x)) eqn:E.
  - apply Qle_bool_iff in E. rewrite <- Zle_Qle in E. rewrite IH. rewrite Z.min_l by exact E. reflexivity.
  - assert (H : (x < d)%Z). { destruct (Z.lt_ge_cases x d) as [L|L]; [exact L|]. exfalso. assert (Qle_bool (inject_Z d) (inject_Z x) = true) by (apply Qle_bool_iff; rewrite <- Zle_Qle; lia). congruence. }
    rewrite IH. rewrite Z.min_r by lia. reflexivity.
Qed.
Lemma aminQ_inject l : (aminQ (map inject_Z l) == inject_Z (match l with x :: t => minZ t x | [] => 0 end))%Q.
Proof. destruct l as [|x t]; [reflexivity|]. cbn [map aminQ]. apply minQl_inject. Qed.

Lemma argwhere_filter {A} (f : A -> bool) (l : list A) :
  argwhere (map f l) = map snd (filter (fun p => f (fst p)) (combine l (seq 0 (List.length l)))).
Proof.
  unfold argwhere. rewrite map_length. generalize 0%nat. induction l as [|a t IH]; intros n; [reflexivity|].
  cbn [map combine seq List.length filter fst snd]. destruct (f a); cbn [map snd]; rewrite IH; reflexivity.
Qed.

(* the candidates to drop: positions of the minimal plurality count *)
Lemma cands_eq (sc : list Z) :
  argwhere (map (fun x => Qeq_bool x (aminQ (map inject_Z sc))) (map inject_Z sc)) =
  map snd (filter (fun p => fst p =? match sc with x :: t => minZ t x | [] => 0 end) (combine sc (seq 0 (List.length sc)))).
Proof.
  rewrite map_map. rewrite (argwhere_filter (fun x => Qeq_bool (inject_Z x) (aminQ (map inject_Z sc))) sc). f_equal.
  apply filter_ext. intros [x i]. cbn [fst]. set (M := match sc with x :: t => minZ t x | [] => 0 end).
  pose proof (aminQ_inject sc) as HA. fold M in HA.
  destruct (Qeq_bool (inject_Z x) (aminQ (map inject_Z sc))) eqn:E.
  - apply Qeq_bool_iff in E. assert (E' : (inject_Z x == inject_Z M)%Q) by (rewrite E; exact HA).
    apply (proj1 (inject_Z_injective x M)) in E'. rewrite E'. symmetry. apply Z.eqb_refl.
  - symmetry. apply Z.eqb_neq. intros ->. assert (Qeq_bool (inject_Z M) (aminQ (map inject_Z sc)) = true) by (apply Qeq_bool_iff; symmetry; exact HA). congruence.
Qed.

(* plurality counts: the generated column sums of the indicator equal the model's counts, whatever the row lengths *)
Lemma plurality_counts_gen (f : Z -> Z) P m : (forall x, f x = if x =? 1 then 1 else 0) ->
  colsumZ (Z.of_nat m) (mmapZ f P) = plurality_counts P m.
Proof.
  intros Hf. unfold colsumZ, plurality_counts, mmapZ. rewrite Nat2Z.id. apply map_ext. intros j.
  assert (HS : forall l, sumZ l = sumZl l) by (induction l as [|x t IH]; [reflexivity|rewrite sumZl_cons; cbn [sumZ]; rewrite IH; reflexivity]). rewrite HS. f_equal. rewrite map_map. apply map_ext. intros row.
  assert (E0 : f 0 = 0) by (rewrite Hf; reflexivity). rewrite <- E0 at 1. rewrite map_nth. apply Hf.
Qed.

(* ---------- the recognised shape of the loop and its equivalence with the model ---------- *)
Definition stv_done_shape (st : stv_state) : option Z :=
  let '(P, alts) := st in if (List.length alts =? 1)%nat then Some (nth 0 alts 0) else None.
Definition stv_next_shape (score : list (list Z) -> list Q) (bt : list Z -> nat -> outcome) (f : Z -> Z -> Z) (o : nat) (st : stv_state) : option stv_state :=
  let '(P, alts) := st in
  let sc := score P in
  let cands := argwhere (map (fun x => Qeq_bool x (aminQ sc)) sc) in
  match outcome_index (bt (map Z.of_nat cands) o) with
  | Some d => Some (rowwise f (delcol d P) (colof d P), remove_nth alts d)
  | None => None
  end.

Lemma rowwise_drop f P d : (forall x r, f x r = if x >? r then x - 1 else x) -> rowwise f (delcol d P) (colof d P) = drop_alt P d.
Proof.
  intros Hf. unfold rowwise, delcol, colof, drop_alt. induction P as [|row t IH]; [reflexivity|]. cbn [map combine fst snd]. rewrite IH. f_equal.
  apply map_ext. intros x. apply Hf.
Qed.
Lemma remove_nth_length {A} (l : list A) d : (d < List.length l)%nat -> List.length (remove_nth l d) = (List.length l - 1)%nat.
Proof. revert d. induction l as [|x t IH]; intros d H; [simpl in H; lia|]. destruct d; cbn [remove_nth List.length]; [lia|]. rewrite IH by (simpl in H; lia). simpl in H. lia. Qed.
Lemma rect_drop P m d : rect P m -> (d < m)%nat -> rect (drop_alt P d) (m - 1).
Proof.
  intros [Hrows Hm] Hd. assert (Hne : P <> []) by (intros ->; simpl in Hm; lia). split.
  - intros row Hrow. unfold drop_alt in Hrow. apply in_map_iff in Hrow as [r [<- Hr]]. rewrite map_length, remove_nth_length; rewrite (Hrows r Hr); lia.
  - destruct P as [|r0 t]; [contradiction|]. cbn [drop_alt map nth]. rewrite map_length, remove_nth_length; cbn [nth] in Hm; lia.
Qed.

Theorem stv_shape_is_model (score : list (list Z) -> list Q) (f : Z -> Z -> Z) :
  (forall P m, rect P m -> score P = map inject_Z (plurality_counts P m)) ->
  (forall x r, f x r = if x >? r then x - 1 else x) ->
  forall fuel P alts oracle, rect P (List.length alts) ->
  stv_iter stv_done_shape (stv_next_shape score pick_choice f) fuel (P, alts) oracle = stv_loop fuel P alts oracle.
Proof.
  intros Hsc Hf. induction fuel as [|fu IH]; intros P alts oracle HR; [reflexivity|]. cbn [stv_iter stv_loop stv_done_shape].
  destruct alts as [|a [|b t]].
  - (* no alternative *) cbn [List.length Nat.eqb]. destruct oracle as [|o os]; [reflexivity|]. cbn [stv_next_shape].
    rewrite (Hsc P 0%nat HR). cbn [plurality_counts seq map]. cbn. destruct o; reflexivity.
  - cbn [List.length Nat.eqb nth]. reflexivity.
  - set (alts := a :: b :: t) in *. assert (E1 : (List.length alts =? 1)%nat = false) by reflexivity. rewrite E1.
    destruct oracle as [|o os]; [reflexivity|]. cbn [stv_next_shape].
    rewrite (Hsc P (List.length alts) HR). set (sc := plurality_counts P (List.length alts)).
    rewrite (cands_eq sc). set (cands := map snd (filter (fun p => fst p =? match sc with x :: t0 => minZ t0 x | [] => 0 end) (combine sc (seq 0 (List.length sc))))).
    unfold pick_choice. rewrite nth_error_map. destruct (nth_error cands o) as [d|] eqn:Ed; cbn [option_map outcome_index]; [|reflexivity].
    rewrite Nat2Z.id. rewrite (rowwise_drop f P d Hf).
    assert (Hd : (d < List.length alts)%nat).
    { apply nth_error_In in Ed. unfold cands in Ed. apply in_map_iff in Ed as [[x i] [<- Hin]]. apply filter_In in Hin as [Hin _].
      apply in_combine_r in Hin. apply in_seq in Hin. unfold sc, plurality_counts in Hin. rewrite map_length, seq_length in Hin. cbn [snd]. lia. }
    apply IH. rewrite remove_nth_length by exact Hd. apply rect_drop; assumption.
Qed.

(* tie-breaker "first": the head of the candidates, i.e. the model with the oracle answering 0 *)
Theorem stv_shape_first_is_model (score : list (list Z) -> list Q) (f : Z -> Z -> Z) :
  (forall P m, rect P m -> score P = map inject_Z (plurality_counts P m)) ->
  (forall x r, f x r = if x >? r then x - 1 else x) ->
  forall fuel P alts oracle, rect P (List.length alts) ->
  stv_iter stv_done_shape (stv_next_shape score (fun c _ => pick_first c) f) fuel (P, alts) oracle = stv_loop fuel P alts (map (fun _ => O) oracle).
Proof.
  intros Hsc Hf. induction fuel as [|fu IH]; intros P alts oracle HR; [reflexivity|]. cbn [stv_iter stv_loop stv_done_shape].
  destruct alts as [|a [|b t]].
  - cbn [List.length Nat.eqb]. destruct oracle as [|o os]; [reflexivity|]. cbn [stv_next_shape map].
    rewrite (Hsc P 0%nat HR). cbn. reflexivity.
  - cbn [List.length Nat.eqb nth]. reflexivity.
  - set (alts := a :: b :: t) in *. assert (E1 : (List.length alts =? 1)%nat = false) by reflexivity. rewrite E1.
    destruct oracle as [|o os]; [reflexivity|]. cbn [stv_next_shape map].
    rewrite (Hsc P (List.length alts) HR). set (sc := plurality_counts P (List.length alts)).
    rewrite (cands_eq sc). set (cands := map snd (filter (fun p => fst p =? match sc with x :: t0 => minZ t0 x | [] => 0 end) (combine sc (seq 0 (List.length sc))))).
    unfold pick_first. destruct cands as [|d rest] eqn:Ec; cbn [map nth_error outcome_index]; [reflexivity|].
    rewrite Nat2Z.id. rewrite (rowwise_drop f P d Hf).
    assert (Hd : (d < List.length alts)%nat).
    { assert (Ed : In d cands) by (rewrite Ec; now left). unfold cands in Ed. apply in_map_iff in Ed as [[x i] [<- Hin]]. apply filter_In in Hin as [Hin _].
      apply in_combine_r in Hin. apply in_seq in Hin. unfold sc, plurality_counts in Hin. rewrite map_length, seq_length in Hin. cbn [snd]. lia. }
    apply IH. rewrite remove_nth_length by exact Hd. apply rect_drop; assumption.
Qed.
