From Coq Require Import ZArith List Bool Lia.
Import ListNotations.
Require Import FlowModel.
Local Open Scope Z_scope.

(* ---------- association-list facts ---------- *)
Lemma memZ_In x l : memZ x l = true <-> In x l.
Proof.
  unfold memZ. rewrite existsb_exists. split.
  - intros [y [Hy E]]. apply Z.eqb_eq in E. subst. exact Hy.
  - intros H. exists x. split; [exact H|apply Z.eqb_refl].
Qed.
Lemma lookup_set_adj_same G u a : In u (keys G) -> lookup (set_adj G u a) u = a.
Proof.
  induction G as [|[k a0] r IH]; simpl; [tauto|]. intros H. destruct (k =? u) eqn:E; simpl; rewrite E; [reflexivity|].
  apply IH. destruct H as [H|H]; [apply Z.eqb_neq in E; simpl in H; congruence|exact H].
Qed.
Lemma lookup_set_adj_other G u a u' : u' <> u -> lookup (set_adj G u a) u' = lookup G u'.
Proof.
  intros Hne. induction G as [|[k a0] r IH]; simpl; [reflexivity|]. destruct (k =? u) eqn:E; simpl.
  - apply Z.eqb_eq in E. subst k. destruct (u =? u') eqn:E2; [apply Z.eqb_eq in E2; congruence|reflexivity].
  - destruct (k =? u'); [reflexivity|exact IH].
Qed.
Lemma keys_set_adj G u a : keys (set_adj G u a) = keys G.
Proof. unfold keys. induction G as [|[k a0] r IH]; simpl; [reflexivity|]. destruct (k =? u); simpl; [reflexivity|f_equal; exact IH]. Qed.
Lemma bump_fst a w d : map fst (bump a w d) = map fst a.
Proof. unfold bump. rewrite map_map. apply map_ext. intros [v c]; simpl. destruct (v =? w); reflexivity. Qed.
Lemma aget_bump_other a w d v : v <> w -> aget (bump a w d) v = aget a v.
Proof.
  intros Hne. induction a as [|[x c] r IH]; simpl; [reflexivity|]. destruct (x =? w) eqn:E; simpl.
  - apply Z.eqb_eq in E. subst x. destruct (w =? v) eqn:E2; [apply Z.eqb_eq in E2; congruence|exact IH].
  - destruct (x =? v); [reflexivity|exact IH].
Qed.
Lemma aget_bump_same a w d : In w (map fst a) -> aget (bump a w d) w = aget a w + d.
Proof.
  induction a as [|[x c] r IH]; simpl; [tauto|]. intros H. destruct (x =? w) eqn:E; simpl; rewrite E; [reflexivity|].
  apply IH. destruct H as [H|H]; [apply Z.eqb_neq in E; congruence|exact H].
Qed.
Lemma aget_notin a v : ~ In v (map fst a) -> aget a v = 0.
Proof.
  induction a as [|[x c] r IH]; simpl; [reflexivity|]. intros H. destruct (x =? v) eqn:E.
  - apply Z.eqb_eq in E. subst. tauto. - apply IH. tauto.
Qed.
Lemma pair_eqb_eq a b : pair_eqb a b = true <-> a = b.
Proof. destruct a, b; unfold pair_eqb; simpl. rewrite andb_true_iff, !Z.eqb_eq. split; [intros [-> ->]; reflexivity|intros E; injection E; auto]. Qed.
Lemma fget_fset_same f k v : fget (fset f k v) k = v.
Proof.
  induction f as [|[k' v'] r IH]; simpl.
  - assert (pair_eqb k k = true) by (apply pair_eqb_eq; reflexivity). rewrite H. reflexivity.
  - destruct (pair_eqb k k') eqn:E; simpl; rewrite E; [reflexivity|exact IH].
Qed.
Lemma fget_fset_other f k v k' : k' <> k -> fget (fset f k v) k' = fget f k'.
Proof.
  intros Hne. induction f as [|[k0 v0] r IH]; simpl.
  - destruct (pair_eqb k' k) eqn:E; [apply pair_eqb_eq in E; congruence|reflexivity].
  - destruct (pair_eqb k k0) eqn:E; simpl.
    + apply pair_eqb_eq in E. subst k0. destruct (pair_eqb k' k) eqn:E2; [apply pair_eqb_eq in E2; congruence|reflexivity].
    + destruct (pair_eqb k' k0); [reflexivity|exact IH].
Qed.

(* ---------- well-formed residual graphs ---------- *)
Definition wfg (G : graph) : Prop :=
  NoDup (keys G) /\
  forall u v, In v (targets G u) -> In u (keys G) /\ In v (keys G) /\ v <> u /\ In u (targets G v).
Definition nodupT (G : graph) : Prop := forall u, NoDup (targets G u).

(* ---------- one push ---------- *)
Definition delta (u v c x y : Z) : Z :=
  if (x =? u) && (y =? v) then c else if (x =? v) && (y =? u) then - c else 0.

Section Push.
Variables (Gf : graph) (fl : flowmap) (u v c : Z).
Hypothesis Hwf : wfg Gf.
Hypothesis Huv : In v (targets Gf u).
Let st' := push (Gf, fl) u v c.
Let Gf' := fst st'.
Let fl' := snd st'.

Lemma push_facts : In u (keys Gf) /\ In v (keys Gf) /\ v <> u /\ In u (targets Gf v).
Proof. destruct Hwf as [_ H]. exact (H u v Huv). Qed.

Lemma push_keys : keys Gf' = keys Gf.
Proof. unfold Gf', st', push. simpl. rewrite !keys_set_adj. reflexivity. Qed.

Lemma push_lookup x : lookup Gf' x =
  if x =? v then bump (lookup Gf v) u c else if x =? u then bump (lookup Gf u) v (- c) else lookup Gf x.
Proof.
  destruct push_facts as [Hu [Hv [Hne _]]]. unfold Gf', st', push. simpl.
  destruct (x =? v) eqn:Ev.
  - apply Z.eqb_eq in Ev. subst x. rewrite lookup_set_adj_same by (rewrite keys_set_adj; exact Hv).
    rewrite lookup_set_adj_other by exact Hne. reflexivity.
  - apply Z.eqb_neq in Ev. rewrite lookup_set_adj_other by exact Ev.
    destruct (x =? u) eqn:Eu.
    + apply Z.eqb_eq in Eu. subst x. rewrite lookup_set_adj_same by exact Hu. reflexivity.
    + apply Z.eqb_neq in Eu. rewrite lookup_set_adj_other by exact Eu. reflexivity.
Qed.
Lemma push_targets x : targets Gf' x = targets Gf x.
Proof.
  unfold targets. rewrite push_lookup. destruct (x =? v) eqn:Ev; [apply Z.eqb_eq in Ev; subst; apply bump_fst|].
  destruct (x =? u) eqn:Eu; [apply Z.eqb_eq in Eu; subst; apply bump_fst|reflexivity].
Qed.
Lemma push_cf x y : cf Gf' x y = cf Gf x y - delta u v c x y.
Proof.
  destruct push_facts as [Hu [Hv [Hne Hvu]]]. unfold cf, delta. rewrite push_lookup.
  destruct (x =? v) eqn:Ev.
  - apply Z.eqb_eq in Ev. subst x.
    assert (E1 : (v =? u) = false) by (apply Z.eqb_neq; exact Hne). rewrite E1. simpl.
    destruct (y =? u) eqn:Ey.
    + apply Z.eqb_eq in Ey. subst y. rewrite aget_bump_same by exact Hvu. lia.
    + apply Z.eqb_neq in Ey. rewrite aget_bump_other by exact Ey. lia.
  - destruct (x =? u) eqn:Eu; simpl.
    + apply Z.eqb_eq in Eu. subst x. destruct (y =? v) eqn:Ey.
      * apply Z.eqb_eq in Ey. subst y. rewrite aget_bump_same by exact Huv. lia.
      * apply Z.eqb_neq in Ey. rewrite aget_bump_other by exact Ey. lia.
    + lia.
Qed.
Lemma push_fget x y : fget fl' (x, y) = fget fl (x, y) + delta u v c x y.
Proof.
  destruct push_facts as [_ [_ [Hne _]]]. unfold fl', st', push, delta. simpl.
  destruct ((x =? v) && (y =? u)) eqn:E2.
  - apply andb_true_iff in E2. destruct E2 as [Ex Ey]. apply Z.eqb_eq in Ex, Ey. subst x y.
    assert (E1 : (v =? u) && (u =? v) = false) by (apply andb_false_iff; left; apply Z.eqb_neq; exact Hne). rewrite E1.
    rewrite fget_fset_same. rewrite fget_fset_other by congruence. lia.
  - rewrite fget_fset_other.
    2:{ intros E. injection E as -> ->. rewrite !Z.eqb_refl in E2. discriminate. }
    destruct ((x =? u) && (y =? v)) eqn:E1.
    + apply andb_true_iff in E1. destruct E1 as [Ex Ey]. apply Z.eqb_eq in Ex, Ey. subst x y. rewrite fget_fset_same. lia.
    + rewrite fget_fset_other. lia. intros E. injection E as -> ->. rewrite !Z.eqb_refl in E1. discriminate.
Qed.
Lemma push_wfg : wfg Gf'.
Proof.
  destruct Hwf as [Hnd H]. split; [rewrite push_keys; exact Hnd|].
  intros x y Hin. rewrite push_targets in Hin. rewrite push_keys, push_targets. exact (H x y Hin).
Qed.
End Push.

(* ---------- sums ---------- *)
Definition sumZ (f : Z -> Z) (l : list Z) : Z := fold_right (fun x acc => f x + acc) 0 l.
Lemma sumZ_ext f g l : (forall x, In x l -> f x = g x) -> sumZ f l = sumZ g l.
Proof. induction l as [|a t IH]; simpl; intros H; [reflexivity|]. rewrite H by now left. rewrite IH; [reflexivity|]. intros; apply H; now right. Qed.
Lemma sumZ_add f g l : sumZ (fun x => f x + g x) l = sumZ f l + sumZ g l.
Proof. induction l as [|a t IH]; simpl; [reflexivity|]. rewrite IH. lia. Qed.
Lemma sumZ_opp f l : sumZ (fun x => - f x) l = - sumZ f l.
Proof. induction l as [|a t IH]; simpl; [reflexivity|]. rewrite IH. lia. Qed.
Lemma sumZ_zero l : sumZ (fun _ => 0) l = 0.
Proof. induction l; simpl; lia. Qed.
Lemma sumZ_ind a c l : NoDup l -> sumZ (fun y => if y =? a then c else 0) l = if in_dec Z.eq_dec a l then c else 0.
Proof.
  induction 1 as [|x t Hn Hnd IH]; simpl; [reflexivity|]. rewrite IH.
  destruct (x =? a) eqn:E.
  - apply Z.eqb_eq in E. subst x. destruct (Z.eq_dec a a); [|congruence]. destruct (in_dec Z.eq_dec a t); [contradiction|lia].
  - apply Z.eqb_neq in E. destruct (Z.eq_dec x a); [congruence|]. destruct (in_dec Z.eq_dec a t); lia.
Qed.
Lemma sumZ_delta V u v c x : NoDup V -> In u V -> In v V -> v <> u ->
  sumZ (delta u v c x) V = (if x =? u then c else 0) - (if x =? v then c else 0).
Proof.
  intros Hnd Hu Hv Hne. unfold delta.
  destruct (x =? u) eqn:Eu; simpl.
  - apply Z.eqb_eq in Eu. subst x. assert (E : (u =? v) = false) by (apply Z.eqb_neq; congruence). rewrite E. simpl.
    rewrite (sumZ_ind v c V Hnd). destruct (in_dec Z.eq_dec v V); [lia|contradiction].
  - destruct (x =? v) eqn:Ev; simpl.
    + rewrite (sumZ_ind u (- c) V Hnd). destruct (in_dec Z.eq_dec u V); [lia|contradiction].
    + rewrite sumZ_zero. lia.
Qed.

(* ---------- pseudo-flow invariant and augmentation along a walk ---------- *)
Definition excess (V : list Z) (fl : flowmap) (x : Z) : Z := sumZ (fun y => fget fl (x, y)) V.

Record PInv (G Gf : graph) (fl : flowmap) : Prop := {
  p_wf : wfg Gf;
  p_keys : keys Gf = keys G;
  p_cf : forall x y, cf Gf x y = cf G x y - fget fl (x, y);
  p_skew : forall x y, fget fl (x, y) = - fget fl (y, x);
  p_nn : forall x y, 0 <= cf Gf x y
}.

Fixpoint chain (Gf : graph) (c : Z) (path : list Z) : Prop :=
  match path with
  | u :: ((v :: _) as rest) => In v (targets Gf u) /\ c <= cf Gf u v /\ chain Gf c rest
  | _ => True
  end.
Definition hdZ (l : list Z) : Z := hd 0 l.
Definition lastZ (l : list Z) : Z := last l 0.

Lemma chain_mono Gf Gf' c path :
  (forall x, targets Gf' x = targets Gf x) ->
  (forall x y, In y (tl path) -> cf Gf x y <= cf Gf' x y) ->
  chain Gf c path -> chain Gf' c path.
Proof.
  intros Ht. induction path as [|u rest IH]; intros Hcf Hc; [exact I|].
  destruct rest as [|v rest']; [exact I|]. simpl in Hc |- *. destruct Hc as [A [B C]].
  split; [rewrite Ht; exact A|]. split; [specialize (Hcf u v (or_introl eq_refl)); lia|].
  apply IH; [|exact C]. intros x y Hy. apply Hcf. simpl. right. exact Hy.
Qed.

Lemma delta_skew u v c x y : v <> u -> delta u v c x y = - delta u v c y x.
Proof.
  intros Hne. unfold delta.
  destruct (x =? u) eqn:E1, (y =? v) eqn:E2, (x =? v) eqn:E3, (y =? u) eqn:E4; simpl; try lia;
  repeat match goal with H : (_ =? _) = true |- _ => apply Z.eqb_eq in H end; subst; try congruence.
Qed.

Lemma push_PInv G Gf fl u v c : PInv G Gf fl -> In v (targets Gf u) -> 0 <= c -> c <= cf Gf u v ->
  PInv G (fst (push (Gf, fl) u v c)) (snd (push (Gf, fl) u v c)).
Proof.
  intros P Huv Hc Hle. pose proof (p_wf _ _ _ P) as Hwf. destruct (push_facts Gf u v Hwf Huv) as [_ [_ [Hne _]]].
  constructor.
  - apply push_wfg; assumption.
  - rewrite push_keys by assumption. apply P.
  - intros x y. rewrite push_cf, push_fget by assumption. rewrite (p_cf _ _ _ P). lia.
  - intros x y. rewrite !push_fget by assumption. rewrite (p_skew _ _ _ P x y), (delta_skew u v c x y Hne). lia.
  - intros x y. rewrite push_cf by assumption. pose proof (p_nn _ _ _ P x y). unfold delta.
    destruct ((x =? u) && (y =? v)) eqn:E1.
    + apply andb_true_iff in E1. destruct E1 as [Ex Ey]. apply Z.eqb_eq in Ex, Ey. subst. lia.
    + destruct ((x =? v) && (y =? u)); lia.
Qed.

Lemma augment_spec G V c : NoDup V -> 0 <= c -> forall path Gf fl,
  PInv G Gf fl -> keys G = V -> chain Gf c path -> NoDup (tl path) -> path <> [] ->
  let st' := augment path c (Gf, fl) in
  PInv G (fst st') (snd st') /\
  (forall x, targets (fst st') x = targets Gf x) /\
  forall x, excess V (snd st') x = excess V fl x + (if x =? hdZ path then c else 0) - (if x =? lastZ path then c else 0).
Proof.
  intros HV Hc. induction path as [|u rest IH]; intros Gf fl P HK Hch Hnd Hne; [congruence|].
  destruct rest as [|v rest'].
  - simpl. split; [exact P|]. split; [reflexivity|]. intros x. unfold hdZ, lastZ. simpl. lia.
  - simpl in Hch. destruct Hch as [Huv [Hle Hch]].
    pose proof (p_wf _ _ _ P) as Hwf. destruct (push_facts Gf u v Hwf Huv) as [Hu [Hv [Hvu _]]].
    change (augment (u :: v :: rest') c (Gf, fl)) with (augment (v :: rest') c (push (Gf, fl) u v c)).
    destruct (push (Gf, fl) u v c) as [Gf1 fl1] eqn:Ep.
    assert (P1 : PInv G Gf1 fl1).
    { pose proof (push_PInv G Gf fl u v c P Huv Hc Hle) as H. rewrite Ep in H. exact H. }
    assert (Ht1 : forall x, targets Gf1 x = targets Gf x).
    { intros x. pose proof (push_targets Gf fl u v c Hwf Huv x) as H. rewrite Ep in H. exact H. }
    assert (Hch1 : chain Gf1 c (v :: rest')).
    { apply (chain_mono Gf Gf1 c (v :: rest')); [exact Ht1| |exact Hch].
      intros x y Hy. pose proof (push_cf Gf fl u v c Hwf Huv x y) as H. rewrite Ep in H. simpl in H. rewrite H.
      unfold delta. destruct ((x =? u) && (y =? v)) eqn:E1.
      + apply andb_true_iff in E1. destruct E1 as [_ Ey]. apply Z.eqb_eq in Ey. subst y.
        simpl in Hnd, Hy. inversion Hnd; subst. contradiction.
      + destruct ((x =? v) && (y =? u)); lia. }
    simpl in Hnd. assert (Hnd1 : NoDup (tl (v :: rest'))) by (simpl; inversion Hnd; assumption).
    destruct (IH Gf1 fl1 P1 HK Hch1 Hnd1 ltac:(discriminate)) as [P2 [Ht2 Hex]].
    split; [exact P2|]. split; [intros x; rewrite Ht2; apply Ht1|]. intros x. rewrite Hex.
    assert (Hfl1 : forall y, fget fl1 (x, y) = fget fl (x, y) + delta u v c x y).
    { intros y. pose proof (push_fget Gf fl u v c Hwf Huv x y) as H. rewrite Ep in H. exact H. }
    unfold excess. rewrite (sumZ_ext _ _ V (fun y _ => Hfl1 y)). rewrite sumZ_add.
    rewrite (p_keys _ _ _ P), HK in Hu, Hv.
    rewrite (sumZ_delta V u v c x HV Hu Hv Hvu).
    unfold hdZ, lastZ. simpl hd. change (last (u :: v :: rest') 0) with (last (v :: rest') 0). lia.
Qed.

(* ---------- DFS: what a failing call guarantees (ported from the first spike) ---------- *)
Definition pos (G : graph) (u v : Z) : Prop := exists c, In (v, c) (lookup G u) /\ c > 0.
Definition bcap (b : option (list Z * Z)) : Z := match b with Some (_, x) => x | None => 0 end.



(* What a failing call guarantees: nothing was un-marked, everything newly marked (and cur) has all
   positive successors marked, and the sink was not marked. *)
Definition fail_post (G : graph) (sink cur : Z) (vis vis' : list Z) : Prop :=
  incl vis vis' /\ cur <> sink /\
  (forall v, pos G cur v -> In v vis') /\
  (forall u, In u vis' -> ~ In u vis -> u <> sink /\ forall v, pos G u v -> In v vis').

(* success: positive capacity *)
Definition succ_post (b : option (list Z * Z)) : Prop := match b with Some (_, c) => c > 0 | None => True end.

Section Loop.
Variables (G : graph) (sink : Z) (rec : Z -> list Z -> dres).
Hypothesis rec_fail : forall v vis vis', rec v vis = Some (vis', None) -> fail_post G sink v vis vis'.
Hypothesis rec_succ : forall v vis vis' b, rec v vis = Some (vis', Some b) -> snd b > 0.

Lemma loop_best_pos cur cands : forall vis best vis' best',
  dfs_loop rec cur cands vis best = Some (vis', best') -> succ_post best -> succ_post best'.
Proof.
  induction cands as [|[v c] r IH]; intros vis best vis' best' H Hb; simpl in H.
  - injection H as <- <-. exact Hb.
  - destruct (memZ v vis); [eapply IH; eauto|].
    destruct (c >? 0) eqn:Ec; [|eapply IH; eauto].
    destruct (rec v (v :: vis)) as [[vis1 [[path cap]|]]|] eqn:Er; [| |discriminate].
    + destruct (Z.min cap c >? bcap best) eqn:Em; unfold bcap in Em; rewrite Em in H.
      * eapply IH; [exact H|]. simpl. pose proof (rec_succ _ _ _ _ Er). simpl in *. lia.
      * eapply IH; eauto.
    + eapply IH; eauto.
Qed.


Lemma loop_best_some cur cands : forall vis b vis' best',
  dfs_loop rec cur cands vis (Some b) = Some (vis', best') -> best' <> None.
Proof.
  induction cands as [|[v c] r IH]; intros vis b vis' best' H; simpl in H.
  - injection H as <- <-. discriminate.
  - destruct (memZ v vis); [eapply IH; eauto|].
    destruct (c >? 0); [|eapply IH; eauto].
    destruct (rec v (v :: vis)) as [[vis1 [[path cap]|]]|]; [| |discriminate].
    + destruct b as [bp bc]. destruct (Z.min cap c >? bc); eapply IH; eauto.
    + eapply IH; eauto.
Qed.

(* if the loop ends with no best path and started with none, every sub-call failed *)
Lemma loop_fail cur cands : forall vis vis',
  dfs_loop rec cur cands vis None = Some (vis', None) ->
  incl vis vis' /\
  (forall v c, In (v, c) cands -> c > 0 -> In v vis') /\
  (forall u, In u vis' -> ~ In u vis -> u <> sink /\ forall v, pos G u v -> In v vis').
Proof.
  induction cands as [|[v c] r IH]; intros vis vis' H; simpl in H.
  - injection H as <-. repeat split; [apply incl_refl | intros ? ? [] | intros; contradiction | intros; contradiction].
  - destruct (memZ v vis) eqn:Em.
    + destruct (IH _ _ H) as [A [B C]]. split; [exact A|split; [|exact C]].
      intros v0 c0 [E|Hin] Hc; [injection E as <- <-; apply A; apply memZ_In; exact Em|eapply B; eauto].
    + destruct (c >? 0) eqn:Ec.
      * destruct (rec v (v :: vis)) as [[vis1 [[path cap]|]]|] eqn:Er; [| |discriminate].
        { exfalso. pose proof (rec_succ _ _ _ _ Er) as Hp. simpl in Hp.
          assert (Hm : Z.min cap c >? 0 = true) by (apply Z.gtb_lt; apply Z.gtb_lt in Ec; lia).
          rewrite Hm in H.
          apply loop_best_some in H. congruence. }
        destruct (rec_fail _ _ _ Er) as [A1 [N1 [S1 C1]]].
        destruct (IH _ _ H) as [A [B C]].
        assert (Hv : In v vis1) by (apply A1; now left).
        split; [|split].
        -- intros x Hx. apply A, A1. now right.
        -- intros v0 c0 [E|Hin] Hc; [injection E as <- <-; apply A; exact Hv|eapply B; eauto].
        -- intros u Hu Hnu. destruct (in_dec Z.eq_dec u vis1) as [Hu1|Hu1]; [|apply C; assumption].
           assert (Hnv : u <> v -> ~ In u (v :: vis)) by (intros Huv [E|E]; [congruence|contradiction]).
           destruct (Z.eq_dec u v) as [->|Huv].
           ++ split; [exact N1|]. intros v0 Hv0. apply A, S1; exact Hv0.
           ++ destruct (C1 u Hu1 (Hnv Huv)) as [N2 S2]. split; [exact N2|]. intros v0 Hv0. apply A, S2; exact Hv0.
      * destruct (IH _ _ H) as [A [B C]]. split; [exact A|split; [|exact C]].
        intros v0 c0 [E|Hin] Hc; [|eapply B; eauto].
        injection E as <- <-. exfalso. destruct (Z.gtb_spec c 0); [discriminate|lia].
Qed.
End Loop.

Theorem dfs_posts fuel G sink : forall cur vis vis' r,
  dfs fuel G sink cur vis = Some (vis', r) ->
  match r with None => fail_post G sink cur vis vis' | Some b => snd b > 0 end.
Proof.
  induction fuel as [|f IH]; intros cur vis vis' r H; simpl in H; [discriminate|].
  destruct (cur =? sink) eqn:Es.
  - injection H as <- <-. simpl. unfold maxsize. lia.
  - apply Z.eqb_neq in Es.
    assert (RF : forall v vis vis', dfs f G sink v vis = Some (vis', None) -> fail_post G sink v vis vis')
      by (intros v0 vs vs' E; exact (IH _ _ _ _ E)).
    assert (RS : forall v vis vis' b, dfs f G sink v vis = Some (vis', Some b) -> snd b > 0)
      by (intros v0 vs vs' b E; exact (IH _ _ _ _ E)).
    destruct (dfs_loop (dfs f G sink) cur (lookup G cur) vis None) as [[vis1 [b|]]|] eqn:El; [| |discriminate].
    + injection H as <- <-. apply (loop_best_pos (dfs f G sink) RS) in El; [|exact I]. destruct b; exact El.
    + injection H as <- <-. destruct (loop_fail G sink (dfs f G sink) RF RS _ _ _ _ El) as [A [B C]].
      split; [exact A|split; [exact Es|split; [|exact C]]].
      intros v [c [Hin Hc]]. eapply B; eauto.
Qed.

(* ---------- DFS: what a successful call returns ---------- *)
Lemma removeZ_in x y l : y <> x -> In y l -> In y (removeZ x l).
Proof.
  intros Hne. induction l as [|z t IH]; simpl; [tauto|]. intros [->|H].
  - destruct (x =? y) eqn:E; [apply Z.eqb_eq in E; congruence|now left].
  - destruct (x =? z); [auto|right; auto].
Qed.
Lemma aget_in a v c : NoDup (map fst a) -> In (v, c) a -> aget a v = c.
Proof.
  induction a as [|[x d] r IH]; simpl; [tauto|]. intros Hnd [E|H].
  - injection E as -> ->. rewrite Z.eqb_refl. reflexivity.
  - inversion Hnd; subst. destruct (x =? v) eqn:E.
    + apply Z.eqb_eq in E. subst x. exfalso. apply H2. apply (in_map fst) in H. exact H.
    + apply IH; assumption.
Qed.
Lemma chain_weaken G c c' path : c' <= c -> chain G c path -> chain G c' path.
Proof.
  intros Hle. induction path as [|u rest IH]; [tauto|]. destruct rest as [|v rest']; [tauto|].
  simpl. intros [A [B C]]. split; [exact A|]. split; [lia|]. apply IH. exact C.
Qed.

Definition good_path (G : graph) (sink cur : Z) (vis : list Z) (b : list Z * Z) : Prop :=
  exists tail, fst b = cur :: tail /\ lastZ (fst b) = sink /\ NoDup tail /\
               (forall x, In x tail -> ~ In x vis) /\ chain G (snd b) (fst b) /\ snd b > 0.
Definition mono (cur : Z) (vis vis' : list Z) : Prop := forall x, x <> cur -> In x vis -> In x vis'.

Section LoopS.
Variables (G : graph) (sink : Z) (rec : Z -> list Z -> dres).
Hypothesis HnT : nodupT G.
Hypothesis rec_mono : forall v vs vs' r, rec v vs = Some (vs', r) -> mono v vs vs'.
Hypothesis rec_good : forall v vs vs' b, rec v vs = Some (vs', Some b) -> good_path G sink v vs b.

Lemma loop_succ cur vis0 cands : forall vis best vis' best',
  dfs_loop rec cur cands vis best = Some (vis', best') ->
  incl cands (lookup G cur) -> incl vis0 vis ->
  (match best with Some b => good_path G sink cur vis0 b | None => True end) ->
  incl vis0 vis' /\ (match best' with Some b => good_path G sink cur vis0 b | None => True end).
Proof.
  induction cands as [|[v c] r IH]; intros vis best vis' best' H Hsub Hinc Hb; simpl in H.
  - injection H as <- <-. auto.
  - assert (Hsub' : incl r (lookup G cur)) by (intros x Hx; apply Hsub; now right).
    destruct (memZ v vis) eqn:Em; [eapply IH; eauto|].
    destruct (c >? 0) eqn:Ec; [|eapply IH; eauto].
    destruct (rec v (v :: vis)) as [[vis1 [[path cap]|]]|] eqn:Er; [| |discriminate].
    + assert (Hinc1 : incl vis0 vis1).
      { intros x Hx. apply (rec_mono _ _ _ _ Er); [|right; apply Hinc; exact Hx].
        intros ->. apply Hinc in Hx. apply memZ_In in Hx. congruence. }
      destruct (Z.min cap c >? match best with Some (_, b) => b | None => 0 end) eqn:Eb.
      * eapply IH; [exact H|exact Hsub'|exact Hinc1|].
        destruct (rec_good _ _ _ _ Er) as [tl [Hp [Hl [Hnd [Hfresh [Hch Hpos]]]]]]. cbn [fst snd] in *. subst path.
        exists (v :: tl). cbn [fst snd]. split; [reflexivity|]. split; [exact Hl|]. split.
        { constructor; [|exact Hnd]. intros Hv. apply (Hfresh v Hv). now left. }
        split.
        { intros x [<-|Hx] Hin; [apply Hinc in Hin; apply memZ_In in Hin; congruence|].
          apply (Hfresh x Hx). right. apply Hinc. exact Hin. }
        split.
        { assert (Hvc : In (v, c) (lookup G cur)) by (apply Hsub; now left).
          change (In v (targets G cur) /\ Z.min cap c <= cf G cur v /\ chain G (Z.min cap c) (v :: tl)).
          split; [unfold targets; apply (in_map fst) in Hvc; exact Hvc|]. split.
          - unfold cf. rewrite (aget_in _ v c (HnT cur) Hvc). lia.
          - apply (chain_weaken G cap); [lia|exact Hch]. }
        apply Z.gtb_lt in Ec. lia.
      * eapply IH; eauto.
    + assert (Hinc1 : incl vis0 vis1).
      { intros x Hx. apply (rec_mono _ _ _ _ Er); [|right; apply Hinc; exact Hx].
        intros ->. apply Hinc in Hx. apply memZ_In in Hx. congruence. }
      eapply IH; eauto.
Qed.
End LoopS.

Theorem dfs_succ fuel G sink : nodupT G -> forall cur vis vis' r,
  dfs fuel G sink cur vis = Some (vis', r) ->
  mono cur vis vis' /\ match r with Some b => good_path G sink cur vis b | None => True end.
Proof.
  intros HnT. induction fuel as [|f IH]; intros cur vis vis' r H; simpl in H; [discriminate|].
  destruct (cur =? sink) eqn:Es.
  - apply Z.eqb_eq in Es. injection H as <- <-. split.
    + intros x Hne Hx. apply removeZ_in; [exact Hne|exact Hx].
    + exists []. cbn [fst snd]. split; [reflexivity|]. split; [unfold lastZ; simpl; exact Es|].
      split; [constructor|]. split; [intros x []|]. split; [exact I|unfold maxsize; lia].
  - assert (RM : forall v vs vs' r, dfs f G sink v vs = Some (vs', r) -> mono v vs vs') by (intros v vs vs' r0 E; apply (IH _ _ _ _ E)).
    assert (RG : forall v vs vs' b, dfs f G sink v vs = Some (vs', Some b) -> good_path G sink v vs b) by (intros v vs vs' b E; apply (IH _ _ _ _ E)).
    destruct (dfs_loop (dfs f G sink) cur (lookup G cur) vis None) as [[vis1 [b|]]|] eqn:El; [| |discriminate].
    + injection H as <- <-.
      destruct (loop_succ G sink (dfs f G sink) HnT RM RG cur vis _ _ _ _ _ El (incl_refl _) (incl_refl _) I) as [Hinc Hb].
      split; [|exact Hb]. intros x Hne Hx. apply removeZ_in; [exact Hne|apply Hinc; exact Hx].
    + injection H as <- <-.
      destruct (loop_succ G sink (dfs f G sink) HnT RM RG cur vis _ _ _ _ _ El (incl_refl _) (incl_refl _) I) as [Hinc _].
      split; [|exact I]. intros x _ Hx. apply Hinc; exact Hx.
Qed.

(* ---------- flows across cuts (generic, over functions) ---------- *)
Lemma sumZ_swap (f : Z -> Z -> Z) A B : sumZ (fun u => sumZ (fun v => f u v) B) A = sumZ (fun v => sumZ (fun u => f u v) A) B.
Proof.
  induction A as [|a t IH]; simpl.
  - symmetry. apply sumZ_zero.
  - rewrite IH. rewrite <- sumZ_add. reflexivity.
Qed.
Lemma sumZ_filter_split (f : Z -> Z) (p : Z -> bool) l :
  sumZ f l = sumZ f (filter p l) + sumZ f (filter (fun x => negb (p x)) l).
Proof. induction l as [|a t IH]; simpl; [reflexivity|]. destruct (p a); simpl; lia. Qed.
Lemma sumZ_le f g l : (forall x, In x l -> f x <= g x) -> sumZ f l <= sumZ g l.
Proof. induction l as [|a t IH]; simpl; intros H; [lia|]. specialize (H a (or_introl eq_refl)) as Ha. assert (sumZ f t <= sumZ g t) by (apply IH; intros; apply H; now right). lia. Qed.
Lemma sumZ_single f l a : NoDup l -> In a l -> (forall x, In x l -> x <> a -> f x = 0) -> sumZ f l = f a.
Proof.
  induction 1 as [|x t Hn Hnd IH]; intros Hin Hz; [destruct Hin|]. simpl. destruct Hin as [->|Hin].
  - rewrite (sumZ_ext f (fun _ => 0) t); [rewrite sumZ_zero; lia|]. intros y Hy. apply Hz; [now right|intros ->; contradiction].
  - rewrite (Hz x); [|now left|intros ->; contradiction]. rewrite IH; [lia|exact Hin|]. intros y Hy Hne. apply Hz; [now right|exact Hne].
Qed.

Section Cut.
Variables (V : list Z) (s t : Z) (phi : Z -> Z -> Z) (inR : Z -> bool).
Hypothesis HV : NoDup V.
Hypothesis Hs : In s V.
Hypothesis HsR : inR s = true.
Hypothesis HtR : inR t = false.
Hypothesis Hskew : forall x y, phi x y = - phi y x.
Hypothesis Hcons : forall x, In x V -> x <> s -> x <> t -> sumZ (phi x) V = 0.
Let A := filter inR V.
Let B := filter (fun x => negb (inR x)) V.

Lemma inner_zero : sumZ (fun u => sumZ (phi u) A) A = 0.
Proof.
  assert (H1 : sumZ (fun u => sumZ (phi u) A) A = - sumZ (fun u => sumZ (fun v => phi v u) A) A).
  { rewrite <- sumZ_opp. apply sumZ_ext; intros u _. rewrite <- sumZ_opp. apply sumZ_ext; intros v _. apply Hskew. }
  assert (H2 : sumZ (fun u => sumZ (fun v => phi v u) A) A = sumZ (fun u => sumZ (phi u) A) A).
  { rewrite (sumZ_swap (fun u v => phi v u) A A). reflexivity. }
  lia.
Qed.
Lemma value_across : sumZ (phi s) V = sumZ (fun u => sumZ (phi u) B) A.
Proof.
  assert (E1 : sumZ (fun u => sumZ (phi u) V) A = sumZ (phi s) V).
  { apply (sumZ_single (fun u => sumZ (phi u) V) A s).
    - apply NoDup_filter. exact HV.
    - apply filter_In. auto.
    - intros x Hx Hne. apply filter_In in Hx. destruct Hx as [HxV HxR]. apply Hcons; [exact HxV|exact Hne|]. intros ->. congruence. }
  rewrite <- E1.
  rewrite (sumZ_ext (fun u => sumZ (phi u) V) (fun u => sumZ (phi u) A + sumZ (phi u) B) A).
  2:{ intros u _. apply (sumZ_filter_split (phi u) inR V). }
  rewrite sumZ_add. pose proof inner_zero as Hz. lia.
Qed.
Lemma weak_duality (c : Z -> Z -> Z) : (forall x y, phi x y <= c x y) ->
  sumZ (phi s) V <= sumZ (fun u => sumZ (c u) B) A.
Proof. intros Hc. rewrite value_across. apply sumZ_le. intros u _. apply sumZ_le. intros v _. apply Hc. Qed.
Lemma strong_on_saturated (c : Z -> Z -> Z) : (forall x y, inR x = true -> inR y = false -> phi x y = c x y) ->
  sumZ (phi s) V = sumZ (fun u => sumZ (c u) B) A.
Proof.
  intros Hc. rewrite value_across. apply sumZ_ext. intros u Hu. apply sumZ_ext. intros v Hv.
  apply filter_In in Hu, Hv. destruct Hu as [_ Hu]. destruct Hv as [_ Hv]. apply Hc; [exact Hu|]. apply negb_true_iff. exact Hv.
Qed.
End Cut.

(* ---------- the main loop ---------- *)
Record FInv (G : graph) (s t : Z) (Gf : graph) (fl : flowmap) : Prop := {
  f_p : PInv G Gf fl;
  f_nt : nodupT Gf;
  f_cons : forall x, In x (keys G) -> x <> s -> x <> t -> excess (keys G) fl x = 0
}.
Definition value (G : graph) (fl : flowmap) (s : Z) : Z := excess (keys G) fl s.

Lemma ff_loop_inv G s t : NoDup (keys G) -> s <> t -> forall fuel Gf fl Gf' fl',
  FInv G s t Gf fl -> ff_loop fuel (Gf, fl) s t = Some (Gf', fl') ->
  FInv G s t Gf' fl' /\ value G fl s <= value G fl' s /\
  exists vis', dfs (length Gf' + 2) Gf' t s [s] = Some (vis', None).
Proof.
  intros HV Hst. induction fuel as [|f IH]; intros Gf fl Gf' fl' F H; simpl in H; [discriminate|].
  destruct (dfs (length Gf + 2) Gf t s [s]) as [[vis' [[path c]|]]|] eqn:Ed; [| |discriminate].
  - destruct (dfs_succ _ Gf t (f_nt _ _ _ _ _ F) s [s] vis' _ Ed) as [_ [tail [Hp [Hl [Hnd [_ [Hch Hpos]]]]]]].
    cbn [fst snd] in *. subst path.
    destruct (augment_spec G (keys G) c HV ltac:(lia) (s :: tail) Gf fl (f_p _ _ _ _ _ F) eq_refl Hch Hnd ltac:(discriminate)) as [P2 [Ht2 Hex]].
    destruct (augment (s :: tail) c (Gf, fl)) as [Gf1 fl1] eqn:Ea. cbn [fst snd] in *.
    assert (F1 : FInv G s t Gf1 fl1).
    { constructor; [exact P2| |].
      - intros x. rewrite Ht2. apply (f_nt _ _ _ _ _ F).
      - intros x Hx Hs Ht. rewrite Hex. unfold hdZ. simpl hd. rewrite Hl.
        assert (E1 : (x =? s) = false) by (apply Z.eqb_neq; exact Hs).
        assert (E2 : (x =? t) = false) by (apply Z.eqb_neq; exact Ht).
        rewrite E1, E2. rewrite (f_cons _ _ _ _ _ F x Hx Hs Ht). lia. }
    destruct (IH Gf1 fl1 Gf' fl' F1 H) as [F2 [Hv Hd]]. split; [exact F2|]. split; [|exact Hd].
    unfold value in *. rewrite Hex in Hv. unfold hdZ in Hv. simpl hd in Hv. rewrite Hl in Hv. rewrite Z.eqb_refl in Hv.
    assert (E : (s =? t) = false) by (apply Z.eqb_neq; exact Hst). rewrite E in Hv. lia.
  - injection H as <- <-. split; [exact F|]. split; [lia|]. exists vis'. exact Ed.
Qed.

(* ---------- max-flow = min-cut for any closed cut of the final residual graph ---------- *)
Definition cutcap (c : Z -> Z -> Z) (V : list Z) (inR : Z -> bool) : Z :=
  sumZ (fun u => sumZ (c u) (filter (fun x => negb (inR x)) V)) (filter inR V).
Definition feasible (G : graph) (s t : Z) (g : Z -> Z -> Z) : Prop :=
  (forall x y, g x y = - g y x) /\ (forall x y, g x y <= cf G x y) /\
  (forall x, In x (keys G) -> x <> s -> x <> t -> sumZ (g x) (keys G) = 0).

Theorem maxflow_mincut G s t Gf fl (inR : Z -> bool) :
  NoDup (keys G) -> In s (keys G) -> FInv G s t Gf fl ->
  inR s = true -> inR t = false ->
  (forall x y, inR x = true -> 0 < cf Gf x y -> inR y = true) ->
  value G fl s = cutcap (cf G) (keys G) inR /\
  forall g, feasible G s t g -> sumZ (g s) (keys G) <= value G fl s.
Proof.
  intros HV Hs F HsR HtR Hcl.
  pose proof (f_p _ _ _ _ _ F) as P.
  assert (Hval : value G fl s = cutcap (cf G) (keys G) inR).
  { unfold value, excess, cutcap.
    apply (strong_on_saturated (keys G) s t (fun x y => fget fl (x, y)) inR HV Hs HsR HtR).
    - intros x y. apply (p_skew _ _ _ P).
    - intros x Hx H1 H2. apply (f_cons _ _ _ _ _ F x Hx H1 H2).
    - intros x y Hx Hy. pose proof (p_cf _ _ _ P x y) as E. pose proof (p_nn _ _ _ P x y) as Hnn.
      destruct (Z_lt_le_dec 0 (cf Gf x y)) as [Hlt|Hle]; [rewrite (Hcl x y Hx Hlt) in Hy; discriminate|]. lia. }
  split; [exact Hval|]. intros g [Gs [Gc Gk]]. rewrite Hval. unfold cutcap.
  apply (weak_duality (keys G) s t g inR HV Hs HsR HtR Gs Gk (cf G) Gc).
Qed.

(* the marked set of the final, failing search is such a cut *)
Lemma cf_pos_pos G x y : nodupT G -> 0 < cf G x y -> pos G x y.
Proof.
  intros HnT H. unfold cf in H. exists (cf G x y). split; [|unfold cf; lia].
  unfold cf. assert (Hin : In y (map fst (lookup G x))).
  { destruct (in_dec Z.eq_dec y (map fst (lookup G x))) as [Hi|Hn]; [exact Hi|]. rewrite aget_notin in H by exact Hn. lia. }
  apply in_map_iff in Hin. destruct Hin as [[y' c] [E Hin]]. simpl in E. subst y'.
  rewrite (aget_in _ y c (HnT x) Hin). exact Hin.
Qed.

Theorem final_dfs_cut G s t Gf fl vis' fuel :
  NoDup (keys G) -> In s (keys G) -> FInv G s t Gf fl ->
  dfs fuel Gf t s [s] = Some (vis', None) ->
  let inR := fun x => memZ x (s :: vis') in
  inR s = true /\ inR t = false /\
  value G fl s = cutcap (cf G) (keys G) inR /\
  forall g, feasible G s t g -> sumZ (g s) (keys G) <= value G fl s.
Proof.
  intros HV Hs F Hd inR.
  pose proof (dfs_posts fuel Gf t s [s] vis' None Hd) as [_ [Hst [Hsucc Hcl]]].
  assert (HsR : inR s = true) by (unfold inR; apply memZ_In; now left).
  assert (HtR : inR t = false).
  { unfold inR. destruct (memZ t (s :: vis')) eqn:E; [|reflexivity]. apply memZ_In in E. destruct E as [E|E]; [congruence|].
    destruct (Hcl t E (fun H => match H with or_introl e => Hst e | or_intror f => f end)) as [Hne _]. congruence. }
  split; [exact HsR|]. split; [exact HtR|].
  apply (maxflow_mincut G s t Gf fl inR HV Hs F HsR HtR).
  intros x y Hx Hpos. unfold inR in *. apply memZ_In. apply memZ_In in Hx. right.
  pose proof (cf_pos_pos Gf x y (f_nt _ _ _ _ _ F) Hpos) as Hp.
  destruct Hx as [<-|Hx]; [apply Hsucc; exact Hp|].
  destruct (Z.eq_dec s x) as [<-|Hne]; [apply Hsucc; exact Hp|].
  destruct (Hcl x Hx (fun H => match H with or_introl e => Hne e | or_intror f => f end)) as [_ Hs']. apply Hs'. exact Hp.
Qed.
Print Assumptions final_dfs_cut.
