From Coq Require Import ZArith QArith List Bool Lia Lqa Permutation Sorted.
Import ListNotations.
Require Import Voting.
Local Open Scope Q_scope.

Fixpoint sumL (l : list Q) : Q := match l with [] => 0 | x :: t => x + sumL t end.
Lemma sumL_perm l l' : Permutation l l' -> sumL l == sumL l'.
Proof. induction 1; simpl; try lra. Qed.

Lemma vaddQ_length a b : length a = length b -> length (vaddQ a b) = length a.
Proof. revert b; induction a as [|x t IH]; intros [|y u] H; cbn [vaddQ length] in *; try lia. f_equal. apply IH. lia. Qed.
Lemma vaddQ_nth a b j : length a = length b -> (j < length a)%nat -> nth j (vaddQ a b) 0 == nth j a 0 + nth j b 0.
Proof.
  revert b j; induction a as [|x t IH]; intros [|y u] j H Hj; cbn [vaddQ nth length] in *; try lia.
  destruct j; [apply Qred_correct|]. apply IH; lia.
Qed.

(* C10: the j-th score is the sum over voters of the weight of that voter's rank of j *)
Theorem score_is_sum r k (P : list (list Z)) (m : nat) :
  (forall row, In row P -> length row = m) -> length (nth 0 P []) = m ->
  forall j, (j < m)%nat ->
  nth j (score r k P) 0 == sumL (map (fun row => weight r (Z.of_nat m) k (nth j row 0%Z)) P).
Proof.
  intros Hlen Hm j Hj. unfold score. rewrite Hm. rewrite Nat2Z.id.
  set (w := weight r (Z.of_nat m) k).
  assert (H : forall rows acc, (forall row, In row rows -> length row = m) -> length acc = m ->
             length (fold_left (fun acc row => vaddQ acc (map w row)) rows acc) = m /\
             nth j (fold_left (fun acc row => vaddQ acc (map w row)) rows acc) 0 == nth j acc 0 + sumL (map (fun row => w (nth j row 0%Z)) rows)).
  { induction rows as [|row t IH]; intros acc Hr Ha; simpl; [split; [exact Ha|lra]|].
    assert (Hrow : length row = m) by (apply Hr; now left).
    assert (Hl : length (vaddQ acc (map w row)) = m) by (rewrite vaddQ_length; [exact Ha|rewrite map_length; congruence]).
    destruct (IH (vaddQ acc (map w row)) (fun x Hx => Hr x (or_intror Hx)) Hl) as [A B]. split; [exact A|].
    rewrite B. rewrite vaddQ_nth by (rewrite ?map_length; congruence || lia).
    rewrite (nth_indep (map w row) 0 (w 0%Z)) by (rewrite map_length; lia). rewrite (map_nth w row 0%Z j). lra. }
  destruct (H P (repeat 0 m) Hlen (repeat_length _ _)) as [_ B]. rewrite B.
  assert (E : nth j (repeat 0 m) 0 = 0) by (clear; revert j; induction m; intros [|j]; simpl; auto). rewrite E. lra.
Qed.

(* C11: anonymity is an immediate corollary (the statement of score_is_sum does not mention the order of P) *)
Corollary score_anonymous r k P P' m : Permutation P P' ->
  (forall row, In row P -> length row = m) -> length (nth 0 P []) = m -> length (nth 0 P' []) = m ->
  forall j, (j < m)%nat -> nth j (score r k P) 0 == nth j (score r k P') 0.
Proof.
  intros Hp Hlen Hm Hm' j Hj.
  assert (Hlen' : forall row, In row P' -> length row = m) by (intros row H; apply Hlen; eapply Permutation_in; [symmetry; exact Hp|exact H]).
  rewrite (score_is_sum r k P m Hlen Hm j Hj), (score_is_sum r k P' m Hlen' Hm' j Hj).
  apply sumL_perm. apply Permutation_map. exact Hp.
Qed.

(* C11: two alternatives whose columns carry the same ranks (in any voter order) tie; neutrality is the same fact *)
Corollary equal_columns_tie r k P m j j' : (forall row, In row P -> length row = m) -> length (nth 0 P []) = m ->
  (j < m)%nat -> (j' < m)%nat -> Permutation (map (fun row => nth j row 0%Z) P) (map (fun row => nth j' row 0%Z) P) ->
  nth j (score r k P) 0 == nth j' (score r k P) 0.
Proof.
  intros Hlen Hm Hj Hj' Hp. rewrite (score_is_sum r k P m Hlen Hm j Hj), (score_is_sum r k P m Hlen Hm j' Hj').
  rewrite <- (map_map (fun row => nth j row 0%Z) (weight r (Z.of_nat m) k) P).
  rewrite <- (map_map (fun row => nth j' row 0%Z) (weight r (Z.of_nat m) k) P).
  apply sumL_perm, Permutation_map, Hp.
Qed.
Print Assumptions score_is_sum.
Print Assumptions score_anonymous.
Print Assumptions equal_columns_tie.

(* ---------- winners: exactly the maximisers, in increasing order (C10, C13 'accept') ---------- *)
Lemma maxQ_spec l : forall d, (d <= maxQ l d) /\ (forall x, In x l -> x <= maxQ l d) /\ (maxQ l d == d \/ exists x, In x l /\ maxQ l d == x).
Proof.
  induction l as [|y t IH]; intros d; simpl; [split; [lra|split; [intros x []|left; reflexivity]]|].
  destruct (Qle_bool d y) eqn:E.
  - apply Qle_bool_iff in E. destruct (IH y) as [A [B C]]. split; [lra|]. split.
    + intros x [<-|Hx]; [exact A|apply B; exact Hx].
    + right. destruct C as [C|[x [Hx C]]]; [exists y; split; [now left|exact C]|exists x; split; [now right|exact C]].
  - assert (y < d) by (apply Qnot_le_lt; intros Hle; apply Qle_bool_iff in Hle; congruence).
    destruct (IH d) as [A [B C]]. split; [exact A|]. split.
    + intros x [<-|Hx]; [lra|apply B; exact Hx].
    + destruct C as [C|[x [Hx C]]]; [left; exact C|right; exists x; split; [now right|exact C]].
Qed.

Lemma in_combine_seq {A} (l : list A) v i s : In (v, i) (combine l (seq s (length l))) <-> (s <= i)%nat /\ nth_error l (i - s) = Some v.
Proof.
  revert s; induction l as [|x t IH]; intros s; simpl.
  - split; [intros []|intros [_ H]; destruct (i - s)%nat; discriminate].
  - rewrite IH. split.
    + intros [E|[Hle Hn]]; [injection E as -> ->; split; [lia|rewrite Nat.sub_diag; reflexivity]|].
      split; [lia|]. replace (i - s)%nat with (S (i - S s)) by lia. exact Hn.
    + intros [Hle Hn]. destruct (Nat.eq_dec i s) as [->|Hne].
      * rewrite Nat.sub_diag in Hn. simpl in Hn. injection Hn as ->. now left.
      * right. split; [lia|]. replace (i - s)%nat with (S (i - S s)) in Hn by lia. exact Hn.
Qed.

Theorem winners_spec s fixer z : In z (winners s fixer) <->
  exists j v, nth_error s j = Some v /\ z = (Z.of_nat j + fixer)%Z /\ forall v', In v' s -> v' <= v.
Proof.
  unfold winners. destruct s as [|x t]; [split; [intros []|intros [j [v [H _]]]; destruct j; discriminate]|].
  set (s := x :: t). destruct (maxQ_spec t x) as [A [B C]]. set (mx := maxQ t x) in *.
  assert (Hmax : forall v', In v' s -> v' <= mx) by (intros v' [<-|Hv]; [exact A|apply B; exact Hv]).
  rewrite in_map_iff. split.
  - intros [[v j] [Ez Hin]]. simpl in Ez. apply filter_In in Hin. destruct Hin as [Hc Heq]. simpl in Heq. apply Qeq_bool_iff in Heq.
    apply in_combine_seq in Hc. destruct Hc as [_ Hn]. rewrite Nat.sub_0_r in Hn.
    exists j, v. split; [exact Hn|]. split; [lia|]. intros v' Hv'. rewrite Heq. apply Hmax. exact Hv'.
  - intros [j [v [Hn [-> Hv]]]]. exists (v, j). split; [reflexivity|]. apply filter_In. split.
    + apply in_combine_seq. split; [lia|rewrite Nat.sub_0_r; exact Hn].
    + simpl. apply Qeq_bool_iff. assert (Hvs : In v s) by (eapply nth_error_In; exact Hn).
      assert (mx <= v) by (destruct C as [C|[y [Hy C]]]; [rewrite C; apply Hv; now left|rewrite C; apply Hv; now right]).
      pose proof (Hmax v Hvs). lra.
Qed.
Print Assumptions winners_spec.
